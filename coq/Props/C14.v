(* C14 -- Probed system description and derived machine model match the machine.
   This file holds the property theorems only; each is closed by `exact` of a lemma of Proofs/Probe.v or
   Proofs/ProbeMachine.v.  The model (Model/Probe.v) calls the bit-field / stride / slice expressions, the
   struct format strings, the enum members and the sark.struct field tables regenerated from /repo into
   Generated/GenProbe.v, so these theorems are re-checked against the current text of get_chip_info,
   get_p2p_routing_table, get_iobuf_bytes, get_router_diagnostics and against the live constants.
   The machine side (Spec/Probe.v) is written from the SC&MP / SARK documentation with every constant
   spelled out.

   Outside these theorems (other properties): the chunking / retransmission of the reads themselves
   (C07, C06).  Non-ASCII software names are outside the model (stated hypothesis `ascii_text`).

   Ranges, stated openly: width, height <= 255 (the 8-bit fields of sv->p2p_dims cannot hold 256); all 18 state
   bytes of an `info` reply are AppState values ([cs_valid]; what happens otherwise: the C14_bad_state_byte theorems);
   IOBUF blocks have length <= iobuf_size; version labels contain no newline; C14_core_reservations_exact needs
   at most 18 states per chip (true of every probed description, discharged in C14_probe_end_to_end; a hand-built
   SystemInfo with more states is outside it, build_core_constraints only tries cores 0..17 globally).
   Not covered by a theorem (model definition + correspondence run + oracle only): Machine.__iter__ ([pm_iter]),
   get_iobuf's UTF-8 decoding, the behaviour of a chip that is busy / flaky for a while (abstracted as
   `info : chip -> option reply`; retransmission is C06). *)
From Coq Require Import ZArith String List Bool.
Require Import Rig.Generated.GenProbe Rig.Model.Base Rig.Model.Probe Rig.Spec.Probe
               Rig.Proofs.Probe Rig.Proofs.ProbeMachine Rig.Proofs.ProbeLayout.
Import ListNotations.
Open Scope Z_scope.

(* The `info` reply: encoding a chip's state per the documented layout and decoding it with get_chip_info
   is the identity -- every field at its full width (5-bit core count, 6 link bits, 11-bit router block,
   Ethernet flag, 32-bit memory figures, 18 state bytes, 16-bit Ethernet chip, 4 address bytes), no field
   disturbing another. *)
Theorem C14_chip_info_roundtrip :
  forall cs, cs_valid cs -> decode_info (encode_info cs) = Ok (truth_info cs).
Proof. exact chip_info_roundtrip. Qed.

(* The P2P table: for every width, height <= 255 (what the 8-bit fields of sv->p2p_dims can hold) and every
   table content, reading the linear hardware table (eight 3-bit entries per word, entry of (x, y) =
   number 256 x + y) column by column returns exactly the entries of the width x height area. *)
Theorem C14_p2p_roundtrip :
  forall rd route w h,
    0 <= w < 256 -> 0 <= h < 256 -> routes_valid route -> reads_dims rd w h -> reads_p2p rd route ->
    p2p_table rd = Ok (p2p_truth route w h).
Proof. exact p2p_roundtrip. Qed.

(* get_system_info reports exactly the chips with a route and an answer, each with its true state, in
   the order of the table; width and height are one more than the largest routed coordinate. *)
Theorem C14_system_info_exact :
  forall rd route answers w h,
    0 <= w < 256 -> 0 <= h < 256 -> routes_valid route -> reads_dims rd w h -> reads_p2p rd route ->
    answers_valid answers -> (exists c, has_route route w h c) ->
    exists si, system_info rd (info_of_machine answers) = Ok si /\
      si_chips si = live_chips route answers w h /\
      (forall c, has_route route w h c -> fst c < si_width si /\ snd c < si_height si) /\
      (exists c, has_route route w h c /\ si_width si = fst c + 1) /\
      (exists c, has_route route w h c /\ si_height si = snd c + 1).
Proof. exact system_info_exact. Qed.

Theorem C14_reported_chips_exactly :
  forall route answers w h c ci,
    In (c, ci) (live_chips route answers w h) <->
    (has_route route w h c /\ exists cs, answers c = Some cs /\ ci = truth_info cs).
Proof. exact In_live_chips. Qed.

Theorem C14_reported_chips_distinct :
  forall route answers w h, NoDup (map fst (live_chips route answers w h)).
Proof. exact NoDup_live_chips. Qed.

(* build_machine: the Machine contains exactly the described chips, machine[c] is the chip's core count and
   free memory, a link is present iff it is among the chip's working links, dead_chips / dead_links are the
   complements. *)
Theorem C14_build_machine_exact :
  forall si, si_wf si ->
    let m := build_machine si in
    pm_width m = si_width si /\ pm_height m = si_height si /\
    (forall c, pm_has_chip m c = si_has si c) /\
    (forall c ci, si_get si c = Some ci ->
       pm_get m c = Ok (ci_cores ci, ci_free_sdram ci, ci_free_sram ci)) /\
    (forall c, si_has si c = false -> pm_get m c = OtherError) /\
    (forall c l, In l [0; 1; 2; 3; 4; 5] ->
       (pm_has_link m c l = true <-> exists ci, si_get si c = Some ci /\ In l (ci_links ci))) /\
    (forall c, In c (pm_dead_chips m) <-> (in_bounds (si_width si) (si_height si) c /\ si_has si c = false)) /\
    (forall c l, In (c, l) (pm_dead_links m) <->
       exists ci, si_get si c = Some ci /\ In l [0; 1; 2; 3; 4; 5] /\ ~ In l (ci_links ci)).
Proof. exact build_machine_exact_lit. Qed.

(* build_core_constraints: on every described chip the reservations that bind there (global ones and the
   chip's own) are non-empty ranges, no core lies in two of them, and their union is exactly the set of
   cores that are not idle. *)
Theorem C14_core_reservations_exact :
  forall si,
    NoDup (map fst (si_chips si)) ->
    (forall c ci, In (c, ci) (si_chips si) -> Z.of_nat (length (ci_states ci)) <= 18) ->
    forall c ci, si_get si c = Some ci ->
    let rs := ranges_on c (build_core_constraints si) in
    (forall r, In r rs -> 0 <= fst r < snd r) /\
    (forall p, (cover_count p rs <= 1)%nat) /\
    (forall p, (exists r, In r rs /\ fst r <= p < snd r) <-> core_busy ci p).
Proof. exact core_reservations_exact. Qed.

(* The whole chain, from the machine to the place-and-route model: nothing is ever placed on a dead or
   unresponsive chip, on a busy core or over a missing link. *)
Theorem C14_probe_end_to_end :
  forall rd route answers w h si,
    0 <= w < 256 -> 0 <= h < 256 -> routes_valid route -> reads_dims rd w h -> reads_p2p rd route ->
    answers_valid answers -> (exists c, has_route route w h c) ->
    system_info rd (info_of_machine answers) = Ok si ->
    model_matches_machine route answers w h si.
Proof. exact probe_end_to_end. Qed.

(* IOBUF: along an (acyclic, hence finite) chain of blocks the walk returns the concatenation of the
   `length`-prefixes of the blocks' buffers; one unit of fuel per block suffices, so the model's bound is
   no hidden restriction. *)
Theorem C14_iobuf_chain :
  forall rd size blocks a fuel,
    chain_at rd size a blocks -> (length blocks < fuel)%nat ->
    iobuf_walk fuel rd size a = Ok (chain_text blocks).
Proof. exact iobuf_chain. Qed.

Theorem C14_iobuf_bytes_chain :
  forall rd p size a blocks fuel,
    read_sv_int rd sv_iobuf_size = Ok size -> read_vcpu_int rd "iobuf" p = Ok a ->
    chain_at rd size a blocks -> (length blocks < fuel)%nat ->
    get_iobuf_bytes fuel rd p = Ok (chain_text blocks).
Proof. exact iobuf_bytes_chain. Qed.

(* ... and the acyclicity hypothesis is necessary: on a block that points to itself the loop never ends. *)
Theorem C14_iobuf_cycle_diverges :
  forall rd size a b,
    a <> 0 -> is_word a -> is_word (b_time b) -> is_word (b_ms b) -> is_word (b_length b) ->
    0 <= size -> Z.of_nat (length (b_payload b)) = size -> b_length b <= size ->
    rd a (size + 16) = block_bytes b a ->
    forall fuel, iobuf_walk fuel rd size a = OutOfFuel.
Proof. exact iobuf_cycle_diverges. Qed.

(* Router counters: the sixteen words at 0xe1000300 come back unchanged. *)
Theorem C14_router_counters_roundtrip :
  forall (rd : reader) ws,
    length ws = 16%nat -> Forall is_word ws ->
    rd 3774874368 64 = flat_map (le_encode 4) ws ->
    router_diagnostics rd = Ok ws.
Proof. exact router_counters_roundtrip. Qed.

(* Per-core status: every field of ProcessorStatus is the little-endian value found at its documented
   place in the core's 128-byte vcpu block (registers, psr/sp/lr, rt_code, phys_cpu, cpu_state, mailboxes,
   sw_count/file/line, time, the NUL-stripped application name, iobuf pointer, app id, the three version
   bytes of sw_ver, user0-3). *)
Theorem C14_status_slicing :
  forall (rd : reader) base p d,
    status_block_valid d ->
    read_sv_int rd sv_vcpu_base = Ok base ->
    rd (base + VCPU_SIZE * p) VCPU_SIZE = d ->
    processor_status rd p = Ok (status_truth d).
Proof. exact status_slicing. Qed.

Theorem C14_vcpu_base_read :
  forall rd base, is_word base ->
    rd (SV_BASE + SV_VCPU_BASE) 4 = le_encode 4 base -> read_sv_int rd sv_vcpu_base = Ok base.
Proof. exact read_vcpu_base_ok. Qed.

(* Software version, legacy encoding (arg2 >> 16 = 100 * major + minor) and semantic-version encoding
   (arg2 >> 16 = 0xffff, "major.minor.patch" and labels after the name's NUL): position, cpu numbers, buffer
   size, build date, name, the three numbers and the labels come back as sent, whatever the number [pad] of
   NUL bytes after the last string (none, the usual one, or padding). *)
Theorem C14_sver_legacy_roundtrip :
  forall x y pcpu vcpu major minor buf date name pad,
    sver_header_valid x y pcpu vcpu buf -> 0 <= major -> 0 <= minor < 100 -> 100 * major + minor < 65535 ->
    ascii_text name ->
    decode_sver (encode_sver_legacy x y pcpu vcpu major minor buf date name pad) =
    Ok (mkCO (x, y) pcpu vcpu (major, minor, 0) buf date name []).
Proof. exact sver_legacy_roundtrip. Qed.

Theorem C14_sver_semver_roundtrip :
  forall x y pcpu vcpu buf date name d1 d2 d3 labels pad,
    sver_header_valid x y pcpu vcpu buf -> ascii_text name -> digits d1 -> digits d2 -> digits d3 ->
    labels_ok labels ->
    decode_sver (encode_sver_semver x y pcpu vcpu buf date name d1 d2 d3 labels pad) =
    Ok (mkCO (x, y) pcpu vcpu (dec_value d1, dec_value d2, dec_value d3) buf date name labels).
Proof. exact sver_semver_roundtrip. Qed.

(* ---- the controller's `structs` argument: ANY struct layout ------------------------------------- *)
(* The probing functions resolve every field they read through the controller's own struct table.  With
   the layout as a parameter of the model ([p2p_table_L] ... ; the functions above are the instances at the
   packaged boot/sark.struct), whatever places the layout gives to sv.p2p_dims / vcpu_base / iobuf_size and
   to the fields of vcpu_t, probing reads exactly those bytes: a controller created for a machine laid out
   otherwise describes THAT machine, independently of any other controller (the result is a function of the
   controller's layout and of the machine it talks to, nothing else). *)
Theorem C14_packaged_layout_is_an_instance :
  (forall rd, p2p_table_L packaged_layout rd = p2p_table rd) /\
  (forall rd info, system_info_L packaged_layout rd info = system_info rd info) /\
  (forall fuel rd p, get_iobuf_bytes_L packaged_layout fuel rd p = get_iobuf_bytes fuel rd p) /\
  (forall rd p, processor_status_L packaged_layout rd p = processor_status rd p) /\
  vcpu_fields_at packaged_vcpu_offsets = vcpu_fields /\
  (forall d, status_truth_at packaged_vcpu_offsets d = status_truth d).
Proof.
  exact (conj p2p_table_packaged (conj system_info_packaged (conj get_iobuf_bytes_packaged
        (conj processor_status_packaged (conj packaged_vcpu_layout status_truth_packaged))))).
Qed.

Theorem C14_read_field_any_layout :
  forall rd base f v, field_holds rd base f v -> read_int_field rd base f = Ok v.
Proof. exact read_int_field_any. Qed.

Theorem C14_p2p_roundtrip_any_layout :
  forall L rd route w h,
    0 <= w < 256 -> 0 <= h < 256 -> routes_valid route ->
    field_holds rd (l_sv_base L) (l_p2p_dims L) (256 * w + h) -> reads_p2p rd route ->
    p2p_table_L L rd = Ok (p2p_truth route w h).
Proof. exact p2p_roundtrip_L. Qed.

Theorem C14_system_info_exact_any_layout :
  forall L rd route answers w h,
    0 <= w < 256 -> 0 <= h < 256 -> routes_valid route ->
    field_holds rd (l_sv_base L) (l_p2p_dims L) (256 * w + h) -> reads_p2p rd route ->
    answers_valid answers -> (exists c, has_route route w h c) ->
    exists si, system_info_L L rd (info_of_machine answers) = Ok si /\
      si_chips si = live_chips route answers w h /\
      (forall c, has_route route w h c -> fst c < si_width si /\ snd c < si_height si) /\
      (exists c, has_route route w h c /\ si_width si = fst c + 1) /\
      (exists c, has_route route w h c /\ si_height si = snd c + 1).
Proof. exact system_info_exact_L. Qed.

(* the deprecated one-call entry point get_machine = build_machine (get_system_info), under any layout *)
Theorem C14_get_machine_exact :
  forall L rd route answers w h,
    0 <= w < 256 -> 0 <= h < 256 -> routes_valid route ->
    field_holds rd (l_sv_base L) (l_p2p_dims L) (256 * w + h) -> reads_p2p rd route ->
    answers_valid answers -> (exists c, has_route route w h c) ->
    exists si, system_info_L L rd (info_of_machine answers) = Ok si /\
               get_machine_L L rd (info_of_machine answers) = Ok (build_machine si) /\
               model_matches_machine route answers w h si.
Proof. exact get_machine_exact_L. Qed.

Theorem C14_status_slicing_any_layout :
  forall L (rd : reader) base p d offs,
    l_vcpu_fields L = vcpu_fields_at offs ->
    status_block_valid_at offs (l_vcpu_size L) d ->
    read_sv_int_L L rd (l_vcpu_base L) = Ok base ->
    rd (base + l_vcpu_size L * p) (l_vcpu_size L) = d ->
    processor_status_L L rd p = Ok (status_truth_at offs d).
Proof. exact status_slicing_L. Qed.

Theorem C14_iobuf_bytes_chain_any_layout :
  forall L rd p size vb o a blocks fuel,
    field_holds rd (l_sv_base L) (l_iobuf_size L) size ->
    field_holds rd (l_sv_base L) (l_vcpu_base L) vb ->
    sassoc "iobuf" (l_vcpu_fields L) = Some ("I"%string, o, 1) ->
    is_word a -> rd (vb + l_vcpu_size L * p + o) 4 = le_encode 4 a ->
    chain_at rd size a blocks -> (length blocks < fuel)%nat ->
    get_iobuf_bytes_L L fuel rd p = Ok (chain_text blocks).
Proof. exact iobuf_bytes_chain_L. Qed.

(* ---- the controller as an object with a history -------------------------------------------------- *)
(* What a controller keeps between calls is the SCP buffer size learnt from the first sver.  Whatever it
   has done before, each call describes the machine state current at that call: a history of calls over
   successive machine states returns, call by call, what a fresh controller would return. *)
Theorem C14_controller_history_independent :
  forall L sv ci calls st,
    decode_sver sv = Ok ci ->
    ctl_run L st sv calls = map (fun c => system_info_L L (fst c) (snd c)) calls.
Proof. exact ctl_history_independent'. Qed.

Theorem C14_controller_status_history_free :
  forall L st st' sv rd p,
    ctl_ensure_length st sv = Ok st' ->
    ctl_processor_status L st sv rd p = bind (processor_status_L L rd p) (fun r => Ok (r, st')).
Proof. exact ctl_processor_status_history_free. Qed.

Theorem C14_controller_iobuf_history_free :
  forall L st st' sv fuel rd p,
    ctl_ensure_length st sv = Ok st' ->
    ctl_iobuf_bytes L st sv fuel rd p = bind (get_iobuf_bytes_L L fuel rd p) (fun r => Ok (r, st')).
Proof. exact ctl_iobuf_history_free. Qed.

(* ---- error clauses ------------------------------------------------------------------------------- *)
Theorem C14_no_route_is_an_error :
  forall info route w h,
    (forall c, 0 <= fst c < w -> 0 <= snd c < h -> route c = NO_ROUTE) ->
    system_info_of_table info (p2p_truth route w h) = OtherError.
Proof. exact system_info_no_route. Qed.

Theorem C14_short_info_payload_is_an_error :
  forall r, (length (r_data r) < 24)%nat -> decode_info r = OtherError.
Proof. exact decode_info_short. Qed.

(* Robustness observation (not a violation: a machine's 18 state bytes are always states): get_chip_info converts
   all 18 state bytes before keeping num_cores of them, so a byte that is no AppState at ANY of the 18 positions --
   also in the slot of a core the chip does not have -- raises ValueError, which is no SCPError and therefore aborts
   the whole get_system_info instead of dropping that chip. *)
Theorem C14_bad_state_byte_is_an_error :
  forall cs s,
    length (cs_states cs) = 18%nat -> length (cs_ip cs) = 4%nat ->
    In s (cs_states cs) -> ~ In s app_states ->
    decode_info (encode_info cs) = OtherError.
Proof. exact decode_info_bad_state. Qed.

Theorem C14_bad_state_byte_aborts_system_info :
  forall info tbl c e r,
    In (c, e) tbl -> e <> NO_ROUTE -> info c = Some r -> decode_info r = OtherError ->
    system_info_of_table info tbl = OtherError.
Proof. exact system_info_bad_state. Qed.

(* ---- views --------------------------------------------------------------------------------------- *)
Theorem C14_num_working_cores_any_layout :
  forall L rd v, field_holds rd (l_sv_base L) (l_num_cpus L) v -> num_working_cores_L L rd = Ok v.
Proof. exact num_working_cores_any_layout. Qed.

Theorem C14_si_cores_exact :
  forall si c p s, NoDup (map fst (si_chips si)) ->
    (In (c, p, s) (si_cores si) <->
     exists ci, si_get si c = Some ci /\ 0 <= p /\ nth_error (ci_states ci) (Z.to_nat p) = Some s).
Proof. exact si_cores_exact. Qed.

Theorem C14_si_ethernet_exact :
  forall si c ip, NoDup (map fst (si_chips si)) ->
    (In (c, ip) (si_ethernet si) <-> exists ci, si_get si c = Some ci /\ ci_eth_up ci = true /\ ip = ci_ip ci).
Proof. exact si_ethernet_exact. Qed.

(* (x, y, p, state) in system_info, including the IndexError when a 5-bit core count exceeds the 18 states held *)
Theorem C14_si_has_core_state_exact :
  forall si c p s,
    (si_get si c = None -> si_has_core_state si c p s = Ok false) /\
    (forall ci, si_get si c = Some ci -> ~ (0 <= p < ci_cores ci) -> si_has_core_state si c p s = Ok false) /\
    (forall ci s', si_get si c = Some ci -> 0 <= p < ci_cores ci -> nth_error (ci_states ci) (Z.to_nat p) = Some s' ->
       si_has_core_state si c p s = Ok (s' =? s)) /\
    (forall ci, si_get si c = Some ci -> 0 <= p < ci_cores ci -> Z.of_nat (length (ci_states ci)) <= p ->
       si_has_core_state si c p s = OtherError).
Proof. exact si_has_core_state_exact. Qed.

Theorem C14_working_links_exact :
  forall cs, cs_valid cs ->
    working_links (encode_info cs) = Ok (filter (fun l => Z.testbit (cs_linkmask cs) l) [0; 1; 2; 3; 4; 5]).
Proof. exact working_links_exact. Qed.

Theorem C14_ip_address_exact :
  forall cs, cs_valid cs ->
    ip_address (encode_info cs) = Ok (if cs_eth_up cs then Some (ip_text (cs_ip cs)) else None).
Proof. exact ip_address_exact. Qed.

Theorem C14_si_links_exact :
  forall si c l, NoDup (map fst (si_chips si)) ->
    (In (c, l) (si_links si) <-> exists ci, si_get si c = Some ci /\ In l (ci_links ci)).
Proof. exact si_links_exact. Qed.

Theorem C14_si_contains_exact :
  forall si c p l,
    (si_has_core si c p = true <-> exists ci, si_get si c = Some ci /\ 0 <= p < ci_cores ci) /\
    (si_has_link si c l = true <-> exists ci, si_get si c = Some ci /\ In l (ci_links ci)).
Proof. exact si_contains_exact. Qed.

Example C14_moved_layout_satisfiable : status_block_valid_at ex_offsets (l_vcpu_size ex_layout) ex_block_L.
Proof. exact ex_block_L_valid. Qed.

(* Non-vacuity. *)
Example C14_full_width_core_count :
  cs_valid ex_cs31 /\ option_map (fun ci => (ci_cores ci, length (ci_states ci)))
                                  (okopt (decode_info (encode_info ex_cs31))) = Some (31, 18%nat).
Proof. exact ex_cs31_valid. Qed.

Example C14_junk_byte_beyond_num_cores_raises : decode_info (encode_info ex_cs_junk) = OtherError.
Proof. exact ex_cs_junk_raises. Qed.

Example C14_core_17_busy_on_the_18_core_chip_only :
  build_core_constraints ex_si2 = [((0, 1), None); ((17, 18), Some (0, 0))].
Proof. exact ex_si2_constraints. Qed.

Example C14_sver_semver_satisfiable :
  sver_header_valid 3 4 17 0 256 /\ ascii_text (chars "SC&MP/SpiNNaker") /\ digits (chars "2") /\ digits (chars "10") /\
  digits (chars "0") /\ labels_ok (chars "-dev") /\
  option_map flat_core_info (okopt (decode_sver (encode_sver_semver 3 4 17 0 256 1459253424 (chars "SC&MP/SpiNNaker")
                                                                    (chars "2") (chars "10") (chars "0") (chars "-dev") 0)))
  = Some [[3; 4; 17; 0; 2; 10; 0; 256; 1459253424]; chars "SC&MP/SpiNNaker"; chars "-dev"].
Proof. exact ex_sver_semver. Qed.

Example C14_status_block_satisfiable : status_block_valid ex_block.
Proof. exact ex_block_valid. Qed.

Example C14_chip_state_satisfiable : cs_valid ex_cs.
Proof. exact ex_cs_valid. Qed.

Example C14_chip_state_decodes :
  option_map flat_ci (okopt (decode_info (encode_info ex_cs))) =
  Some ([17; 17; 7; 15; 15; 7; 7; 15; 11; 15; 15; 15; 15; 15; 15; 15; 15; 15; 2; 4; 0; 2; 3; 5;
         119275492; 22240; 2047; 1; 15] ++ chars "192.168.240.253" ++ [8; 0]).
Proof. exact ex_cs_decodes. Qed.

Example C14_machine_hypotheses_satisfiable :
  routes_valid ex_route /\ reads_dims ex_rd 2 3 /\ reads_p2p ex_rd ex_route /\ answers_valid ex_answers /\
  (exists c, has_route ex_route 2 3 c).
Proof. exact ex_machine_hypotheses. Qed.

Example C14_machine_probed :
  option_map (fun si => (si_width si, si_height si, map fst (si_chips si)))
             (okopt (system_info ex_rd (info_of_machine ex_answers)))
  = Some (2, 3, [(0, 0); (0, 1); (0, 2); (1, 0)]).
Proof. exact ex_machine_probed. Qed.

Example C14_description_satisfiable :
  si_wf ex_si /\ build_core_constraints ex_si = [((0, 1), None); ((3, 5), Some (0, 0))].
Proof. exact (conj ex_si_wf ex_si_constraints). Qed.

Example C14_iobuf_chain_satisfiable :
  chain_at ex_iobuf_rd 4 1611661312 [ex_b1; ex_b2] /\
  iobuf_walk 3 ex_iobuf_rd 4 1611661312 = Ok [104; 105; 10; 111; 107; 33; 10].
Proof. exact (conj ex_chain ex_chain_walk). Qed.
