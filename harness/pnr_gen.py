"""Generator of place-and-route problems as JSON-able specs, and (for drivers running under the repo's
interpreter) the builder turning a spec into rig objects plus canonicalisers of rig values.
Used by C17 and C01."""


def ternary_keys(rng, n, shift=0):
    """n pairwise non-intersecting (key, mask) pairs with don't-care bits at ARBITRARY positions: a random partition
    of a small cube, obtained by repeatedly splitting a cube on one of its free bits.  Bits outside the field are
    either all fixed to 0 or all don't-care."""
    width = max(1, (max(n, 2) - 1).bit_length()) + rng.choice([0, 1, 2])
    cubes = [(0, 0)]
    while len(cubes) < n:
        splittable = [c for c in cubes if c[1] != (1 << width) - 1]
        if not splittable:
            break
        k, m = rng.choice(splittable)
        cubes.remove((k, m))
        b = rng.choice([1 << i for i in range(width) if not (m >> i) & 1])
        cubes += [(k, m | b), (k | b, m | b)]
    rng.shuffle(cubes)
    shift = min(shift, 32 - width)
    outer = 0 if rng.random() < 0.5 else (0xffffffff & ~(((1 << width) - 1) << shift))
    return [[k << shift, (m << shift) | outer] for k, m in cubes[:n]]


def gen_problem(rng, max_w=4, max_h=4, max_vertices=10, faults=True):
    w, h = rng.randint(1, max_w), rng.randint(1, max_h)
    chips = [(x, y) for x in range(w) for y in range(h)]
    dead_chips = []
    if faults and len(chips) > 2 and rng.random() < 0.4:
        dead_chips = [list(c) for c in rng.sample(chips[1:], rng.randint(1, max(1, len(chips) // 6)))]
    live = [c for c in chips if list(c) not in dead_chips]
    dead_links = []
    if faults and rng.random() < 0.4:
        for _ in range(rng.randint(1, 3)):
            x, y = rng.choice(live)
            l = rng.randint(0, 5)
            dead_links.append([x, y, l])
            if rng.random() < 0.6:          # dead in both directions
                dx, dy = [(1, 0), (1, 1), (0, 1), (-1, 0), (-1, -1), (0, -1)][l]
                x2, y2 = (x + dx) % w, (y + dy) % h
                dead_links.append([x2, y2, (l + 3) % 6])
    wrap = rng.random() < 0.5
    if not wrap:        # kill every wrap-around link so that the machine is a mesh
        for x in range(w):
            for y in range(h):
                for l, (dx, dy) in enumerate([(1, 0), (1, 1), (0, 1), (-1, 0), (-1, -1), (0, -1)]):
                    if not (0 <= x + dx < w and 0 <= y + dy < h) and [x, y, l] not in dead_links:
                        dead_links.append([x, y, l])
    exc = []
    for c in live:
        if rng.random() < 0.2:
            exc.append([list(c), dict(cores=rng.randint(1, 18), sdram=rng.choice([1000, 5000]))])
    nv = rng.randint(1, max_vertices)
    vertices = []
    for i in range(nv):
        vertices.append(dict(id="v%d" % i, cores=rng.choice([0, 1, 1, 1, 2]), sdram=rng.choice([0, 10, 100])))
    ids = [v["id"] for v in vertices]
    nets = []
    for _ in range(rng.randint(0, min(8, 2 * nv))):
        src = rng.choice(ids)
        sinks = [rng.choice(ids) for _ in range(rng.randint(1, min(4, nv)))]
        nets.append(dict(source=src, sinks=sinks, weight=rng.choice([1.0, 2.0, 0.5, 0.1, 0.3, 1.0 / 3])))
    cons = []
    if rng.random() < 0.5:
        cons.append(["reserve", "cores", 0, 1, None])
    if rng.random() < 0.3:
        cons.append(["reserve", "cores", 1, 3, list(rng.choice(live))])
    if rng.random() < 0.3:
        cons.append(["location", rng.choice(ids), list(rng.choice(live))])
    if nv >= 3 and rng.random() < 0.3:
        cons.append(["samechip", rng.sample(ids, 2)])
    # A route-endpoint sink stands for an external device attached to a link: the device vertex is pinned
    # to a chip and the link it hangs off is dead as far as chip-to-chip traffic is concerned (that is how
    # such links are probed), so the endpoint is unambiguous.
    devs = [v["id"] for v in vertices if v["cores"] == 0 and not any(c[0] == "location" and c[1] == v["id"] for c in cons)]
    if devs and rng.random() < 0.5:
        chip = rng.choice(live)
        l = rng.randint(0, 5)
        cons.append(["location", devs[0], list(chip)])
        cons.append(["endpoint", devs[0], l])
        if [chip[0], chip[1], l] not in dead_links:
            dead_links.append([chip[0], chip[1], l])
        if nv >= 2 and rng.random() < 0.4:          # the device shares its chip with another vertex
            other = rng.choice([i for i in ids if i != devs[0]])
            if not any(c[0] == "location" and c[1] == other for c in cons):
                cons.append(["samechip", [devs[0], other]])
    # orthogonal keys: distinct values under a common mask
    nbits = 6
    shift = rng.choice([0, 8, 26])
    if nets and rng.random() < 0.4:
        keys = ternary_keys(rng, len(nets), shift)
    else:
        vals = rng.sample(range(1 << nbits), len(nets))
        keys = [[v << shift, ((1 << nbits) - 1) << shift] for v in vals]
    return dict(machine=dict(w=w, h=h, dead_chips=dead_chips, dead_links=dead_links,
                             cores=rng.choice([2, 3, 5, 18]),
                             sdram=10000, exc=exc),
                vertices=vertices, nets=nets, constraints=cons, keys=keys)


# ----------------------------------------------------------------------------------------------
# Everything below needs rig (runs in driver processes only)
def build(spec):
    from collections import OrderedDict
    from rig.place_and_route.machine import Machine, Cores, SDRAM
    from rig.place_and_route.constraints import (LocationConstraint, SameChipConstraint,
                                                 ReserveResourceConstraint, RouteEndpointConstraint)
    from rig.netlist import Net
    from rig.links import Links
    from rig.routing_table import Routes
    m = spec["machine"]
    machine = Machine(m["w"], m["h"], chip_resources=OrderedDict([(Cores, m["cores"]), (SDRAM, m["sdram"])]),
                      chip_resource_exceptions=OrderedDict(
                          (tuple(xy), OrderedDict([(Cores, r["cores"]), (SDRAM, r["sdram"])])) for xy, r in m["exc"]),
                      dead_chips=set(tuple(c) for c in m["dead_chips"]),
                      dead_links=set((x, y, Links(l)) for x, y, l in m["dead_links"]))
    vres = OrderedDict((v["id"], OrderedDict([(Cores, v["cores"]), (SDRAM, v["sdram"])])) for v in spec["vertices"])
    nets = [Net(n["source"], list(n["sinks"]), n["weight"]) for n in spec["nets"]]
    cons = []
    for c in spec["constraints"]:
        if c[0] == "reserve":
            cons.append(ReserveResourceConstraint(Cores if c[1] == "cores" else SDRAM, slice(c[2], c[3]),
                                                  None if c[4] is None else tuple(c[4])))
        elif c[0] == "location":
            cons.append(LocationConstraint(c[1], tuple(c[2])))
        elif c[0] == "samechip":
            cons.append(SameChipConstraint(list(c[1])))
        elif c[0] == "endpoint":
            cons.append(RouteEndpointConstraint(c[1], Routes(c[2])))
    net_keys = OrderedDict((n, tuple(k)) for n, k in zip(nets, spec["keys"]))
    return machine, vres, nets, cons, net_keys


def canon(o, nets=None):
    """Structural, order-insensitive-where-Python-is canonical form of rig values (JSON-able)."""
    from rig.place_and_route.machine import Machine
    from rig.place_and_route.routing_tree import RoutingTree
    from rig.routing_table import RoutingTableEntry
    from rig.netlist import Net
    import enum
    if isinstance(o, Machine):
        # the documented attributes, plus the names of any further instance attributes (a cache stored on an
        # argument object is state that survives the call)
        known = {"width", "height", "chip_resources", "chip_resource_exceptions", "dead_chips", "dead_links"}
        return ["Machine", o.width, o.height, canon(o.chip_resources), canon(o.chip_resource_exceptions),
                canon(o.dead_chips), canon(o.dead_links), sorted(set(vars(o)) - known)]
    if isinstance(o, RoutingTableEntry):
        return ["RTE", canon(o.route), o.key, o.mask, canon(o.sources)]
    if isinstance(o, RoutingTree):
        return ["Tree", list(o.chip), sorted(([canon(r), canon(c)] for r, c in o.children), key=repr)]
    if isinstance(o, Net):
        return ["Net", canon(o.source), canon(o.sinks), o.weight]
    if isinstance(o, slice):
        return ["slice", o.start, o.stop, o.step]
    if isinstance(o, enum.Enum):
        return "%s.%s" % (type(o).__name__, o.name)
    if isinstance(o, dict):
        return ["dict", sorted(([canon(k), canon(v)] for k, v in o.items()), key=repr)]
    if isinstance(o, (set, frozenset)):
        return ["set", sorted((canon(x) for x in o), key=repr)]
    if isinstance(o, (list, tuple)):
        return [canon(x) for x in o]
    if isinstance(o, (int, float, str, bool)) or o is None:
        return o
    if hasattr(o, "__dict__"):
        return [type(o).__name__, canon(vars(o))]
    return repr(o)
