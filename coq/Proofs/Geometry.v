(* C11 -- proofs about the generated kernels (Generated/GenGeometry.v) and the hand model
   (Model/Geometry.v) against the graph-theoretic statements of Spec/Geometry.v. *)
From Coq Require Import ZArith List Bool Lia.
Require Import Rig.Model.Base Rig.Generated.GenGeometryLinks Rig.Generated.GenGeometry
        Rig.Model.Geometry Rig.Spec.Geometry.
Import ListNotations.
Open Scope Z_scope.

(* ================================================================================================
   Links: numbering, opposites and vectors are mutually consistent *)
Lemma links_members_are_the_six : links_members = map link_num all_links.
Proof. reflexivity. Qed.

Lemma links_to_vector_spec : forall l, links_to_vector (link_num l) = Some (link_vec l).
Proof. destruct l; reflexivity. Qed.

Lemma links_opposite_spec : forall l, links_opposite (link_num l) = link_num (link_opp l).
Proof. destruct l; reflexivity. Qed.

Lemma links_opposite_involutive : forall l, links_opposite (links_opposite (link_num l)) = link_num l.
Proof. destruct l; reflexivity. Qed.

Lemma links_opposite_vector :
  forall l, links_to_vector (links_opposite (link_num l)) = Some (- fst (link_vec l), - snd (link_vec l)).
Proof. destruct l; reflexivity. Qed.

Lemma links_from_to_vector : forall l, links_from_vector (link_vec l) = Some (link_num l).
Proof. destruct l; reflexivity. Qed.

Lemma links_from_vector_only_links :
  forall v n, links_from_vector v = Some n -> exists l, link_num l = n.
Proof.
  intros v n H. unfold links_from_vector in H.
  destruct v as [x y].
  match type of H with link_direction_lookup (?a, ?b) = _ =>
    assert (Ha : -1 <= a <= 1) by
      (destruct (Z.abs x >? 1) eqn:E; [destruct (x >? 0); lia | rewrite Z.gtb_ltb in E; apply Z.ltb_ge in E; lia]);
    assert (Hb : -1 <= b <= 1) by
      (destruct (Z.abs y >? 1) eqn:E; [destruct (y >? 0); lia | rewrite Z.gtb_ltb in E; apply Z.ltb_ge in E; lia]);
    remember a as a' eqn:Ea; remember b as b' eqn:Eb; clear Ea Eb
  end.
  assert (Ca : a' = -1 \/ a' = 0 \/ a' = 1) by lia.
  assert (Cb : b' = -1 \/ b' = 0 \/ b' = 1) by lia.
  destruct Ca as [ -> | [ -> | -> ] ]; destruct Cb as [ -> | [ -> | -> ] ]; vm_compute in H; inversion H; subst;
    first [ now exists East | now exists NorthEast | now exists North
          | now exists West | now exists SouthWest | now exists South ].
Qed.
