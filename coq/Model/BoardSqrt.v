(* standard_system_dimensions with the square root as the code computes it: int(math.sqrt(k)) over
   IEEE-754 binary64 (Flocq; the binary64 setup and Python's float(int) / int(float) are those of
   Model/FixFloat.v).  Definitions only.  Proofs/BoardSqrt.v proves that on 0 <= k < 2^52 this is
   Z.sqrt k, so that the model of Model/Board.v and this one coincide there. *)
From Coq Require Import ZArith List Bool.
From Flocq Require Import Core BinarySingleNaN.
Require Import Rig.Model.Base Rig.Model.FixFloat Rig.Model.Board.
Import ListNotations.
Open Scope Z_scope.

(* int(sqrt(k)) for a Python int k: k is converted to a double (OverflowError when it does not fit),
   math.sqrt rounds to nearest even and raises ValueError (math domain error) for a negative argument,
   int() truncates. *)
Definition float_isqrt_f (k : Z) : result Z :=
  if k <? 0 then Failed 0
  else bind (py_float_of_int k) (fun f => py_int (Bsqrt mode_NE f)).

Definition standard_system_dimensions_f (num_boards : Z) : result (Z * Z) :=
  if num_boards =? 0 then Ok (0, 0)
  else if num_boards =? 1 then Ok (8, 8)
  else if negb (num_boards mod 3 =? 0) then Failed 0
  else
    let k := num_boards / 3 in
    bind (float_isqrt_f k) (fun s =>
    match first_factor_down k (Z.to_nat s) with
    | None => OtherError
    | Some h => let w := k / h in Ok (w * 12, h * 12)
    end).

(* the binary64 model with the budgeted loop (evaluable for board counts far beyond 2^53) *)
Definition standard_system_dimensions_f_gas (gas : nat) (num_boards : Z) : result (Z * Z) :=
  if num_boards =? 0 then Ok (0, 0)
  else if num_boards =? 1 then Ok (8, 8)
  else if negb (num_boards mod 3 =? 0) then Failed 0
  else
    let k := num_boards / 3 in
    bind (float_isqrt_f k) (fun s =>
    match first_factor_down_gas k s gas with
    | None => OutOfFuel
    | Some None => OtherError
    | Some (Some h) => let w := k / h in Ok (w * 12, h * 12)
    end).
