(* C11 -- Hexagonal mesh and torus path functions return true shortest paths.
   Property theorems only; each is closed by `exact` of a lemma of Proofs/Geometry.v. *)
From Coq Require Import ZArith List Bool.
Require Import Rig.Model.Base Rig.Generated.GenGeometryLinks Rig.Generated.GenGeometry
        Rig.Model.Geometry Rig.Spec.Geometry Rig.Proofs.Geometry.
Import ListNotations.
Open Scope Z_scope.

Theorem C11_links_to_vector : forall l, links_to_vector (link_num l) = Some (link_vec l).
Proof. exact links_to_vector_spec. Qed.
