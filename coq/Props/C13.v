From Coq Require Import ZArith List Bool.
Require Import Rig.Model.Base Rig.Model.MemIO Rig.Spec.MemIO Rig.Proofs.MemIO.
Import ListNotations.
Open Scope Z_scope.

Theorem C13_write_escapes_refuted_stub :
  exists c, In c (o_calls (snd (step_orig (fst (step_orig (init 100 104 (fun _ => 0)) (OView 0 (Seek 6 0))))
                                   (OView 0 (Write [1;2;3;4;5;6;7;8])))))
            /\ c = CWrite 106 [1;2;3;4;5;6].
Proof. exact write_escapes_orig_witness. Qed.
