"""Helpers for implementation drivers (run under /venv/bin/python with PYTHONPATH=/repo:/verif/harness)."""
import json
import signal
import sys
import warnings


class Hang(BaseException):
    pass


def _alarm(signum, frame):
    raise Hang()


def run_cases(fn, per_case_s=5):
    """Read a JSON list of cases from stdin, apply fn to each under a per-case alarm and write the JSON
    list of results.  A case that does not finish within per_case_s seconds yields ["hang"]."""
    warnings.simplefilter("ignore")
    cases = json.load(sys.stdin)
    signal.signal(signal.SIGALRM, _alarm)
    out = []
    hangs = 0
    for c in cases:
        if hangs >= 3:                 # enough evidence; do not spend minutes on the rest
            out.append(["skipped"])
            continue
        signal.alarm(per_case_s)
        try:
            out.append(fn(c))
        except Hang:
            hangs += 1
            out.append(["hang"])
        finally:
            signal.alarm(0)
    json.dump(out, sys.stdout)
