"""Shape of the front ends of rig.routing_table as far as the C04 front-end model (coq/Model/TableFront.v) relies on
it (ast of rig/routing_table/minimise.py and entries.py; nothing is imported).  Fail closed: any other shape is
Unsupported, which the check reports as a broken obligation.

minimise.py
  from rig.routing_table.remove_default_routes import minimise as A      (method id 1)
  from rig.routing_table.ordered_covering import minimise as B           (method id 2)
  def minimise_tables(routing_tables, target_lengths, methods=(A, B)): ... minimise_table(table, lengths[chip], methods)
  def minimise_table(table, target_length, methods=(A, B)):
      methods = list(methods); methods.insert(0, _identity)
  def _identity(table, target_length):
      if target_length is None or len(table) <OP> target_length: return table
      raise MinimisationFailedError(target_length, len(table))
entries.py
  class RoutingTableEntry(namedtuple("RoutingTableEntry", "route key mask sources")):
      def __new__(cls, route, key, mask, sources={None}):
          return super(RoutingTableEntry, cls).__new__(cls, frozenset(route), key, mask, set(sources))
Emits default_methods_z, identity_accepts (the comparison <OP>), entry_new_default_sources."""
import ast
import os
import sys
import warnings

sys.path.insert(0, os.path.dirname(os.path.abspath(__file__)))
import dumplib as D  # noqa: E402

REPO = os.environ.get("PYTHONPATH", "/repo").split(os.pathsep)[0]
METHOD_MODULES = {"rig.routing_table.remove_default_routes": 1, "rig.routing_table.ordered_covering": 2}


class Unsupported(Exception):
    pass


def need(cond, what):
    if not cond:
        raise Unsupported(what)


def dump(n):
    return ast.dump(n, annotate_fields=False)


def same(n, text, mode="exec"):
    ref = ast.parse(text).body[0]
    if mode == "eval":
        ref = ref.value
    return dump(n) == dump(ref)


def parse(rel):
    with warnings.catch_warnings():
        warnings.simplefilter("ignore")
        return ast.parse(open(os.path.join(REPO, rel)).read())


def strip_doc(body):
    if body and isinstance(body[0], ast.Expr) and isinstance(body[0].value, ast.Constant) \
            and isinstance(body[0].value.value, str):
        return body[1:]
    return body


def func(tree, name):
    fs = [n for n in tree.body if isinstance(n, ast.FunctionDef) and n.name == name]
    need(len(fs) == 1, "function %s not found exactly once" % name)
    return fs[0]


def main():
    tree = parse("rig/routing_table/minimise.py")
    # ------------------------------------------------------------ which functions the method names denote
    alias = {}
    for n in tree.body:
        if isinstance(n, ast.ImportFrom) and n.module in METHOD_MODULES:
            need(len(n.names) == 1 and n.names[0].name == "minimise" and n.names[0].asname,
                 "import from %s is not `minimise as <name>`" % n.module)
            alias[n.names[0].asname] = METHOD_MODULES[n.module]
    need(sorted(alias.values()) == [1, 2], "the two method imports were not found")
    # assignments at module level must not rebind the aliases
    for n in ast.walk(tree):
        if isinstance(n, ast.Name) and isinstance(n.ctx, ast.Store) and n.id in alias:
            raise Unsupported("method name %s is rebound" % n.id)
    defaults = []
    for fname, params in (("minimise_tables", ["routing_tables", "target_lengths", "methods"]),
                          ("minimise_table", ["table", "target_length", "methods"])):
        f = func(tree, fname)
        a = f.args
        need([x.arg for x in a.args] == params and not (a.vararg or a.kwarg or a.kwonlyargs or a.posonlyargs),
             "%s: parameters are not %r" % (fname, params))
        need(len(a.defaults) == 1 and isinstance(a.defaults[0], ast.Tuple)
             and all(isinstance(e, ast.Name) and e.id in alias for e in a.defaults[0].elts),
             "%s: default of `methods` is not a tuple of the imported minimisers" % fname)
        defaults.append([alias[e.id] for e in a.defaults[0].elts])
    need(defaults[0] == defaults[1], "minimise_tables and minimise_table have different default methods")
    # ------------------------------------------------------------ minimise_tables forwards its methods
    f = func(tree, "minimise_tables")
    calls = [n for n in ast.walk(f) if isinstance(n, ast.Call) and isinstance(n.func, ast.Name)
             and n.func.id == "minimise_table"]
    need(len(calls) == 1 and same(calls[0], "minimise_table(table, lengths[chip], methods)", "eval"),
         "minimise_tables does not call minimise_table(table, lengths[chip], methods) exactly once")
    need(not any(isinstance(n, ast.Name) and isinstance(n.ctx, ast.Store) and n.id == "methods" for n in ast.walk(f)),
         "minimise_tables rebinds `methods`")
    # ------------------------------------------------------------ minimise_table puts _identity first
    f = func(tree, "minimise_table")
    b = strip_doc(f.body)
    need(len(b) >= 3 and same(b[0], "methods = list(methods)") and same(b[1], "methods.insert(0, _identity)"),
         "minimise_table does not start with `methods = list(methods); methods.insert(0, _identity)`")
    need(not any(isinstance(n, ast.Name) and isinstance(n.ctx, ast.Store) and n.id == "methods"
                 for s in b[2:] for n in ast.walk(s)), "minimise_table rebinds `methods` later")
    need(not any(isinstance(n, ast.Attribute) and isinstance(n.value, ast.Name) and n.value.id == "methods"
                 for s in b[2:] for n in ast.walk(s)), "minimise_table modifies `methods` later")
    # ------------------------------------------------------------ _identity
    f = func(tree, "_identity")
    need([x.arg for x in f.args.args] == ["table", "target_length"] and not f.args.defaults, "_identity: parameters")
    b = strip_doc(f.body)
    need(len(b) == 2 and isinstance(b[0], ast.If) and not b[0].orelse and len(b[0].body) == 1
         and same(b[0].body[0], "return table")
         and same(b[1], "raise MinimisationFailedError(target_length, len(table))"), "_identity: body shape")
    t = b[0].test
    need(isinstance(t, ast.BoolOp) and isinstance(t.op, ast.Or) and len(t.values) == 2
         and same(t.values[0], "target_length is None", "eval"), "_identity: test is not `target_length is None or ...`")
    c = t.values[1]
    need(isinstance(c, ast.Compare) and len(c.ops) == 1 and same(c.left, "len(table)", "eval")
         and same(c.comparators[0], "target_length", "eval"), "_identity: comparison is not len(table) <op> target_length")
    ops = {ast.Lt: "Z.ltb", ast.LtE: "Z.leb"}
    need(type(c.ops[0]) in ops, "_identity: comparison operator")
    cmp_ = ops[type(c.ops[0])]
    # ------------------------------------------------------------ RoutingTableEntry.__new__
    tree = parse("rig/routing_table/entries.py")
    cls = [n for n in tree.body if isinstance(n, ast.ClassDef) and n.name == "RoutingTableEntry"]
    need(len(cls) == 1, "class RoutingTableEntry not found")
    cls = cls[0]
    need(len(cls.bases) == 1 and same(cls.bases[0], 'namedtuple("RoutingTableEntry", "route key mask sources")', "eval"),
         "RoutingTableEntry is not namedtuple('RoutingTableEntry', 'route key mask sources')")
    news = [n for n in cls.body if isinstance(n, ast.FunctionDef) and n.name == "__new__"]
    need(len(news) == 1, "RoutingTableEntry.__new__ not found")
    a = news[0].args
    need([x.arg for x in a.args] == ["cls", "route", "key", "mask", "sources"]
         and not (a.vararg or a.kwarg or a.kwonlyargs or a.posonlyargs), "__new__: parameters")
    need(len(a.defaults) == 1 and isinstance(a.defaults[0], ast.Set), "__new__: default of sources is not a set display")
    dflt = []
    for e in a.defaults[0].elts:
        need(isinstance(e, ast.Constant) and (e.value is None or type(e.value) is int), "__new__: default source")
        dflt.append("None" if e.value is None else "(Some %s)" % D.z(e.value))
    b = strip_doc(news[0].body)
    need(len(b) == 1 and same(b[0], "return super(RoutingTableEntry, cls).__new__(cls, frozenset(route), key, mask, "
                                    "set(sources))"), "__new__: body is not the frozenset/set normalisation")
    others = [n.name for n in cls.body if isinstance(n, ast.FunctionDef) and n.name not in ("__new__", "__str__")]
    need(not others, "RoutingTableEntry defines further methods: %r" % others)

    out = [D.HEADER % "dump_c04f.py"]
    out.append("(* methods=(...) default of minimise_table and minimise_tables: 1 = remove_default_routes.minimise, "
               "2 = ordered_covering.minimise;\n   _identity is inserted in front of whatever list is given *)\n")
    out.append(D.definition("default_methods_z", "list Z", D.zlist(defaults[0])))
    out.append("(* _identity returns the table when target_length is None or  len(table) <op> target_length *)\n")
    out.append("Definition identity_accepts (n tl : Z) : bool := %s n tl.\n" % cmp_)
    out.append("(* RoutingTableEntry(route, key, mask, sources=<this>) = (frozenset(route), key, mask, set(sources)) *)\n")
    out.append(D.definition("entry_new_default_sources", "list (option Z)", D.lst(dflt)))
    print("".join(out))


if __name__ == "__main__":
    try:
        main()
    except Unsupported as e:
        sys.stderr.write("Unsupported: %s\n" % e)
        sys.exit(1)
