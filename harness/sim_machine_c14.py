"""A simulated SpiNNaker machine for property C14: it answers, datagram by datagram, the SCP commands that
the probing functions of rig's MachineController issue (sver, read, info), from a *ground-truth machine
state* given as JSON.  Runs under /venv/bin/python; self-contained (nothing of rig is imported here, the
wire layout, the command numbers, the layout of the `info` reply, of the P2P table, of the sv / vcpu
structs and of the IOBUF blocks are written down here from the SC&MP / SARK documentation, independently
of rig's packets.py, consts.py and sark.struct).

Ground truth (`spec`), all integers:
  dims        [w, h]                      contents of sv->p2p_dims of the boot chip (8 bits each)
  boot        [x, y]                      the chip that answers for (255, 255)
  fill        entry value of every P2P table slot that `routes` does not list
  routes      [[x, y, entry], ...]        P2P table of the boot chip (entry 0..7, 6 = no route)
  chips       [[x, y, chip], ...]         chip = {nc, states[18], links (6-bit mask), sdram, sram, rtr,
                                          eth_up, ip[4], eth[2], answer}
                                          answer = "ok" | "silent" | ["rc", code] | ["flaky", k, how] | ["busy_for", seconds]
                                          (how = "drop" | "busy" | "sum": the first k transmissions of each
                                          command are lost / refused with a retryable return code)
  sver        {buffer_size, encoding ("legacy" | "semver"), name, version[3], labels, build_date, pcpu, nuls}
              nuls = number of NUL bytes after the last string of the payload (0, 1 or several)
  probes      [{chip [x, y], p, vcpu_base, iobuf_size, vcpu {field: value}, iobuf [block, ...], router[16]}]
              block = {addr, time, ms, length, payload [bytes]}; the chain is the list order.

`regions(chip)` returns the memory of a chip as [(base address, bytes)] (first match wins, everything else
reads as zero): the very same regions are handed to the Gallina model.
"""
import struct

CMD_VER, CMD_READ, CMD_INFO = 0, 2, 31
RC_OK, RC_LEN, RC_SUM, RC_CMD, RC_P2P_BUSY = 0x80, 0x81, 0x82, 0x83, 0x8d

SV_BASE = 0xf5007f00
SV_SIZE = 256
SV_P2P_DIMS = 0x02        # uint16  (w << 8) | h
SV_ETH_ADDR = 0x08        # uint16
SV_IOBUF_SIZE = 0x50      # uint32
SV_NUM_CPUS = 0xbc        # uint8
SV_VCPU_BASE = 0xcc       # uint32
RTR_P2P = 0xe1010000      # 256 x 256 entries of 3 bits, 8 per 32-bit word, entry of (x, y) = number 256 x + y
RTR_DIAG = 0xe1000300     # 16 words
VCPU_SIZE = 128
# name, offset, struct char (little endian)
VCPU_FIELDS = ([("r%d" % i, 4 * i, "I") for i in range(8)] +
               [("psr", 0x20, "I"), ("sp", 0x24, "I"), ("lr", 0x28, "I"), ("rt_code", 0x2c, "B"),
                ("phys_cpu", 0x2d, "B"), ("cpu_state", 0x2e, "B"), ("app_id", 0x2f, "B"),
                ("mbox_ap_msg", 0x30, "I"), ("mbox_mp_msg", 0x34, "I"), ("mbox_ap_cmd", 0x38, "B"),
                ("mbox_mp_cmd", 0x39, "B"), ("sw_count", 0x3a, "H"), ("sw_file", 0x3c, "I"),
                ("sw_line", 0x40, "I"), ("time", 0x44, "I"), ("app_name", 0x48, "16s"),
                ("iobuf", 0x58, "I"), ("sw_ver", 0x5c, "I"),
                ("user0", 0x70, "I"), ("user1", 0x74, "I"), ("user2", 0x78, "I"), ("user3", 0x7c, "I")])


def p2p_column_rows(h):
    """Number of rows of a P2P column that the regions spell out (one word beyond the height)."""
    return min(256, 8 * ((h + 7) // 8) + 8)


class SimMachine(object):
    def __init__(self, spec):
        self.spec = spec
        self.w, self.h = spec["dims"]
        self.boot = tuple(spec["boot"])
        self.routes = {(x, y): e for x, y, e in spec["routes"]}
        self.fill = spec.get("fill", 6)
        self.chips = {(x, y): c for x, y, c in spec["chips"]}
        self.probes = {}
        for pr in spec.get("probes", []):
            self.probes.setdefault(tuple(pr["chip"]), []).append(pr)
        self.tx_count = {}
        self.first_seen = {}
        self.log = []                     # (x, y, p, cmd, arg1, arg2, arg3) of every datagram received
        self._regions = {}
        # memory layout of the system software's structs: the documented one unless the machine state carries
        # `layout` = {sv_base, sv {field: offset}, vcpu_size, vcpu {field: offset}} (another build of SC&MP / SARK,
        # described to the controller through its `structs=` argument)
        lay = spec.get("layout") or {}
        self.sv_base = lay.get("sv_base", SV_BASE)
        self.sv_off = dict(p2p_dims=SV_P2P_DIMS, eth_addr=SV_ETH_ADDR, iobuf_size=SV_IOBUF_SIZE,
                           num_cpus=SV_NUM_CPUS, vcpu_base=SV_VCPU_BASE)
        self.sv_off.update(lay.get("sv", {}))
        self.vcpu_size = lay.get("vcpu_size", VCPU_SIZE)
        voff = dict((name, off) for name, off, ch in VCPU_FIELDS)
        voff["__PAD"] = 0x60
        voff.update(lay.get("vcpu", {}))
        self.vcpu_fields = [(name, voff[name], ch) for name, off, ch in VCPU_FIELDS]
        self.vcpu_pad = voff["__PAD"]

    # ------------------------------------------------------------------ memory
    def p2p_word(self, x, k):
        """Word k of column x of the P2P table: rows 8k .. 8k+7, three bits each, lowest row lowest."""
        w = 0
        for e in range(8):
            w |= (self.routes.get((x, 8 * k + e), self.fill) & 7) << (3 * e)
        return w

    def regions(self, chip):
        chip = tuple(chip)
        if chip in self._regions:
            return self._regions[chip]
        regs = []
        probes = self.probes.get(chip, [])
        sv = bytearray(SV_SIZE)
        c = self.chips.get(chip)
        if chip == self.boot:
            struct.pack_into("<H", sv, self.sv_off["p2p_dims"], (self.w << 8) | self.h)
        if c is not None:
            struct.pack_into("<H", sv, self.sv_off["eth_addr"], (c["eth"][0] << 8) | c["eth"][1])
            sv[self.sv_off["num_cpus"]] = c["nc"] & 0xff
        if probes:
            struct.pack_into("<I", sv, self.sv_off["iobuf_size"], probes[0]["iobuf_size"])
            struct.pack_into("<I", sv, self.sv_off["vcpu_base"], probes[0]["vcpu_base"])
        regs.append((self.sv_base, bytes(sv)))
        if chip == self.boot:
            cols = set(range(self.w)) | set(x for (x, y) in self.routes)
            nrows = p2p_column_rows(self.h)
            for x in sorted(cols):
                words = [self.p2p_word(x, k) for k in range(nrows // 8)]
                regs.append((RTR_P2P + 128 * x, struct.pack("<%dI" % len(words), *words)))
        for pr in probes:
            blk = bytearray(self.vcpu_size)
            v = pr["vcpu"]
            for name, off, ch in self.vcpu_fields:
                if ch == "16s":
                    struct.pack_into("<16s", blk, off, bytes(bytearray(v[name])))
                else:
                    struct.pack_into("<" + ch, blk, off, v[name])
            struct.pack_into("<4I", blk, self.vcpu_pad, *v.get("pad", [0, 0, 0, 0]))
            regs.append((pr["vcpu_base"] + self.vcpu_size * pr["p"], bytes(blk)))
            chain = pr["iobuf"]
            for i, b in enumerate(chain):
                nxt = b.get("next", chain[i + 1]["addr"] if i + 1 < len(chain) else 0)
                regs.append((b["addr"], struct.pack("<4I", nxt, b["time"], b["ms"], b["length"]) +
                             bytes(bytearray(b["payload"]))))
            if "router" in pr:
                regs.append((RTR_DIAG, struct.pack("<16I", *pr["router"])))
        self._regions[chip] = regs
        return regs

    def read(self, chip, addr, n):
        regs = self.regions(chip)
        out = bytearray(n)
        for i in range(n):
            a = addr + i
            for base, data in regs:
                if base <= a < base + len(data):
                    out[i] = data[a - base]
                    break
        return bytes(out)

    # ------------------------------------------------------------------ replies
    def info_reply(self, c):
        arg1 = (c["nc"] & 0x1f) | ((c["links"] & 0x3f) << 8) | ((c["rtr"] & 0x7ff) << 14) | \
               ((1 if c["eth_up"] else 0) << 25)
        data = bytes(bytearray(c["states"])) + struct.pack("<H", (c["eth"][0] << 8) | c["eth"][1]) + \
            bytes(bytearray(c["ip"]))
        if "data_len" in c:               # malformed stream: truncated / extended payload
            data = (data + bytes(64))[:c["data_len"]]
        return arg1, c["sdram"], c["sram"], data

    def sver_reply(self, chip, p):
        s = self.spec["sver"]
        arg1 = (((chip[0] << 8) | chip[1]) << 16) | ((s.get("pcpu", 0) & 0xff) << 8) | (p & 0xff)
        nuls = b"\0" * s.get("nuls", 1)       # terminator / padding after the last string: none, one, several
        if s["encoding"] == "legacy":
            ver = s["version"][0] * 100 + s["version"][1]
            data = bytes(bytearray(s["name"])) + nuls
        else:
            ver = 0xffff
            data = bytes(bytearray(s["name"])) + b"\0" + bytes(bytearray(s["vtext"])) + nuls
        if "raw_data" in s:
            data = bytes(bytearray(s["raw_data"]))
        return arg1, (ver << 16) | (s["buffer_size"] & 0xffff), s["build_date"], data

    def handle(self, dgram, now=0.0):
        """One request datagram arriving at (virtual) time `now` -> list of reply datagrams (empty: no answer)."""
        flags, tag, dpc, spc, dy, dx, sy, sx = struct.unpack_from("<2x8B", dgram)
        cmd, seq = struct.unpack_from("<2H", dgram, 10)
        args = struct.unpack_from("<3I", dgram, 14) if len(dgram) >= 26 else (0, 0, 0)
        p = dpc & 0x1f
        self.log.append((dx, dy, p, cmd) + tuple(args))
        chip = self.boot if (dx, dy) == (255, 255) else (dx, dy)

        def reply(rc, a=(), data=b""):
            hdr = struct.pack("<2x8B", 0x07, tag, spc, dpc, sy, sx, chip[1], chip[0])
            return [hdr + struct.pack("<2H", rc, seq) + b"".join(struct.pack("<I", v & 0xffffffff) for v in a)
                    + data]
        c = self.chips.get(chip)
        answer = c["answer"] if c is not None else "silent"
        if answer == "silent":
            return []
        if isinstance(answer, list) and answer[0] == "rc":
            return reply(answer[1])
        if isinstance(answer, list) and answer[0] == "flaky":
            n = self.tx_count.get(bytes(dgram), 0)
            self.tx_count[bytes(dgram)] = n + 1
            if n < answer[1]:
                if answer[2] == "drop":
                    return []
                return reply(RC_P2P_BUSY if answer[2] == "busy" else RC_SUM)
        if isinstance(answer, list) and answer[0] == "busy_for":
            # busy for a period of (virtual) wall-clock time after a command first arrives, whatever the number of
            # transmissions in that period
            t0 = self.first_seen.setdefault(bytes(dgram), now)
            if now < t0 + answer[1]:
                return reply(RC_P2P_BUSY)
        if cmd == CMD_VER:
            a1, a2, a3, data = self.sver_reply(chip, p)
            return reply(RC_OK, (a1, a2, a3), data)
        if cmd == CMD_INFO:
            a1, a2, a3, data = self.info_reply(c)
            return reply(RC_OK, (a1, a2, a3), data)
        if cmd == CMD_READ:
            addr, n, _unit = args
            if n > self.spec["sver"]["buffer_size"]:
                return reply(RC_LEN)
            return reply(RC_OK, (), self.read(chip, addr, n))
        return reply(RC_CMD)


# ---------------------------------------------------------------------- fakes for scp_connection
class FakeSocket(object):
    def __init__(self, net):
        self.net = net

    def connect(self, addr):
        pass

    def setblocking(self, flag):
        pass

    def settimeout(self, t):
        pass

    def fileno(self):
        return 99

    def close(self):
        pass

    def send(self, data):
        self.net.nsent += 1
        self.net.queue.extend(self.net.machine.handle(bytes(data), self.net.now))
        return len(data)

    def recv(self, n):
        if not self.net.queue:
            raise BlockingIOError()
        return self.net.queue.pop(0)[:n]


class Net(object):
    """Replaces the modules `socket`, `select`, `time` inside rig.machine_control.scp_connection: requests
    are answered at once by the simulated machine; when nothing is pending, `select` lets the (virtual)
    clock jump to the deadline, so that time-outs cost nothing."""
    AF_INET = 2
    SOCK_DGRAM = 2
    error = OSError

    def __init__(self, machine):
        self.machine = machine
        self.queue = []
        self.now = 1000.0
        self.nsent = 0

    # socket module
    def socket(self, *a, **k):
        return FakeSocket(self)

    # select module
    def select(self, r, w, x, timeout=None):
        if self.queue:
            return (list(r), [], [])
        self.now += (timeout or 0.0) + 1e-3
        return ([], [], [])

    # time module
    def time(self):
        return self.now

    def sleep(self, dt):
        self.now += dt

    def install(self, scp_connection_module):
        scp_connection_module.socket = self
        scp_connection_module.select = self
        scp_connection_module.time = self
