(* C11 -- proofs about the generated kernels (Generated/GenGeometry.v) and the hand model
   (Model/Geometry.v) against the graph-theoretic statements of Spec/Geometry.v. *)
From Coq Require Import ZArith List Bool Lia.
Require Import Rig.Model.Base Rig.Generated.GenGeometryLinks Rig.Generated.GenGeometry
        Rig.Generated.GenGeometryShapes Rig.Model.Geometry Rig.Spec.Geometry.
Import ListNotations.
Open Scope Z_scope.

(* ================================================================================================
   Links: numbering, opposites and vectors are mutually consistent *)
Lemma links_members_are_the_six : links_members = map link_num all_links.
Proof. reflexivity. Qed.

Lemma links_to_vector_spec : forall l, links_to_vector (link_num l) = Some (link_vec l).
Proof. destruct l; reflexivity. Qed.

Lemma links_opposite_spec : forall l, links_opposite (link_num l) = link_num (link_opp l).
Proof. destruct l; reflexivity. Qed.

Lemma links_opposite_involutive : forall l, links_opposite (links_opposite (link_num l)) = link_num l.
Proof. destruct l; reflexivity. Qed.

Lemma links_opposite_vector :
  forall l, links_to_vector (links_opposite (link_num l)) = Some (- fst (link_vec l), - snd (link_vec l)).
Proof. destruct l; reflexivity. Qed.

Lemma links_from_to_vector : forall l, links_from_vector (link_vec l) = Some (link_num l).
Proof. destruct l; reflexivity. Qed.

Lemma links_from_vector_only_links :
  forall v n, links_from_vector v = Some n -> exists l, link_num l = n.
Proof.
  intros v n H. unfold links_from_vector in H.
  destruct v as [x y].
  match type of H with link_direction_lookup (?a, ?b) = _ =>
    assert (Ha : -1 <= a <= 1) by
      (destruct (Z.abs x >? 1) eqn:E; [destruct (x >? 0); lia | rewrite Z.gtb_ltb in E; apply Z.ltb_ge in E; lia]);
    assert (Hb : -1 <= b <= 1) by
      (destruct (Z.abs y >? 1) eqn:E; [destruct (y >? 0); lia | rewrite Z.gtb_ltb in E; apply Z.ltb_ge in E; lia]);
    remember a as a' eqn:Ea; remember b as b' eqn:Eb; clear Ea Eb
  end.
  assert (Ca : a' = -1 \/ a' = 0 \/ a' = 1) by lia.
  assert (Cb : b' = -1 \/ b' = 0 \/ b' = 1) by lia.
  destruct Ca as [ -> | [ -> | -> ] ]; destruct Cb as [ -> | [ -> | -> ] ]; vm_compute in H; inversion H; subst;
    first [ now exists East | now exists NorthEast | now exists North
          | now exists West | now exists SouthWest | now exists South ].
Qed.

(* ================================================================================================
   The hexagonal norm and the kernels *)
Definition hexnorm (p : chip) : Z :=
  Z.max (Z.max (fst p) (snd p)) 0 - Z.min (Z.min (fst p) (snd p)) 0.

Ltac no_if t := lazymatch t with context [if _ then _ else _] => fail | _ => idtac end.
Ltac break_cmp :=
  repeat (match goal with
          | |- context [Z.gtb ?a ?b] => rewrite (Z.gtb_ltb a b)
          | |- context [Z.geb ?a ?b] => rewrite (Z.geb_leb a b)
          | |- context [Z.ltb ?a ?b] => no_if a; no_if b; destruct (Z.ltb_spec a b)
          | |- context [Z.leb ?a ?b] => no_if a; no_if b; destruct (Z.leb_spec a b)
          end; cbv iota).

Lemma mesh_length_norm :
  forall s d, shortest_mesh_path_length s d = hexnorm (chip_sub (to2d d) (to2d s)).
Proof.
  intros [[sx sy] sz] [[dx dy] dz].
  unfold shortest_mesh_path_length, hexnorm, chip_sub, to2d; cbn [fst snd].
  break_cmp; lia.
Qed.

Lemma minimise_to2d : forall v, to2d (minimise_xyz v) = to2d v.
Proof. intros [[x y] z]. unfold minimise_xyz, to2d. f_equal; lia. Qed.

Lemma minimise_hops : forall v, hops (minimise_xyz v) = hexnorm (to2d v).
Proof.
  intros [[x y] z]. unfold minimise_xyz, hops, hexnorm, to2d; cbn [fst snd]. lia.
Qed.

(* ================================================================================================
   Walks on the mesh *)
Lemma mesh_walk_app : forall l1 l2 p, mesh_walk p (l1 ++ l2) = mesh_walk (mesh_walk p l1) l2.
Proof. intros. unfold mesh_walk. apply fold_left_app. Qed.

Lemma len_app : forall l1 l2, len (l1 ++ l2) = len l1 + len l2.
Proof. intros. unfold len. rewrite app_length. lia. Qed.

Lemma mesh_walk_repeat :
  forall l n p, mesh_walk p (repeat l n) =
                (fst p + Z.of_nat n * fst (link_vec l), snd p + Z.of_nat n * snd (link_vec l)).
Proof.
  intros l n. induction n as [|n IH]; intros [x y].
  - cbn. f_equal; lia.
  - change (repeat l (S n)) with (l :: repeat l n).
    change (mesh_walk (x, y) (l :: repeat l n)) with (mesh_walk (mesh_step (x, y) l) (repeat l n)).
    rewrite IH. unfold mesh_step; cbn [fst snd]. f_equal; lia.
Qed.

Lemma len_repeat : forall l n, len (repeat l n) = Z.of_nat n.
Proof. intros. unfold len. now rewrite repeat_length. Qed.

Lemma axis_walk_len : forall pos neg c, len (axis_walk pos neg c) = Z.abs c.
Proof. intros. unfold axis_walk. destruct (Z.ltb_spec c 0); rewrite len_repeat; lia. Qed.

Lemma axis_walk_end :
  forall pos neg c p,
    link_vec neg = (- fst (link_vec pos), - snd (link_vec pos)) ->
    mesh_walk p (axis_walk pos neg c) = (fst p + c * fst (link_vec pos), snd p + c * snd (link_vec pos)).
Proof.
  intros pos neg c p Hn. unfold axis_walk.
  destruct (Z.ltb_spec c 0); rewrite mesh_walk_repeat, Z2Nat.id by lia.
  - rewrite Hn; cbn [fst snd]. f_equal; ring.
  - reflexivity.
Qed.

Lemma vector_walk_len : forall v, len (vector_walk v) = hops v.
Proof. intros [[x y] z]. unfold vector_walk, hops. rewrite !len_app, !axis_walk_len. lia. Qed.

Lemma vector_walk_end : forall v p, mesh_walk p (vector_walk v) = chip_add p (to2d v).
Proof.
  intros [[x y] z] [px py]. unfold vector_walk.
  rewrite !mesh_walk_app, !axis_walk_end by reflexivity.
  unfold chip_add, to2d; cbn [fst snd link_vec]. f_equal; lia.
Qed.

(* a step changes the norm of the displacement from a fixed chip by at most one *)
Lemma step_norm :
  forall a p l, hexnorm (chip_sub (mesh_step p l) a) <= hexnorm (chip_sub p a) + 1.
Proof.
  intros [ax ay] [px py] l. unfold hexnorm, chip_sub, mesh_step; cbn [fst snd].
  destruct l; cbn [link_vec fst snd]; lia.
Qed.

Lemma walk_norm :
  forall a ls p, hexnorm (chip_sub (mesh_walk p ls) a) <= hexnorm (chip_sub p a) + len ls.
Proof.
  intros a ls. induction ls as [|l ls IH]; intros p.
  - cbn. unfold len; cbn. lia.
  - change (mesh_walk p (l :: ls)) with (mesh_walk (mesh_step p l) ls).
    specialize (IH (mesh_step p l)). pose proof (step_norm a p l).
    unfold len in *. cbn [length]. lia.
Qed.

Lemma hexnorm_zero : forall a, hexnorm (chip_sub a a) = 0.
Proof. intros [x y]. unfold hexnorm, chip_sub; cbn [fst snd]. lia. Qed.

(* the graph distance on the mesh is the hexagonal norm of the displacement *)
Lemma mesh_distance_norm : forall a b, is_mesh_distance a b (hexnorm (chip_sub b a)).
Proof.
  intros a b. split.
  - exists (vector_walk (minimise_xyz (fst (chip_sub b a), snd (chip_sub b a), 0))).
    rewrite vector_walk_end, vector_walk_len, minimise_hops, minimise_to2d.
    destruct a as [ax ay], b as [bx by_]. unfold chip_add, chip_sub, to2d, hexnorm; cbn [fst snd].
    split; [f_equal; lia | f_equal; f_equal; lia].
  - intros ls H. pose proof (walk_norm a ls a) as W. rewrite H, hexnorm_zero in W. lia.
Qed.

Lemma mesh_length_is_distance :
  forall s d, is_mesh_distance (to2d s) (to2d d) (shortest_mesh_path_length s d).
Proof. intros. rewrite mesh_length_norm. apply mesh_distance_norm. Qed.

Lemma mesh_path_vector :
  forall s d,
    hops (shortest_mesh_path s d) = shortest_mesh_path_length s d /\
    chip_add (to2d s) (to2d (shortest_mesh_path s d)) = to2d d /\
    mesh_walk (to2d s) (vector_walk (shortest_mesh_path s d)) = to2d d /\
    len (vector_walk (shortest_mesh_path s d)) = shortest_mesh_path_length s d.
Proof.
  intros s d.
  assert (H1 : hops (shortest_mesh_path s d) = shortest_mesh_path_length s d).
  { rewrite mesh_length_norm. destruct s as [[sx sy] sz], d as [[dx dy] dz].
    unfold shortest_mesh_path, mesh_path_component. rewrite minimise_hops. unfold to2d, chip_sub; cbn [fst snd].
    f_equal. f_equal; lia. }
  assert (H2 : chip_add (to2d s) (to2d (shortest_mesh_path s d)) = to2d d).
  { destruct s as [[sx sy] sz], d as [[dx dy] dz].
    unfold shortest_mesh_path, mesh_path_component. rewrite minimise_to2d. unfold to2d, chip_add; cbn [fst snd].
    f_equal; lia. }
  repeat split; auto.
  - now rewrite vector_walk_end.
  - now rewrite vector_walk_len.
Qed.

(* all three-axis representations of the same two chips give the same length *)
Lemma mesh_length_representation :
  forall s d s' d', to2d s = to2d s' -> to2d d = to2d d' ->
                    shortest_mesh_path_length s d = shortest_mesh_path_length s' d'.
Proof. intros. rewrite !mesh_length_norm. congruence. Qed.

(* ================================================================================================
   Walks on the torus *)
Lemma wrap_step :
  forall w h p l, torus_step w h (wrap w h p) l = wrap w h (mesh_step p l).
Proof.
  intros. unfold torus_step, wrap, mesh_step; cbn [fst snd].
  f_equal; apply Zplus_mod_idemp_l.
Qed.

Lemma torus_walk_wrap :
  forall w h ls p, torus_walk w h (wrap w h p) ls = wrap w h (mesh_walk p ls).
Proof.
  intros w h ls. induction ls as [|l ls IH]; intros p.
  - reflexivity.
  - change (torus_walk w h (wrap w h p) (l :: ls))
      with (torus_walk w h (torus_step w h (wrap w h p) l) ls).
    rewrite wrap_step, IH. reflexivity.
Qed.

(* the code's formula: the least of the four wrap candidates *)
Definition tlen (w h x y : Z) : Z :=
  Z.min (Z.min (Z.min (Z.max x y) (w - x + y)) (x + h - y)) (Z.max (w - x) (h - y)).

Lemma torus_length_tlen :
  forall s d w h,
    shortest_torus_path_length s d w h =
    tlen w h (fst (torus_delta s d w h)) (snd (torus_delta s d w h)).
Proof.
  intros [[sx sy] sz] [[dx dy] dz] w h.
  unfold shortest_torus_path_length, torus_delta, torus_head, tlen; cbn [fst snd].
  replace (dx - sx - (dz - sz)) with (dx - dz - (sx - sz)) by lia.
  replace (dy - sy - (dz - sz)) with (dy - dz - (sy - sz)) by lia.
  generalize ((dx - dz - (sx - sz)) mod w) as x. generalize ((dy - dz - (sy - sz)) mod h) as y.
  intros y x. break_cmp; lia.
Qed.

Lemma torus_delta_to2d :
  forall s d w h,
    torus_delta s d w h =
    ((fst (to2d d) - fst (to2d s)) mod w, (snd (to2d d) - snd (to2d s)) mod h).
Proof.
  intros [[sx sy] sz] [[dx dy] dz] w h. unfold torus_delta, torus_head, to2d; cbn [fst snd].
  f_equal; f_equal; lia.
Qed.

Lemma multiple_cases :
  forall i w, 1 <= w -> i * w = 0 \/ w <= i * w \/ i * w = - w \/ i * w <= - 2 * w.
Proof. intros i w Hw. assert (i = 0 \/ 1 <= i \/ i = -1 \/ i <= -2) as [->|[H|[->|H]]] by lia; nia. Qed.

(* no lattice translate of the displacement is shorter than the least of the four candidates *)
Lemma tlen_lower :
  forall w h x y i j, 0 <= x < w -> 0 <= y < h ->
                      tlen w h x y <= hexnorm (x + i * w, y + j * h).
Proof.
  intros w h x y i j Hx Hy.
  pose proof (multiple_cases i w ltac:(lia)) as Hi.
  pose proof (multiple_cases j h ltac:(lia)) as Hj.
  unfold tlen, hexnorm; cbn [fst snd].
  generalize dependent (i * w). generalize dependent (j * h). intros b Hb a Ha.
  destruct Ha as [Ha|[Ha|[Ha|Ha]]]; destruct Hb as [Hb|[Hb|[Hb|Hb]]]; lia.
Qed.

(* and the least candidate is one of them *)
Lemma cand_none : forall w h x y, 0 <= x -> 0 <= y -> hexnorm (x + 0 * w, y + 0 * h) = Z.max x y.
Proof. intros. unfold hexnorm; cbn [fst snd]. lia. Qed.
Lemma cand_x : forall w h x y, x < w -> 0 <= y -> hexnorm (x + (-1) * w, y + 0 * h) = w - x + y.
Proof. intros. unfold hexnorm; cbn [fst snd]. lia. Qed.
Lemma cand_y : forall w h x y, 0 <= x -> y < h -> hexnorm (x + 0 * w, y + (-1) * h) = x + h - y.
Proof. intros. unfold hexnorm; cbn [fst snd]. lia. Qed.
Lemma cand_xy : forall w h x y, x < w -> y < h ->
                              hexnorm (x + (-1) * w, y + (-1) * h) = Z.max (w - x) (h - y).
Proof. intros. unfold hexnorm; cbn [fst snd]. lia. Qed.

Lemma min4_cases :
  forall a b c d, let m := Z.min (Z.min (Z.min a b) c) d in m = a \/ m = b \/ m = c \/ m = d.
Proof. intros. subst m. lia. Qed.

Lemma tlen_achieved :
  forall w h x y, 0 <= x < w -> 0 <= y < h ->
                  exists i j, (i = 0 \/ i = -1) /\ (j = 0 \/ j = -1) /\
                              tlen w h x y = hexnorm (x + i * w, y + j * h).
Proof.
  intros w h x y Hx Hy. unfold tlen.
  destruct (min4_cases (Z.max x y) (w - x + y) (x + h - y) (Z.max (w - x) (h - y))) as [C|[C|[C|C]]];
    rewrite C.
  - exists 0, 0. rewrite cand_none by lia. auto.
  - exists (-1), 0. rewrite cand_x by lia. auto.
  - exists 0, (-1). rewrite cand_y by lia. auto.
  - exists (-1), (-1). rewrite cand_xy by lia. auto.
Qed.

Lemma mod_eq_translate :
  forall w a b e, 1 <= w -> e mod w = b mod w -> e - a = (b - a) mod w + ((e - a) / w) * w.
Proof.
  intros w a b e Hw H.
  assert (E : (e - a) mod w = (b - a) mod w) by (rewrite Zminus_mod, H, <- Zminus_mod; reflexivity).
  rewrite <- E. pose proof (Z.div_mod (e - a) w ltac:(lia)). lia.
Qed.

Lemma torus_length_is_distance :
  forall s d w h, 1 <= w -> 1 <= h ->
    is_torus_distance w h (wrap w h (to2d s)) (wrap w h (to2d d)) (shortest_torus_path_length s d w h).
Proof.
  intros s d w h Hw Hh.
  rewrite torus_length_tlen, torus_delta_to2d; cbn [fst snd].
  destruct (to2d s) as [ax ay] eqn:Ea. destruct (to2d d) as [bx by_] eqn:Eb. cbn [fst snd].
  set (x := (bx - ax) mod w). set (y := (by_ - ay) mod h).
  assert (Hx : 0 <= x < w) by (apply Z.mod_pos_bound; lia).
  assert (Hy : 0 <= y < h) by (apply Z.mod_pos_bound; lia).
  split.
  - destruct (tlen_achieved w h x y Hx Hy) as (i & j & _ & _ & Hij).
    exists (vector_walk (minimise_xyz (x + i * w, y + j * h, 0))).
    rewrite torus_walk_wrap, vector_walk_end, vector_walk_len, minimise_hops, minimise_to2d.
    split.
    + unfold wrap, chip_add, to2d; cbn [fst snd]. rewrite !Z.sub_0_r.
      rewrite !Z.add_assoc, !Z_mod_plus_full. unfold x, y.
      rewrite !Zplus_mod_idemp_r. f_equal; f_equal; lia.
    + rewrite Hij. unfold to2d. now rewrite !Z.sub_0_r.
  - intros ls H. rewrite torus_walk_wrap in H.
    destruct (mesh_walk (ax, ay) ls) as [ex ey] eqn:Ee.
    unfold wrap in H; cbn [fst snd] in H. injection H as H1 H2.
    pose proof (walk_norm (ax, ay) ls (ax, ay)) as W. rewrite Ee, hexnorm_zero in W.
    unfold chip_sub in W; cbn [fst snd] in W.
    rewrite (mod_eq_translate w ax bx ex Hw H1), (mod_eq_translate h ay by_ ey Hh H2) in W.
    pose proof (tlen_lower w h x y ((ex - ax) / w) ((ey - ay) / h) Hx Hy) as L.
    fold x y in W. lia.
Qed.

(* ================================================================================================
   shortest_torus_path: every outcome of the random draws *)
Lemma lex_ltb_true : forall a b, lex_ltb a b = true -> fst a <= fst b.
Proof.
  intros a b H. unfold lex_ltb in H. apply orb_true_iff in H. destruct H as [H|H].
  - apply Z.ltb_lt in H. lia.
  - apply andb_true_iff in H. destruct H as [H _]. apply Z.eqb_eq in H. lia.
Qed.

Lemma lex_ltb_false : forall a b, lex_ltb a b = false -> fst b <= fst a.
Proof.
  intros a b H. unfold lex_ltb in H. apply orb_false_iff in H. destruct H as [H _].
  apply Z.ltb_ge in H. exact H.
Qed.

(* min(..., key=(distance, draw)) returns an element of the list whose distance is least *)
Lemma argmin_first_lex :
  forall (l : list ((Z * Z) * vec3)) best,
    In (argmin_first lex_ltb best l) (best :: l) /\
    forall e, In e (best :: l) -> fst (fst (argmin_first lex_ltb best l)) <= fst (fst e).
Proof.
  induction l as [|a l IH]; intros best.
  - cbn. split; [auto|]. intros e [<-|[]]. lia.
  - cbn [argmin_first]. destruct (lex_ltb (fst a) (fst best)) eqn:E.
    + destruct (IH a) as [I M]. split.
      * destruct I as [I|I]; [right; left; exact I | right; right; exact I].
      * intros e [<-|[<-|He]].
        -- apply lex_ltb_true in E. specialize (M a (or_introl eq_refl)). lia.
        -- apply M. now left.
        -- apply M. now right.
    + destruct (IH best) as [I M]. split.
      * destruct I as [I|I]; [left; exact I | right; right; exact I].
      * intros e [<-|[<-|He]].
        -- apply M. now left.
        -- apply lex_ltb_false in E. specialize (M best (or_introl eq_refl)). lia.
        -- apply M. now right.
Qed.

Lemma torus_head_eq :
  forall s d w h, torus_head s d w h = (w, h, fst (torus_delta s d w h), snd (torus_delta s d w h)).
Proof. intros [[sx sy] sz] [[dx dy] dz] w h. reflexivity. Qed.

(* the chosen approach is a lattice translate of the reduced displacement of least norm *)
Lemma torus_choice_spec :
  forall k0 k1 k2 k3 s d w h, 1 <= w -> 1 <= h ->
    let x := fst (torus_delta s d w h) in
    let y := snd (torus_delta s d w h) in
    exists i j, torus_choice k0 k1 k2 k3 s d w h = (x + i * w, y + j * h, 0) /\
                hexnorm (x + i * w, y + j * h) = tlen w h x y.
Proof.
  intros k0 k1 k2 k3 s d w h Hw Hh x y.
  assert (Hx : 0 <= x < w).
  { subst x. rewrite torus_delta_to2d. cbn [fst]. apply Z.mod_pos_bound. lia. }
  assert (Hy : 0 <= y < h).
  { subst y. rewrite torus_delta_to2d. cbn [snd]. apply Z.mod_pos_bound. lia. }
  unfold torus_choice. rewrite torus_head_eq.
  destruct (torus_delta s d w h) as [dx dy] eqn:Ed. cbn [fst snd] in *.
  subst x y.
  unfold torus_approaches, torus_approaches_src, keyed_lex, choose. cbn [combine map].
  match goal with |- context [argmin_first lex_ltb ?b ?l] =>
    destruct (argmin_first_lex l b) as [I M]; set (r := argmin_first lex_ltb b l) in *
  end.
  pose proof (M _ (or_introl eq_refl)) as M0.
  pose proof (M _ (or_intror (or_introl eq_refl))) as M1.
  pose proof (M _ (or_intror (or_intror (or_introl eq_refl)))) as M2.
  pose proof (M _ (or_intror (or_intror (or_intror (or_introl eq_refl))))) as M3.
  cbn [fst snd] in M0, M1, M2, M3. clear M.
  unfold tlen.
  destruct I as [I|[I|[I|[I|[]]]]]; rewrite <- I in *; cbn [fst snd] in *.
  - exists 0, 0. split; [f_equal; f_equal; lia|]. rewrite cand_none by lia. lia.
  - exists (-1), 0. split; [f_equal; f_equal; lia|]. rewrite cand_x by lia. lia.
  - exists 0, (-1). split; [f_equal; f_equal; lia|]. rewrite cand_y by lia. lia.
  - exists (-1), (-1). split; [f_equal; f_equal; lia|]. rewrite cand_xy by lia. lia.
Qed.

Lemma max_spirals_nonneg :
  forall c size, 1 <= size -> 0 <= c -> 0 <= max_spirals c size /\ max_spirals c size * size <= c.
Proof.
  intros c size Hs Hc. unfold max_spirals. destruct (Z.ltb_spec c 0); [lia|].
  split; [apply Z.div_pos; lia|]. rewrite Z.mul_comm. apply Z.mul_div_le. lia.
Qed.

Lemma max_spirals_neg :
  forall c size, 1 <= size -> c < 0 -> max_spirals c size <= 0 /\ c <= max_spirals c size * size.
Proof.
  intros c size Hs Hc. unfold max_spirals. destruct (Z.ltb_spec c 0); [|lia].
  pose proof (Z.div_mod (c + size - 1) size ltac:(lia)) as E.
  pose proof (Z.mod_pos_bound (c + size - 1) size ltac:(lia)) as B.
  split; [|nia].
  assert ((c + size - 1) / size < 1) by (apply Z.div_lt_upper_bound; lia). lia.
Qed.

(* the amount d subtracted by a spiral has the sign of the component c and does not exceed it *)
Lemma spiral_amount :
  forall rint c size, randint_contract rint -> 1 <= size ->
    let ms := max_spirals c size in
    let r := rint (Z.min 0 ms) (Z.max 0 ms) in
    (0 <= c -> 0 <= r * size <= c) /\ (c < 0 -> c <= r * size <= 0).
Proof.
  intros rint c size Hr Hs ms r.
  pose proof (Hr (Z.min 0 ms) (Z.max 0 ms) ltac:(lia)) as B. fold r in B.
  split; intros Hc.
  - destruct (max_spirals_nonneg c size Hs Hc) as [A1 A2]. fold ms in A1, A2. nia.
  - destruct (max_spirals_neg c size Hs Hc) as [A1 A2]. fold ms in A1, A2. nia.
Qed.

Lemma spiral_spec :
  forall rint v w h, randint_contract rint -> 1 <= w -> 1 <= h ->
    hops v = hexnorm (to2d v) ->
    hops (spiral rint v w h) = hops v /\
    exists p q, to2d (spiral rint v w h) = (fst (to2d v) + p * w, snd (to2d v) + q * h).
Proof.
  intros rint [[x y] z] w h Hr Hw Hh Hmin. unfold spiral.
  unfold hops, hexnorm, to2d in Hmin; cbn [fst snd] in Hmin.
  destruct (Z.abs x >=? h) eqn:E1.
  - destruct (spiral_amount rint x h Hr Hh) as [P N].
    set (r := rint (Z.min 0 (max_spirals x h)) (Z.max 0 (max_spirals x h))) in *.
    split.
    + generalize dependent (r * h). intros dd P N.
      unfold hops. rewrite Z.geb_leb in E1. apply Z.leb_le in E1. lia.
    + exists 0, r. unfold to2d; cbn [fst snd]. f_equal; lia.
  - destruct (Z.abs y >=? w) eqn:E2.
    + destruct (spiral_amount rint y w Hr Hw) as [P N].
      set (r := rint (Z.min 0 (max_spirals y w)) (Z.max 0 (max_spirals y w))) in *.
      split.
      * generalize dependent (r * w). intros dd P N.
        unfold hops. rewrite Z.geb_leb in E2. apply Z.leb_le in E2. lia.
      * exists r, 0. unfold to2d; cbn [fst snd]. f_equal; lia.
    + split; [reflexivity|]. exists 0, 0. unfold to2d; cbn [fst snd]. f_equal; lia.
Qed.

(* the translated tail of shortest_torus_path is the spiral adjustment as restated in the model *)
Lemma torus_spiral_eq :
  forall rint x y z w h, torus_spiral rint x y z w h = spiral rint (x, y, z) w h.
Proof.
  intros. unfold torus_spiral, spiral, max_spirals.
  destruct (Z.abs x >=? h); [reflexivity|]. destruct (Z.abs y >=? w); reflexivity.
Qed.

Lemma torus_path_vector :
  forall k0 k1 k2 k3 rint s d w h, 1 <= w -> 1 <= h -> randint_contract rint ->
    exists v, shortest_torus_path k0 k1 k2 k3 rint s d w h = Ok v /\
              hops v = shortest_torus_path_length s d w h /\
              wrap w h (chip_add (to2d s) (to2d v)) = wrap w h (to2d d) /\
              torus_walk w h (wrap w h (to2d s)) (vector_walk v) = wrap w h (to2d d) /\
              len (vector_walk v) = shortest_torus_path_length s d w h.
Proof.
  intros k0 k1 k2 k3 rint s d w h Hw Hh Hr.
  unfold shortest_torus_path.
  destruct (Z.eqb_spec w 0); [lia|]. destruct (Z.eqb_spec h 0); [lia|]. cbn [orb].
  destruct (torus_choice_spec k0 k1 k2 k3 s d w h Hw Hh) as (i & j & Hc & Hn).
  set (c := torus_choice k0 k1 k2 k3 s d w h) in *.
  assert (Es : (let '(x, y, z) := minimise_xyz c in torus_spiral rint x y z w h) =
               spiral rint (minimise_xyz c) w h)
    by (destruct (minimise_xyz c) as [[mx my] mz]; apply torus_spiral_eq).
  rewrite Es. clear Es.
  eexists. split; [reflexivity|].
  assert (Hm : hops (minimise_xyz c) = hexnorm (to2d (minimise_xyz c)))
    by (rewrite minimise_hops, minimise_to2d; reflexivity).
  destruct (spiral_spec rint (minimise_xyz c) w h Hr Hw Hh Hm) as (Hh1 & p & q & Hh2).
  set (v := spiral rint (minimise_xyz c) w h) in *.
  assert (A : hops v = shortest_torus_path_length s d w h).
  { rewrite Hh1, minimise_hops, torus_length_tlen, <- Hn, Hc. unfold to2d. now rewrite !Z.sub_0_r. }
  assert (B : wrap w h (chip_add (to2d s) (to2d v)) = wrap w h (to2d d)).
  { rewrite Hh2, minimise_to2d, Hc, torus_delta_to2d.
    destruct (to2d s) as [ax ay], (to2d d) as [bx by_].
    unfold wrap, chip_add, to2d; cbn [fst snd]. rewrite !Z.sub_0_r.
    rewrite !Z.add_assoc, !Z_mod_plus_full, !Zplus_mod_idemp_r. f_equal; f_equal; lia. }
  repeat split; auto.
  - rewrite torus_walk_wrap, vector_walk_end. exact B.
  - rewrite vector_walk_len. exact A.
Qed.

(* the error branch: a zero width or height is the only way not to get a vector *)
Lemma torus_path_error :
  forall k0 k1 k2 k3 rint s d w h,
    shortest_torus_path k0 k1 k2 k3 rint s d w h = OtherError <-> (w = 0 \/ h = 0).
Proof.
  intros. unfold shortest_torus_path.
  destruct (Z.eqb_spec w 0); destruct (Z.eqb_spec h 0); cbn [orb]; split; intros H;
    try discriminate; try reflexivity; lia.
Qed.

(* the code as found in the snapshot added the draw to the distance in floating point: a draw of
   1 - 2^-53 rounds 1 + draw up to 2.0, which ties with a two-hop approach listed earlier *)
Lemma torus_path_float_key_refuted :
  exists k0 k1 k2 k3 rint s d w h v,
    0 <= k0 < two53 /\ 0 <= k1 < two53 /\ 0 <= k2 < two53 /\ 0 <= k3 < two53 /\
    randint_contract rint /\ 1 <= w /\ 1 <= h /\
    shortest_torus_path_orig k0 k1 k2 k3 rint s d w h = Ok v /\
    hops v <> shortest_torus_path_length s d w h.
Proof.
  exists 0, (two53 - 1), 0, 0, (fun lo _ => lo), (0, 0, 0), (2, 0, 0), 3, 3, (2, 0, 0).
  repeat split; first [lia | vm_compute; congruence].
Qed.

(* ================================================================================================
   longest_dimension_first *)
(* the float key: a zero magnitude sorts strictly after every non-zero magnitude, whatever is drawn *)
Lemma fadd53_zero : forall k, fadd53 0 k = k.
Proof. intros. unfold fadd53. cbn. lia. Qed.

Lemma fadd53_pos : forall d k, 1 <= d -> 0 <= k -> two53 <= fadd53 d k.
Proof.
  intros d k Hd Hk. unfold fadd53. destruct (Z.leb_spec d 0); [lia|].
  assert (T : two53 = 2 * 4503599627370496) by reflexivity.
  pose proof (Z.log2_spec d ltac:(lia)) as [L _].
  pose proof (Z.log2_nonneg d) as Ln.
  rewrite Z.pow_add_r, Z.pow_1_r by lia.
  set (E := 2 ^ Z.log2 d) in *.
  assert (HE : 1 <= E) by (subst E; pose proof (Z.pow_pos_nonneg 2 (Z.log2 d) ltac:(lia) Ln); lia).
  set (u := E * 2). set (v := d * two53 + k).
  assert (Hq : 4503599627370496 <= v / u).
  { apply Z.div_le_lower_bound; [lia|]. subst u v. rewrite T. nia. }
  assert (Hqu : two53 <= v / u * u) by (rewrite T; nia).
  destruct (2 * (v mod u) <? u); [exact Hqu|].
  destruct (u <? 2 * (v mod u)); [nia|].
  destruct (Z.even (v / u)); [exact Hqu | nia].
Qed.

Lemma ldf_key_facts :
  forall m k, 0 <= k < two53 ->
              (m = 0 -> fadd53 (Z.abs m) k < two53) /\ (m <> 0 -> two53 <= fadd53 (Z.abs m) k).
Proof.
  intros m k Hk. split; intros H.
  - subst m. cbn [Z.abs]. rewrite fadd53_zero. lia.
  - apply fadd53_pos; lia.
Qed.

Fixpoint zeros_last (ds : list (Z * Z)) : Prop :=
  match ds with
  | [] => True
  | e :: t => (snd e = 0 -> Forall (fun e' => snd e' = 0) t) /\ zeros_last t
  end.

(* the order in which the dimensions are walked: one of the six permutations, zeros last *)
Lemma ldf_order_cases :
  forall k0 k1 k2 x y z, 0 <= k0 < two53 -> 0 <= k1 < two53 -> 0 <= k2 < two53 ->
    let o := ldf_order k0 k1 k2 (x, y, z) in
    zeros_last o /\
    (o = [(0, x); (1, y); (2, z)] \/ o = [(0, x); (2, z); (1, y)] \/ o = [(1, y); (0, x); (2, z)] \/
     o = [(1, y); (2, z); (0, x)] \/ o = [(2, z); (0, x); (1, y)] \/ o = [(2, z); (1, y); (0, x)]).
Proof.
  intros k0 k1 k2 x y z H0 H1 H2 o. subst o. unfold ldf_order, sort_desc.
  destruct (ldf_key_facts x k0 H0) as [X0 X1].
  destruct (ldf_key_facts y k1 H1) as [Y0 Y1].
  destruct (ldf_key_facts z k2 H2) as [Z0 Z1].
  generalize dependent (fadd53 (Z.abs x) k0). generalize dependent (fadd53 (Z.abs y) k1).
  generalize dependent (fadd53 (Z.abs z) k2). intros kz Z0 Z1 ky Y0 Y1 kx X0 X1.
  cbn [fold_right insert_desc fst snd].
  destruct (Z.leb_spec kz ky) as [A|A]; cbn [insert_desc fst snd map];
    destruct (Z.leb_spec ky kx) as [B|B]; cbn [insert_desc fst snd map];
      try (destruct (Z.leb_spec kz kx) as [C|C]; cbn [insert_desc fst snd map]);
      (split; [cbn [zeros_last snd]; repeat split; intros; repeat constructor; cbn [snd]; lia | tauto]).
Qed.

Lemma wrapo_ok : forall m x, size_ok m -> wrapo m x = Ok (wrap_opt m x).
Proof.
  intros [w|] x H; cbn in *; [|reflexivity]. destruct (Z.eqb_spec w 0); [lia|reflexivity].
Qed.

Lemma wrap_opt_add_l : forall m a b, wrap_opt m (wrap_opt m a + b) = wrap_opt m (a + b).
Proof. intros [w|] a b; cbn; [apply Zplus_mod_idemp_l | reflexivity]. Qed.

Lemma wrap_opt_congr_add :
  forall m a b c, wrap_opt m a = wrap_opt m b -> wrap_opt m (a + c) = wrap_opt m (b + c).
Proof. intros m a b c H. rewrite <- (wrap_opt_add_l m a c), H, wrap_opt_add_l. reflexivity. Qed.

Lemma ldf_step_ok :
  forall l width height p, size_ok width -> size_ok height ->
    ldf_step (fst (link_vec l)) (snd (link_vec l)) width height p =
    Ok (link_num l, wrap_opt2 width height (mesh_step p l)).
Proof.
  intros l width height p Hw Hh. unfold ldf_step. rewrite !wrapo_ok by assumption. cbn [bind].
  unfold wrap_opt2, mesh_step; cbn [fst snd]. destruct l; reflexivity.
Qed.

Lemma last_cons_default : forall (l : list chip) q d, last (q :: l) d = last l q.
Proof.
  induction l as [|a l IH]; intros q d; [reflexivity|].
  change (last (q :: a :: l) d) with (last (a :: l) d). rewrite (IH a d), (IH a q). reflexivity.
Qed.

Lemma walk_end_cons : forall p e out, walk_end p (e :: out) = walk_end (snd e) out.
Proof. intros p e out. unfold walk_end. cbn [map]. apply last_cons_default. Qed.

Lemma walk_end_app : forall o1 o2 p, walk_end p (o1 ++ o2) = walk_end (walk_end p o1) o2.
Proof.
  induction o1 as [|e o1 IH]; intros o2 p; [reflexivity|].
  change ((e :: o1) ++ o2) with (e :: (o1 ++ o2)). rewrite !walk_end_cons. apply IH.
Qed.

Lemma labelled_walk_app :
  forall width height o1 o2 p,
    labelled_walk width height p o1 -> labelled_walk width height (walk_end p o1) o2 ->
    labelled_walk width height p (o1 ++ o2).
Proof.
  intros width height. induction o1 as [|[n q] o1 IH]; intros o2 p H1 H2; [exact H2|].
  cbn [app labelled_walk] in *. destruct H1 as [Hs H1]. split; [exact Hs|].
  apply IH; [exact H1|]. rewrite walk_end_cons in H2. exact H2.
Qed.

Lemma ldf_steps_ok :
  forall l width height, size_ok width -> size_ok height ->
    forall n p, exists out,
      ldf_steps n (fst (link_vec l)) (snd (link_vec l)) width height p = Ok (out, walk_end p out) /\
      labelled_walk width height p out /\ length out = n /\
      wrap_opt2 width height (walk_end p out) =
      wrap_opt2 width height (fst p + Z.of_nat n * fst (link_vec l), snd p + Z.of_nat n * snd (link_vec l)).
Proof.
  intros l width height Hw Hh. induction n as [|n IH]; intros p.
  - exists []. cbn [ldf_steps]. repeat split. unfold walk_end; cbn [map last].
    destruct p as [x y]; cbn [fst snd]. unfold wrap_opt2; cbn [fst snd]. f_equal; f_equal; lia.
  - cbn [ldf_steps]. rewrite ldf_step_ok by assumption. cbn [bind snd].
    set (q := wrap_opt2 width height (mesh_step p l)).
    destruct (IH q) as (out & E & W & L & D). rewrite E. cbn [bind fst snd].
    exists ((link_num l, q) :: out). rewrite walk_end_cons. cbn [snd].
    split; [reflexivity|]. split; [|split].
    + cbn [labelled_walk]. split; [|exact W]. exists l. split; reflexivity.
    + cbn [length]. now rewrite L.
    + rewrite D. subst q. unfold wrap_opt2, mesh_step; cbn [fst snd].
      rewrite !wrap_opt_add_l. f_equal; f_equal; lia.
Qed.

Fixpoint sum_disp (ds : list (Z * Z)) : chip :=
  match ds with
  | [] => (0, 0)
  | e :: t => chip_add (snd e * fst (ldf_delta (fst e) 1), snd e * snd (ldf_delta (fst e) 1)) (sum_disp t)
  end.

Fixpoint sum_abs (ds : list (Z * Z)) : Z :=
  match ds with
  | [] => 0
  | e :: t => Z.abs (snd e) + sum_abs t
  end.

Lemma all_zero_sums :
  forall t, Forall (fun e' : Z * Z => snd e' = 0) t -> sum_disp t = (0, 0) /\ sum_abs t = 0.
Proof.
  induction t as [|e t IH]; intros H; [split; reflexivity|].
  inversion H as [|? ? He Ht]; subst. destruct (IH Ht) as [A B].
  cbn [sum_disp sum_abs]. rewrite A, B, He. unfold chip_add; cbn [fst snd]. split; [f_equal|]; lia.
Qed.

Lemma ldf_delta_link :
  forall dim sign, sign = 1 \/ sign = -1 ->
    exists l, ldf_delta dim sign = link_vec l /\
              fst (link_vec l) = sign * fst (ldf_delta dim 1) /\
              snd (link_vec l) = sign * snd (ldf_delta dim 1).
Proof.
  intros dim sign [-> | ->]; unfold ldf_delta;
    destruct (dim =? 0); [| destruct (dim =? 1) | | destruct (dim =? 1)].
  - exists East; repeat split.
  - exists North; repeat split.
  - exists SouthWest; repeat split.
  - exists West; repeat split.
  - exists South; repeat split.
  - exists NorthEast; repeat split.
Qed.

Lemma ldf_dims_ok :
  forall width height, size_ok width -> size_ok height ->
    forall ds p, zeros_last ds ->
      exists out, ldf_dims ds width height p = Ok out /\
                  labelled_walk width height p out /\
                  wrap_opt2 width height (walk_end p out) =
                  wrap_opt2 width height (chip_add p (sum_disp ds)) /\
                  Z.of_nat (length out) = sum_abs ds.
Proof.
  intros width height Hw Hh. induction ds as [|[dim mag] ds IH]; intros p Hz.
  - exists []. cbn. repeat split. unfold walk_end, chip_add; cbn.
    destruct p as [x y]; cbn. f_equal; f_equal; lia.
  - cbn [ldf_dims]. cbn [zeros_last snd] in Hz. destruct Hz as [Hz0 Hz].
    destruct (Z.eqb_spec mag 0) as [E0|N0].
    + exists []. destruct (all_zero_sums ds (Hz0 E0)) as [A B].
      cbn [sum_disp sum_abs fst snd length labelled_walk]. rewrite A, B, E0.
      repeat split. unfold walk_end, chip_add; cbn.
      destruct p as [x y]; cbn. f_equal; f_equal; lia.
    + set (sign := if mag >? 0 then 1 else -1).
      assert (Hs : sign = 1 \/ sign = -1) by (subst sign; destruct (mag >? 0); auto).
      assert (Hm : Z.abs mag * sign = mag).
      { subst sign. rewrite Z.gtb_ltb. destruct (Z.ltb_spec 0 mag); lia. }
      destruct (ldf_delta_link dim sign Hs) as (l & El & F1 & F2). rewrite El.
      destruct (ldf_steps_ok l width height Hw Hh (Z.to_nat (Z.abs mag)) p) as (o1 & E1 & W1 & L1 & D1).
      destruct (link_vec l) as [dx dy] eqn:Ev. cbn [fst snd] in *.
      rewrite E1. cbn [bind fst snd].
      destruct (IH (walk_end p o1) Hz) as (o2 & E2 & W2 & D2 & L2). rewrite E2. cbn [bind].
      exists (o1 ++ o2). repeat split.
      * apply labelled_walk_app; assumption.
      * rewrite walk_end_app, D2. cbn [sum_disp fst snd].
        unfold wrap_opt2 in *. injection D1 as D1x D1y. unfold chip_add; cbn [fst snd].
        rewrite Z2Nat.id in D1x, D1y by lia.
        rewrite (wrap_opt_congr_add width _ _ (fst (sum_disp ds)) D1x).
        rewrite (wrap_opt_congr_add height _ _ (snd (sum_disp ds)) D1y).
        rewrite F1, F2. f_equal; f_equal; nia.
      * rewrite app_length, Nat2Z.inj_add, L2, L1, Z2Nat.id by lia. reflexivity.
Qed.

Lemma ldf_walk :
  forall k0 k1 k2 v start width height,
    0 <= k0 < two53 -> 0 <= k1 < two53 -> 0 <= k2 < two53 -> size_ok width -> size_ok height ->
    exists out, longest_dimension_first k0 k1 k2 v start width height = Ok out /\
                ldf_spec v start width height out.
Proof.
  intros k0 k1 k2 [[x y] z] start width height H0 H1 H2 Hw Hh.
  unfold longest_dimension_first.
  destruct (ldf_order_cases k0 k1 k2 x y z H0 H1 H2) as [Hz Hc].
  destruct (ldf_dims_ok width height Hw Hh _ start Hz) as (out & E & W & D & L).
  exists out. split; [exact E|]. unfold ldf_spec. split; [exact W|].
  assert (S : sum_disp (ldf_order k0 k1 k2 (x, y, z)) = to2d (x, y, z) /\
              sum_abs (ldf_order k0 k1 k2 (x, y, z)) = hops (x, y, z)).
  { destruct Hc as [-> | [-> | [-> | [-> | [-> | ->]]]]];
      cbn [sum_disp sum_abs fst snd]; unfold ldf_delta, chip_add, to2d, hops; cbn [Z.eqb Pos.eqb fst snd Z.opp];
        (split; [f_equal|]; lia). }
  destruct S as [S1 S2]. rewrite S1 in D. rewrite S2 in L. split; [exact D | exact L].
Qed.

(* ================================================================================================
   Links.from_vector on wrap-around steps (systems larger than 2 x 2, as its docstring requires) *)
Lemma wrapped_component :
  forall w x dx, 3 <= w -> 0 <= x < w -> -1 <= dx <= 1 ->
    let a := (x + dx) mod w - x in
    (if Z.abs a >? 1 then (if a >? 0 then - (1) else 1) else a) = dx.
Proof.
  intros w x dx Hw Hx Hd a.
  assert (C : x + dx = -1 \/ x + dx = w \/ 0 <= x + dx < w) by lia.
  assert (Ha : a = dx \/ (a = dx - w /\ dx = 1) \/ (a = dx + w /\ dx = -1)).
  { subst a. destruct C as [C|[C|C]].
    - right; right. replace (x + dx) with (w - 1 + (-1) * w) by lia.
      rewrite Z_mod_plus_full, Z.mod_small by lia. lia.
    - right; left. rewrite C, Z_mod_same_full. lia.
    - left. rewrite Z.mod_small by lia. lia. }
  clearbody a. rewrite !Z.gtb_ltb.
  destruct (Z.ltb_spec 1 (Z.abs a)); destruct (Z.ltb_spec 0 a); lia.
Qed.

Lemma links_from_vector_wrap :
  forall w h p l, 3 <= w -> 3 <= h -> 0 <= fst p < w -> 0 <= snd p < h ->
    links_from_vector (chip_sub (torus_step w h p l) p) = Some (link_num l).
Proof.
  intros w h [x y] l Hw Hh Hx Hy. cbn [fst snd] in Hx, Hy.
  unfold torus_step, wrap, mesh_step, chip_sub; cbn [fst snd].
  unfold links_from_vector.
  assert (Dx : -1 <= fst (link_vec l) <= 1) by (destruct l; cbn; lia).
  assert (Dy : -1 <= snd (link_vec l) <= 1) by (destruct l; cbn; lia).
  pose proof (wrapped_component w x (fst (link_vec l)) Hw Hx Dx) as Ex.
  pose proof (wrapped_component h y (snd (link_vec l)) Hh Hy Dy) as Ey.
  cbv zeta in Ex, Ey. rewrite Ex, Ey. destruct l; reflexivity.
Qed.

(* ================================================================================================
   Remaining small facts *)
Lemma to_xyz_to2d : forall xy, to2d (to_xyz xy) = xy.
Proof. intros [x y]. unfold to_xyz, to2d. f_equal; lia. Qed.

Lemma torus_length_representation :
  forall s d s' d' w h, to2d s = to2d s' -> to2d d = to2d d' ->
    shortest_torus_path_length s d w h = shortest_torus_path_length s' d' w h.
Proof. intros s d s' d' w h H1 H2. rewrite !torus_length_tlen, !torus_delta_to2d, H1, H2. reflexivity. Qed.

Lemma torus_length_error :
  forall s d w h, torus_path_length_checked s d w h = OtherError <-> (w = 0 \/ h = 0).
Proof.
  intros. unfold torus_path_length_checked.
  destruct (Z.eqb_spec w 0); destruct (Z.eqb_spec h 0); cbn [orb]; split; intros H;
    try discriminate; try reflexivity; lia.
Qed.

(* ---- instances showing that the hypotheses are satisfiable and the statements not vacuous *)
Definition ex_rint (lo hi : Z) : Z := hi.

Lemma ex_randint_contract : randint_contract ex_rint.
Proof. intros lo hi H. unfold ex_rint. lia. Qed.

(* a 20 x 2 torus: the vector (5, 0, 0) is spiralled twice round the short axis *)
Lemma ex_torus_path :
  shortest_torus_path 0 0 0 0 ex_rint (0, 0, 0) (5, 0, 0) 20 2 = Ok (1, 0, -4) /\
  shortest_torus_path_length (0, 0, 0) (5, 0, 0) 20 2 = 5 /\ randint_contract ex_rint.
Proof. split; [reflexivity|]. split; [reflexivity|]. exact ex_randint_contract. Qed.

Lemma ex_ldf :
  longest_dimension_first 0 0 0 (1, 0, -4) (0, 0) (Some 20) (Some 2) =
  Ok [(1, (1, 1)); (1, (2, 0)); (1, (3, 1)); (1, (4, 0)); (0, (5, 0))] /\
  0 <= 0 < two53 /\ size_ok (Some 20) /\ size_ok (Some 2).
Proof. split; [reflexivity|]. cbn. unfold two53. lia. Qed.

Lemma lengths_independent_of_representation :
  forall s d s' d', to2d s = to2d s' -> to2d d = to2d d' ->
    shortest_mesh_path_length s d = shortest_mesh_path_length s' d' /\
    forall w h, shortest_torus_path_length s d w h = shortest_torus_path_length s' d' w h.
Proof.
  intros s d s' d' H1 H2. split.
  - now apply mesh_length_representation.
  - intros w h. now apply torus_length_representation.
Qed.

(* ================================================================================================
   Error clauses and table consistency *)
(* from_vector raises KeyError exactly on the null vector (after the wrap-around collapse) *)
Lemma links_from_vector_error :
  forall v, links_from_vector v = None <-> v = (0, 0).
Proof.
  intros [x y]. split.
  - intros H. unfold links_from_vector in H.
    match type of H with link_direction_lookup (?a, ?b) = _ =>
      assert (Ha : -1 <= a <= 1 /\ (a = 0 -> x = 0)) by
        (destruct (Z.abs x >? 1) eqn:E; [destruct (x >? 0); lia | rewrite Z.gtb_ltb in E; apply Z.ltb_ge in E; lia]);
      assert (Hb : -1 <= b <= 1 /\ (b = 0 -> y = 0)) by
        (destruct (Z.abs y >? 1) eqn:E; [destruct (y >? 0); lia | rewrite Z.gtb_ltb in E; apply Z.ltb_ge in E; lia]);
      remember a as a' eqn:Ea; remember b as b' eqn:Eb; clear Ea Eb
    end.
    destruct Ha as [Ha Ha0]. destruct Hb as [Hb Hb0].
    assert (Ca : a' = -1 \/ a' = 0 \/ a' = 1) by lia.
    assert (Cb : b' = -1 \/ b' = 0 \/ b' = 1) by lia.
    destruct Ca as [ -> | [ -> | -> ] ]; destruct Cb as [ -> | [ -> | -> ] ]; vm_compute in H;
      try discriminate. f_equal; auto.
  - intros E. injection E as -> ->. reflexivity.
Qed.

(* the dumped dictionaries: _direction_link_lookup holds exactly the six links with their vectors, and
   every key of _link_direction_lookup leads to a link *)
Lemma direction_link_lookup_sound :
  forall k v, direction_link_lookup k = Some v -> exists l, k = link_num l /\ v = link_vec l.
Proof.
  intros k v H. unfold direction_link_lookup, direction_link_table in H. cbn [direction_link_lookup_in] in H.
  repeat match type of H with
         | (if Z.eqb ?a k then _ else _) = _ =>
             destruct (Z.eqb_spec a k);
             [ injection H as <-; subst k;
               first [ now exists East | now exists NorthEast | now exists North
                     | now exists West | now exists SouthWest | now exists South ] | ]
         end.
  discriminate.
Qed.

Lemma link_direction_table_links :
  Forall (fun e => exists l, snd e = link_num l) link_direction_table.
Proof.
  unfold link_direction_table.
  repeat constructor; cbn [snd];
    first [ now exists East | now exists NorthEast | now exists North
          | now exists West | now exists SouthWest | now exists South ].
Qed.

(* a zero width or height: the first step raises ZeroDivisionError; without a step nothing is raised *)
Lemma ldf_dims_zero_size :
  forall width height ds p,
    size_zero width || size_zero height = true ->
    zeros_last ds -> (exists e, In e ds /\ snd e <> 0) ->
    ldf_dims ds width height p = OtherError.
Proof.
  intros width height ds p Hz. destruct ds as [|[dim mag] ds]; intros Hl (e & He & Hn).
  - destruct He.
  - cbn [ldf_dims]. cbn [zeros_last snd] in Hl. destruct Hl as [Hl0 _].
    destruct (Z.eqb_spec mag 0) as [E0|N0].
    + exfalso. destruct He as [<-|He]; [cbn in Hn; lia|].
      specialize (Hl0 E0). rewrite Forall_forall in Hl0. apply Hn. now apply Hl0.
    + destruct (ldf_delta dim (if mag >? 0 then 1 else -1)) as [dx dy].
      destruct (Z.to_nat (Z.abs mag)) as [|n] eqn:En; [lia|].
      cbn [ldf_steps]. unfold ldf_step.
      destruct width as [w|], height as [h|]; cbn [size_zero orb wrapo] in *;
        try discriminate;
        repeat match goal with
               | |- context [?a =? 0] => destruct (Z.eqb_spec a 0); cbn [bind orb] in *
               end; try reflexivity; try discriminate.
Qed.

Lemma ldf_zero_size_error :
  forall k0 k1 k2 v start width height,
    0 <= k0 < two53 -> 0 <= k1 < two53 -> 0 <= k2 < two53 ->
    size_zero width || size_zero height = true ->
    longest_dimension_first k0 k1 k2 v start width height =
    if hops v =? 0 then Ok [] else OtherError.
Proof.
  intros k0 k1 k2 [[x y] z] start width height H0 H1 H2 Hz.
  unfold longest_dimension_first.
  destruct (ldf_order_cases k0 k1 k2 x y z H0 H1 H2) as [Hl Hc].
  destruct (Z.eqb_spec (hops (x, y, z)) 0) as [E|N]; unfold hops in *.
  - assert (x = 0 /\ y = 0 /\ z = 0) as (-> & -> & ->) by lia.
    destruct Hc as [-> | [-> | [-> | [-> | [-> | ->]]]]]; reflexivity.
  - apply ldf_dims_zero_size; [exact Hz | exact Hl |].
    assert (C : x <> 0 \/ y <> 0 \/ z <> 0) by lia.
    destruct C as [C|[C|C]];
      [exists (0, x) | exists (1, y) | exists (2, z)]; (split; [|exact C]);
      destruct Hc as [-> | [-> | [-> | [-> | [-> | ->]]]]]; cbn; tauto.
Qed.

(* ================================================================================================
   Tie of longest_dimension_first's arithmetic to the source text: the fragments translated on every run
   (Generated/GenGeometryShapes.v) equal the definitions the model uses *)
Lemma ldf_source_tie :
  (forall m, ldf_sign m = (if m >? 0 then 1 else -1)) /\
  (forall m, ldf_count m = Z.abs m) /\
  (forall dim sign, 0 <= dim <= 2 -> ldf_delta_src dim sign = ldf_delta dim sign) /\
  (forall x y dx dy width height,
      size_zero width || size_zero height = false ->
      bind (wrapo width (x + dx)) (fun x' => bind (wrapo height (y + dy)) (fun y' => Ok (x', y'))) =
      Ok (ldf_advance x y dx dy (has_size width) (size_val width) (has_size height) (size_val height))).
Proof.
  split; [|split; [|split]].
  - intros m. unfold ldf_sign. destruct (m >? 0); reflexivity.
  - intros m. reflexivity.
  - intros dim sign H. assert (C : dim = 0 \/ dim = 1 \/ dim = 2) by lia.
    destruct C as [-> | [-> | ->]]; reflexivity.
  - intros x y dx dy width height H. apply orb_false_iff in H. destruct H as [Hw Hh].
    unfold ldf_advance. destruct width as [w|], height as [h|];
      cbn [wrapo size_zero has_size size_val bind] in *; rewrite ?Hw, ?Hh; reflexivity.
Qed.

(* on a torus larger than 2 x 2 the link between two adjacent chips is unique: the label of a step is pinned *)
Lemma torus_link_unique :
  forall w h p l1 l2, 3 <= w -> 3 <= h -> 0 <= fst p < w -> 0 <= snd p < h ->
    torus_step w h p l1 = torus_step w h p l2 -> l1 = l2.
Proof.
  intros w h p l1 l2 Hw Hh Hx Hy E.
  pose proof (links_from_vector_wrap w h p l1 Hw Hh Hx Hy) as A.
  pose proof (links_from_vector_wrap w h p l2 Hw Hh Hx Hy) as B.
  rewrite E, B in A. injection A as A. destruct l1, l2; cbn in A; congruence.
Qed.
