(* C20 -- what the property says, stated on the inputs of a boot and on what is observed (the datagrams given
   to the socket, the struct definitions returned, the caller's dictionary).  Definitions only.
   Numbers are written out (1 KiB, 32 blocks, commands 1/3/5, offset 384, length 128, big-endian header):
   the theorems relate them to the constants regenerated from /repo. *)
From Coq Require Import ZArith List Bool String.
Require Import Rig.Generated.GenBoot Rig.Model.Base Rig.Model.Boot.
Import ListNotations.
Open Scope Z_scope.

(* ------------------------------------------------------------------ representation invariants *)
Definition is_byte (x : Z) : Prop := 0 <= x < 256.
Definition bytes_ok (b : bytes) : Prop := Forall is_byte b.           (* a Python bytes object *)
Definition dict_ok (d : dict) : Prop := NoDup (map fst d).            (* a Python dict: distinct keys *)
Definition opt_dict_ok (d : option dict) : Prop := match d with Some d => dict_ok d | None => True end.

(* ------------------------------------------------------------------ the documented wire format *)
Definition be16 (v : Z) : bytes := [(v / 256) mod 256; v mod 256].
Definition be32 (v : Z) : bytes := [(v / 16777216) mod 256; (v / 65536) mod 256; (v / 256) mod 256; v mod 256].

(* protocol version, command, three arguments: network byte order, 18 bytes *)
Definition header (ver cmd a1 a2 a3 : Z) : bytes := be16 ver ++ be32 cmd ++ be32 a1 ++ be32 a2 ++ be32 a3.

(* the word-wise byte swap (little-endian image words are sent big-endian); its own inverse *)
Fixpoint word_swap (b : bytes) : bytes :=
  match b with
  | a :: b' :: c :: d :: r => d :: c :: b' :: a :: word_swap r
  | _ => []
  end.

Definition start_datagram (n_blocks : Z) : bytes := header 1 1 0 0 (n_blocks - 1).   (* arg3 = blocks - 1 *)
Definition end_datagram : bytes := header 1 5 1 0 0.                                 (* arg1 = 1 *)
(* arg1: bits 7:0 the block number, bits 31:8 the number of words of a full block minus one *)
Definition block_datagram (i : Z) (payload : bytes) : bytes :=
  header 1 3 (255 * 256 + i) 0 0 ++ word_swap payload.

Fixpoint block_datagrams (i : Z) (payloads : list bytes) : list bytes :=
  match payloads with
  | [] => []
  | p :: ps => block_datagram i p :: block_datagrams (i + 1) ps
  end.

(* start (announcing the number of blocks), the blocks numbered 0, 1, ... each of at most 1 KiB, end *)
Definition boot_sequence (ds : list bytes) (payloads : list bytes) : Prop :=
  1 <= len payloads <= 32 /\
  Forall (fun p => 0 < len p <= 1024 /\ len p mod 4 = 0) payloads /\
  ds = start_datagram (len payloads) :: block_datagrams 0 payloads ++ [end_datagram].

(* what a receiver does: drop the start and end datagrams, strip the 18-byte headers, undo the swap *)
Definition reassemble (ds : list bytes) : bytes :=
  List.concat (map (fun d => word_swap (skipn 18 d)) (removelast (tl ds))).

(* the boot image with the 128-byte configuration area at byte 384 replaced by the head of the packed sv *)
Definition expected_image (image packed : bytes) : bytes :=
  firstn 384 image ++ firstn 128 packed ++ skipn 512 image.

(* ------------------------------------------------------------------ this call's options *)
(* the value of system variable [name] a boot with arguments c must send: the fixed fields boot() always
   sets, else the keyword override, else the entry of sv_overrides, else the struct file's default *)
Definition option_value (c : call) (name : string) (dflt : Z) : Z :=
  if String.eqb name "unix_time" then c_clock c 0%nat
  else if String.eqb name "boot_sig" then c_clock c 1%nat
  else if String.eqb name "root_chip" then 1
  else match lookup name (c_kwargs c) with
       | Some v => v
       | None =>
           match c_overrides c with
           | Some d => match lookup name d with Some v => v | None => dflt end
           | None => dflt
           end
       end.

(* the sv definition with exactly this call's values as defaults *)
Definition described_fields (c : call) : list field :=
  map (fun f => with_default f (option_value c (f_name f) (f_default f))) (s_fields (c_sv c)).

(* ------------------------------------------------------------------ well-formed struct definitions *)
(* integer fields inside the struct, pairwise disjoint, and a configuration area's worth of bytes *)
Definition field_span (f : field) : option (Z * Z) :=
  match pack_kind (f_pack f) with
  | Some (_, w) => Some (f_offset f, f_offset f + Z.of_nat w)
  | None => None
  end.

Definition span_in (size : Z) (f : field) : bool :=
  match field_span f with
  | Some (a, b) => (0 <=? a) && (b <=? size)
  | None => false
  end.

Definition disjoint_fields (f g : field) : bool :=
  match field_span f, field_span g with
  | Some (a, b), Some (a', b') => (b <=? a') || (b' <=? a)
  | _, _ => false
  end.

Fixpoint all_disjoint (fs : list field) : bool :=
  match fs with
  | [] => true
  | f :: r => forallb (disjoint_fields f) r && all_disjoint r
  end.

Definition sv_wf (s : sdef) : bool :=
  (128 <=? s_size s) && forallb (span_in (s_size s)) (s_fields s) && all_disjoint (s_fields s).

(* ------------------------------------------------------------------ the domain of a boot *)
(* every option names a system variable *)
Definition names_known (d : dict) (fs : list field) : Prop :=
  Forall (fun kv => has_field (fst kv) fs = true) d.

Definition call_in_domain (c : call) : Prop :=
  bytes_ok (c_image c) /\ len (c_image c) mod 4 = 0 /\ 512 <= len (c_image c) < 32768 /\
  opt_dict_ok (c_overrides c) /\ dict_ok (c_kwargs c) /\
  names_known (match c_overrides c with Some d => d | None => [] end) (s_fields (c_sv c)) /\
  names_known (c_kwargs c) (s_fields (c_sv c)) /\
  has_field "unix_time" (s_fields (c_sv c)) = true /\ has_field "boot_sig" (s_fields (c_sv c)) = true /\
  has_field "root_chip" (s_fields (c_sv c)) = true /\
  128 <= s_size (c_sv c) /\
  Forall (fun f => pack_value (f_pack f) (f_default f) <> None) (described_fields c).   (* values fit their fields *)

(* ------------------------------------------------------------------ one boot, in a fresh process and in a history *)
Definition boot_alone (c : call) : outcome := snd (boot_step initial_shared c).
Definition boot_after (earlier : list call) (c : call) : outcome :=
  snd (boot_step (fst (run boot_step initial_shared earlier)) c).
Definition boot_orig_alone (c : call) : outcome := snd (boot_orig_step initial_shared c).
Definition boot_orig_after (earlier : list call) (c : call) : outcome :=
  snd (boot_orig_step (fst (run boot_orig_step initial_shared earlier)) c).
