(* C01 <- C03, with C03's own theorems discharging what nets_ok_of_C03 had to assume (audit follow-up):
   for nets routed by the MODEL of the router under C03's hypotheses, every chip of the tree is a working chip
   (C03 route_all_working) and every leaf route is a member of Routes (C03 leaf_routes_in_range), so only the
   endpoint-link side condition remains a hypothesis. *)
From Coq Require Import ZArith List Bool Lia.
Require Import Rig.Model.Base Rig.Model.Table Rig.Model.Tables Rig.Model.Network Rig.Spec.Network.
Require Rig.Model.Route Rig.Spec.Route.
Require Import Rig.Proofs.NetworkComposeDefs Rig.Proofs.NetworkComposeRoute.
Require Rig.Proofs.RouteValid Rig.Proofs.RouteWorking.
Import ListNotations.
Open Scope Z_scope.

(* t is what the router model returns for some net under the hypotheses of C03_route_valid, with endpoint
   constraints naming members of Routes *)
Definition routed_by_model (m : Route.rmachine) (t : Route.rtree) : Prop :=
  exists source sinks dests pl cons allocs radius s order src,
    1 <= Route.rm_w m /\ 1 <= Route.rm_h m
    /\ zassoc source pl = Some src /\ Route.working_chip m src
    /\ Forall (Route.working_chip m) dests /\ Route.stream_ok s
    /\ (forall v, In v sinks -> exists c, zassoc v pl = Some c /\ In c dests)
    /\ (forall v a b, In v sinks -> zassoc v allocs = Some (a, b) -> 0 <= a /\ b <= 18)
    /\ (forall v r, In (v, r) cons -> 0 <= r < 24)
    /\ RouteValid.order_ok_route m src dests radius s order
    /\ Route.route_net m source sinks dests pl cons allocs radius s order = Ok t.

Lemma nets_ok_of_route_net : forall m (rroutes : list (Z * Route.rtree)) (net_keys : list (Z * km)),
  (forall n t, In (n, t) rroutes -> exists c, zassoc n net_keys = Some c /\ km32 c) ->
  (forall n1 t1 n2 t2 c1 c2,
     In (n1, t1) rroutes -> In (n2, t2) rroutes -> n1 <> n2 ->
     zassoc n1 net_keys = Some c1 -> zassoc n2 net_keys = Some c2 -> km_disjoint c1 c2) ->
  (forall n t, In (n, t) rroutes ->
     routed_by_model m t
     /\ (forall p l c, In (p, Some l, c) (Route.tree_hops t) ->
                       ~ In (p, l) (tree_exits (rtree_of (tree_of t))))) ->
  nets_ok (nm_of m) (map (fun nt => (fst nt, tree_of (snd nt))) rroutes) net_keys.
Proof.
  intros m rroutes net_keys Hkeys Hdisj Hnets.
  apply nets_ok_of_C03; [exact Hkeys | exact Hdisj |].
  intros n t Hin. destruct (Hnets n t Hin) as [Hr Hend].
  destruct Hr as (source & sinks & dests & pl & cons & allocs & radius & s & order & src &
                  Hw & Hh & Hsrc & Hwsrc & Hdests & Hs & Hsinks & Hallocs & Hcons & Hord & Hroute).
  assert (Hvalid : Route.ValidTree m src (Route.sink_reqs sinks pl cons allocs) t).
  { destruct (RouteValid.route_valid m source sinks dests pl cons allocs radius s order src
                Hw Hh Hsrc Hwsrc Hdests Hs Hsinks Hallocs Hord) as [[t' [Ht' Hv]] | [Hf _]].
    - rewrite Hroute in Ht'. injection Ht' as <-. exact Hv.
    - rewrite Hroute in Hf. discriminate Hf. }
  split; [exists src, (Route.sink_reqs sinks pl cons allocs); exact Hvalid |].
  split; [| split; [| exact Hend]].
  - intros c Hc.
    pose proof (RouteWorking.route_all_working m source sinks dests pl cons allocs radius s order src t
                  Hw Hh Hsrc Hwsrc Hdests Hs Hsinks Hallocs Hord Hroute c Hc) as [_ [_ Hnd]].
    exact Hnd.
  - intros c r v Hleaf.
    exact (RouteWorking.leaf_routes_in_range m src sinks pl cons allocs t Hvalid Hcons Hallocs c r v Hleaf).
Qed.
