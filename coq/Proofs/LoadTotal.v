(* C09: under the guards, load_application raises nothing but the loading error: the model returns
   [Ok] (Returned or LoadingError), never [OtherError] (and never OutOfFuel, Proofs/LoadFuel.v).
   Progress lemmas for every operation, in the order of the code; what each operation leaves behind is
   taken from the lemmas of Proofs/LoadCtrl.v / LoadFill.v / LoadLoop.v. *)
From Coq Require Import ZArith List Bool Lia.
Require Import Rig.Generated.GenRegions Rig.Generated.GenLoad Rig.Generated.GenLoadShape Rig.Model.Base Rig.Model.Regions Rig.Spec.Regions.
Require Import Rig.Model.Load Rig.Spec.Load.
Require Import Rig.Proofs.Regions Rig.Proofs.RegionsOrder Rig.Proofs.LoadBits Rig.Proofs.LoadMachine Rig.Proofs.LoadCtrl
               Rig.Proofs.LoadFill Rig.Proofs.LoadCount Rig.Proofs.LoadLoop Rig.Proofs.LoadPack.
Import ListNotations.
Open Scope Z_scope.

Ltac Zify.zify_post_hook ::= Z.to_euclidean_division_equations.

(* ---------------------------------------------------------------- sver / read *)
Lemma get_buffer_progress : forall c w, alive (w_m w) ->
  exists c1 w1 b, get_buffer c w = Ok (c1, w1, b).
Proof.
  intros c w Ha. unfold get_buffer. destruct (c_buffer c) as [b|]; [eexists _, _, _; reflexivity|].
  destruct (send_progress w (mkPkt 255 255 0 SCPCommands_sver 0 0 0 [])) as (w1 & r & Hs).
  - reflexivity.
  - apply mstep_answers; [split; reflexivity|exact Ha|left; reflexivity].
  - rewrite Hs. cbn [bind snd fst]. pose proof Hs as Hs'. apply send_inv in Hs'. destruct Hs' as (_ & Hr & _ & _).
    fold sver_pkt in Hr. rewrite mstep_sver in Hr. unfold alive in Ha.
    destruct (hd_error (m_chips (w_m w))); [|congruence]. cbn [snd] in Hr. subst r. eexists _, _, _; reflexivity.
Qed.

Lemma dtype_total : forall a l, exists dt, dtype_lookup (a mod 4, l mod 4) address_length_dtype = Some dt /\ 0 <= dt < 3.
Proof.
  intros a l. assert (Ha : 0 <= a mod 4 < 4) by (apply Z.mod_pos_bound; lia).
  assert (Hl : 0 <= l mod 4 < 4) by (apply Z.mod_pos_bound; lia).
  assert (Ca : a mod 4 = 0 \/ a mod 4 = 1 \/ a mod 4 = 2 \/ a mod 4 = 3) by lia.
  assert (Cl : l mod 4 = 0 \/ l mod 4 = 1 \/ l mod 4 = 2 \/ l mod 4 = 3) by lia.
  destruct Ca as [ -> | [ -> | [ -> | -> ] ] ]; destruct Cl as [ -> | [ -> | [ -> | -> ] ] ]; eexists; (split; [reflexivity|lia]).
Qed.

(* a read that fits the buffer, from an existing chip, at a 32-bit address *)
Lemma read_progress : forall c w x y p addr len,
  ctrl_wf c (w_m w) -> alive (w_m w) -> 0 < len <= m_buffer (w_m w) -> m_buffer (w_m w) <= 1024 ->
  0 <= x < 256 -> 0 <= y < 256 -> 0 <= addr < 4294967296 ->
  dest_chip (w_m w) x y <> None ->
  exists c' w' d, read c w x y p addr len = Ok (c', w', d).
Proof.
  intros c w x y p addr len Hc Ha Hlen Hb Hx Hy Haddr Hd. unfold read.
  destruct (get_buffer_progress c w Ha) as (c1 & w1 & b & Hg). rewrite Hg. cbn [bind].
  apply get_buffer_inv in Hg; [|exact Hc]. destruct Hg as (Hbv & _ & _ & Hm1 & _).
  destruct (b <=? 0) eqn:Eb; [apply Z.leb_le in Eb; lia|].
  cbn [read_loop]. destruct (len >? 0) eqn:El; [|rewrite Z.gtb_ltb in El; apply Z.ltb_ge in El; lia].
  rewrite Z.min_l by lia. destruct (dtype_total addr len) as (dt & Hdt & Hdtr). rewrite Hdt.
  destruct (send_progress w1 (mkPkt x y p SCPCommands_read addr len dt [])) as (w2 & r & Hs).
  - apply packable_intro; try assumption; try (apply word32_range; lia). vm_compute. split; congruence.
  - rewrite mstep_read, Hm1. destruct (dest_chip (w_m w) x y) as [[xy ch]|]; [|congruence].
    destruct (len >? m_buffer (w_m w)) eqn:Eg; [rewrite Z.gtb_ltb in Eg; apply Z.ltb_lt in Eg; lia|]. discriminate.
  - rewrite Hs. cbn [bind fst snd]. pose proof Hs as Hs'. apply send_inv in Hs'. destruct Hs' as (_ & Hr & _ & _).
    rewrite mstep_read, Hm1 in Hr. destruct (dest_chip (w_m w) x y) as [[xy ch]|]; [|congruence].
    destruct (len >? m_buffer (w_m w)) eqn:Eg; [rewrite Z.gtb_ltb in Eg; apply Z.ltb_lt in Eg; lia|].
    cbn [snd] in Hr. subst r. rewrite mread_length, Z.max_r by lia. rewrite Z.eqb_refl.
    rewrite Z.sub_diag, read_loop_done. cbn [bind fst snd]. eexists _, _, _; reflexivity.
Qed.

Lemma mread_4 : forall m vb cs a, exists b0 b1 b2 b3, mread m vb cs a 4 = [b0; b1; b2; b3].
Proof. intros. unfold mread. rewrite seq4. cbn [map]. eexists _, _, _, _; reflexivity. Qed.

Lemma read_sv_word_progress : forall c w off x y,
  ctrl_wf c (w_m w) -> alive (w_m w) -> 4 <= m_buffer (w_m w) <= 1024 ->
  0 <= x < 256 -> 0 <= y < 256 -> 0 <= sv_base + off < 4294967296 -> dest_chip (w_m w) x y <> None ->
  exists c' w' v, read_sv_word c w off x y = Ok (c', w', v).
Proof.
  intros c w off x y Hc Ha Hb Hx Hy Hoff Hd. unfold read_sv_word.
  destruct (read_progress c w x y 0 (sv_base + off) 4 Hc Ha ltac:(lia) ltac:(lia) Hx Hy Hoff Hd) as (c1 & w1 & d & Hr).
  rewrite Hr. cbn [bind fst snd]. apply read_inv in Hr; [|exact Hc|lia].
  destruct Hr as (_ & _ & _ & (xy & ch & _ & Hdd) & _). destruct (mread_4 (w_m w) (m_vcpu (w_m w) xy) (ch_cores ch) (sv_base + off)) as (b0 & b1 & b2 & b3 & E).
  rewrite Hdd, E. cbn [of_le32]. eexists _, _, _; reflexivity.
Qed.

Lemma dest_chip_has : forall m x y, In (x, y) (map fst (m_chips m)) -> ~ (x = 255 /\ y = 255) -> dest_chip m x y <> None.
Proof.
  intros m x y Hin Hxy. rewrite dest_chip_plain by exact Hxy.
  destruct (cassoc (x, y) (m_chips m)) eqn:E; [discriminate|]. exfalso.
  apply in_map_iff in Hin. destruct Hin as [[k ch] [Hk Hin]]. cbn [fst] in Hk. subst k.
  clear -E Hin. induction (m_chips m) as [|[k' c'] l IH]; [destruct Hin|]. cbn [cassoc] in E.
  destruct (chip_eqb (x, y) k') eqn:Ek; [discriminate|]. destruct Hin as [Hin|Hin].
  - inversion Hin; subst. rewrite chip_eqb_refl in Ek. discriminate.
  - apply IH; assumption.
Qed.

Lemma alive_dest_bcast : forall m, alive m -> dest_chip m 255 255 <> None.
Proof. intros m H. exact H. Qed.

Lemma read_cpu_state_progress : forall c w x y p,
  ctrl_wf c (w_m w) -> machine_wf (w_m w) -> alive (w_m w) ->
  m_vcpu (w_m w) (x, y) + VCPU_SIZE * N_CORES <= 4294967296 ->
  in_space (x, y, p) -> ~ (x = 255 /\ y = 255) -> In (x, y) (map fst (m_chips (w_m w))) ->
  exists c' w' s, read_cpu_state c w x y p = Ok (c', w', s).
Proof.
  intros c w x y p Hc Hm Ha Hv (Hx & Hy & Hp) Hxy Hin. unfold read_cpu_state.
  pose proof Hm as (_ & _ & _ & Hvcpu & _ & Hbuf & _). specialize (Hvcpu _ Hin).
  pose proof (dest_chip_has _ _ _ Hin Hxy) as Hd.
  destruct (read_sv_word_progress c w sv_vcpu_base_offset x y Hc Ha Hbuf Hx Hy ltac:(vm_compute; split; congruence) Hd)
    as (c1 & w1 & v & Hr). rewrite Hr. cbn [bind].
  apply read_sv_word_inv in Hr; [|exact Hc|lia]. destruct Hr as (Hm1 & Hcb1 & Hcn1 & (xy & ch & Hdc & Hv1) & _).
  rewrite dest_chip_plain in Hdc by exact Hxy.
  destruct (cassoc (x, y) (m_chips (w_m w))) as [ch0|]; [|discriminate]. inversion Hdc; subst xy ch. clear Hdc.
  rewrite mread_vcpu_base, of_le32_le32 in Hv1 by exact Hvcpu. inversion Hv1; subst v. clear Hv1.
  assert (Hc1 : ctrl_wf c1 (w_m w1)).
  { split; [rewrite Hcn1; exact (proj1 Hc)|right; rewrite Hcb1, Hm1; reflexivity]. }
  unfold VCPU_SIZE, N_CORES in Hv. change vcpu_size with 128. change vcpu_cpu_state_offset with 46. change vcpu_cpu_state_size with 1.
  destruct (read_progress c1 w1 x y 0 (m_vcpu (w_m w) (x, y) + 128 * p + 46) 1 Hc1) as (c2 & w2 & d & Hr2);
    try (rewrite Hm1); try assumption; try lia.
  rewrite Hr2. cbn [bind fst snd]. apply read_inv in Hr2; [|exact Hc1|rewrite Hm1; lia].
  destruct Hr2 as (_ & _ & _ & (xy2 & ch2 & _ & Hdd) & _). rewrite Hdd. unfold mread. cbn [Z.to_nat Pos.to_nat Pos.iter_op seq map].
  eexists _, _, _; reflexivity.
Qed.

(* ---------------------------------------------------------------- one flood fill *)
Lemma closed_words : word32 ffs_arg2 = true /\ word32 (ffs_arg3 ff_fr) = true /\ word32 (ffcs_arg3 ff_fr) = true
  /\ word32 (ffe_arg3 ff_fr) = true /\ word32 (signal_arg1 signal_type_start) = true /\ word32 signal_arg3 = true
  /\ word32 count_arg1 = true /\ word32 count_arg3 = true.
Proof. vm_compute. repeat split; reflexivity. Qed.

Lemma send_ffcs_all_progress : forall fills w,
  Forall pair_well_formed fills -> alive (w_m w) ->
  exists w', send_ffcs_all w fills ff_fr = Ok w'.
Proof.
  induction fills as [|[region mask] fills IH]; intros w Hw Ha; [eexists; reflexivity|].
  inversion Hw as [|? ? [Hr Hm] Hrest]; subst. cbn [fst snd] in Hr, Hm. change (2 ^ 18) with 262144 in Hm.
  change (2 ^ 32) with 4294967296 in Hr. cbn [send_ffcs_all].
  destruct (send__progress w (mkPkt ffcs_x ffcs_y ffcs_p ffcs_cmd (ffcs_arg1 mask) (ffcs_arg2 region) (ffcs_arg3 ff_fr) []))
    as (w1 & Hs & Hk).
  - apply packable_bcast; [vm_compute; split; congruence|apply ffcs_word; lia|apply word32_range; exact Hr|apply closed_words].
  - apply mstep_answers; [split; reflexivity|exact Ha|right; left; reflexivity].
  - rewrite Hs. cbn [bind]. apply IH; [exact Hrest|]. eapply alive_keys; [exact Hk|exact Ha].
Qed.

Lemma send_ffd_progress : forall pid data buffer base,
  0 <= pid < 256 -> 4 <= buffer <= 1024 -> buffer mod 4 = 0 ->
  zlen data mod 4 = 0 -> ff_n_blocks (zlen data) buffer <= 255 ->
  0 <= base -> base + zlen data <= 4294967296 ->
  forall fuel w pos block,
    alive (w_m w) -> 0 <= block -> pos = Z.min (block * buffer) (zlen data) ->
    (Z.to_nat (zlen data - pos) < fuel)%nat ->
    exists w', send_ffd fuel w pid data buffer pos block (base + pos) = Ok w'.
Proof.
  intros pid data buffer base Hpid Hbuf Hbm HL Hn Hb0 Hbase.
  induction fuel as [|k IH]; intros w pos block Ha Hblock Hpos Hfuel; [lia|].
  cbn [send_ffd]. unfold ffd_continue.
  assert (Hp0 : 0 <= pos). { subst pos. apply Z.min_glb; [apply Z.mul_nonneg_nonneg; lia|unfold zlen; lia]. }
  destruct (pos <? zlen data) eqn:Ec; [|eexists; reflexivity].
  apply Z.ltb_lt in Ec.
  assert (Hpb : pos = block * buffer) by lia.
  set (chunk := slice data pos (pos + buffer)).
  assert (Hcl : zlen chunk = Z.min buffer (zlen data - pos)).
  { unfold chunk. rewrite slice_length by lia. lia. }
  assert (Hdiv : (4 | pos)). { rewrite Hpb. apply Z.divide_mul_r. apply Z.mod_divide; lia. }
  assert (Hpm : pos mod 4 = 0) by (apply Z.mod_divide; [lia|exact Hdiv]).
  assert (Hblk : block < 256).
  { pose proof (block_lt_n_blocks (zlen data) buffer block ltac:(lia) Hblock ltac:(lia)). lia. }
  destruct (send__progress w (mkPkt ffd_x ffd_y ffd_p ffd_cmd (ffd_arg1 pid) (ffd_arg2 block (zlen chunk))
                                    (ffd_arg3 (base + pos)) chunk)) as (w1 & Hs & Hk).
  - apply packable_bcast; [vm_compute; split; congruence|apply ffd1_word; exact Hpid| |].
    + apply ffd2_word; lia.
    + apply word32_range. unfold ffd_arg3. lia.
  - apply mstep_answers; [split; reflexivity|exact Ha|right; right; left; reflexivity].
  - rewrite Hs. cbn [bind]. unfold ffd_next_pos, ffd_next_block, ffd_next_address.
    replace (base + pos + zlen chunk) with (base + (pos + zlen chunk)) by lia.
    apply IH.
    + eapply alive_keys; [exact Hk|exact Ha].
    + lia.
    + replace ((block + 1) * buffer) with (block * buffer + buffer) by ring. lia.
    + lia.
Qed.

Lemma fill_one_progress : forall c w aid flags data ts,
  ctrl_wf c (w_m w) -> machine_wf (w_m w) -> alive (w_m w) ->
  binary_ok (m_buffer (w_m w)) data -> m_base (w_m w) + zlen data <= 4294967296 ->
  Forall in_space (cores_of_targets ts) -> 0 <= aid < 256 -> 0 <= flags < 64 ->
  exists c' w', fill_one c w aid flags data ts = Ok (c', w').
Proof.
  intros c w aid flags data ts Hc Hm Ha [HL Hn] Hbl Hsp Haid Hfl.
  pose proof Hm as (_ & _ & _ & _ & Hbase & Hbuf & Hbm).
  unfold fill_one. destruct (proj2 (compress_ok_iff (cores_of_targets ts)) Hsp) as [fills Hcomp]. rewrite Hcomp.
  destruct (get_buffer_progress c w Ha) as (c1 & w1 & b & Hg). rewrite Hg. cbn [bind].
  apply get_buffer_inv in Hg; [|exact Hc]. destruct Hg as (Hb & Hcb & Hcn & Hm1 & _).
  destruct (b =? 0) eqn:Eb0; [apply Z.eqb_eq in Eb0; lia|]. subst b.
  pose proof (pid_range (c_nn c) (proj1 Hc)) as Hpid. rewrite <- Hcn in Hpid.
  assert (Hn0 : 0 <= ff_n_blocks (zlen data) (m_buffer (w_m w))) by (apply n_blocks_nonneg; unfold zlen; lia).
  destruct (send__progress w1 (mkPkt ffs_x ffs_y ffs_p ffs_cmd
              (ffs_arg1 (nn_id_wire (next_nn_id (c_nn c1))) (ff_n_blocks (zlen data) (m_buffer (w_m w))))
              ffs_arg2 (ffs_arg3 ff_fr) [])) as (w2 & Hs2 & Hk2).
  { apply packable_bcast; [vm_compute; split; congruence|apply ffs_word; lia|apply closed_words|apply closed_words]. }
  { apply mstep_answers; [split; reflexivity|rewrite Hm1; exact Ha|right; left; reflexivity]. }
  rewrite Hs2. cbn [bind].
  assert (Ha2 : alive (w_m w2)) by (eapply alive_keys; [exact Hk2|rewrite Hm1; exact Ha]).
  destruct (compress_sorted _ _ Hcomp) as [_ Hw].
  destruct (send_ffcs_all_progress fills w2 Hw Ha2) as (w3 & Hs3). rewrite Hs3. cbn [bind].
  apply send__inv in Hs2. destruct Hs2 as (He2 & _ & _). apply send_ffcs_all_inv in Hs3.
  destruct (extends_static _ _ _ He2) as (S2a & S2b & S2c). destruct (extends_static _ _ _ Hs3) as (S3a & S3b & S3c).
  assert (Ha3 : alive (w_m w3)).
  { destruct Hs3 as [_ Hr3]. rewrite Hr3. apply replay_alive. exact Ha2. }
  assert (Hc2 : ctrl_wf (mkCtrl (next_nn_id (c_nn c1)) (c_buffer c1)) (w_m w3)).
  { split; cbn [c_nn c_buffer].
    - rewrite Hcn. pose proof (next_nn_id_range (c_nn c) (proj1 Hc)). lia.
    - right. rewrite Hcb. f_equal. congruence. }
  assert (Hb3 : 4 <= m_buffer (w_m w3) <= 1024) by (rewrite S3a, S2a, Hm1; exact Hbuf).
  assert (Hoff : 0 <= sv_base + sv_sdram_sys_offset < 4294967296) by (vm_compute; split; congruence).
  assert (H255 : 0 <= 255 < 256) by (split; [discriminate|reflexivity]).
  destruct (read_sv_word_progress (mkCtrl (next_nn_id (c_nn c1)) (c_buffer c1)) w3 sv_sdram_sys_offset 255 255
                                  Hc2 Ha3 Hb3 H255 H255 Hoff Ha3) as (c3 & w4 & base & Hrd).
  rewrite Hrd. cbn [bind].
  apply read_sv_word_inv in Hrd; [|exact Hc2|exact (proj1 Hb3)].
  destruct Hrd as (Hm4 & _ & _ & (xy & ch & _ & Hv) & _).
  rewrite mread_sdram_sys in Hv. rewrite S3b, S2b, Hm1 in Hv. rewrite of_le32_le32 in Hv by exact Hbase.
  inversion Hv; subst base. clear Hv.
  pose proof (send_ffd_progress (nn_id_wire (next_nn_id (c_nn c1))) data (m_buffer (w_m w)) (m_base (w_m w))
                                Hpid Hbuf Hbm HL Hn ltac:(lia) Hbl (S (length data)) w4 0 0) as Hffd.
  rewrite Z.add_0_r in Hffd. change ffd_pos0 with 0. change ffd_block0 with 0.
  destruct Hffd as (w5 & Hs5); [rewrite Hm4; exact Ha3|lia|unfold zlen; lia|unfold zlen; lia|].
  rewrite Hs5. cbn [bind].
  assert (Ha5 : alive (w_m w5)).
  { apply send_ffd_inv in Hs5. destruct Hs5 as [_ Hr5]. rewrite Hr5. apply replay_alive. rewrite Hm4. exact Ha3. }
  destruct (send__progress w5 (mkPkt ffe_x ffe_y ffe_p ffe_cmd (ffe_arg1 (nn_id_wire (next_nn_id (c_nn c1))))
                                     (ffe_arg2 aid flags) (ffe_arg3 ff_fr) [])) as (w6 & Hs6 & _).
  { apply packable_bcast; [vm_compute; split; congruence|apply ffe1_word; exact Hpid|apply ffe2_word; assumption|apply closed_words]. }
  { apply mstep_answers; [split; reflexivity|exact Ha5|right; left; reflexivity]. }
  rewrite Hs6. cbn [bind]. eexists _, _; reflexivity.
Qed.

(* ---------------------------------------------------------------- what a fill keeps (further) *)
Lemma alive_iff : forall m, alive m <-> m_chips m <> [].
Proof. intros m. unfold alive. destruct (m_chips m); cbn; split; congruence. Qed.

Lemma answers_kept : forall m m' flags aid,
  machine_answers m -> same_static m m' -> map fst (m_chips m') = map fst (m_chips m) ->
  (forall c s', core_at m' c = Some s' -> core_at m c = Some s' \/ exists data, s' = loaded_core flags aid data) ->
  machine_answers m'.
Proof.
  intros m m' flags aid (Hne & Hv & Hs) (Sa & Sb & Sc) Hk Hc. split; [|split].
  - apply alive_iff. eapply alive_keys; [exact Hk|apply alive_iff; exact Hne].
  - intros xy Hin. rewrite Sc. apply Hv. rewrite <- Hk. exact Hin.
  - intros c s' Hat. destruct (Hc c s' Hat) as [Ho|[data ->]]; [exact (Hs c s' Ho)|].
    unfold loaded_core. cbn [cs_state]. destruct (Z.odd flags); reflexivity.
Qed.

Lemma fill_one_keeps_all : forall c w aid wait data ts c1 w1,
  ctrl_wf c (w_m w) -> machine_wf (w_m w) -> machine_answers (w_m w) ->
  binary_ok (m_buffer (w_m w)) data -> 0 <= aid < 256 ->
  fill_one c w aid (ff_flags wait) data ts = Ok (c1, w1) ->
  machine_wf (w_m w1) /\ ctrl_wf c1 (w_m w1) /\ same_static (w_m w) (w_m w1)
  /\ map fst (m_chips (w_m w1)) = map fst (m_chips (w_m w)) /\ machine_answers (w_m w1).
Proof.
  intros c w aid wait data ts c1 w1 Hc Hm Hans Hbin Haid Hf.
  assert (Hfl : 0 <= ff_flags wait < 64) by (destruct wait; vm_compute; split; congruence).
  pose proof (fill_one_effect c w aid (ff_flags wait) data ts c1 w1 Hc Hm Hbin Haid Hfl Hf)
    as (E1 & E2 & E3 & E4 & E5 & E6).
  assert (Hcores : forall c0 s', core_at (w_m w1) c0 = Some s' ->
            core_at (w_m w) c0 = Some s' \/ exists d, s' = loaded_core (ff_flags wait) aid d).
  { intros [[x y] p] s' Hs. rewrite E4 in Hs. destruct (core_at (w_m w) (x, y, p)) as [old|]; [|discriminate].
    cbn [option_map] in Hs. inversion Hs.
    destruct (negb (chip_mem (x, y) (hd [] (m_sched (w_m w)))) && requested (cores_of_targets ts) x y p);
      [right; exists data; reflexivity|left; reflexivity]. }
  split; [apply (machine_wf_kept (w_m w) (w_m w1) (ff_flags wait) aid Hm E2 E3 Haid Hcores)|].
  split; [|split; [exact E2|split; [exact E3|apply (answers_kept _ _ _ _ Hans E2 E3 Hcores)]]].
  destruct E2 as (Sa & _). split; [rewrite E5; pose proof (next_nn_id_range (c_nn c) (proj1 Hc)); lia|].
  right. rewrite E6, Sa. reflexivity.
Qed.

Lemma named_entry : forall am b ts c, In (b, ts) am -> In c (cores_of_targets ts) -> In (b, c) (named am).
Proof.
  intros am b ts c Hin Hc. unfold named. apply in_flat_map. exists (b, ts). split; [exact Hin|].
  cbn [fst snd]. apply in_map. exact Hc.
Qed.

Lemma bins_ok_nth' : forall buffer bins b data,
  bins_ok buffer bins -> nth_error bins b = Some data -> binary_ok buffer data.
Proof.
  intros buffer bins b data H E. unfold bins_ok in H. rewrite Forall_forall in H. apply H.
  eapply nth_error_In. exact E.
Qed.

(* guards that travel through the loop *)
Record going (bins : list (list Z)) (am : appmap) (m0 : machine) (c : ctrl) (m : machine) (unl : appmap) : Prop := {
  go_ctrl : ctrl_wf c m;
  go_wf : machine_wf m;
  go_ans : machine_answers m;
  go_static : same_static m0 m;
  go_keys : map fst (m_chips m) = map fst (m_chips m0);
  go_named : incl (named unl) (named am);
  go_bins : incl (map fst unl) (map fst am) }.

Lemma flood_fill_aplx_progress : forall bins am m0 aid wait unl c w,
  map_wf am -> bins_ok (m_buffer m0) bins -> map_present bins m0 am -> 0 <= aid < 256 ->
  going bins am m0 c (w_m w) unl ->
  exists c' w', flood_fill_aplx bins c w unl aid wait = Ok (c', w') /\ going bins am m0 c' (w_m w') unl.
Proof.
  intros bins am m0 aid wait unl. induction unl as [|[b ts] r IH]; intros c w Hmap Hbins Hpres Haid G.
  - eexists _, _. split; [reflexivity|exact G].
  - cbn [flood_fill_aplx]. destruct G as [Gc Gw Ga (Sa & Sb & Sc) Gk Gn Gb].
    destruct (proj1 Hpres b) as (data & Eb & Hfit); [apply Gb; left; reflexivity|]. rewrite Eb.
    pose proof (bins_ok_nth' _ _ _ _ Hbins Eb) as Hbin. rewrite <- Sa in Hbin.
    assert (Hsp : Forall in_space (cores_of_targets ts)).
    { apply Forall_forall. intros [[x y] p] Hc0. apply (proj2 Hmap b x y p). apply Gn.
      apply (named_entry ((b, ts) :: r) b ts); [left; reflexivity|exact Hc0]. }
    assert (Hfl : 0 <= ff_flags wait < 64) by (destruct wait; vm_compute; split; congruence).
    destruct (fill_one_progress c w aid (ff_flags wait) data ts Gc Gw (proj2 (alive_iff _) (proj1 Ga)) Hbin
                                ltac:(rewrite Sb; change (2 ^ 32) with 4294967296 in Hfit; exact Hfit) Hsp Haid Hfl)
      as (c1 & w1 & Hf).
    rewrite Hf. cbn [bind fst snd].
    destruct (fill_one_keeps_all c w aid wait data ts c1 w1 Gc Gw Ga Hbin Haid Hf) as (Hw1 & Hc1 & (Ta & Tb & Tc) & Hk1 & Ha1).
    assert (G1 : going bins am m0 c1 (w_m w1) r).
    { constructor; try assumption.
      - repeat split; congruence.
      - congruence.
      - intros bc Hin. apply Gn. rewrite named_cons. apply in_or_app. right. exact Hin.
      - intros b0 Hin. apply Gb. right. exact Hin. }
    destruct (IH c1 w1 Hmap Hbins Hpres Haid G1) as (c' & w' & Hrun & G').
    exists c', w'. split; [exact Hrun|]. destruct G'. constructor; try assumption.
Qed.

(* ---------------------------------------------------------------- the per-core check *)
Lemma state_member : forall m c, machine_answers m -> is_member (state_of m c) AppState_members = true.
Proof.
  intros m c (_ & _ & Hs). unfold state_of. destruct (core_at m c) as [s|] eqn:E; [exact (Hs c s E)|reflexivity].
Qed.

Lemma check_cores_progress : forall x y ps c w,
  ctrl_wf c (w_m w) -> machine_wf (w_m w) -> machine_answers (w_m w) ->
  ~ (x = 255 /\ y = 255) -> In (x, y) (map fst (m_chips (w_m w))) ->
  (forall p, In p ps -> in_space (x, y, p)) ->
  exists c' w' un, check_cores c w x y ps = Ok (c', w', un).
Proof.
  intros x y ps. induction ps as [|p ps IH]; intros c w Hc Hm Ha Hxy Hin Hsp; [eexists _, _, _; reflexivity|].
  cbn [check_cores]. pose proof Ha as (Hne & Hv & _). change (2 ^ 32) with 4294967296 in Hv.
  destruct (read_cpu_state_progress c w x y p Hc Hm (proj2 (alive_iff _) Hne) (Hv _ Hin) (Hsp p (or_introl eq_refl)) Hxy Hin)
    as (c1 & w1 & s & Hr). rewrite Hr. cbn [bind].
  apply read_cpu_state_inv in Hr; try assumption; [|apply Hsp; left; reflexivity]. destruct Hr as (Hm1 & Hc1 & Hs).
  rewrite Hs, state_member by exact Ha.
  destruct (IH c1 w1) as (c2 & w2 & un & Hrec); try (rewrite Hm1); try assumption.
  { intros q Hq. apply Hsp. right. exact Hq. }
  rewrite Hrec. cbn [bind fst snd]. eexists _, _, _; reflexivity.
Qed.

Lemma check_targets_progress : forall ts c w,
  ctrl_wf c (w_m w) -> machine_wf (w_m w) -> machine_answers (w_m w) ->
  (forall x y p, In (x, y, p) (cores_of_targets ts) ->
     in_space (x, y, p) /\ ~ (x = 255 /\ y = 255) /\ In (x, y) (map fst (m_chips (w_m w)))) ->
  exists c' w' un, check_targets c w ts = Ok (c', w', un).
Proof.
  induction ts as [|[[x y] ps] r IH]; intros c w Hc Hm Ha Hsp; [eexists _, _, _; reflexivity|].
  cbn [check_targets fst snd].
  assert (Hcc : exists c1 w1 un, check_cores c w x y ps = Ok (c1, w1, un)).
  { destruct ps as [|p0 ps]; [eexists _, _, _; reflexivity|].
    destruct (Hsp x y p0) as (_ & Hxy & Hin); [rewrite cores_of_targets_cons; cbn [fst snd map List.app]; left; reflexivity|].
    apply check_cores_progress; try assumption.
    intros q Hq. apply (Hsp x y q). rewrite cores_of_targets_cons. apply in_or_app. left.
    apply in_map_iff. exists q. split; [reflexivity|exact Hq]. }
  destruct Hcc as (c1 & w1 & un & Hcc). rewrite Hcc. cbn [bind].
  assert (Hm1 : w_m w1 = w_m w /\ ctrl_wf c1 (w_m w)).
  { destruct ps as [|p0 ps]; [cbn [check_cores] in Hcc; inversion Hcc; subst; split; [reflexivity|exact Hc]|].
    destruct (Hsp x y p0) as (_ & Hxy & _); [rewrite cores_of_targets_cons; cbn [fst snd map List.app]; left; reflexivity|].
    apply check_cores_spec in Hcc; try assumption.
    - destruct Hcc as (A & B & _). split; assumption.
    - intros q Hq. apply (Hsp x y q). rewrite cores_of_targets_cons. apply in_or_app. left.
      apply in_map_iff. exists q. split; [reflexivity|exact Hq]. }
  destruct Hm1 as [Hm1 Hc1].
  destruct (IH c1 w1) as (c2 & w2 & l & Hrec); try (rewrite Hm1); try assumption.
  { intros x0 y0 q Hq. apply Hsp. rewrite cores_of_targets_cons. apply in_or_app. right. exact Hq. }
  rewrite Hrec. cbn [bind fst snd]. eexists _, _, _; reflexivity.
Qed.

Lemma check_map_progress : forall unl c w,
  ctrl_wf c (w_m w) -> machine_wf (w_m w) -> machine_answers (w_m w) ->
  (forall b x y p, In (b, (x, y, p)) (named unl) ->
     in_space (x, y, p) /\ ~ (x = 255 /\ y = 255) /\ In (x, y) (map fst (m_chips (w_m w)))) ->
  exists c' w' unl1, check_map c w unl = Ok (c', w', unl1).
Proof.
  induction unl as [|[b ts] r IH]; intros c w Hc Hm Ha Hsp; [eexists _, _, _; reflexivity|].
  cbn [check_map].
  assert (Hts : forall x y p, In (x, y, p) (cores_of_targets ts) ->
                in_space (x, y, p) /\ ~ (x = 255 /\ y = 255) /\ In (x, y) (map fst (m_chips (w_m w)))).
  { intros x y p Hin. apply (Hsp b). rewrite named_cons. apply in_or_app. left.
    apply in_map_iff. exists (x, y, p). split; [reflexivity|exact Hin]. }
  destruct (check_targets_progress ts c w Hc Hm Ha Hts) as (c1 & w1 & un & Hct). rewrite Hct. cbn [bind].
  apply check_targets_spec in Hct; try assumption.
  2:{ intros x y p Hin. destruct (Hts x y p Hin) as (A & B & _). split; assumption. }
  destruct Hct as (Hm1 & Hc1 & _).
  destruct (IH c1 w1) as (c2 & w2 & l & Hrec); try (rewrite Hm1); try assumption.
  { intros b0 x y p Hin. apply (Hsp b0). rewrite named_cons. apply in_or_app. right. exact Hin. }
  rewrite Hrec. cbn [bind fst snd]. eexists _, _, _; reflexivity.
Qed.

Lemma check_map_keys : forall unl c w c' w' unl1,
  check_map c w unl = Ok (c', w', unl1) -> incl (map fst unl1) (map fst unl).
Proof.
  induction unl as [|[b ts] r IH]; intros c w c' w' unl1 H.
  - cbn [check_map] in H. inversion H; subst. intros z [].
  - cbn [check_map] in H. apply bind_ok in H. destruct H as [[[c1 w1] u] [_ H]].
    apply bind_ok in H. destruct H as [[[c2 w2] l] [Hrec H]]. cbn [fst snd] in H. apply IH in Hrec.
    destruct u as [|u0 u]; inversion H; subst; cbn [map fst].
    + intros z Hz. right. apply Hrec. exact Hz.
    + intros z [Hz|Hz]; [left; exact Hz|right; apply Hrec; exact Hz].
Qed.

(* ---------------------------------------------------------------- count, start *)
Lemma count_progress : forall w aid, alive (w_m w) -> 0 <= aid < 256 -> exists w' n, count_cores_wait w aid = Ok (w', n).
Proof.
  intros w aid Ha Haid. unfold count_cores_wait. change load_count_state with AppState_wait.
  destruct (send_progress w (mkPkt count_x count_y count_p count_cmd count_arg1 (count_arg2 AppState_wait aid) count_arg3 []))
    as (w1 & r & Hs).
  - apply packable_bcast; [vm_compute; split; congruence|apply closed_words|apply count_word; exact Haid|apply closed_words].
  - apply mstep_answers; [split; reflexivity|exact Ha|right; right; right; reflexivity].
  - rewrite Hs. cbn [bind fst snd]. apply send_inv in Hs. destruct Hs as (_ & Hr & _ & _).
    rewrite mstep_count in Hr by exact Haid. unfold alive in Ha. destruct (hd_error (m_chips (w_m w))); [|congruence].
    cbn [snd] in Hr. subst r. eexists _, _; reflexivity.
Qed.

Lemma start_progress : forall w aid, alive (w_m w) -> 0 <= aid < 256 -> exists w', send_signal_start w aid = Ok w'.
Proof.
  intros w aid Ha Haid. unfold send_signal_start. change load_start_signal with AppSignal_start.
  destruct (send__progress w (mkPkt signal_x signal_y signal_p signal_cmd (signal_arg1 signal_type_start)
                                    (signal_arg2 AppSignal_start aid) signal_arg3 [])) as (w1 & Hs & _).
  - apply packable_bcast; [vm_compute; split; congruence|apply closed_words|apply sig_word; exact Haid|apply closed_words].
  - apply mstep_answers; [split; reflexivity|exact Ha|right; right; right; reflexivity].
  - exists w1. exact Hs.
Qed.

(* ---------------------------------------------------------------- the loop and the call *)
Lemma load_loop_progress : forall fuel bins a total am m0 c w unl tries atts,
  map_wf am -> bins_ok (m_buffer m0) bins -> map_present bins m0 am -> 0 <= a_app a < 256 ->
  going bins am m0 c (w_m w) unl ->
  (Z.to_nat (a_tries a + 1 - tries) < fuel)%nat ->
  exists c' w' unl' atts', load_loop fuel bins a total c w unl tries atts = Ok (c', w', unl', atts')
                           /\ going bins am m0 c' (w_m w') unl'.
Proof.
  induction fuel as [|k IH]; intros bins a total am m0 c w unl tries atts Hmap Hbins Hpres Haid G Hf; [lia|].
  cbn [load_loop]. destruct (negb (is_empty unl) && load_continue tries (a_tries a)) eqn:Econt.
  2:{ eexists _, _, _, _. split; [reflexivity|exact G]. }
  apply andb_prop in Econt. destruct Econt as [_ Et]. unfold load_continue in Et. apply Z.leb_le in Et.
  destruct (flood_fill_aplx_progress bins am m0 (a_app a) load_fill_wait unl c w Hmap Hbins Hpres Haid G) as (c1 & w1 & Hff & G1).
  rewrite Hff. cbn [bind fst snd].
  assert (Hnext : forall c2 w2 unl1 atts1, going bins am m0 c2 (w_m w2) unl1 ->
            exists c' w' unl' atts', load_loop k bins a total c2 w2 unl1 (load_next_tries tries) atts1 = Ok (c', w', unl', atts')
                                     /\ going bins am m0 c' (w_m w') unl').
  { intros c2 w2 unl1 atts1 G2. apply IH; try assumption. unfold load_next_tries. lia. }
  assert (Hcheck : forall wx, w_m wx = w_m w1 ->
            exists c' w' unl' atts',
              bind (check_map c1 wx unl) (fun cwm => let '(c2, w2, unl1) := cwm in
                  load_loop k bins a total c2 w2 unl1 (load_next_tries tries) ((unl, w_m w) :: atts)) = Ok (c', w', unl', atts')
              /\ going bins am m0 c' (w_m w') unl').
  { intros wx Hmx. destruct G1 as [Gc Gw Ga Gs Gk Gn Gb].
    assert (Hsp : forall b x y p, In (b, (x, y, p)) (named unl) ->
              in_space (x, y, p) /\ ~ (x = 255 /\ y = 255) /\ In (x, y) (map fst (m_chips (w_m wx)))).
    { intros b x y p Hin. destruct (proj2 Hmap b x y p (Gn _ Hin)) as [A B]. split; [exact A|]. split; [exact B|].
      rewrite Hmx, Gk. apply (proj2 Hpres b x y p). apply Gn. exact Hin. }
    rewrite <- Hmx in Gc, Gw, Ga.
    destruct (check_map_progress unl c1 wx Gc Gw Ga Hsp) as (c2 & w2 & unl1 & Hcm). rewrite Hcm. cbn [bind].
    pose proof (check_map_keys _ _ _ _ _ _ Hcm) as Hkeys.
    apply check_map_spec in Hcm; try assumption.
    2:{ intros b x y p Hin. destruct (Hsp b x y p Hin) as (A & B & _). split; assumption. }
    destruct Hcm as (Hm2 & Hc2 & Hunl1 & _).
    apply Hnext. rewrite Hm2. constructor; try assumption.
    - rewrite Hmx. exact Gs.
    - rewrite Hmx. exact Gk.
    - intros bc Hin. rewrite Hunl1 in Hin. apply filter_In in Hin. apply Gn. apply Hin.
    - intros b Hin. apply Gb. apply Hkeys. exact Hin. }
  destruct (a_count a).
  - destruct (count_progress w1 (a_app a)) as (w2 & n & Hc2); [apply alive_iff; apply (go_ans _ _ _ _ _ _ G1)|exact Haid|].
    rewrite Hc2. cbn [bind fst snd]. apply count_cores_wait_inv in Hc2; [|exact Haid]. destruct Hc2 as [Hm2 _].
    destruct (total =? n).
    + apply Hnext. rewrite Hm2. destruct G1. constructor; try assumption; intros z [].
    + apply (Hcheck w2 Hm2).
  - cbn [bind fst snd]. apply (Hcheck w1 eq_refl).
Qed.

(* Under the guards the call raises nothing but the loading error. *)
Theorem load_application_total : forall bins c w am a,
  machine_wf (w_m w) -> ctrl_wf c (w_m w) -> map_wf am -> bins_ok (m_buffer (w_m w)) bins ->
  0 <= a_app a < 256 -> machine_answers (w_m w) -> map_present bins (w_m w) am ->
  exists c' w' out atts, load_application bins c w am a = Ok (c', w', out, atts).
Proof.
  intros bins c w am a Hwf Hc Hmap Hbins Haid Hans Hpres. unfold load_application.
  assert (G0 : going bins am (w_m w) c (w_m w) am).
  { constructor; try assumption; try reflexivity; [repeat split|intros z Hz; exact Hz|intros z Hz; exact Hz]. }
  destruct (load_loop_progress (load_fuel a) bins a (core_count am) am (w_m w) c w am load_tries0 []
                               Hmap Hbins Hpres Haid G0) as (c1 & w1 & unl & atts & Hl & G1).
  { unfold load_fuel, load_tries0. lia. }
  rewrite Hl. cbn [bind]. destruct (negb (is_empty unl)); [eexists _, _, _, _; reflexivity|].
  destruct (negb (a_wait a)); [|eexists _, _, _, _; reflexivity].
  destruct (start_progress w1 (a_app a)) as (w2 & Hs); [apply alive_iff; apply (go_ans _ _ _ _ _ _ G1)|exact Haid|].
  rewrite Hs. cbn [bind]. eexists _, _, _, _; reflexivity.
Qed.
