"""Dumper of unit GenMemOps (property C07).  Run under /venv/bin/python with PYTHONPATH=/repo.

Two kinds of content, both regenerated from the current /repo on every run:

  * expressions read with `ast` from the *source text* of
      SCPConnection.read / SCPConnection.write / send_scp_burst (receive length)   (scp_connection.py)
      MachineController.read / write / read_across_link / write_across_link /
      _get_struct_field_and_address / _get_vcpu_field_and_address / read_struct_field / write_struct_field /
      read_vcpu_struct_field / write_vcpu_struct_field / fill / scp_window_size   (machine_controller.py)
    and translated by the expression translator of tools/py2v.py: loop conditions, block sizes, chunk
    addresses, the key of the data-type lookup, the arguments of every command, the slice of the result
    buffer bound to each callback, the loop updates, the struct / per-core address arithmetic, the branch
    condition of fill.  The statements around them are matched one by one against the shape the
    hand-written model (coq/Model/MemOps.v) follows; any other shape raises (fail closed), which the check
    reports as the broken obligation translate:GenMemOps.
  * live objects: consts.address_length_dtype (all 16 cases), DataType, the SCPCommands members used,
    SDP_HEADER_LENGTH, SCP_SVER_RECEIVE_LENGTH_MAX, the parsed boot/sark.struct (`sv`, `vcpu`: base, size,
    every field's offset / pack characters / array length / byte size of the format the accessor builds).
    The float expression of the receive length, int(2**math.ceil(math.log(max_length, 2))), is evaluated
    for every max_length the 16-bit buffer size allows and compared with the smallest power of two
    >= max_length (the closed form the model uses); a difference raises.
"""
import ast
import copy
import importlib
import math
import os
import struct
import sys
import warnings

warnings.simplefilter("ignore")       # stderr is merged into the generated text by the caller

sys.path.insert(0, os.path.dirname(os.path.abspath(__file__)))
import dumplib as D  # noqa: E402
import py2v  # noqa: E402

MC = "rig/machine_control/machine_controller.py"
SC = "rig/machine_control/scp_connection.py"
CUR = [SC]
U = ast.unparse


class Shape(Exception):
    pass


def need(cond, node, what):
    if not cond:
        raise Shape("%s:%s: source no longer has the modelled shape: %s [%s]" % (
            CUR[0], getattr(node, "lineno", "?"), what,
            U(node)[:300] if isinstance(node, ast.AST) else node))


def strip_doc(body):
    body = list(body)
    if body and isinstance(body[0], ast.Expr) and isinstance(body[0].value, ast.Constant) \
            and isinstance(body[0].value.value, str):
        body = body[1:]
    return body


def is_text(node, text):
    need(U(node) == text, node, "expected `%s`" % text)


ENUMS_USED = {}


class Subst(ast.NodeTransformer):
    """consts.SCPCommands.m / SCPCommands.m -> SCPCommands_m (value from the live enum);
    consts.NAME -> NAME; the replacements given in `repl` (unparsed text -> variable name);
    min((a, b)) -> min(a, b) (the same function of its arguments)."""

    def __init__(self, consts, repl):
        self.consts, self.repl = consts, repl

    def visit(self, n):
        if isinstance(n, ast.expr) and U(n) in self.repl:
            return ast.copy_location(ast.Name(id=self.repl[U(n)], ctx=ast.Load()), n)
        return super(Subst, self).visit(n)

    def visit_Attribute(self, n):
        parts = U(n).split(".")
        if parts[0] == "consts":
            parts = parts[1:]
        if len(parts) == 2 and parts[0] == "SCPCommands":
            need(parts[1] in self.consts.SCPCommands.__members__, n, "member of SCPCommands")
            name = "SCPCommands_" + parts[1]
            ENUMS_USED[name] = int(self.consts.SCPCommands[parts[1]])
            return ast.copy_location(ast.Name(id=name, ctx=ast.Load()), n)
        if len(parts) == 1 and parts[0] in ("SDP_HEADER_LENGTH",):
            return ast.copy_location(ast.Name(id=parts[0], ctx=ast.Load()), n)
        return self.generic_visit(n)

    def visit_Call(self, n):
        n = self.generic_visit(n)
        if isinstance(n.func, ast.Name) and n.func.id == "min" and len(n.args) == 1 \
                and isinstance(n.args[0], ast.Tuple) and len(n.args[0].elts) == 2 and not n.keywords:
            return ast.copy_location(ast.Call(func=n.func, args=list(n.args[0].elts), keywords=[]), n)
        return n


CONSTS = [None]


def tr(e, free, repl=None):
    e = Subst(CONSTS[0], repl or {}).visit(copy.deepcopy(e))
    ast.fix_missing_locations(e)
    for n in ast.walk(e):
        if isinstance(n, ast.Name):
            need(n.id in free or n.id in ENUMS_USED or n.id in ("SDP_HEADER_LENGTH", "min", "max", "int"), n,
                 "free name in a translated expression")
    f = py2v.Fn(None, dict(name=CUR[0], ret="Z"), {})
    f.types = {v: "Z" for v in free}
    text, typ = f.expr(e)
    return text, typ


def defn(name, params, typ, body):
    return "Definition %s %s: %s :=\n  %s.\n" % (name, "".join("(%s : Z) " % py2v.ident(p) for p in params), typ, body)


def trz(name, params, e, repl=None, typ="Z"):
    text, t = tr(e, params, repl)
    if typ == "bool":
        need(t == "bool", e, "boolean expression")
    else:
        need(t == "Z", e, "integer expression")
    return defn(name, params, typ, text)


def trtuple(name, params, elts, repl=None):
    texts = []
    for e in elts:
        text, t = tr(e, params, repl)
        need(t == "Z", e, "integer expression")
        texts.append(text)
    return defn(name, params, " * ".join(["Z"] * len(texts)), "(" + ", ".join(texts) + ")")


def load(root, rel):
    CUR[0] = rel
    with open(os.path.join(root, rel)) as f:
        return ast.parse(f.read())


def aug(s, target, op, value_text):
    need(isinstance(s, ast.AugAssign) and isinstance(s.op, op) and U(s.target) == target
         and U(s.value) == value_text, s, "%s %s= %s" % (target, "+" if op is ast.Add else "-", value_text))
    return ast.BinOp(left=s.target, op=s.op, right=s.value)


def assign(s, target):
    need(isinstance(s, ast.Assign) and len(s.targets) == 1 and U(s.targets[0]) == target, s,
         "assignment to " + target)
    return s.value


def slice_bounds(sub, base):
    need(isinstance(sub, ast.Subscript) and U(sub.value) == base and isinstance(sub.slice, ast.Slice)
         and sub.slice.step is None, sub, "slice of " + base)
    return sub.slice.lower, sub.slice.upper


def guard_raise(s, exc):
    need(isinstance(s, ast.If) and not s.orelse and len(s.body) == 1 and isinstance(s.body[0], ast.Raise)
         and isinstance(s.body[0].exc, ast.Call) and U(s.body[0].exc.func) == exc, s, "if ...: raise " + exc)
    return s.test


def main():
    spec = importlib.util.find_spec("rig")
    root = os.path.dirname(list(spec.submodule_search_locations)[0])
    consts = importlib.import_module("rig.machine_control.consts")
    CONSTS[0] = consts
    out = [D.HEADER % "dump_c07.py"]
    body_out = []
    add = body_out.append

    # =================================================================== scp_connection.py
    tree = load(root, SC)
    # ------------------------------------------------------------------ send_scp_burst: receive length
    fn = py2v.find_function(tree, "SCPConnection.send_scp_burst")
    need([a.arg for a in fn.args.args] == ["self", "buffer_size", "window_size", "parameters_and_callbacks"],
         fn, "send_scp_burst(self, buffer_size, window_size, parameters_and_callbacks)")
    ml = rl = None
    recvs = []
    for n in ast.walk(fn):
        if isinstance(n, ast.Assign) and U(n.targets[0]) == "max_length":
            need(ml is None, n, "one assignment to max_length")
            ml = n.value
        if isinstance(n, ast.Assign) and U(n.targets[0]) == "receive_length":
            need(rl is None, n, "one assignment to receive_length")
            rl = n.value
        if isinstance(n, ast.Call) and U(n.func) == "self.sock.recv":
            recvs.append(n)
    need(ml is not None and rl is not None, fn, "max_length / receive_length assignments")
    is_text(rl, "int(2 ** math.ceil(math.log(max_length, 2)))")
    need(len(recvs) == 1 and U(recvs[0]) == "self.sock.recv(receive_length)", fn,
         "exactly one self.sock.recv(receive_length)")
    add("(* %s : send_scp_burst, line %d: max_length; receive_length = int(2 ** math.ceil(math.log(max_length, 2)))\n"
        "   is the argument of the only sock.recv: a longer datagram is truncated to it. *)\n" % (SC, fn.lineno))
    add(trz("burst_max_length", ["buffer_size"], ml))
    # the float expression against the closed form, for every value the 16-bit buffer size (and the
    # version query's fixed 512) can produce
    hi = 65535 + consts.SDP_HEADER_LENGTH + 64
    for m in range(1, hi + 1):
        live = int(2 ** math.ceil(math.log(m, 2)))
        p = 1
        while p < m:
            p *= 2
        if live != p:
            raise Shape("receive length for max_length=%d is %d, the smallest power of two >= it is %d" % (m, live, p))
    add("(* checked by the dumper: for every max_length in 1..%d the live value of\n"
        "   int(2 ** math.ceil(math.log(max_length, 2))) is the smallest power of two >= max_length *)\n" % hi)
    add(defn("receive_length_checked_up_to", [], "Z", D.z(hi)))

    # ------------------------------------------------------------------ SCPConnection.read
    fn = py2v.find_function(tree, "SCPConnection.read")
    need([a.arg for a in fn.args.args] == ["self", "buffer_size", "window_size", "x", "y", "p", "address",
                                           "length_bytes"], fn, "read(self, buffer_size, window_size, x, y, p, "
         "address, length_bytes)")
    b = strip_doc(fn.body)
    need(len(b) == 6, fn, "six statements")
    is_text(b[0], "data = bytearray(length_bytes)")
    is_text(b[1], "mem = memoryview(data)")
    cb = b[2]
    need(isinstance(cb, ast.FunctionDef) and cb.name == "callback" and [a.arg for a in cb.args.args] == ["mem", "data"]
         and len(cb.body) == 1, cb, "def callback(mem, data): one statement")
    st = cb.body[0]
    need(isinstance(st, ast.Assign) and U(st.targets[0]) == "mem[:]", st, "mem[:] = ...")
    lo, hi_ = slice_bounds(st.value, "data")
    need(hi_ is None, st, "data[k:]")
    add("(* %s : SCPConnection.read, line %d *)\n" % (SC, fn.lineno))
    add("(* callback(mem, data): mem[:] = data[<offset>:]  (whole slice assigned: lengths must agree) *)\n")
    add(trz("read_reply_data_offset", [], lo))
    pk = b[3]
    need(isinstance(pk, ast.FunctionDef) and pk.name == "packets"
         and [a.arg for a in pk.args.args] == ["length_bytes", "data"], pk, "def packets(length_bytes, data)")
    pb = strip_doc(pk.body)
    need(len(pb) == 2 and isinstance(pb[1], ast.While) and not pb[1].orelse, pk, "offset = 0; while ...")
    add(trz("read_offset0", [], assign(pb[0], "offset")))
    w = pb[1]
    add(trz("read_cond", ["length_bytes"], w.test, typ="bool"))
    wb = list(w.body)
    need(len(wb) == 6, w, "six statements in the loop")
    add(trz("read_block_size", ["length_bytes", "buffer_size"], assign(wb[0], "block_size")))
    add(trz("read_chunk_address", ["address", "offset"], assign(wb[1], "read_address")))
    dt = assign(wb[2], "dtype")
    need(isinstance(dt, ast.Subscript) and U(dt.value) == "consts.address_length_dtype"
         and isinstance(dt.slice, ast.Tuple) and len(dt.slice.elts) == 2, dt,
         "dtype = consts.address_length_dtype[(a, b)]")
    add(trtuple("read_dtype_key", ["read_address", "block_size"], dt.slice.elts))
    y = wb[3]
    need(isinstance(y, ast.Expr) and isinstance(y.value, ast.Yield) and isinstance(y.value.value, ast.Call)
         and U(y.value.value.func) == "scpcall", y, "yield scpcall(...)")
    call = y.value.value
    need(len(call.args) == 7 and [U(a) for a in call.args[:3]] == ["x", "y", "p"]
         and [k.arg for k in call.keywords] == ["callback"], call,
         "scpcall(x, y, p, cmd, arg1, arg2, arg3, callback=...)")
    add("(* scpcall(x, y, p, cmd, arg1, arg2, arg3, callback=functools.partial(callback, mem[lo:hi])) *)\n")
    add(trtuple("read_call", ["read_address", "block_size", "dtype"], call.args[3:]))
    cbk = call.keywords[0].value
    need(isinstance(cbk, ast.Call) and U(cbk.func) == "functools.partial" and len(cbk.args) == 2
         and U(cbk.args[0]) == "callback" and not cbk.keywords, cbk, "functools.partial(callback, mem[lo:hi])")
    lo, hi_ = slice_bounds(cbk.args[1], "mem")
    need(lo is not None and hi_ is not None, cbk, "mem[lo:hi]")
    add(trtuple("read_slice", ["offset", "block_size"], [lo, hi_]))
    add(trz("read_next_offset", ["offset", "block_size"], aug(wb[4], "offset", ast.Add, "block_size")))
    add(trz("read_next_length", ["length_bytes", "block_size"], aug(wb[5], "length_bytes", ast.Sub, "block_size")))
    is_text(b[4], "self.send_scp_burst(buffer_size, window_size, list(packets(length_bytes, data)))")
    is_text(b[5], "return bytes(data)")

    # ------------------------------------------------------------------ SCPConnection.write
    fn = py2v.find_function(tree, "SCPConnection.write")
    need([a.arg for a in fn.args.args] == ["self", "buffer_size", "window_size", "x", "y", "p", "address", "data"],
         fn, "write(self, buffer_size, window_size, x, y, p, address, data)")
    b = strip_doc(fn.body)
    need(len(b) == 2, fn, "two statements")
    pk = b[0]
    need(isinstance(pk, ast.FunctionDef) and pk.name == "packets"
         and [a.arg for a in pk.args.args] == ["address", "data"], pk, "def packets(address, data)")
    pb = strip_doc(pk.body)
    need(len(pb) == 3 and isinstance(pb[2], ast.While) and not pb[2].orelse, pk, "end = ...; pos = 0; while ...")
    add("(* %s : SCPConnection.write, line %d;  end = len(data) *)\n" % (SC, fn.lineno))
    is_text(pb[0], "end = len(data)")
    add(trz("write_pos0", [], assign(pb[1], "pos")))
    w = pb[2]
    add(trz("write_cond", ["pos", "end"], w.test, typ="bool"))
    wb = list(w.body)
    need(len(wb) == 6, w, "six statements in the loop")
    lo, hi_ = slice_bounds(assign(wb[0], "block"), "data")
    need(lo is not None and hi_ is not None, wb[0], "block = data[lo:hi]")
    add("(* block = data[lo:hi] (Python slice: clipped to the data); block_size = len(block) *)\n")
    add(trtuple("write_block_slice", ["pos", "buffer_size"], [lo, hi_]))
    is_text(wb[1], "block_size = len(block)")
    dt = assign(wb[2], "dtype")
    need(isinstance(dt, ast.Subscript) and U(dt.value) == "consts.address_length_dtype"
         and isinstance(dt.slice, ast.Tuple) and len(dt.slice.elts) == 2, dt,
         "dtype = consts.address_length_dtype[(a, b)]")
    add(trtuple("write_dtype_key", ["address", "block_size"], dt.slice.elts))
    y = wb[3]
    need(isinstance(y, ast.Expr) and isinstance(y.value, ast.Yield) and isinstance(y.value.value, ast.Call)
         and U(y.value.value.func) == "scpcall", y, "yield scpcall(...)")
    call = y.value.value
    need(len(call.args) == 8 and [U(a) for a in call.args[:3]] == ["x", "y", "p"] and not call.keywords
         and U(call.args[7]) == "block", call, "scpcall(x, y, p, cmd, arg1, arg2, arg3, block)")
    add("(* scpcall(x, y, p, cmd, arg1, arg2, arg3, block) *)\n")
    add(trtuple("write_call", ["address", "block_size", "dtype"], call.args[3:7]))
    add(trz("write_next_address", ["address", "block_size"], aug(wb[4], "address", ast.Add, "block_size")))
    add(trz("write_next_pos", ["pos", "block_size"], aug(wb[5], "pos", ast.Add, "block_size")))
    is_text(b[1], "self.send_scp_burst(buffer_size, window_size, list(packets(address, data)))")

    # =================================================================== machine_controller.py
    tree = load(root, MC)

    def method(name, params, deco=True):
        f = py2v.find_function(tree, "MachineController." + name)
        need([a.arg for a in f.args.args] == ["self"] + params, f, "%s(self, %s)" % (name, ", ".join(params)))
        if deco:
            need([U(d) for d in f.decorator_list] == ["ContextMixin.use_contextual_arguments()"], f,
                 "decorated with use_contextual_arguments()")
        return f, strip_doc(f.body)

    # ------------------------------------------------------------------ window, read, write
    f = py2v.find_function(tree, "MachineController.scp_window_size")
    b = strip_doc(f.body)
    need(len(b) == 2 and isinstance(b[0], ast.If) and U(b[0].test) == "self._window_size is None"
         and len(b[0].body) == 1 and isinstance(b[0].body[0], ast.Return) and not b[0].orelse
         and U(b[1]) == "return self._window_size", f, "if self._window_size is None: return k; return it")
    add("(* %s : scp_window_size, line %d *)\n" % (MC, f.lineno))
    add(trz("default_window_size", [], b[0].body[0].value))
    f = py2v.find_function(tree, "MachineController.scp_data_length")
    b = strip_doc(f.body)
    need(len(b) == 2 and U(b[0]) == ("if self._scp_data_length is None:\n    data = self.get_software_version(255, 255, 0)"
                                     "\n    self._scp_data_length = data.buffer_size")
         and U(b[1]) == "return self._scp_data_length", f, "scp_data_length caches sver's buffer_size")
    f, b = method("read", ["address", "length_bytes", "x", "y", "p"])
    need(len(b) == 2, f, "two statements")
    is_text(b[0], "connection = self._get_connection(x, y)")
    is_text(b[1], "return connection.read(self.scp_data_length, self.scp_window_size, x, y, p, address, length_bytes)")
    f, b = method("write", ["address", "data", "x", "y", "p"])
    need(len(b) == 2, f, "two statements")
    is_text(b[0], "connection = self._get_connection(x, y)")
    is_text(b[1], "return connection.write(self.scp_data_length, self.scp_window_size, x, y, p, address, data)")
    add("(* read / write: connection.read|write(self.scp_data_length, self.scp_window_size, x, y, p, address, ...) *)\n")

    # ------------------------------------------------------------------ links
    SDL = {"self.scp_data_length": "scp_data_length", "len(data)": "len_data", "int(link)": "link"}
    f, b = method("write_across_link", ["address", "data", "x", "y", "link"])
    need(len(b) == 5 and isinstance(b[4], ast.While) and not b[4].orelse, f, "two guards, two assignments, a loop")
    add("(* %s : write_across_link, line %d *)\n" % (MC, f.lineno))
    add(trz("lwrite_guard_address", ["address"], guard_raise(b[0], "ValueError")))
    add(trz("lwrite_guard_length", ["len_data"], guard_raise(b[1], "ValueError"), SDL))
    is_text(b[2], "length_bytes = len(data)")
    add(trz("lwrite_cur0", [], assign(b[3], "cur_byte")))
    w = b[4]
    add(trz("lwrite_cond", ["length_bytes"], w.test, typ="bool"))
    wb = list(w.body)
    need(len(wb) == 6, w, "six statements in the loop")
    add(trz("lwrite_to_write", ["length_bytes", "scp_data_length"], assign(wb[0], "to_write"), SDL))
    lo, hi_ = slice_bounds(assign(wb[1], "cur_data"), "data")
    need(lo is not None and hi_ is not None, wb[1], "cur_data = data[lo:hi]")
    add(trtuple("lwrite_slice", ["cur_byte", "to_write"], [lo, hi_]))
    call = wb[2].value if isinstance(wb[2], ast.Expr) else None
    need(isinstance(call, ast.Call) and U(call.func) == "self._send_scp"
         and [U(a) for a in call.args[:2]] == ["x", "y"] and len(call.args) == 4
         and [k.arg for k in call.keywords] == ["arg1", "arg2", "arg3", "data", "expected_args"]
         and U(call.keywords[3].value) == "cur_data" and U(call.keywords[4].value) == "0", wb[2],
         "self._send_scp(x, y, p, cmd, arg1=, arg2=, arg3=, data=cur_data, expected_args=0)")
    add("(* self._send_scp(x, y, <p>, <cmd>, arg1=, arg2=, arg3=, data=cur_data, expected_args=0): (p, cmd, arg1, arg2, arg3) *)\n")
    add(trtuple("lwrite_call", ["address", "to_write", "link"],
                [call.args[2], call.args[3]] + [k.value for k in call.keywords[:3]], SDL))
    add(trz("lwrite_next_address", ["address", "to_write"], aug(wb[3], "address", ast.Add, "to_write")))
    add(trz("lwrite_next_cur", ["cur_byte", "to_write"], aug(wb[4], "cur_byte", ast.Add, "to_write")))
    add(trz("lwrite_next_length", ["length_bytes", "to_write"], aug(wb[5], "length_bytes", ast.Sub, "to_write")))

    f, b = method("read_across_link", ["address", "length_bytes", "x", "y", "link"])
    need(len(b) == 6 and isinstance(b[4], ast.While) and not b[4].orelse, f,
         "two guards, two assignments, a loop, a return")
    add("(* %s : read_across_link, line %d *)\n" % (MC, f.lineno))
    add(trz("lread_guard_address", ["address"], guard_raise(b[0], "ValueError")))
    add(trz("lread_guard_length", ["length_bytes"], guard_raise(b[1], "ValueError")))
    is_text(b[2], "data = bytearray(length_bytes)")
    is_text(b[3], "mem = memoryview(data)")
    w = b[4]
    add(trz("lread_cond", ["length_bytes"], w.test, typ="bool"))
    wb = list(w.body)
    need(len(wb) == 6, w, "six statements in the loop")
    add(trz("lread_to_read", ["length_bytes", "scp_data_length"], assign(wb[0], "to_read"), SDL))
    call = assign(wb[1], "response")
    need(isinstance(call, ast.Call) and U(call.func) == "self._send_scp"
         and [U(a) for a in call.args[:2]] == ["x", "y"] and len(call.args) == 4
         and [k.arg for k in call.keywords] == ["arg1", "arg2", "arg3", "expected_args"]
         and U(call.keywords[3].value) == "0", wb[1],
         "response = self._send_scp(x, y, p, cmd, arg1=, arg2=, arg3=, expected_args=0)")
    add(trtuple("lread_call", ["address", "to_read", "link"],
                [call.args[2], call.args[3]] + [k.value for k in call.keywords[:3]], SDL))
    add("(* mem[:to_read] = response.data (lengths must agree); mem = mem[to_read:] *)\n")
    is_text(wb[2], "mem[:to_read] = response.data")
    is_text(wb[3], "mem = mem[to_read:]")
    add(trz("lread_next_address", ["address", "to_read"], aug(wb[4], "address", ast.Add, "to_read")))
    add(trz("lread_next_length", ["length_bytes", "to_read"], aug(wb[5], "length_bytes", ast.Sub, "to_read")))
    is_text(b[5], "return bytes(data)")

    # ------------------------------------------------------------------ struct fields
    f, b = method("_get_struct_field_and_address", ["struct_name", "field_name"], deco=False)
    need(len(b) == 4, f, "four statements")
    is_text(b[0], "field = self.structs[six.b(struct_name)][six.b(field_name)]")
    add("(* %s : _get_struct_field_and_address, line %d *)\n" % (MC, f.lineno))
    add(trz("struct_field_address", ["base", "offset"], assign(b[1], "address"),
            {"self.structs[six.b(struct_name)].base": "base", "field.offset": "offset"}))
    is_text(b[2], "pack_chars = b'<' + field.length * field.pack_chars")
    is_text(b[3], "return (field, address, pack_chars)")
    f, b = method("read_struct_field", ["struct_name", "field_name", "x", "y", "p"])
    need(len(b) == 5, f, "five statements")
    is_text(b[0], "field, address, pack_chars = self._get_struct_field_and_address(struct_name, field_name)")
    is_text(b[1], "length = struct.calcsize(pack_chars)")
    is_text(b[2], "data = self.read(address, length, x, y, p)")
    is_text(b[3], "unpacked = struct.unpack(pack_chars, data)")
    f, b = method("write_struct_field", ["struct_name", "field_name", "values", "x", "y", "p"])
    need(len(b) == 3, f, "three statements")
    is_text(b[0], "field, address, pack_chars = self._get_struct_field_and_address(struct_name, field_name)")
    is_text(b[1], "if field.length != 1:\n    assert len(values) == field.length\n    data = struct.pack(pack_chars, *values)"
                  "\nelse:\n    data = struct.pack(pack_chars, values)")
    is_text(b[2], "self.write(address, data, x, y, p)")
    add("(* read_struct_field: self.read(address, struct.calcsize(pack_chars), x, y, p);"
        " write_struct_field: self.write(address, struct.pack(pack_chars, ...), x, y, p) *)\n")

    f, b = method("_get_vcpu_field_and_address", ["field_name", "x", "y", "p"], deco=False)
    need(len(b) == 5, f, "five statements")
    is_text(b[0], "vcpu_struct = self.structs[b'vcpu']")
    is_text(b[1], "field = vcpu_struct[six.b(field_name)]")
    add("(* %s : _get_vcpu_field_and_address, line %d; vcpu_base = self.read_struct_field('sv', 'vcpu_base', x, y) *)\n"
        % (MC, f.lineno))
    add(trz("vcpu_field_address", ["vcpu_base", "vcpu_size", "p", "offset"], assign(b[2], "address"),
            {"self.read_struct_field('sv', 'vcpu_base', x, y)": "vcpu_base", "vcpu_struct.size": "vcpu_size",
             "field.offset": "offset"}))
    is_text(b[3], "pack_chars = b'<' + field.pack_chars")
    is_text(b[4], "return (field, address, pack_chars)")
    f, b = method("read_vcpu_struct_field", ["field_name", "x", "y", "p"])
    need(len(b) == 5, f, "five statements")
    is_text(b[0], "field, address, pack_chars = self._get_vcpu_field_and_address(field_name, x, y, p)")
    is_text(b[1], "length = struct.calcsize(pack_chars)")
    is_text(b[2], "data = self.read(address, length, x, y)")
    is_text(b[3], "unpacked = struct.unpack(pack_chars, data)")
    f, b = method("write_vcpu_struct_field", ["field_name", "value", "x", "y", "p"])
    need(len(b) == 3, f, "three statements")
    is_text(b[0], "field, address, pack_chars = self._get_vcpu_field_and_address(field_name, x, y, p)")
    is_text(b[2], "self.write(address, data, x, y)")
    rd = py2v.find_function(tree, "MachineController.read")
    need(len(rd.args.defaults) == 1 and U(rd.args.defaults[0]) == "0", rd, "read(..., p=0)")
    wr = py2v.find_function(tree, "MachineController.write")
    need(len(wr.args.defaults) == 1 and U(wr.args.defaults[0]) == "0", wr, "write(..., p=0)")
    add("(* read/write_vcpu_struct_field: self.read|write(address, ..., x, y) with the default p = 0 *)\n")
    add(defn("vcpu_access_core", [], "Z", D.z(0)))

    # ------------------------------------------------------------------ the struct tables are controller state
    cls = [n for n in tree.body if isinstance(n, ast.ClassDef) and n.name == "MachineController"]
    need(len(cls) == 1, tree, "class MachineController")
    stores, other = [], []
    for fn_ in cls[0].body:
        if not isinstance(fn_, ast.FunctionDef):
            continue
        for n in ast.walk(fn_):
            if isinstance(n, ast.Attribute) and U(n) == "self.structs":
                if isinstance(n.ctx, (ast.Store, ast.Del)):
                    stores.append((fn_.name, n))
        for n in ast.walk(fn_):
            # self.structs.<method>(...) or self.structs[...] = ... would change the tables in place
            if isinstance(n, ast.Call) and isinstance(n.func, ast.Attribute) and U(n.func.value) == "self.structs":
                other.append((fn_.name, n))
            if isinstance(n, ast.Subscript) and U(n.value) == "self.structs" and isinstance(n.ctx, (ast.Store, ast.Del)):
                other.append((fn_.name, n))
    need(not other, other[0][1] if other else tree, "self.structs is never updated in place")
    need(sorted(f for f, _ in stores) == ["__init__", "__init__", "boot"], tree,
         "self.structs is assigned in __init__ (twice) and in boot only, found %r" % sorted(f for f, _ in stores))
    f = py2v.find_function(tree, "MachineController.__init__")
    txt = [U(st_) for st_ in strip_doc(f.body)]
    need("self.structs = structs" in txt and
         "if self.structs is None:\n    struct_data = pkg_resources.resource_string('rig', 'boot/sark.struct')\n"
         "    self.structs = struct_file.read_struct_file(struct_data)" in txt, f,
         "__init__: self.structs = structs, the bundled boot/sark.struct when None")
    f = py2v.find_function(tree, "MachineController.boot")
    txt = [U(st_) for st_ in strip_doc(f.body)]
    need("self.structs = boot.boot(self.initial_host, **boot_kwargs)" in txt and "assert len(self.structs) > 0" in txt, f,
         "boot: self.structs = boot.boot(self.initial_host, **boot_kwargs) at the top level of the method")
    add("(* %s : the struct tables are state of the controller: assigned by __init__ (the argument, or the bundled\n"
        "   boot/sark.struct) and REPLACED by boot() with the tables boot.boot() returns; never updated in place;\n"
        "   every accessor above looks them up in self.structs at the time of the call *)\n" % MC)
    add("Definition boot_replaces_structs : bool :=\n  true.\n")

    # ------------------------------------------------------------------ fill
    f, b = method("fill", ["address", "data", "size", "x", "y", "p"])
    need(len(b) == 1 and isinstance(b[0], ast.If) and len(b[0].body) == 2 and len(b[0].orelse) == 1, f,
         "if <unaligned>: two statements else: one")
    add("(* %s : fill, line %d *)\n" % (MC, f.lineno))
    t = b[0].test
    need(isinstance(t, ast.BoolOp) and isinstance(t.op, ast.Or) and len(t.values) == 2, t,
         "if <int> or <int>: (truth of a Python int is `<> 0`)")
    parts = [tr(v, ["address", "size"]) for v in t.values]
    need(all(ty == "Z" for _, ty in parts), t, "integer operands")
    add(defn("fill_uses_write", ["address", "size"], "bool",
             " || ".join("negb (%s =? 0)" % tx for tx, _ in parts)))
    is_text(b[0].body[0], "data = struct.pack('<B', data) * size")
    is_text(b[0].body[1], "self.write(address, data, x, y, p)")
    call = b[0].orelse[0].value if isinstance(b[0].orelse[0], ast.Expr) else None
    need(isinstance(call, ast.Call) and U(call.func) == "self._send_scp" and len(call.args) == 7
         and [U(a) for a in call.args[:3]] == ["x", "y", "p"] and not call.keywords, b[0].orelse[0],
         "self._send_scp(x, y, p, cmd, arg1, arg2, arg3)")
    add("(* else: self._send_scp(x, y, p, cmd, arg1, arg2, arg3) *)\n")
    add(trtuple("fill_call", ["address", "data", "size"], call.args[3:]))

    # =================================================================== live objects
    out.append("(* rig/machine_control/consts.py : the members of SCPCommands named by the functions above, DataType *)\n")
    for name in sorted(ENUMS_USED):
        out.append(defn(name, [], "Z", D.z(ENUMS_USED[name])))
    for need_ in ("read", "write", "fill", "link_read", "link_write"):
        if "SCPCommands_" + need_ not in ENUMS_USED:
            raise Shape("the functions no longer name SCPCommands." + need_)
    out.append(defn("SCPCommands_sver", [], "Z", D.z(int(consts.SCPCommands.sver))))
    out.append(D.enum("DataType", consts.DataType))
    out.append(defn("SDP_HEADER_LENGTH", [], "Z", D.z(consts.SDP_HEADER_LENGTH)))
    out.append(defn("SCP_SVER_RECEIVE_LENGTH_MAX", [], "Z", D.z(consts.SCP_SVER_RECEIVE_LENGTH_MAX)))
    tab = consts.address_length_dtype
    if sorted(tab) != [(i, j) for i in range(4) for j in range(4)]:
        raise Shape("address_length_dtype no longer has the 16 keys (i, j), 0 <= i, j < 4")
    out.append("(* rig/machine_control/consts.py : address_length_dtype, ((address mod 4, length mod 4), dtype), sorted by key *)\n")
    out.append(defn("address_length_dtype", [], "list ((Z * Z) * Z)",
                    D.lst("((%s, %s), %s)" % (D.z(i), D.z(j), D.z(int(tab[(i, j)]))) for (i, j) in sorted(tab))))
    out += body_out

    # the default struct file as MachineController.__init__ loads it
    import pkg_resources
    from rig.machine_control import struct_file
    structs = struct_file.read_struct_file(pkg_resources.resource_string("rig", "boot/sark.struct"))
    out.append("(* rig/boot/sark.struct as parsed by struct_file.read_struct_file: (name, (offset, nbytes)) in dict order.\n"
               "   nbytes = struct.calcsize of the format the accessor builds: '<' + length * pack_chars for sv\n"
               "   (_get_struct_field_and_address), '<' + pack_chars for vcpu (_get_vcpu_field_and_address). *)\n")
    for sname, per_core in ((b"sv", False), (b"vcpu", True)):
        s = structs[sname]
        nm = sname.decode()
        out.append(defn("%s_struct_base" % nm, [], "Z", D.z(s.base)))
        out.append(defn("%s_struct_size" % nm, [], "Z", D.z(s.size)))
        items = []
        chars = []
        for fname, fld in s.fields.items():
            fmt = b"<" + (fld.pack_chars if per_core else fld.length * fld.pack_chars)
            items.append("(%s, (%s, %s))" % (D.string(fname.decode()), D.z(fld.offset), D.z(struct.calcsize(fmt))))
            chars.append("(%s, (%s, %s))" % (D.string(fname.decode()), D.string(fld.pack_chars.decode()), D.z(fld.length)))
        out.append(defn("%s_fields" % nm, [], "list (string * (Z * Z))", D.lst(items)))
        out.append("(* pack characters and array length of each field *)\n")
        out.append(defn("%s_pack_chars" % nm, [], "list (string * (string * Z))", D.lst(chars)))
    vb = structs[b"sv"][b"vcpu_base"]
    if vb.pack_chars != b"I" or vb.length != 1:
        raise Shape("sv.vcpu_base is no longer one little-endian 32-bit word")
    out.append(defn("sv_vcpu_base_offset", [], "Z", D.z(vb.offset)))
    print("".join(out))


if __name__ == "__main__":
    try:
        main()
    except BaseException as e:                 # fail closed, without a traceback
        if isinstance(e, SystemExit):
            raise
        sys.stderr.write("Unsupported: %s: %s\n" % (type(e).__name__, str(e).replace("\n", " ")[:1200]))
        sys.exit(2)
