"""Shape of rig/bitfield.py as far as the bit-field model (coq/Model/BitField.v) relies on it (ast only; nothing is
imported or run).  Fail closed:

* the classes BitField, BitField._Field, BitField._Tree must define exactly the methods listed in PINNED (a new,
  renamed or removed method is Unsupported);
* the body of every modelled method (docstring stripped) must be one of the shapes the model was written for,
  identified by the digest of its ast; two methods have two known shapes, and WHICH one is present is emitted as
  a constant the model is parameterised by (so the theorems are re-checked against the present text):
    _assign_field : range(0, self.length - length + 1)  -> gen_scan_orig  = false   (fix df25254)
                    range(0, self.length - length)      -> gen_scan_orig  = true
    add_field     : not 0 <= start_at < self.length or ... -> gen_range_orig = false   (fix 27665d7)
                    0 <= start_at >= self.length or ...    -> gen_range_orig = true
* independently of the digests, the statements on which an aliasing / by-reference argument rests are matched
  structurally and listed in the generated file: how add_field normalises `tags` (every branch builds a NEW set
  before anything else uses the argument), that the new _Field receives that set, that parents are updated with it,
  that get_tags returns `.tags.copy()`, that __call__ merges into the keyword dict and records max_value only in a
  second loop after the validating loop, that requirement values are compared with != (not identity) and that both
  child filters leave their loop with `break`; and every `return` of a public method is classified
  (fresh value / copy / internal object) -- an unclassifiable return is Unsupported.
"""
import ast
import hashlib
import os
import sys

sys.path.insert(0, os.path.dirname(os.path.abspath(__file__)))
import dumplib as D  # noqa: E402

REPO = os.environ.get("PYTHONPATH", "/repo").split(os.pathsep)[0]


class Unsupported(Exception):
    pass


def need(cond, what):
    if not cond:
        raise Unsupported(what)


def dump(n):
    return ast.dump(n, annotate_fields=False)


def strip_doc(body):
    if body and isinstance(body[0], ast.Expr) and isinstance(body[0].value, ast.Constant) \
            and isinstance(body[0].value.value, str):
        return body[1:]
    return body


def digest(fn):
    args = dump(fn.args)
    return hashlib.sha1((args + "|" + "|".join(dump(s) for s in strip_doc(fn.body))).encode()).hexdigest()[:16]


def expr(src):
    return dump(ast.parse(src, mode="eval").body)


def stmt(src):
    return dump(ast.parse(src).body[0])


# method -> {digest: variant}; filled in from the source the model was written for (see --digests)
PINNED = {'BitField.__call__': {'28716e1482af7826': 'as-modelled'},
 'BitField.__getattr__': {'455227d18fc11908': 'as-modelled'},
 'BitField.__init__': {'8dc92991d5a1e0a4': 'as-modelled'},
 'BitField._assign_field': {'8b692adbeda84b4e': 'scan-fixed', '713c8bcd6bcf7879': 'scan-orig'},
 'BitField._assign_fields': {'776b5d887fbef0d4': 'as-modelled'},
 'BitField._select_by_field_or_tag': {'46d61d90d1c8ccbc': 'as-modelled'},
 'BitField.add_field': {'2058d0e3db6b7f8a': 'range-orig', 'd4e24a8e32f07139': 'range-fixed'},
 'BitField.assign_fields': {'f8a0d615e98938a4': 'as-modelled'},
 'BitField.get_location_and_length': {'72e676a6e291f8c3': 'as-modelled'},
 'BitField.get_mask': {'b70274adf203da34': 'as-modelled'},
 'BitField.get_tags': {'257ed108b95bdbcc': 'as-modelled'},
 'BitField.get_value': {'aa055203db21bddb': 'as-modelled'},
 '_Field.__init__': {'91d2144c4f18c17c': 'as-modelled'},
 '_Tree.__init__': {'ad39a46cb756f50f': 'as-modelled'},
 '_Tree._enabled_children': {'df606de0d7c04b92': 'as-modelled'},
 '_Tree._potential_children': {'beeab9ccdf53de3e': 'as-modelled'},
 '_Tree.add_field': {'aeb815c82e198562': 'as-modelled'},
 '_Tree.enabled_fields': {'b766229df97ddb05': 'as-modelled'},
 '_Tree.get_field': {'cf930d61a5794007': 'as-modelled'},
 '_Tree.get_field_requirements': {'f942a1f852229fec': 'as-modelled'},
 '_Tree.potential_fields': {'1b5c3c7e31992ad5': 'as-modelled'}}

MODEL_IGNORES = {
    # not modelled, not relied upon (messages, equality, repr); their shape is free
    "BitField": {"__eq__", "__ne__", "__repr__"},
    "_Tree": {"get_field_candidates", "get_field_human_readable"},
    "_Field": set(),
}


def methods(cls):
    return {n.name: n for n in cls.body if isinstance(n, ast.FunctionDef)}


def classify_return(fn):
    """fresh / copy / internal for every `return` (and `yield`) of fn"""
    kinds = []
    for n in ast.walk(fn):
        if isinstance(n, ast.Return):
            v = n.value
            if v is None or isinstance(v, (ast.Constant, ast.Tuple, ast.BinOp, ast.BoolOp, ast.Compare, ast.UnaryOp)):
                kinds.append("fresh")
            elif isinstance(v, ast.Name) and v.id in ("value", "mask", "assigned_bits", "selected_fields",
                                                      "requirements", "candidates"):
                kinds.append("fresh")               # locals built inside the method
            elif isinstance(v, ast.Call) and isinstance(v.func, ast.Attribute) and v.func.attr == "copy":
                kinds.append("copy")
            elif isinstance(v, ast.Call) and isinstance(v.func, ast.Attribute) and v.func.attr in ("get", "format"):
                kinds.append("fresh")               # an int / None out of field_values, a string
            elif isinstance(v, ast.Call) and isinstance(v.func, ast.Call):
                kinds.append("fresh")               # type(self)(...) : a new object
            elif isinstance(v, ast.Call) and isinstance(v.func, ast.Name) and v.func.id in ("OrderedDict",):
                kinds.append("fresh")
            elif isinstance(v, ast.Subscript) or (isinstance(v, ast.Call) and isinstance(v.func, ast.Attribute)
                                                  and v.func.attr in ("get_field", "get_field_requirements")):
                kinds.append("internal")            # the _Field object itself (private API only)
            else:
                raise Unsupported("%s: cannot classify `return %s`" % (fn.name, dump(v)))
        elif isinstance(n, (ast.Yield, ast.YieldFrom)):
            kinds.append("internal")
    return sorted(set(kinds)) or ["fresh"]


def structural(bf, tree_cls, field_cls):
    facts = []
    m = methods(bf)
    # ---- add_field: tags normalisation, the new field, the parents
    body = strip_doc(m["add_field"].body)
    norm = [s for s in body if isinstance(s, ast.If) and dump(s.test) == expr("type(tags) is str")]
    need(len(norm) == 1, "add_field: `if type(tags) is str:` normalisation not found")
    need(dump(norm[0]) == stmt("if type(tags) is str:\n    tags = set(tags.split())\nelif tags is None:\n    tags = set()\n"
                               "else:\n    tags = set(tags)\n"),
         "add_field: tags are not normalised to a new set in every branch")
    k = body.index(norm[0])
    need(dump(body[k + 1]) == stmt("field = type(self)._Field(length, start_at, tags)"),
         "add_field: the new _Field is not built from (length, start_at, tags) right after the normalisation")
    need(dump(body[k + 2]) == stmt("self.fields.add_field(field, identifier, self.field_values)"),
         "add_field: tree insertion changed")
    need(dump(body[k + 3]) == stmt(
        "for parent_identifier in self.fields.get_field_requirements(identifier, self.field_values):\n"
        "    parent = self.fields.get_field(parent_identifier, self.field_values)\n"
        "    parent.tags.update(tags)\n") and len(body) == k + 4,
         "add_field: propagation of the tags to the parents changed")
    need(not any(isinstance(x, ast.Name) and x.id == "tags" for s in body[:k] for x in ast.walk(s)),
         "add_field: `tags` is used before it is normalised")
    facts.append("tags_normalised_to_new_set")
    # _Field.__init__ stores what it is given
    need(any(dump(s) == stmt("self.tags = tags or set()") for s in strip_doc(methods(field_cls)["__init__"].body)),
         "_Field.__init__: self.tags = tags or set() expected")
    need(dump(methods(field_cls)["__init__"].args.defaults[-1]) == expr("1"), "_Field: max_value default is not 1")
    facts.append("field_max_value_default_1")
    # ---- get_tags
    need([dump(s) for s in strip_doc(m["get_tags"].body)] ==
         [stmt("return self.fields.get_field(field, self.field_values).tags.copy()")],
         "get_tags does not return a copy of the field's tag set")
    facts.append("get_tags_returns_copy")
    # ---- __call__: validate everything, then record
    body = strip_doc(m["__call__"].body)
    loops = [s for s in body if isinstance(s, ast.For)]
    need(len(loops) == 3 and dump(body[1]) == stmt("field_values.update(self.field_values)"),
         "__call__: three loops with the merge after the first expected")
    need(not any(isinstance(x, ast.Attribute) and x.attr == "max_value" for x in ast.walk(loops[1])),
         "__call__: max_value is touched inside the validating loop")
    need(dump(loops[2].body[-1]) == stmt("field.max_value = max(field.max_value, value)"),
         "__call__: recording loop changed")
    need(dump(body[-1]) == stmt("return type(self)(self.length, self.fields, field_values)"), "__call__: return changed")
    facts.append("call_validates_before_recording")
    # ---- child filters
    t = methods(tree_cls)
    for name, test in (("_enabled_children", "ident not in field_values or value != field_values[ident]"),
                       ("_potential_children", "ident in field_values and value != field_values[ident]")):
        body = strip_doc(t[name].body)
        need(len(body) == 1 and isinstance(body[0], ast.For), name + ": one loop expected")
        inner = [s for s in body[0].body if isinstance(s, ast.For)]
        need(len(inner) == 1 and len(inner[0].body) == 1 and isinstance(inner[0].body[0], ast.If), name + ": inner loop changed")
        cond = inner[0].body[0]
        need(dump(cond.test) == expr(test), name + ": requirement test is not `" + test + "`")
        need([dump(s) for s in cond.body] == [stmt("conflict = True"), dump(ast.Break())], name + ": conflict / break changed")
    facts.append("requirements_compared_by_value_with_break")
    return facts


def consts(bf):
    """the two constants the model is parameterised by, found structurally (independent of the digests, so that
    the model can still be built -- and run against the code -- when some other method changed shape)"""
    m = methods(bf)
    loops = [n for n in ast.walk(m["_assign_field"]) if isinstance(n, ast.For) and isinstance(n.target, ast.Name) and n.target.id == "bit"]
    need(len(loops) == 1, "_assign_field: the scan `for bit in range(...)` not found")
    it = dump(loops[0].iter)
    if it == expr("range(0, self.length - length + 1)"):
        scan = "false"
    elif it == expr("range(0, self.length - length)"):
        scan = "true"
    else:
        raise Unsupported("_assign_field: scan bound %s is neither of the two modelled ones" % it)
    tests = [n.test for n in strip_doc(m["add_field"].body) if isinstance(n, ast.If)
             and any(isinstance(x, ast.Name) and x.id == "start_at" for x in ast.walk(n.test))
             and any(isinstance(x, ast.Attribute) and x.attr == "length" for x in ast.walk(n.test))]
    need(len(tests) == 1, "add_field: the range test on start_at not found")
    t = dump(tests[0])
    if t == expr("start_at is not None and (not 0 <= start_at < self.length or start_at + (length or 1) > self.length)"):
        rng = "false"
    elif t == expr("start_at is not None and (0 <= start_at >= self.length or start_at + (length or 1) > self.length)"):
        rng = "true"
    else:
        raise Unsupported("add_field: range test %s is neither of the two modelled ones" % t)
    lens = [n for n in ast.walk(m["_assign_field"]) if isinstance(n, ast.Assign) and len(n.targets) == 1
            and isinstance(n.targets[0], ast.Name) and n.targets[0].id == "length" and isinstance(n.value, (ast.Call, ast.BinOp))]
    need(len(lens) == 1, "_assign_field: the statement computing the automatic length not found")
    ln = dump(lens[0].value)
    if ln == expr("int(field.max_value).bit_length()"):
        exact = "true"                       # Python's int.bit_length: the model's [bitlen]
    elif ln == expr("int(log(field.max_value, 2)) + 1"):
        exact = "false"                      # floating point: one bit too many from 2^48 - 1 upwards (before b55359e)
    else:
        raise Unsupported("_assign_field: automatic length %s is neither int.bit_length nor the float formula" % ln)
    return scan, rng, exact


def main():
    src = open(os.path.join(REPO, "rig/bitfield.py")).read()
    tree = ast.parse(src)
    cls = {n.name: n for n in tree.body if isinstance(n, ast.ClassDef)}
    need("BitField" in cls, "class BitField not found")
    bf = cls["BitField"]
    inner = {n.name: n for n in bf.body if isinstance(n, ast.ClassDef)}
    need(set(inner) == {"_Field", "_Tree"}, "inner classes of BitField are not exactly _Field and _Tree")
    owners = {"BitField": bf, "_Field": inner["_Field"], "_Tree": inner["_Tree"]}
    if "--digests" in sys.argv:
        out = {}
        for cname, c in owners.items():
            for name, fn in methods(c).items():
                if name not in MODEL_IGNORES[cname]:
                    out["%s.%s" % (cname, name)] = {digest(fn): "as-modelled"}
        import pprint
        pprint.pprint(out, width=110)
        return
    if "shape" not in sys.argv:
        scan, rng, exact = consts(bf)
        out = [D.HEADER % "dump_c08.py",
               "(* which of the two known shapes of the first-fit scan / the range test the source has now *)\n",
               D.definition("gen_scan_orig", "bool", scan), D.definition("gen_range_orig", "bool", rng),
               "(* the automatic length is int(max_value).bit_length() (true) / the float formula int(log(v,2))+1 (false) *)\n",
               D.definition("gen_auto_length_exact", "bool", exact)]
        sys.stdout.write("".join(out))
        return
    variants = {}
    inventory = []
    for cname, c in owners.items():
        ms = methods(c)
        known = {k.split(".", 1)[1] for k in PINNED if k.startswith(cname + ".")} | MODEL_IGNORES[cname]
        need(set(ms) == known, "%s: methods %s differ from the modelled set %s" % (cname, sorted(ms), sorted(known)))
        for name, fn in ms.items():
            if name in MODEL_IGNORES[cname]:
                continue
            d = digest(fn)
            table = PINNED["%s.%s" % (cname, name)]
            need(d in table, "%s.%s: body has a shape the model was not written for (digest %s)" % (cname, name, d))
            variants["%s.%s" % (cname, name)] = table[d]
            if cname == "BitField" and not name.startswith("_") or name in ("__call__", "__getattr__"):
                inventory.append((name, classify_return(fn)))
    facts = structural(bf, inner["_Tree"], inner["_Field"])
    public_internal = [n for n, k in inventory if "internal" in k]
    need(not public_internal, "public methods returning internal objects by reference: %s" % public_internal)
    out = [D.HEADER % "dump_c08.py", "Require Import Coq.Strings.String.\n"]
    scan, rng, exact = consts(bf)
    need(exact == "true", "_assign_field: automatic length is the floating-point formula, which the model does not follow")
    need((scan == "true") == (variants["BitField._assign_field"] == "scan-orig")
         and (rng == "true") == (variants["BitField.add_field"] == "range-orig"), "digest table and constants disagree")
    out.append("(* modelled methods, all with a recognised shape *)\n")
    out.append(D.definition("gen_bitfield_methods", "list string", D.lst(D.string(k) for k in sorted(variants))))
    out.append("(* what the public methods hand out: fresh values or copies, never an internal object *)\n")
    out.append(D.definition("gen_bitfield_returns", "list (string * list string)",
                            D.lst(D.pair(D.string(n), D.lst(D.string(x) for x in k)) for n, k in sorted(inventory))))
    out.append("(* structural facts matched statement by statement *)\n")
    out.append(D.definition("gen_bitfield_facts", "list string", D.lst(D.string(f) for f in facts)))
    sys.stdout.write("".join(out))


if __name__ == "__main__":
    try:
        main()
    except Unsupported as e:
        sys.stderr.write("Unsupported: %s\n" % e)
        sys.exit(2)
