(* What C08 asks of a bit field, stated on the tree / store / returned numbers only, and the boolean
   checker [check_bitfield] that the harness evaluates on the real object's layout.  Definitions only. *)
From Coq Require Import ZArith List Bool.
Require Import Rig.Model.Base Rig.Model.BitField.
Import ListNotations.
Open Scope Z_scope.

(* ------------------------------------------------------------------ positions *)
Definition frange (s : list field) (fid : nat) : option (Z * Z) :=
  match f_start (sget s fid), f_len (sget s fid) with
  | Some st, Some l => Some (st, l)
  | _, _ => None
  end.

(* every field of the tree: potential_fields with no value fixed *)
Definition all_fields (t : tree) : list (ident * nat) := potential_fields t [].

(* the field has a position and lies inside [0, L) *)
Definition placed_inside (L : Z) (s : list field) (fid : nat) : Prop :=
  exists st l, frange s fid = Some (st, l) /\ 0 <= st /\ 0 < l /\ st + l <= L.

Definition all_placed (L : Z) (t : tree) (s : list field) : Prop :=
  forall i f, In (i, f) (all_fields t) -> placed_inside L s f.

(* two fields that are present together for some assignment of values -- both listed by
   enabled_fields for the same field_values -- occupy disjoint bit ranges *)
Definition no_overlap (t : tree) (s : list field) : Prop :=
  forall fv i1 f1 i2 f2,
    In (i1, f1) (enabled_fields t fv) -> In (i2, f2) (enabled_fields t fv) -> f1 <> f2 ->
    forall st1 l1 st2 l2, frange s f1 = Some (st1, l1) -> frange s f2 = Some (st2, l2) ->
      st1 + l1 <= st2 \/ st2 + l2 <= st1.

(* wide enough: the largest value ever given (max_value) fits the length *)
Definition wide_enough (t : tree) (s : list field) : Prop :=
  forall i f l, In (i, f) (all_fields t) -> f_len (sget s f) = Some l -> 0 <= f_max (sget s f) < 2 ^ l.

(* ------------------------------------------------------------------ keys *)
(* bits [st, st+l) *)
Definition range_mask (st l : Z) : Z := Z.shiftl (Z.ones l) st.

(* the value of field (st, l) read back from a key *)
Definition read_field (key st l : Z) : Z := Z.land (Z.shiftr key st) (Z.ones l).

(* the union of the bits of a list of selected fields *)
Definition union_bits (s : list field) (sel : list (ident * nat)) : Z :=
  fold_right (fun p acc => match frange s (snd p) with
                           | Some (st, l) => Z.lor (range_mask st l) acc
                           | None => acc
                           end) 0 sel.

(* (value, mask) pairs as routing keys: some key matches both *)
Definition keys_intersect (v1 m1 v2 m2 : Z) : Prop :=
  exists k, Z.land k m1 = v1 /\ Z.land k m2 = v2.

(* an instance is complete when every enabled field has a value *)
Definition complete (t : tree) (fv : fvals) : Prop :=
  forall i f, In (i, f) (enabled_fields t fv) -> zassoc i fv <> None.

(* an instance's values are usable: the value of every enabled field fits the field's length *)
Definition values_fit (t : tree) (s : list field) (fv : fvals) : Prop :=
  forall i f x, In (i, f) (enabled_fields t fv) -> zassoc i fv = Some x ->
    exists st l, frange s f = Some (st, l) /\ 0 <= x < 2 ^ l.

(* ------------------------------------------------------------------ the flat view *)
(* every field with the requirements accumulated on the way down to its node *)
Fixpoint flat (t : tree) (path : fvals) : list (fvals * (ident * nat)) :=
  match t with
  | Node fs cs =>
      map (fun p => (path, p)) fs
      ++ flat_map (fun rc => match rc with (req, c) => flat c (path ++ req) end) cs
  end.

(* two requirement sets never ask two values of one identifier *)
Definition compat (p1 p2 : fvals) : Prop :=
  forall i v1 v2, In (i, v1) p1 -> In (i, v2) p2 -> v1 = v2.

Definition compatb (p1 p2 : fvals) : bool :=
  forallb (fun iv => forallb (fun jw => negb (fst iv =? fst jw) || (snd iv =? snd jw)) p2) p1.

Definition e_path (e : fvals * (ident * nat)) := fst e.
Definition e_name (e : fvals * (ident * nat)) := fst (snd e).
Definition e_fid (e : fvals * (ident * nat)) := snd (snd e).

(* tags: a field carries the tags of every field defined under a condition naming it *)
Definition depends_on (e e' : fvals * (ident * nat)) : bool :=
  existsb (fun iv => fst iv =? e_name e') (e_path e) && req_enabled (e_path e) (e_path e')
  && negb (Nat.eqb (e_fid e) (e_fid e')).

Definition tags_closed (t : tree) (s : list field) : Prop :=
  forall e e' tg, In e (flat t []) -> In e' (flat t []) -> depends_on e e' = true ->
    In tg (f_tags (sget s (e_fid e))) -> In tg (f_tags (sget s (e_fid e'))).

(* every _Field object hangs in the tree once *)
Definition fids_unique (t : tree) : Prop := NoDup (map e_fid (flat t [])).

(* a laid-out bit field: every field object hangs in the tree once, every field is placed inside the bit
   field, fields that can be present together are disjoint *)
Record sound_layout (L : Z) (t : tree) (s : list field) : Prop := {
  sl_unique : fids_unique t;
  sl_placed : all_placed L t s;
  sl_disjoint : no_overlap t s }.

(* the requirement tuple of a child only names fields of its parent node *)
Fixpoint keys_local (t : tree) : bool :=
  match t with
  | Node fs cs =>
      forallb (fun rc => match rc with
                         | (req, c) => forallb (fun iv => has_ident (fst iv) fs) req && keys_local c
                         end) cs
  end.

(* ------------------------------------------------------------------ the checker *)
Fixpoint nodupb (l : list nat) : bool :=
  match l with
  | [] => true
  | x :: l' => negb (existsb (Nat.eqb x) l') && nodupb l'
  end.

Definition placedb (L : Z) (s : list field) (fid : nat) : bool :=
  match frange s fid with
  | Some (st, l) => (0 <=? st) && (0 <? l) && (st + l <=? L) && (0 <=? f_max (sget s fid))
                    && (f_max (sget s fid) <? 2 ^ l)
  | None => false
  end.

Definition disjointb (s : list field) (f1 f2 : nat) : bool :=
  match frange s f1, frange s f2 with
  | Some (st1, l1), Some (st2, l2) => (st1 + l1 <=? st2) || (st2 + l2 <=? st1)
  | _, _ => false
  end.

Definition subsetb (a b : list Z) : bool := forallb (fun x => existsb (Z.eqb x) b) a.

Definition check_bitfield (L : Z) (t : tree) (s : list field) : bool :=
  let es := flat t [] in
  nodupb (map e_fid es)
  && keys_local t
  && forallb (fun e => Nat.ltb (e_fid e) (length s) && placedb L s (e_fid e)) es
  && forallb (fun e1 => forallb (fun e2 =>
        Nat.eqb (e_fid e1) (e_fid e2) || negb (compatb (e_path e1) (e_path e2))
        || disjointb s (e_fid e1) (e_fid e2)) es) es
  && forallb (fun e => forallb (fun e' =>
        negb (depends_on e e') || subsetb (f_tags (sget s (e_fid e))) (f_tags (sget s (e_fid e')))) es) es.

(* ------------------------------------------------------------------ completeness guard *)
(* no fragmentation pattern: at every node the children's requirement tuples pairwise contradict each
   other, so the fields that can be present together always lie on one root-to-node chain (every flat
   bit field, every hierarchy whose scopes are opened by one field per node) *)
Definition conflictb (p1 p2 : fvals) : bool := negb (compatb p1 p2).

Fixpoint pairwiseb {A} (r : A -> A -> bool) (l : list A) : bool :=
  match l with
  | [] => true
  | x :: l' => forallb (r x) l' && pairwiseb r l'
  end.

Fixpoint exclusive_children (t : tree) : bool :=
  match t with
  | Node _ cs =>
      pairwiseb (fun a b => conflictb (fst a) (fst b)) cs
      && forallb (fun rc => match rc with (_, c) => exclusive_children c end) cs
  end.

(* nothing is positioned yet (neither explicitly nor by an earlier assign_fields) *)
Definition unpositioned (t : tree) (s : list field) : Prop :=
  forall i f, In (i, f) (all_fields t) -> f_start (sget s f) = None.

(* width the assignment will give a field *)
Definition width_of (s : list field) (fid : nat) : Z :=
  match f_len (sget s fid) with Some l => l | None => bitlen (f_max (sget s fid)) end.

Definition widths_fit (L : Z) (t : tree) (s : list field) : Prop :=
  forall fv, fold_right Z.add 0 (map (fun p => width_of s (snd p)) (enabled_fields t fv)) <= L.
