"""Dumper of unit GenProbe (property C14).  Run under /venv/bin/python with PYTHONPATH=/repo.

Two kinds of content, both regenerated from the current /repo on every run:

  * expressions read with `ast` from the *source text* of the probing functions
      MachineController.get_chip_info / get_p2p_routing_table / get_software_version /
      get_processor_status / get_iobuf_bytes / get_router_diagnostics   (machine_controller.py)
      unpack_sver_response_version                                       (common.py)
      build_core_constraints                                             (place_and_route/utils.py)
    and translated by the expression translator of tools/py2v.py (masks, shifts, strides, slice bounds,
    struct format strings, which reply word feeds which field).  The statements around them are matched
    against the shape the hand-written model (coq/Model/Probe.v) follows; any other shape raises (fail
    closed), which the check reports as the broken obligation translate:GenProbe.
  * live objects: the members of Links / AppState / RuntimeException / P2PTableEntry, SPINNAKER_RTR_P2P,
    the parsed boot/sark.struct (`sv` base and the fields read while probing, the whole `vcpu` field table
    in dict order), the version regular expression, the field names of the result tuples.
"""
import ast
import importlib
import os
import sys
import warnings

warnings.simplefilter("ignore")       # stderr is merged into the generated text by the caller

sys.path.insert(0, os.path.dirname(os.path.abspath(__file__)))
import dumplib  # noqa: E402
import py2v  # noqa: E402

MC = "rig/machine_control/machine_controller.py"
COMMON = "rig/machine_control/common.py"
PRU = "rig/place_and_route/utils.py"


class Shape(Exception):
    pass


CUR = [MC]


def need(cond, node, what):
    if not cond:
        raise Shape("%s:%s: source no longer has the modelled shape: %s [%s]" % (
            CUR[0], getattr(node, "lineno", "?"), what,
            ast.unparse(node)[:200] if isinstance(node, ast.AST) else node))


def is_name(n, name):
    return isinstance(n, ast.Name) and n.id == name


def is_attr(n, obj, attr=None):
    return isinstance(n, ast.Attribute) and is_name(n.value, obj) and (attr is None or n.attr == attr)


class Subst(ast.NodeTransformer):
    """obj.attr -> attr ; consts.NAME -> NAME ; seq[k] (k literal) -> seq<k>, so that the expression
    translator of py2v sees plain integer variables."""

    def __init__(self, objs=(), subs=()):
        self.objs, self.subs = set(objs), set(subs)

    def visit_Attribute(self, n):
        if isinstance(n.value, ast.Name) and n.value.id in self.objs:
            return ast.copy_location(ast.Name(id=n.attr, ctx=ast.Load()), n)
        return self.generic_visit(n)

    def visit_Subscript(self, n):
        if isinstance(n.value, ast.Name) and n.value.id in self.subs and isinstance(n.slice, ast.Constant) \
                and type(n.slice.value) is int:
            return ast.copy_location(ast.Name(id="%s%d" % (n.value.id, n.slice.value), ctx=ast.Load()), n)
        return self.generic_visit(n)


def tr(e, free, objs=(), subs=(), want=None):
    """Translate expression e whose free names (after substitution) must all be in `free`."""
    import copy
    e = Subst(objs, subs).visit(copy.deepcopy(e))
    ast.fix_missing_locations(e)
    for n in ast.walk(e):
        if isinstance(n, ast.Name):
            need(n.id in free or n.id in ("min", "max", "abs", "bool", "int"), n,
                 "free name in a translated expression")
    f = py2v.Fn(None, dict(name=CUR[0], ret="Z"), {})
    f.types = {v: "Z" for v in free}
    text, typ = f.expr(e)
    if want is not None:
        need(typ == want, e, "expression of type %s, expected %s" % (typ, want))
    return text


def assigns(fn):
    """name -> list of values assigned to that plain name anywhere in the function"""
    out = {}
    for n in ast.walk(fn):
        if isinstance(n, ast.Assign) and len(n.targets) == 1 and isinstance(n.targets[0], ast.Name):
            out.setdefault(n.targets[0].id, []).append(n.value)
    return out


def one(d, name, fn):
    need(name in d and len(d[name]) == 1, fn, "exactly one assignment to " + name)
    return d[name][0]


def struct_call(n, fname):
    need(isinstance(n, ast.Call) and is_attr(n.func, "struct", fname) and not n.keywords and n.args
         and isinstance(n.args[0], ast.Constant) and isinstance(n.args[0].value, str), n,
         "struct.%s with a literal format" % fname)
    return n.args[0].value, list(n.args[1:])


def defn(name, params, typ, body):
    return "Definition %s %s: %s :=\n  %s.\n" % (name, "".join("(%s : Z) " % p for p in params), typ, body)


def int_const(n, what):
    need(isinstance(n, ast.Constant) and type(n.value) is int, n, what)
    return n.value


def load(root, rel):
    CUR[0] = rel
    with open(os.path.join(root, rel)) as f:
        return ast.parse(f.read())


def main():
    spec = importlib.util.find_spec("rig")
    root = os.path.dirname(list(spec.submodule_search_locations)[0])
    out = [dumplib.HEADER % "dump_c14.py"]
    tree = load(root, MC)

    # ------------------------------------------------------------------ get_chip_info
    fn = py2v.find_function(tree, "MachineController.get_chip_info")
    out.append("(* %s : get_chip_info, line %d *)" % (MC, fn.lineno))
    need([a.arg for a in fn.args.args] == ["self", "x", "y"], fn, "get_chip_info(self, x, y)")
    a = assigns(fn)
    info = one(a, "info", fn)
    need(ast.unparse(info) == "self._send_scp(x, y, 0, SCPCommands.info, expected_args=3)", info,
         "info = self._send_scp(x, y, 0, SCPCommands.info, expected_args=3)")
    W = ["arg1", "arg2", "arg3"]
    out.append(defn("ci_num_cores", W, "Z", tr(one(a, "num_cores", fn), W, objs=["info"], want="Z")))
    wl = one(a, "working_links", fn)
    need(isinstance(wl, ast.Call) and is_name(wl.func, "set") and len(wl.args) == 1 and not wl.keywords
         and isinstance(wl.args[0], ast.GeneratorExp) and is_name(wl.args[0].elt, "link")
         and len(wl.args[0].generators) == 1 and is_name(wl.args[0].generators[0].target, "link")
         and is_name(wl.args[0].generators[0].iter, "Links") and len(wl.args[0].generators[0].ifs) == 1,
         wl, "working_links = set(link for link in Links if <test>)")
    test = wl.args[0].generators[0].ifs[0]
    import copy
    t2 = Subst(["info"]).visit(copy.deepcopy(test))
    f = py2v.Fn(None, dict(name=MC, ret="Z"), {})
    f.types = {v: "Z" for v in W + ["link"]}
    for n in ast.walk(t2):
        need(not isinstance(n, ast.Name) or n.id in W + ["link"], n, "free name in the link test")
    out.append(defn("ci_link_working", W + ["link"], "bool", f.as_bool(t2)))
    out.append(defn("ci_rtr_block", W, "Z", tr(one(a, "largest_free_rtr_mc_block", fn), W, objs=["info"], want="Z")))
    out.append(defn("ci_ethernet_up", W, "bool", tr(one(a, "ethernet_up", fn), W, objs=["info"], want="bool")))
    fmt, args = struct_call(one(a, "data", fn), "unpack_from")
    need(len(args) == 1 and is_attr(args[0], "info", "data"), fn, "data = struct.unpack_from(fmt, info.data)")
    out.append(dumplib.definition("ci_data_format", "string", dumplib.string(fmt)))
    cs = one(a, "core_states", fn)
    need(isinstance(cs, ast.ListComp) and ast.unparse(cs.elt) == "consts.AppState(c)"
         and len(cs.generators) == 1 and is_name(cs.generators[0].target, "c") and not cs.generators[0].ifs
         and isinstance(cs.generators[0].iter, ast.Subscript) and is_name(cs.generators[0].iter.value, "data")
         and isinstance(cs.generators[0].iter.slice, ast.Slice) and cs.generators[0].iter.slice.lower is None
         and cs.generators[0].iter.slice.step is None, cs, "core_states = [consts.AppState(c) for c in data[:N]]")
    out.append(dumplib.definition("ci_states_stop", "Z",
                                  dumplib.z(int_const(cs.generators[0].iter.slice.upper, "data[:N]"))))
    D = ["data18", "data19"]
    le = one(a, "local_ethernet_chip", fn)
    need(isinstance(le, ast.Tuple) and len(le.elts) == 2, le, "local_ethernet_chip = (x, y)")
    out.append(defn("ci_local_ethernet_chip", D, "Z * Z", "(%s, %s)" % tuple(
        tr(e, D, subs=["data"], want="Z") for e in le.elts)))
    ip = one(a, "ip_address", fn)
    need(isinstance(ip, ast.Call) and isinstance(ip.func, ast.Attribute) and ip.func.attr == "join"
         and isinstance(ip.func.value, ast.Constant) and isinstance(ip.func.value.value, str)
         and len(ip.args) == 1 and isinstance(ip.args[0], ast.GeneratorExp)
         and isinstance(ip.args[0].elt, ast.Call) and is_name(ip.args[0].elt.func, "str")
         and len(ip.args[0].elt.args) == 1 and len(ip.args[0].generators) == 1
         and is_name(ip.args[0].generators[0].target, "i") and not ip.args[0].generators[0].ifs, ip,
         'ip_address = SEP.join(str(<expr>) for i in range(a, b, c))')
    rng = ip.args[0].generators[0].iter
    need(isinstance(rng, ast.Call) and is_name(rng.func, "range") and len(rng.args) == 3, rng, "range(a, b, c)")
    ra = [int_const(x, "range bound") for x in rng.args]
    out.append(dumplib.definition("ci_ip_separator", "string", dumplib.string(ip.func.value.value)))
    out.append(dumplib.definition("ci_ip_shifts", "list Z", dumplib.zlist(list(range(*ra)))))
    out.append(defn("ci_ip_byte", D + ["i"], "Z", tr(ip.args[0].elt.args[0], D + ["i"], subs=["data"], want="Z")))
    ret = [s for s in fn.body if isinstance(s, ast.Return)]
    need(len(ret) == 1 and isinstance(ret[0].value, ast.Call) and is_name(ret[0].value.func, "ChipInfo")
         and not ret[0].value.args, fn, "return ChipInfo(keyword=...)")
    kws = {k.arg: k.value for k in ret[0].value.keywords}
    for k in ("num_cores", "working_links", "largest_free_rtr_mc_block", "ethernet_up", "ip_address",
              "local_ethernet_chip"):
        need(k in kws and is_name(kws[k], k), ret[0], "ChipInfo(%s=%s)" % (k, k))
    need("core_states" in kws and ast.unparse(kws["core_states"]) == "core_states[:num_cores]", ret[0],
         "ChipInfo(core_states=core_states[:num_cores])")
    need(len(kws) == 9, ret[0], "nine keyword arguments")
    out.append(defn("ci_sdram", W, "Z", tr(kws["largest_free_sdram_block"], W, objs=["info"], want="Z")))
    out.append(defn("ci_sram", W, "Z", tr(kws["largest_free_sram_block"], W, objs=["info"], want="Z")))

    # ------------------------------------------------------------------ get_p2p_routing_table
    fn = py2v.find_function(tree, "MachineController.get_p2p_routing_table")
    out.append("(* %s : get_p2p_routing_table, line %d *)" % (MC, fn.lineno))
    a = assigns(fn)
    need(ast.unparse(one(a, "p2p_dims", fn)) == "self.read_struct_field('sv', 'p2p_dims', x, y)", fn,
         'p2p_dims = self.read_struct_field("sv", "p2p_dims", x, y)')
    out.append(defn("p2p_width", ["p2p_dims"], "Z", tr(one(a, "width", fn), ["p2p_dims"], want="Z")))
    out.append(defn("p2p_height", ["p2p_dims"], "Z", tr(one(a, "height", fn), ["p2p_dims"], want="Z")))
    out.append(defn("p2p_col_words", ["height"], "Z", tr(one(a, "col_words", fn), ["height"], want="Z")))
    loops = [s for s in fn.body if isinstance(s, ast.For)]
    need(len(loops) == 1 and ast.unparse(loops[0].target) == "col"
         and ast.unparse(loops[0].iter) == "range(width)" and len(loops[0].body) == 3, fn,
         "for col in range(width): <read>; row = 0; while ...")
    rd, row0, wh = loops[0].body
    need(isinstance(rd, ast.Assign) and is_name(rd.targets[0], "raw_table_col")
         and isinstance(rd.value, ast.Call) and is_attr(rd.value.func, "self", "read")
         and len(rd.value.args) == 4 and not rd.value.keywords and is_name(rd.value.args[1], "col_words")
         and is_name(rd.value.args[2], "x") and is_name(rd.value.args[3], "y"), rd,
         "raw_table_col = self.read(<address>, col_words, x, y)")
    out.append(defn("p2p_col_address", ["SPINNAKER_RTR_P2P", "col"], "Z",
                    tr(rd.value.args[0], ["SPINNAKER_RTR_P2P", "col"], objs=["consts"], want="Z")))
    need(ast.unparse(row0) == "row = 0", row0, "row = 0")
    need(isinstance(wh, ast.While) and ast.unparse(wh.test) == "row < height" and len(wh.body) == 3
         and not wh.orelse, wh, "while row < height: <3 statements>")
    sp, un, inner = wh.body
    need(ast.unparse(sp) == "raw_word, raw_table_col = (raw_table_col[:4], raw_table_col[4:])", sp,
         "raw_word, raw_table_col = raw_table_col[:4], raw_table_col[4:]")
    need(isinstance(un, ast.Assign) and ast.unparse(un.targets[0]) == "(word,)", un, "word, = struct.unpack(...)")
    fmt, args = struct_call(un.value, "unpack")
    need(len(args) == 1 and is_name(args[0], "raw_word"), un, "struct.unpack(fmt, raw_word)")
    out.append(dumplib.definition("p2p_word_format", "string", dumplib.string(fmt)))
    out.append(dumplib.definition("p2p_word_bytes", "Z", dumplib.z(4)))
    need(isinstance(inner, ast.For) and is_name(inner.target, "entry") and isinstance(inner.iter, ast.Call)
         and is_name(inner.iter.func, "range") and len(inner.iter.args) == 1 and len(inner.body) == 2
         and not inner.orelse, inner, "for entry in range(<n>): table[...] = ...; row += 1")
    out.append(defn("p2p_entries_in_word", ["height", "row"], "Z",
                    tr(inner.iter.args[0], ["height", "row"], want="Z")))
    st, inc = inner.body
    need(isinstance(st, ast.Assign) and ast.unparse(st.targets[0]) == "table[col, row]"
         and isinstance(st.value, ast.Call) and ast.unparse(st.value.func) == "consts.P2PTableEntry"
         and len(st.value.args) == 1, st, "table[(col, row)] = consts.P2PTableEntry(<expr>)")
    out.append(defn("p2p_entry", ["word", "entry"], "Z", tr(st.value.args[0], ["word", "entry"], want="Z")))
    need(ast.unparse(inc) == "row += 1", inc, "row += 1")

    # ------------------------------------------------------------------ get_software_version
    fn = py2v.find_function(tree, "MachineController.get_software_version")
    out.append("(* %s : get_software_version, line %d *)" % (MC, fn.lineno))
    a = assigns(fn)
    need(ast.unparse(one(a, "sver", fn)) == "self._send_scp(x, y, processor, SCPCommands.sver)", fn,
         "sver = self._send_scp(x, y, processor, SCPCommands.sver)")
    out.append(defn("sver_p2p", W, "Z", tr(one(a, "p2p", fn), W, objs=["sver"], want="Z")))
    pa = one(a, "p2p_address", fn)
    need(isinstance(pa, ast.Tuple) and len(pa.elts) == 2, pa, "p2p_address = (x, y)")
    out.append(defn("sver_p2p_address", ["p2p"], "Z * Z", "(%s, %s)" % tuple(
        tr(e, ["p2p"], want="Z") for e in pa.elts)))
    out.append(defn("sver_pcpu", W, "Z", tr(one(a, "pcpu", fn), W, objs=["sver"], want="Z")))
    out.append(defn("sver_vcpu", W, "Z", tr(one(a, "vcpu", fn), W, objs=["sver"], want="Z")))
    out.append(defn("sver_buffer_size", W, "Z", tr(one(a, "buffer_size", fn), W, objs=["sver"], want="Z")))
    ret = [s for s in fn.body if isinstance(s, ast.Return)]
    need(len(ret) == 1 and ast.unparse(ret[0].value) ==
         "CoreInfo(p2p_address, pcpu, vcpu, version, buffer_size, sver.arg3, software_name, version_labels)",
         fn, "return CoreInfo(p2p_address, pcpu, vcpu, version, buffer_size, sver.arg3, software_name, "
             "version_labels)")
    tgt = [s for s in fn.body if isinstance(s, ast.Assign) and isinstance(s.targets[0], ast.Tuple)]
    need(len(tgt) == 1 and ast.unparse(tgt[0]) ==
         "software_name, version, version_labels = unpack_sver_response_version(sver)", fn,
         "software_name, version, version_labels = unpack_sver_response_version(sver)")

    # ------------------------------------------------------------------ get_processor_status
    fn = py2v.find_function(tree, "MachineController.get_processor_status")
    out.append("(* %s : get_processor_status, line %d *)" % (MC, fn.lineno))
    body = [s for s in fn.body if not (isinstance(s, ast.Expr) and isinstance(s.value, ast.Constant))]
    src = [ast.unparse(s) for s in body]
    expect = {
        0: "address = self.read_struct_field('sv', 'vcpu_base', x, y) + self.structs[b'vcpu'].size * p",
        1: "data = self.read(address, self.structs[b'vcpu'].size, x, y)",
        2: "state = {name.decode('utf-8'): struct.unpack(f.pack_chars, data[f.offset:f.offset + "
           "struct.calcsize(f.pack_chars)])[0] for name, f in iteritems(self.structs[b'vcpu'].fields)}",
        5: "state['app_name'] = state['app_name'].strip(b'\\x00').decode('utf-8')",
        6: "state['cpu_state'] = consts.AppState(state['cpu_state'])",
        7: "state['rt_code'] = consts.RuntimeException(state['rt_code'])",
        8: "sw_ver = state.pop('sw_ver')",
        11: "state.pop('__PAD')",
        12: "return ProcessorStatus(**state)",
    }
    need(len(body) == 13, fn, "thirteen statements")
    for i, e in expect.items():
        need(src[i] == e, body[i], "statement %d is `%s`" % (i, e))
    for i, (key, pat, var) in ((3, ("registers", "r{}", None)), (4, ("user_vars", "user{}", None))):
        s = body[i]
        need(isinstance(s, ast.Assign) and ast.unparse(s.targets[0]) == "state['%s']" % key
             and isinstance(s.value, ast.ListComp)
             and ast.unparse(s.value.elt) == "state.pop('%s'.format(i))" % pat
             and len(s.value.generators) == 1 and is_name(s.value.generators[0].target, "i")
             and isinstance(s.value.generators[0].iter, ast.Call)
             and is_name(s.value.generators[0].iter.func, "range")
             and len(s.value.generators[0].iter.args) == 1, s,
             "state['%s'] = [state.pop('%s'.format(i)) for i in range(N)]" % (key, pat))
        out.append(dumplib.definition("status_n_" + key, "Z", dumplib.z(
            int_const(s.value.generators[0].iter.args[0], "range(N)"))))
    s = body[9]
    need(isinstance(s, ast.Assign) and ast.unparse(s.targets[0]) == "state['version']"
         and isinstance(s.value, ast.Tuple) and len(s.value.elts) == 3, s, "state['version'] = (a, b, c)")
    out.append(defn("status_version", ["sw_ver"], "Z * Z * Z", "(%s, %s, %s)" % tuple(
        tr(e, ["sw_ver"], want="Z") for e in s.value.elts)))
    s = body[10]
    need(isinstance(s, ast.For) and ast.unparse(s.target) == "(newname, oldname)"
         and isinstance(s.iter, ast.List) and len(s.body) == 1
         and ast.unparse(s.body[0]) == "state[newname] = state.pop(oldname)", s,
         "for newname, oldname in [...]: state[newname] = state.pop(oldname)")
    pairs = []
    for e in s.iter.elts:
        need(isinstance(e, ast.Tuple) and len(e.elts) == 2 and all(
            isinstance(v, ast.Constant) and isinstance(v.value, str) for v in e.elts), e, "(new, old) strings")
        pairs.append((e.elts[0].value, e.elts[1].value))
    out.append(dumplib.definition("status_renames", "list (string * string)", dumplib.lst(
        dumplib.pair(dumplib.string(n), dumplib.string(o)) for n, o in pairs)))

    # ------------------------------------------------------------------ get_iobuf_bytes
    fn = py2v.find_function(tree, "MachineController.get_iobuf_bytes")
    out.append("(* %s : get_iobuf_bytes, line %d *)" % (MC, fn.lineno))
    body = [s for s in fn.body if not (isinstance(s, ast.Expr) and isinstance(s.value, ast.Constant))]
    src = [ast.unparse(s) for s in body]
    need(len(body) == 5 and src[0] == "iobuf_size = self.read_struct_field('sv', 'iobuf_size', x, y)"
         and src[1] == "address = self.read_vcpu_struct_field('iobuf', x, y, p)" and src[2] == "iobuf = b''"
         and src[4] == "return iobuf", fn, "get_iobuf_bytes: prologue / epilogue")
    wh = body[3]
    need(isinstance(wh, ast.While) and ast.unparse(wh.test) == "address" and len(wh.body) == 3
         and not wh.orelse, wh, "while address: <3 statements>")
    rd, un, ap = wh.body
    need(isinstance(rd, ast.Assign) and is_name(rd.targets[0], "iobuf_data") and isinstance(rd.value, ast.Call)
         and is_attr(rd.value.func, "self", "read") and len(rd.value.args) == 4
         and is_name(rd.value.args[0], "address") and is_name(rd.value.args[2], "x")
         and is_name(rd.value.args[3], "y"), rd, "iobuf_data = self.read(address, <length>, x, y)")
    out.append(defn("iobuf_read_length", ["iobuf_size"], "Z", tr(rd.value.args[1], ["iobuf_size"], want="Z")))
    need(isinstance(un, ast.Assign) and ast.unparse(un.targets[0]) == "(address, time, ms, length)", un,
         "address, time, ms, length = struct.unpack(...)")
    fmt, args = struct_call(un.value, "unpack")
    need(len(args) == 1 and isinstance(args[0], ast.Subscript) and is_name(args[0].value, "iobuf_data")
         and isinstance(args[0].slice, ast.Slice) and args[0].slice.lower is None
         and args[0].slice.step is None, un, "struct.unpack(fmt, iobuf_data[:N])")
    out.append(dumplib.definition("iobuf_header_format", "string", dumplib.string(fmt)))
    out.append(dumplib.definition("iobuf_header_bytes", "Z", dumplib.z(int_const(args[0].slice.upper, "[:N]"))))
    need(isinstance(ap, ast.AugAssign) and is_name(ap.target, "iobuf") and isinstance(ap.op, ast.Add)
         and isinstance(ap.value, ast.Subscript) and is_name(ap.value.value, "iobuf_data")
         and isinstance(ap.value.slice, ast.Slice) and ap.value.slice.step is None, ap,
         "iobuf += iobuf_data[a:b]")
    out.append(dumplib.definition("iobuf_text_start", "Z", dumplib.z(int_const(ap.value.slice.lower, "[a:"))))
    out.append(defn("iobuf_text_stop", ["length"], "Z", tr(ap.value.slice.upper, ["length"], want="Z")))

    # ------------------------------------------------------------------ get_router_diagnostics
    fn = py2v.find_function(tree, "MachineController.get_router_diagnostics")
    out.append("(* %s : get_router_diagnostics, line %d *)" % (MC, fn.lineno))
    a = assigns(fn)
    rd = one(a, "data", fn)
    need(isinstance(rd, ast.Call) and is_attr(rd.func, "self", "read") and len(rd.args) == 2
         and [k.arg for k in rd.keywords] == ["x", "y"], rd, "data = self.read(<address>, <length>, x=x, y=y)")
    out.append(dumplib.definition("router_diag_address", "Z", dumplib.z(int_const(rd.args[0], "address"))))
    out.append(dumplib.definition("router_diag_length", "Z", dumplib.z(int_const(rd.args[1], "length"))))
    ret = [s for s in fn.body if isinstance(s, ast.Return)]
    need(len(ret) == 1 and isinstance(ret[0].value, ast.Call) and is_name(ret[0].value.func, "RouterDiagnostics")
         and len(ret[0].value.args) == 1 and isinstance(ret[0].value.args[0], ast.Starred), fn,
         "return RouterDiagnostics(*struct.unpack(fmt, data))")
    fmt, args = struct_call(ret[0].value.args[0].value, "unpack")
    need(len(args) == 1 and is_name(args[0], "data"), fn, "struct.unpack(fmt, data)")
    out.append(dumplib.definition("router_diag_format", "string", dumplib.string(fmt)))

    # ------------------------------------------------------------------ forwarding entry points, struct look-up
    # The layout-parametric model (p2p_table_L ..., Model/Probe.v) and the controller-state model (ctl_*)
    # rest on the statements of these small functions exactly as written: each is matched whole.
    SHAPES = {
        "MachineController._get_struct_field_and_address": [
            "field = self.structs[six.b(struct_name)][six.b(field_name)]",
            "address = self.structs[six.b(struct_name)].base + field.offset",
            "pack_chars = b'<' + field.length * field.pack_chars",
            "return (field, address, pack_chars)"],
        "MachineController.read_struct_field": [
            "field, address, pack_chars = self._get_struct_field_and_address(struct_name, field_name)",
            "length = struct.calcsize(pack_chars)",
            "data = self.read(address, length, x, y, p)",
            "unpacked = struct.unpack(pack_chars, data)",
            "if field.length == 1:\n    return unpacked[0]\nelse:\n    return unpacked"],
        "MachineController._get_vcpu_field_and_address": [
            "vcpu_struct = self.structs[b'vcpu']",
            "field = vcpu_struct[six.b(field_name)]",
            "address = self.read_struct_field('sv', 'vcpu_base', x, y) + vcpu_struct.size * p + field.offset",
            "pack_chars = b'<' + field.pack_chars",
            "return (field, address, pack_chars)"],
        "MachineController.read_vcpu_struct_field": [
            "field, address, pack_chars = self._get_vcpu_field_and_address(field_name, x, y, p)",
            "length = struct.calcsize(pack_chars)",
            "data = self.read(address, length, x, y)",
            "unpacked = struct.unpack(pack_chars, data)",
            "if field.length == 1:\n    return unpacked[0]\nelse:\n    if b's' in pack_chars:\n"
            "        return unpacked[0].strip(b'\\x00').decode('utf-8')\n    return unpacked"],
        "MachineController.get_machine": [
            "warnings.warn('MachineController.get_machine() is deprecated, see get_system_info().', DeprecationWarning)",
            "from rig.place_and_route.utils import build_machine",
            "system_info = self.get_system_info(x, y)",
            "return build_machine(system_info)"],
        "MachineController.scp_data_length": [
            "if self._scp_data_length is None:\n    data = self.get_software_version(255, 255, 0)\n"
            "    self._scp_data_length = data.buffer_size",
            "return self._scp_data_length"],
        "MachineController.get_working_links": ["return self.get_chip_info(x, y).working_links"],
        "MachineController.get_ip_address": [
            "chip_info = self.get_chip_info(x=x, y=y)",
            "return chip_info.ip_address if chip_info.ethernet_up else None"],
        "MachineController.get_num_working_cores": ["return self.read_struct_field('sv', 'num_cpus', x, y)"],
        "MachineController.get_iobuf": ["return self.get_iobuf_bytes(p, x, y).decode('utf-8')"],
    }
    CUR[0] = MC
    for qual, want in sorted(SHAPES.items()):
        f = py2v.find_function(tree, qual)
        body = [st for st in f.body if not (isinstance(st, ast.Expr) and isinstance(st.value, ast.Constant)
                                            and isinstance(st.value.value, str))]
        got = [ast.unparse(st) for st in body]
        need(got == want, f, "%s consists of the statements %r" % (qual, want))
    # every struct look-up of the probing functions goes through the controller's own `structs`
    mcls = [n for n in tree.body if isinstance(n, ast.ClassDef) and n.name == "MachineController"][0]
    init = py2v.find_function(tree, "MachineController.__init__")
    init_src = [ast.unparse(st) for st in init.body]
    need("self.structs = structs" in init_src and "self._scp_data_length = None" in init_src, init,
         "__init__ stores the caller's structs and starts without a known SCP buffer size")
    # the result classes: field order, constructor signature with its defaults, what the constructor forwards
    CLASSES = {
        "ChipInfo": ["collections.namedtuple('ChipInfo', 'num_cores core_states working_links largest_free_sdram_block "
                     "largest_free_sram_block largest_free_rtr_mc_block ethernet_up ip_address local_ethernet_chip')"],
        "SystemInfo": ["dict"],
        "CoreInfo": ["collections.namedtuple('CoreInfo', 'position physical_cpu virt_cpu software_version buffer_size "
                     "build_date version_string software_version_labels')"],
    }
    for cname, bases in sorted(CLASSES.items()):
        cl = [n for n in tree.body if isinstance(n, ast.ClassDef) and n.name == cname]
        need(len(cl) == 1 and [ast.unparse(b) for b in cl[0].bases] == bases, cl[0] if cl else tree,
             "class %s(%s)" % (cname, ", ".join(bases)))
        methods = sorted(n.name for n in cl[0].body if isinstance(n, ast.FunctionDef))
        want_methods = {"ChipInfo": ["__new__"], "CoreInfo": [],
                        "SystemInfo": ["__contains__", "__init__", "chips", "cores", "dead_chips", "dead_links",
                                       "ethernet_connected_chips", "links"]}[cname]
        need(methods == want_methods, cl[0], "%s defines exactly the methods %r (no copy / pickle hooks)" % (cname, want_methods))
    CTORS = {
        "ChipInfo.__new__": (
            "cls, num_cores=18, core_states=None, working_links=set(Links), largest_free_sdram_block=119275492, "
            "largest_free_sram_block=22240, largest_free_rtr_mc_block=1023, ethernet_up=False, ip_address='0.0.0.0', "
            "local_ethernet_chip=(255, 255)",
            ["if core_states is None:\n    core_states = ([consts.AppState.run] + [consts.AppState.idle] * num_cores)[:-1]",
             "return super(ChipInfo, cls).__new__(cls, num_cores, core_states, working_links, largest_free_sdram_block, "
             "largest_free_sram_block, largest_free_rtr_mc_block, ethernet_up, ip_address, local_ethernet_chip)"]),
        "SystemInfo.__init__": (
            "self, width, height, *args, **kwargs",
            ["super(SystemInfo, self).__init__(*args, **kwargs)", "self.width = width", "self.height = height"]),
    }
    for qual, (sig, want) in sorted(CTORS.items()):
        f = py2v.find_function(tree, qual)
        body = [st for st in f.body if not (isinstance(st, ast.Expr) and isinstance(st.value, ast.Constant)
                                            and isinstance(st.value.value, str))]
        need(ast.unparse(f.args) == sig, f, "%s(%s)" % (qual, sig))
        need([ast.unparse(st) for st in body] == want, f, "%s consists of the statements %r" % (qual, want))
    out.append("(* %s : classes ChipInfo / SystemInfo / CoreInfo: bases, field order, constructor signatures and defaults "
               "matched *)" % MC)
    out.append(dumplib.definition("result_class_shapes_matched", "Z", dumplib.z(len(CLASSES) + len(CTORS))))
    out.append("(* %s : struct look-up and forwarding entry points matched statement by statement *)" % MC)
    out.append(dumplib.definition("forwarding_shapes_matched", "Z", dumplib.z(len(SHAPES))))

    # ------------------------------------------------------------------ unpack_sver_response_version
    tree = load(root, COMMON)
    fn = py2v.find_function(tree, "unpack_sver_response_version")
    out.append("(* %s : unpack_sver_response_version, line %d *)" % (COMMON, fn.lineno))
    body = [s for s in fn.body if not (isinstance(s, ast.Expr) and isinstance(s.value, ast.Constant))]
    need(len(body) == 4 and ast.unparse(body[0]) == "software_name = packet.data.decode('utf-8')"
         and ast.unparse(body[3]) == "return (software_name.rstrip('\\x00'), (major, minor, patch), labels)",
         fn, "software_name = packet.data.decode('utf-8'); ...; return (software_name.rstrip(NUL), "
             "(major, minor, patch), labels)")
    need(isinstance(body[1], ast.Assign) and is_name(body[1].targets[0], "legacy_version_field"), body[1],
         "legacy_version_field = ...")
    out.append(defn("sver_legacy_field", W, "Z", tr(body[1].value, W, objs=["packet"], want="Z")))
    br = body[2]
    need(isinstance(br, ast.If) and len(br.body) == 4 and len(br.orelse) == 7, br, "if legacy: 4 else: 7 statements")
    out.append(defn("sver_is_legacy", ["legacy_version_field"], "bool",
                    tr(br.test, ["legacy_version_field"], want="bool")))
    leg = {ast.unparse(s.targets[0]): s.value for s in br.body if isinstance(s, ast.Assign)}
    need(sorted(leg) == ["labels", "major", "minor", "patch"] and ast.unparse(leg["labels"]) == "''", br,
         "legacy branch assigns major, minor, patch, labels = ''")
    for k in ("major", "minor", "patch"):
        out.append(defn("sver_legacy_" + k, ["legacy_version_field"], "Z",
                        tr(leg[k], ["legacy_version_field"], want="Z")))
    sem = [ast.unparse(s) for s in br.orelse]
    need(sem == ["software_name, _, version_number = software_name.partition('\\x00')",
                 "match = VERSION_NUMBER_REGEX.match(version_number.rstrip('\\x00'))",
                 "assert match, 'Malformed version number: {}'.format(version_number)",
                 "major = int(match.group(1))", "minor = int(match.group(2))", "patch = int(match.group(3))",
                 "labels = match.group(4) or ''"], br, "semantic-version branch")

    # ------------------------------------------------------------------ build_core_constraints
    tree = load(root, PRU)
    fn = py2v.find_function(tree, "build_core_constraints")
    out.append("(* %s : build_core_constraints, line %d *)" % (PRU, fn.lineno))
    rngs = [n for n in ast.walk(fn) if isinstance(n, ast.Call) and is_name(n.func, "range")]
    need(len(rngs) == 1 and len(rngs[0].args) == 1, fn, "one range(N) (the cores tried for a global reservation)")
    out.append(dumplib.definition("bcc_core_range", "Z", dumplib.z(int_const(rngs[0].args[0], "range(N)"))))

    # ------------------------------------------------------------------ live objects
    from rig.links import Links
    from rig.machine_control import consts, common, struct_file
    from rig.machine_control import machine_controller as mcm
    import pkg_resources
    out.append("(* live objects *)")
    out.append(dumplib.definition("links_values", "list Z", dumplib.zlist([int(l) for l in Links])))
    out.append(dumplib.definition("appstate_values", "list Z", dumplib.zlist([int(s) for s in consts.AppState])))
    out.append(dumplib.definition("AppState_idle", "Z", dumplib.z(consts.AppState.idle)))
    out.append(dumplib.definition("rte_values", "list Z", dumplib.zlist([int(s) for s in consts.RuntimeException])))
    out.append(dumplib.definition("p2p_entry_values", "list Z", dumplib.zlist([int(s) for s in consts.P2PTableEntry])))
    out.append(dumplib.definition("P2PTableEntry_none", "Z", dumplib.z(consts.P2PTableEntry.none)))
    out.append(dumplib.definition("SPINNAKER_RTR_P2P", "Z", dumplib.z(consts.SPINNAKER_RTR_P2P)))
    out.append(dumplib.definition("version_regex", "string", dumplib.string(common.VERSION_NUMBER_REGEX.pattern)))
    if common.VERSION_NUMBER_REGEX.pattern != r"^(\d+)[.](\d+)[.](\d+)(\D.*)?$" or common.VERSION_NUMBER_REGEX.flags != 32:
        raise Shape("VERSION_NUMBER_REGEX is no longer the expression the model implements")
    structs = struct_file.read_struct_file(pkg_resources.resource_string("rig", "boot/sark.struct"))
    sv, vc = structs[b"sv"], structs[b"vcpu"]
    out.append(dumplib.definition("sv_base", "Z", dumplib.z(sv.base)))
    for k in (b"p2p_dims", b"vcpu_base", b"iobuf_size", b"num_cpus"):
        f = sv[k]
        out.append(dumplib.definition("sv_" + k.decode(), "string * Z * Z", "(%s, %s, %s)" % (
            dumplib.string(f.pack_chars.decode()), dumplib.z(f.offset), dumplib.z(f.length))))
    out.append(dumplib.definition("vcpu_size", "Z", dumplib.z(vc.size)))
    out.append(dumplib.definition("vcpu_base_offset", "Z", dumplib.z(vc.base)))
    out.append(dumplib.definition("vcpu_fields", "list (string * (string * Z * Z))", dumplib.lst(
        "(%s, (%s, %s, %s))" % (dumplib.string(k.decode()), dumplib.string(f.pack_chars.decode()),
                                dumplib.z(f.offset), dumplib.z(f.length)) for k, f in vc.fields.items())))
    out.append(dumplib.definition("status_fields", "list string", dumplib.lst(
        dumplib.string(n) for n in mcm.ProcessorStatus._fields)))
    out.append(dumplib.definition("router_diag_fields", "Z", dumplib.z(len(mcm.RouterDiagnostics._fields))))
    out.append(dumplib.definition("chipinfo_fields", "list string", dumplib.lst(
        dumplib.string(n) for n in mcm.ChipInfo._fields)))
    sys.stdout.write("\n".join(out))


if __name__ == "__main__":
    try:
        main()
    except (Shape, py2v.Unsupported) as e:
        sys.stderr.write("dump_c14: %s\n" % e)
        sys.stdout.write("dump_c14 failed (fail closed): %s\n" % e)
        sys.exit(1)
