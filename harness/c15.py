"""C15 -- SDP/SCP packet codec: theorems (Props/C15.v) + correspondence model vs rig.machine_control.packets
(exact bytes, both directions, also short / garbage byte strings) + independent oracle (the documented wire
layout written out by hand with shifts, no `struct`; decode(encode(p)) == p on rig itself; field isolation;
the minimum rule for the number of arguments decoded)."""
import json
import os

import lib
from lib import zlit, vlist, vbool

LEVEL = "proof"
UNITS = ["GenPackets"]

# a packet: [reply_expected, tag, dest_port, dest_cpu, src_port, src_cpu, dest_x, dest_y, src_x, src_y,
#            data, cmd_rc, seq, arg1, arg2, arg3]      (SDP packets stop after data)
NAMES = ["reply_expected", "tag", "dest_port", "dest_cpu", "src_port", "src_cpu", "dest_x", "dest_y",
         "src_x", "src_y", "data", "cmd_rc", "seq", "arg1", "arg2", "arg3"]
WIDTH = {1: 8, 2: 3, 3: 5, 4: 3, 5: 5, 6: 8, 7: 8, 8: 8, 9: 8, 11: 16, 12: 16, 13: 32, 14: 32, 15: 32}
DATA = 10


# ------------------------------------------------------------------ the documented layout, by hand
def in_width(q):
    if q[0] not in (True, False):
        return False
    for i, w in WIDTH.items():
        if i < len(q) and q[i] is None and i < 13:
            return False                                  # only the arguments may be absent
        if i < len(q) and q[i] is not None and not (0 <= q[i] < (1 << w)):
            return False
    return True


# field values given as numpy scalars travel as {"np": type name, "v": value}; the oracle and the model see
# the integer value int(x), and for reply_expected the truth value bool(x)
NP_TYPES = {"uint8": (0, 2 ** 8 - 1), "int8": (-2 ** 7, 2 ** 7 - 1), "uint16": (0, 2 ** 16 - 1),
            "int16": (-2 ** 15, 2 ** 15 - 1), "uint32": (0, 2 ** 32 - 1), "int32": (-2 ** 31, 2 ** 31 - 1),
            "uint64": (0, 2 ** 64 - 1), "int64": (-2 ** 63, 2 ** 63 - 1)}


def npv(t, v):
    return {"np": t, "v": v}


def plain(x):
    if isinstance(x, dict):
        return bool(x["v"]) if x["np"] == "bool_" else int(x["v"])
    if isinstance(x, list):
        return [plain(y) for y in x]
    return x


def plain_packet(q):
    q = plain(q)
    if q[0] is not None:
        q[0] = bool(q[0])
    return q


SUB_SDP = ["SubSDP", "SubSDPSlots"]
SUB_SCP = ["SubSCP", "SubSCPSlots", "SubSCPInit", "SubSubSCP"]


def plain_case(c):
    if c[0] == "enc_sub":        # an instance of a user-defined subclass is asked the same question
        return ["enc_scp", plain_packet(c[2]), c[3]] if c[1] in SUB_SCP else ["enc_sdp", plain_packet(c[2])[:11]]
    if c[0] == "dec_sub":
        return ["dec_scp", c[2], c[3]] if c[1] in SUB_SCP else ["dec_sdp", c[2]]
    if c[0] in ("enc_sdp", "enc_scp"):
        return [c[0], plain_packet(c[1])] + list(c[2:])
    return c


def modelable(c):
    """the Gallina model speaks of integer fields: a header field, cmd_rc or seq left at None is outside it"""
    return not (c[0] in ("enc_sdp", "enc_scp") and any(v is None for v in c[1][:13]))


def np_int8_port(raw):
    """a port given as numpy.int8 with value 4..7 (see the known finding numpy-int8-port)"""
    return any(isinstance(raw[i], dict) and raw[i]["np"] == "int8" and 4 <= raw[i]["v"] <= 7 for i in (2, 4))


def args_prefix(q):
    pres = [a is not None for a in q[13:16]]
    return pres == sorted(pres, reverse=True)


def n_present(q):
    return sum(1 for a in q[13:16] if a is not None)


def word(v, nbytes):
    return [(v >> (8 * i)) & 0xff for i in range(nbytes)]


def layout_header(p):
    """two padding bytes, flags, tag, dest port/core, source port/core, dest y, dest x, source y, source x"""
    return [0, 0, 0x87 if p[0] else 0x07, p[1], (p[2] << 5) | p[3], (p[4] << 5) | p[5], p[7], p[6], p[9], p[8]]


def layout_sdp(p):
    return layout_header(p) + list(p[DATA])


def layout_scp(q):
    out = layout_header(q) + word(q[11], 2) + word(q[12], 2)
    for a in q[13:16]:
        if a is not None:
            out += word(a, 4)
    return out + list(q[DATA])


def unword(bs):
    return sum(b << (8 * i) for i, b in enumerate(bs))


def hand_decode_header(bs):
    return [bs[2] == 0x87, bs[3], bs[4] >> 5, bs[4] & 0x1f, bs[5] >> 5, bs[5] & 0x1f, bs[7], bs[6], bs[9], bs[8]]


def hand_decode_scp(bs, n_args):
    """len(bs) >= 14.  Takes min(n_args, words available, 3) arguments; the rest is payload."""
    k = max(0, min(n_args, (len(bs) - 14) // 4, 3))
    args = [unword(bs[14 + 4 * i:18 + 4 * i]) for i in range(k)] + [None] * (3 - k)
    return hand_decode_header(bs) + [list(bs[14 + 4 * k:]), unword(bs[10:12]), unword(bs[12:14])] + args


def owned_bits(field, q):
    """byte position -> mask of the bits that belong to `field` in the encoding of SCP packet q
    (None: everything from that position on, for the payload)"""
    k = n_present(q)
    fixed = {0: {2: 0xff}, 1: {3: 0xff}, 2: {4: 0xe0}, 3: {4: 0x1f}, 4: {5: 0xe0}, 5: {5: 0x1f},
             6: {7: 0xff}, 7: {6: 0xff}, 8: {9: 0xff}, 9: {8: 0xff},
             11: {10: 0xff, 11: 0xff}, 12: {12: 0xff, 13: 0xff}}
    if field in fixed:
        return fixed[field], None
    if field in (13, 14, 15):
        idx = sum(1 for a in q[13:field] if a is not None)
        return {14 + 4 * idx + j: 0xff for j in range(4)}, None
    return {}, 14 + 4 * k


# ------------------------------------------------------------------ generators
def pick(rng, w):
    m = (1 << w) - 1
    r = rng.random()
    if r < 0.12:
        return 0
    if r < 0.24:
        return m
    if r < 0.40:
        return 1 << rng.randrange(w)
    if r < 0.50:
        return m ^ (1 << rng.randrange(w))
    return rng.randint(0, m)


def pick_bad(rng, w):
    m = 1 << w
    return rng.choice([-1, m, m + 1, -m, m + rng.randint(0, m), -rng.randint(1, m), 1 << 40, 2 * m - 1])


def rand_data(rng):
    n = rng.randint(0, 12) if rng.random() < 0.7 else rng.randint(13, 40)
    return [rng.choice([0, 255, rng.randint(0, 255)]) for _ in range(n)]


def rand_packet(rng, k=None):
    k = rng.randint(0, 3) if k is None else k
    q = [rng.random() < 0.5] + [pick(rng, WIDTH[i]) for i in range(1, 10)] + [rand_data(rng)]
    q += [pick(rng, 16), pick(rng, 16)] + [pick(rng, 32) if i < k else None for i in range(3)]
    return q


BASE = [False, 0xa5, 5, 0x15, 2, 0x0a, 0x3c, 0xc3, 0x69, 0x96, [1, 2, 3], 0x1234, 0xabcd,
        0x01020304, 0x05060708, 0x090a0b0c]


def gen_cases(rng, tier):
    """-> list of dict(case=[...], stream=..., iso=(field, index of partner) optional)"""
    cases = []

    def add(case, stream, **kw):
        cases.append(dict(case=case, stream=stream, **kw))
        return len(cases) - 1

    # -- per-field full sweeps of the 8-bit (and 3+5-bit) header fields, each paired with the base packet
    base_i = add(["enc_scp", BASE, 3], "sweep8")
    for f in (1, 6, 7, 8, 9):
        for v in range(256):
            q = list(BASE)
            q[f] = v
            add(["enc_scp", q, 3], "sweep8", iso=(f, base_i))
    for fp, fc in ((2, 3), (4, 5)):
        for port in range(8):
            for cpu in range(32):
                q = list(BASE)
                q[fp], q[fc] = port, cpu
                i = add(["enc_scp", q, 3], "sweep8")
                if port == BASE[fp]:
                    cases[i]["iso"] = (fc, base_i)
                elif cpu == BASE[fc]:
                    cases[i]["iso"] = (fp, base_i)
    for v in (False, True):
        q = list(BASE)
        q[0] = v
        add(["enc_sdp", q[:11]], "sweep8")
        add(["enc_scp", q, 3], "sweep8", iso=(0, base_i))
    # -- 32-bit arguments: walking ones, walking zeros, boundaries; 16-bit: boundaries (full sweep below)
    for f in (13, 14, 15):
        for v in [0, 1, 0xffffffff, 0x80000000, 0x7fffffff] + [1 << b for b in range(32)] + \
                 [0xffffffff ^ (1 << b) for b in range(32)]:
            q = list(BASE)
            q[f] = v
            add(["enc_scp", q, 3], "walk32", iso=(f, base_i))
    for f in (11, 12):
        for v in [0, 1, 0xff, 0x100, 0xffff, 0x8000, 0x7fff] + [1 << b for b in range(16)]:
            q = list(BASE)
            q[f] = v
            add(["enc_scp", q, 3], "walk16", iso=(f, base_i))
    # -- argument counts x payload lengths 0..13 x n_args -1..4 (lengths 1-11 end inside argument words)
    for k in range(4):
        for ln in range(14):
            q = rand_packet(rng, k)
            q[DATA] = [rng.randint(0, 255) for _ in range(ln)]
            i = add(["enc_scp", q, k], "lengths")
            p = list(q)
            p[DATA] = [rng.randint(0, 255) for _ in range(rng.randint(0, 13))]
            add(["enc_scp", p, k], "lengths", iso=(DATA, i))
    # -- random valid packets
    n = 2000 if tier == "quick" else 60000
    for j in range(n):
        if j % 4 == 0:
            add(["enc_sdp", rand_packet(rng)[:11]], "valid")
        else:
            q = rand_packet(rng)
            i = add(["enc_scp", q, n_present(q)], "valid")
            if j % 4 == 1:                      # isolation partner: one field changed
                f = rng.choice([0] + list(WIDTH) + [DATA])
                if q[f] is not None:
                    p = list(q)
                    p[f] = (not q[0]) if f == 0 else rand_data(rng) if f == DATA else pick(rng, WIDTH[f])
                    add(["enc_scp", p, n_present(p)], "valid", iso=(f, i))
    # -- malformed stream: values outside their width, arguments that are not a prefix
    for j in range(n // 6):
        q = rand_packet(rng)
        r = rng.random()
        if r < 0.25:
            for f in rng.sample([13, 14, 15], 3):
                q[f] = pick(rng, 32) if rng.random() < 0.5 else None
            add(["enc_scp", q, rng.randint(0, 3)], "nonprefix" if not args_prefix(q) else "valid")
            continue
        for f in rng.sample(sorted(WIDTH), rng.choice([1, 1, 1, 2, 3])):
            if q[f] is not None:
                q[f] = pick_bad(rng, WIDTH[f])
        add(["enc_scp", q, n_present(q)] if r < 0.8 else ["enc_sdp", q[:11]], "outofwidth")
    # -- decoding of arbitrary byte strings: every length 0..30 with n_args -1..5 and the default
    for ln in (list(range(0, 31)) + [40, 64, 300]) * (1 if tier == "quick" else 8):
        for na in (-1, 0, 1, 2, 3, 4, 5, None):
            add(["dec_scp", [rng.randint(0, 255) for _ in range(ln)], na], "garbage")
        add(["dec_sdp", [rng.randint(0, 255) for _ in range(ln)]], "garbage")
    for j in range(n // 3):
        ln = rng.choice([rng.randint(0, 13), rng.randint(14, 26), rng.randint(14, 26), rng.randint(27, 60)])
        bs = [rng.choice([0, 255, 0x87, 0x07, rng.randint(0, 255)]) for _ in range(ln)]
        if rng.random() < 0.8:
            add(["dec_scp", bs, rng.choice([-1, 0, 1, 2, 3, 3, 4, 7, None])], "garbage")
        else:
            add(["dec_sdp", bs], "garbage")
    return cases


# ------------------------------------------------------------------ numpy scalars, truthy flags
FLAG_VALUES = [True, False, 1, 0, 2, npv("bool_", True), npv("bool_", False)]


def gen_subclasses(rng, tier):
    """instances of user-defined subclasses of SDPPacket / SCPPacket (nothing overridden; with a __dict__, with
    extra slots, with an extra attribute, two levels deep): encoded, decoded through the subclass"""
    cases = []
    for rep in range(12 if tier == "quick" else 120):
        for cls in SUB_SDP + SUB_SCP:
            q = rand_packet(rng)
            cases.append(dict(case=["enc_sub", cls, q if cls in SUB_SCP else q[:11], n_present(q)], stream="subclass"))
            ln = rng.choice([rng.randint(0, 13), rng.randint(14, 30)])
            bs = [rng.choice([0, 255, 0x87, 0x07, rng.randint(0, 255)]) for _ in range(ln)]
            cases.append(dict(case=["dec_sub", cls, bs, rng.choice([0, 1, 2, 3, None])], stream="subclass"))
    return cases


def gen_numpy(rng, tier):
    """field values given as numpy integer scalars of every width, flags given as bools / ints / numpy bools"""
    cases = []

    def add(q, stream, scp=True):
        cases.append(dict(case=["enc_scp", q, n_present(plain(q))] if scp else ["enc_sdp", q[:11]], stream=stream))
    for rep in range(1 if tier == "quick" else 10):
        for f, w in WIDTH.items():
            for t, (lo, hi) in NP_TYPES.items():
                vals = {0, 1, (1 << w) - 1, 1 << (w - 1), rng.randint(0, (1 << w) - 1)}
                if w <= 5:
                    vals |= set(range(1 << w))
                for v in sorted(vals):
                    if lo <= v <= hi:
                        q = rand_packet(rng, 3)
                        q[f] = npv(t, v)
                        add(q, "numpy", scp=(f > 10 or rng.random() < 0.7))
                # outside the width but inside the type (ports and cores: masked after int(); others: struct.error)
                for v in (-1, 1 << w, (1 << w) + 5):
                    if lo <= v <= hi:
                        q = rand_packet(rng, 3)
                        q[f] = npv(t, v)
                        add(q, "numpy-outofwidth")
        for v in FLAG_VALUES:
            for scp in (False, True):
                q = rand_packet(rng)
                q[0] = v
                add(q, "flag-values", scp)
        # every field a numpy scalar at once, types mixed
        for j in range(150):
            q = rand_packet(rng)
            for f, w in WIDTH.items():
                if q[f] is not None:
                    ts = [t for t, (lo, hi) in NP_TYPES.items() if q[f] <= hi]
                    q[f] = npv(rng.choice(ts), q[f])
            q[0] = rng.choice(FLAG_VALUES)
            add(q, "numpy-all", rng.random() < 0.7)
    return cases


# ------------------------------------------------------------------ object-reuse histories
def rand_value(rng, f):
    """an in-width value for field f of a packet"""
    if f == 0:
        return rng.random() < 0.5
    if f == DATA:
        return rand_data(rng)
    return pick(rng, WIDTH[f])


def gen_histories(rng, tier):
    """Histories on ONE object.  hist_enc: encode / assign a field / change the bytearray payload in place /
    encode again.  hist_dec: decode / modify the decoded object / decode another datagram with the same or a
    different header.  Every step is judged on its own against the CURRENT values (the codec has no memory)."""
    out = []
    scale = 1 if tier == "quick" else 10
    # -- encode, assign field f, encode again -- every field, both classes, bytes and bytearray payload
    for rep in range(scale):
        for kind, fields in (("sdp", list(range(0, 11))), ("scp", list(range(0, 16)))):
            for f in fields:
                for mutable in (False, True):
                    q = rand_packet(rng, 3)
                    v = rand_value(rng, f)
                    while v == q[f]:
                        v = rand_value(rng, f)
                    ops = [["enc", 3], ["set", f, v, mutable], ["enc", 3]]
                    if rng.random() < 0.5:             # and back, and a second field
                        g = rng.choice(fields)
                        ops += [["set", g, rand_value(rng, g), mutable], ["enc", 3]]
                    out.append(["hist_enc", kind, q if kind == "scp" else q[:11], mutable, ops])
        # -- payload changed in place between two encodings
        for kind in ("sdp", "scp"):
            for k in range(4):
                q = rand_packet(rng, k)
                q[DATA] = [rng.randint(0, 255) for _ in range(rng.randint(3, 9))]
                n = len(q[DATA])
                ops = [["enc", k], ["poke", rng.randrange(n), rng.randint(0, 255)], ["enc", k],
                       ["refill", [rng.randint(0, 255) for _ in range(n)]], ["enc", k],
                       ["trunc", rng.randrange(n)], ["enc", k],
                       ["extend", [rng.randint(0, 255) for _ in range(rng.randint(1, 6))]], ["enc", k]]
                out.append(["hist_enc", kind, q if kind == "scp" else q[:11], True, ops])
    # -- error paths: an encode attempt that raises (a field still None, or outside its width), the field is then
    #    assigned a good value and the SAME object is encoded again (twice)
    for rep in range(scale):
        for kind, fields in (("sdp", list(range(1, 10))), ("scp", list(range(1, 10)) + [11, 12, 13, 14, 15])):
            for f in fields:
                for bad in ("none", "wide", "numpy"):
                    q = rand_packet(rng, 3)
                    if bad == "none":
                        if f >= 13:
                            continue
                        q[f] = None
                    elif bad == "wide":
                        q[f] = pick_bad(rng, WIDTH[f])
                    else:
                        q[f] = npv("int64", pick_bad(rng, min(WIDTH[f], 32)))
                    good = pick(rng, WIDTH[f])
                    ops = [["enc", 3], ["set", f, good if rng.random() < 0.7 else npv("uint32", good), False],
                           ["enc", 3], ["enc", 3]]
                    if rng.random() < 0.5:             # two bad fields, repaired one after the other
                        g = rng.choice([x for x in fields if x != f and x < 13])
                        q[g] = None
                        ops = [["enc", 3], ["set", f, good, False], ["enc", 3],
                               ["set", g, pick(rng, WIDTH[g]), False], ["enc", 3], ["enc", 3]]
                    out.append(["hist_enc", kind, q if kind == "scp" else q[:11], rng.random() < 0.3, ops])
    # -- random histories
    for j in range(250 * scale):
        kind = rng.choice(["sdp", "scp", "scp"])
        mutable = rng.random() < 0.5
        q = rand_packet(rng)
        ops = [["enc", None]]
        ln = len(q[DATA])
        for _ in range(rng.randint(2, 7)):
            r = rng.random()
            if r < 0.45:
                ops.append(["enc", None])
            elif r < 0.8 or not mutable:
                f = rng.choice(range(11) if kind == "sdp" else range(16))
                if f >= 13 and rng.random() < 0.3:
                    ops.append(["set", f, None, mutable])
                else:
                    v = rand_value(rng, f)
                    ops.append(["set", f, v, mutable])
                    if f == DATA:
                        ln = len(v)
            elif ln and rng.random() < 0.6:
                ops.append(["poke", rng.randrange(ln), rng.randint(0, 255)])
            elif ln and rng.random() < 0.5:
                ln = rng.randrange(ln)
                ops.append(["trunc", ln])
            else:
                ext = [rng.randint(0, 255) for _ in range(rng.randint(1, 5))]
                ln += len(ext)
                ops.append(["extend", ext])
        ops.append(["enc", None])
        out.append(["hist_enc", kind, q if kind == "scp" else q[:11], mutable, ops])
    # -- decode A, modify the object decoded from A (field f), decode B with the same header, C with another
    def datagram(hdr, kind):
        q = rand_packet(rng)
        q[:10] = hdr
        return (layout_scp(q), rng.choice([n_present(q), 3, None, 0])) if kind == "scp" else (layout_sdp(q[:11]), None)
    for rep in range(scale):
        for kind in ("sdp", "scp"):
            for f in list(range(0, 11)) + ["turn"] + ([11, 12, 13] if kind == "scp" else []):
                hdr = rand_packet(rng)[:10]
                other = rand_packet(rng)[:10]
                steps = []
                for h in (hdr,):
                    bs, n = datagram(h, kind)
                    steps.append(["dec", kind, bs, n])
                steps.append(["turn", 0] if f == "turn" else ["mod", 0, f, rand_value(rng, f)])
                k2 = rng.choice(["sdp", "scp"])
                for h, kk in ((hdr, kind), (hdr, k2), (other, kind), (hdr, kind)):
                    bs, n = datagram(h, kk)
                    steps.append(["dec", kk, bs, n])
                out.append(["hist_dec", steps])
    # -- decode from the caller's buffer (bytes / bytearray / memoryview of a bytearray), the caller then reuses its
    #    buffer for the next datagram (recv_into style), the packet decoded earlier is looked at again.  (Aliasing
    #    through a memoryview the caller passed in itself is the caller's choice: overwrite only for bytearray.)
    for rep in range(12 * scale):
        for kind in ("sdp", "scp"):
            for bt in ("bytearray", "bytes", "memoryview"):
                bs, n = datagram(rand_packet(rng)[:10], kind)
                bs2, n2 = datagram(rand_packet(rng)[:10], kind)
                steps = [["decbuf", kind, bs, n, bt]]
                if bt == "bytearray":
                    steps.append(["overwrite", 0, bs2])
                steps += [["recheck", 0], ["decbuf", kind, bs2, n2, bt], ["recheck", 0], ["recheck", 1]]
                out.append(["hist_dec", steps])
    for j in range(150 * scale):
        pool = [rand_packet(rng)[:10] for _ in range(rng.randint(1, 3))]
        steps, nobj = [], 0
        for _ in range(rng.randint(3, 9)):
            if nobj == 0 or rng.random() < 0.55:
                kind = rng.choice(["sdp", "scp"])
                bs, n = datagram(rng.choice(pool), kind)
                if rng.random() < 0.05:
                    bs = bs[:rng.randint(0, 13)]
                steps.append(["dec", kind, bs, n])
                nobj += 1
            elif rng.random() < 0.25:
                steps.append(["turn", rng.randrange(nobj)])
            else:
                f = rng.randrange(16)
                steps.append(["mod", rng.randrange(nobj), f, rand_value(rng, f)])
        bs, n = datagram(rng.choice(pool), "scp")
        steps.append(["dec", "scp", bs, n])
        out.append(["hist_dec", steps])
    return out


def history_steps(h):
    """the judged steps of a history as ordinary cases: what a codec without memory is asked at each step"""
    out = []
    if h[0] == "hist_dec":
        made = []
        for st in h[1]:
            if st[0] in ("dec", "decbuf"):
                made.append(["dec_scp", st[2], st[3]] if st[1] == "scp" else ["dec_sdp", st[2]])
                out.append(made[-1])
            elif st[0] == "recheck":              # still the decoding of the bytes it was decoded from
                out.append(made[st[1]])
        return out
    cur = plain_packet(h[2])
    for op in h[4]:
        if op[0] == "enc":
            snap = [list(x) if isinstance(x, list) else x for x in cur]
            if h[1] == "scp":
                op[1] = n_present(cur) if op[1] is None else op[1]
                out.append(["enc_scp", snap, op[1]])
            else:
                out.append(["enc_sdp", snap])
        elif op[0] == "set":
            cur[op[1]] = list(op[2]) if op[1] == DATA else bool(plain(op[2])) if op[1] == 0 else plain(op[2])
        elif op[0] == "poke":
            cur[DATA][op[1]] = op[2]
        elif op[0] == "trunc":
            del cur[DATA][op[1]:]
        elif op[0] == "refill":
            cur[DATA][:] = op[1]
        elif op[0] == "extend":
            cur[DATA].extend(op[1])
    return out


def ports_of(v):
    """16-bit counter -> (dest_port, dest_cpu, src_port, src_cpu)"""
    return v >> 13, (v >> 8) & 31, (v >> 5) & 7, v & 31


def sweep_cases(rng, tier):
    """full 2^16 sweeps (encode, round trip and decode), as digests for the correspondence and as raw encodings
    for the oracle: cmd_rc and seq; in the thorough tier also all 8x32x8x32 port/core combinations, the
    (dest_x, dest_y) and (src_x, src_y) planes, and further base packets"""
    out = []
    bases = [BASE]
    fields = [11, 12]
    positions = [10, 12]
    if tier != "quick":
        for k in (0, 1, 2):
            bases.append(rand_packet(rng, k))
        fields += ["ports", "dest_xy", "src_xy"]
        positions += [4, 6, 8]
    for base in bases:
        k = n_present(base)
        for f in fields:
            for lo in range(0, 65536, 8192):
                out.append(["sweep16", f, base, lo, lo + 8192])
                out.append(["sweep16raw", f, base, lo, lo + 8192, k])
        for pos in positions:
            for lo in range(0, 65536, 8192):
                out.append(["sweep16dec", pos, layout_scp(base), lo, lo + 8192, k])
    return out


def sweep_packet(base, f, v):
    q = list(base)
    if f == "ports":
        q[2], q[3], q[4], q[5] = ports_of(v)
    elif f == "dest_xy":
        q[6], q[7] = v >> 8, v & 255
    elif f == "src_xy":
        q[8], q[9] = v >> 8, v & 255
    else:
        q[f] = v
    return q


# ------------------------------------------------------------------ Coq literals
HEADER = """From Coq Require Import ZArith List Bool String. Import ListNotations. Open Scope Z_scope.
Require Import Rig.Generated.GenPackets Rig.Model.Base Rig.Model.Packet Rig.Model.PacketObj.
Definition show_sdp (p : sdp) :=
  (reply_expected p, [tag p; dest_port p; dest_cpu p; src_port p; src_cpu p; dest_x p; dest_y p; src_x p; src_y p],
   data p).
Definition show_scp (q : scp) := (show_sdp (sdp_part q), [cmd_rc q; seq q], [arg1 q; arg2 q; arg3 q]).
Definition show_pkt (k : option pkt) :=
  match k with
  | None => None
  | Some (KSdp p) => Some (show_sdp p, [], [])
  | Some (KScp q) => Some (show_scp q)
  end.
Definition show_dout (d : dout) :=
  match d with ODecoded k => (0, show_pkt k, None) | ORechecked k e => (1, show_pkt k, e) end.
Definition rmap {A B} (f : A -> B) (r : result A) : result B := bind r (fun a => Ok (f a)).
(* Fletcher-style running digest (a, c): a += b + 1; c += a  -- no modulus, the numbers stay below 2^50 *)
Definition dg (h : Z * Z) (bs : list Z) : Z * Z :=
  fold_left (fun h b => let a := fst h + b + 1 in (a, snd h + a)) bs h.
Definition dgr (h : Z * Z) (r : result (list Z)) : Z * Z :=
  match r with Ok bs => dg h bs | _ => dg h [300] end.
Fixpoint zrange_from (lo : Z) (n : nat) : list Z := match n with O => [] | S m => lo :: zrange_from (lo + 1) m end.
Definition zrange (lo n : Z) : list Z := zrange_from lo (Z.to_nat n).
Definition set_cmd (q : scp) v := {| sdp_part := sdp_part q; cmd_rc := v; seq := seq q; arg1 := arg1 q; arg2 := arg2 q; arg3 := arg3 q |}.
Definition set_seq (q : scp) v := {| sdp_part := sdp_part q; cmd_rc := cmd_rc q; seq := v; arg1 := arg1 q; arg2 := arg2 q; arg3 := arg3 q |}.
Definition set_sdp (q : scp) (f : sdp -> sdp) := {| sdp_part := f (sdp_part q); cmd_rc := cmd_rc q; seq := seq q; arg1 := arg1 q; arg2 := arg2 q; arg3 := arg3 q |}.
Definition set_ports (q : scp) v := set_sdp q (fun p =>
  {| reply_expected := reply_expected p; tag := tag p; dest_port := v / 8192; dest_cpu := v / 256 mod 32;
     src_port := v / 32 mod 8; src_cpu := v mod 32; dest_x := dest_x p; dest_y := dest_y p; src_x := src_x p;
     src_y := src_y p; data := data p |}).
Definition set_dest_xy (q : scp) v := set_sdp q (fun p =>
  {| reply_expected := reply_expected p; tag := tag p; dest_port := dest_port p; dest_cpu := dest_cpu p;
     src_port := src_port p; src_cpu := src_cpu p; dest_x := v / 256; dest_y := v mod 256; src_x := src_x p;
     src_y := src_y p; data := data p |}).
Definition set_src_xy (q : scp) v := set_sdp q (fun p =>
  {| reply_expected := reply_expected p; tag := tag p; dest_port := dest_port p; dest_cpu := dest_cpu p;
     src_port := src_port p; src_cpu := src_cpu p; dest_x := dest_x p; dest_y := dest_y p; src_x := v / 256;
     src_y := v mod 256; data := data p |}).
Definition nums (q : scp) : list Z :=
  let p := sdp_part q in
  [tag p; dest_port p; dest_cpu p; src_port p; src_cpu p; dest_x p; dest_y p; src_x p; src_y p; cmd_rc q; seq q].
Definition set2 (bs : list Z) (pos : nat) (v : Z) : list Z :=
  firstn pos bs ++ [v mod 256; v / 256] ++ skipn (pos + 2) bs.
"""


def zl(l):
    return vlist(zlit(x) for x in l)


def coq_sdp(p):
    return ("{| reply_expected := %s; tag := %s; dest_port := %s; dest_cpu := %s; src_port := %s; "
            "src_cpu := %s; dest_x := %s; dest_y := %s; src_x := %s; src_y := %s; data := %s |}"
            % ((vbool(p[0]),) + tuple(zlit(x) for x in p[1:10]) + (zl(p[10]),)))


def coq_scp(q):
    opt = lambda a: "None" if a is None else "(Some %s)" % zlit(a)
    return "{| sdp_part := %s; cmd_rc := %s; seq := %s; arg1 := %s; arg2 := %s; arg3 := %s |}" % (
        coq_sdp(q), zlit(q[11]), zlit(q[12]), opt(q[13]), opt(q[14]), opt(q[15]))


def coq_expr(c):
    k = c[0]
    if k == "enc_sdp":
        return "sdp_bytes %s" % coq_sdp(c[1])
    if k == "enc_scp":
        return "scp_bytes %s" % coq_scp(c[1])
    if k == "dec_sdp":
        return "rmap show_sdp (sdp_of_bytes %s)" % zl(c[1])
    if k == "dec_scp":
        return "rmap show_scp (scp_of_bytes %s %s)" % (zl(c[1]), "scp_default_n_args" if c[2] is None else zlit(c[2]))
    if k == "sweep16":
        return "fold_left (fun h v => dgr h (scp_bytes (%s %s v))) (zrange %d %d) (0, 0)" % (
            {11: "set_cmd", 12: "set_seq", "ports": "set_ports", "dest_xy": "set_dest_xy",
             "src_xy": "set_src_xy"}[c[1]], coq_scp(c[2]), c[3], c[4] - c[3])
    if k == "sweep16dec":
        return ("fold_left (fun h v => dgr h (rmap nums (scp_of_bytes (set2 %s %d v) %s))) "
                "(zrange %d %d) (0, 0)" % (zl(c[2]), c[1], zlit(c[5]), c[3], c[4] - c[3]))
    raise ValueError(k)


# ---- objects and histories evaluated in the model (Model/PacketObj.v)
FLD = {0: "LReply", 1: "LTag", 2: "LDestPort", 3: "LDestCpu", 4: "LSrcPort", 5: "LSrcCpu", 6: "LDestX", 7: "LDestY",
       8: "LSrcX", 9: "LSrcY", 11: "LCmd", 12: "LSeq", 13: "LArg1", 14: "LArg2", 15: "LArg3"}


def coq_pyval(x):
    if x is None:
        return "PNone"
    if isinstance(x, dict):
        t = x["np"]
        if t == "bool_":
            return "(PNp 1 false %s)" % zlit(int(bool(x["v"])))
        return "(PNp %s %s %s)" % (t.lstrip("uint"), vbool(not t.startswith("u")), zlit(x["v"]))
    return "(PInt %s)" % zlit(int(x))


def coq_obj(scp, q):
    q = list(q) + [None] * (16 - len(q))
    return ("{| o_scp := %s; o_reply := %s; o_tag := %s; o_dest_port := %s; o_dest_cpu := %s; o_src_port := %s; "
            "o_src_cpu := %s; o_dest_x := %s; o_dest_y := %s; o_src_x := %s; o_src_y := %s; o_data := %s; "
            "o_cmd := %s; o_seq := %s; o_arg1 := %s; o_arg2 := %s; o_arg3 := %s |}"
            % ((vbool(scp),) + tuple(coq_pyval(x) for x in q[:10]) + (zl(q[10]),) + tuple(coq_pyval(x) for x in q[11:16])))


def coq_history(h):
    """the whole history as one expression of the object / buffer machine of the model"""
    if h[0] == "hist_enc":
        ops = []
        for op in h[4]:
            if op[0] == "enc":
                ops.append("OEnc")
            elif op[0] == "set":
                ops.append("OSetData %s" % zl(op[2]) if op[1] == DATA else "OSet %s %s" % (FLD[op[1]], coq_pyval(op[2])))
            elif op[0] == "poke":
                ops.append("OPoke %d %s" % (op[1], zlit(op[2])))
            elif op[0] == "trunc":
                ops.append("OTrunc %d" % op[1])
            elif op[0] == "refill":
                ops.append("ORefill %s" % zl(op[1]))
            elif op[0] == "extend":
                ops.append("OExtend %s" % zl(op[1]))
        return "run_obj %s %s" % (coq_obj(h[1] == "scp", h[2]), vlist(ops))
    ops, kinds, lens = [], [], []
    for st in h[1]:
        if st[0] in ("dec", "decbuf"):
            ops.append("DDec %s %s %s" % (vbool(st[1] == "scp"), zl(st[2]),
                                          "scp_default_n_args" if st[3] is None else zlit(st[3])))
            kinds.append(st[1])
            lens.append(len(st[2]))
        elif st[0] == "overwrite":
            n = lens[st[1]]
            ops.append("DOverwrite %d %s" % (st[1], zl((list(st[2])[:n] + [0] * n)[:n])))
        elif st[0] == "mod":
            i, f, v = st[1], st[2], st[3]
            if f == 0:
                ops.append("DSetReply %d %s" % (i, vbool(bool(v))))
            elif f == DATA:
                ops.append("DSetData %d %s" % (i, zl(v)))
            elif f >= 13:
                ops.append("DSetArg %d %s %s" % (i, FLD[f], "None" if v is None else "(Some %s)" % zlit(v)))
            else:
                ops.append("DSetInt %d %s %s" % (i, FLD[f], zlit(v)))
        elif st[0] == "turn":
            ops.append("DTurn %d" % st[1])
        elif st[0] == "recheck":
            ops.append("DRecheck %d" % st[1])
    return "map show_dout (drun dstate0 %s)" % vlist(ops)


def canon_pkt(t):
    """parsed show_pkt value -> the driver's list (11 entries for an SDP packet, 16 for SCP)"""
    if t is None:
        return None
    t = t[1]
    out = model_sdp(t[:3])
    return out + list(t[3]) + [unopt(a) for a in t[4]] if t[3] else out


def canon_history(h, v):
    """model outputs of a history in the form of the driver's outputs (error classes collapsed)"""
    if h[0] == "hist_enc":
        return [["ok", list(r[1])] if r[0] == "Ok" else ["error"] for r in v]
    out = []
    for d in v:
        k = canon_pkt(d[1])
        if d[0] == 0:
            out.append(["ok", k] if k is not None else ["error"])
        elif k is None:
            out.append(["error"])
        else:
            e = d[2][1]
            out.append(["ok", k, ["ok", list(e[1])] if e[0] == "Ok" else ["error"]])
    return out


def canon_history_impl(h, ho):
    if h[0] == "hist_enc":
        return [["ok", o[1]] if o[0] == "ok" else ["error"] for o in ho]
    out = []
    judged = [st for st in h[1] if st[0] in ("dec", "decbuf", "recheck")]
    for st, o in zip(judged, ho):
        if o[0] != "ok":
            out.append(["error"])
        elif st[0] == "recheck":
            out.append(["ok", o[1], ["ok", o[2][1]] if o[2][0] == "ok" else ["error"]])
        else:
            out.append(["ok", o[1]])
    return out


def model_sdp(t):
    """parsed (reply, [9 fields], data) -> packet list"""
    return [t[0]] + list(t[1]) + [list(t[2])]


def unopt(a):
    return None if a is None else a[1]


def canon_model(c, v):
    k = c[0]
    if k in ("sweep16", "sweep16dec"):
        return ["digest", list(v)]
    if v[0] != "Ok":
        return ["error", {"OtherError": "struct.error"}.get(v[0], v[0])]
    if k in ("enc_sdp", "enc_scp"):
        return ["ok", list(v[1])]
    if k == "dec_sdp":
        return ["ok", model_sdp(v[1])]
    t = v[1]
    return ["ok", model_sdp(t[:3]) + list(t[3]) + [unopt(a) for a in t[4]]]


def canon_impl(c, o):
    return o[:2]


# ------------------------------------------------------------------ independent oracle
def oracle(c, o, partner=None):
    """-> None or (key, message): the sentences of C15 decided on rig's own results"""
    k = c[0]
    if o[0] == "hang":
        return ("hang", "no result within the time limit")
    if k in ("enc_sdp", "enc_scp"):
        q = c[1]
        scp = k == "enc_scp"
        if not in_width(q):
            return None                                   # outside the quantifier of the property
        if o[0] != "ok":
            return ("encode-raises", "encoding %r, whose fields are all within their widths, raised %s" % (q, o[1]))
        want = layout_scp(q) if scp else layout_sdp(q)
        if o[1] != want:
            i = next((i for i in range(min(len(want), len(o[1]))) if want[i] != o[1][i]), min(len(want), len(o[1])))
            return ("layout-" + ("scp" if scp else "sdp"),
                    "encoded bytes differ from the documented layout at byte %d: got %r, documented %r"
                    % (i, o[1], want))
        if scp and not (args_prefix(q) and c[2] == n_present(q)):
            return None                                   # round trip is promised for the same argument count
        d = o[2]
        if d[0] != "ok":
            return ("roundtrip-raises", "decoding the packet's own encoding raised %s" % d[1])
        if d[1] != list(q):
            f = next(NAMES[i] for i in range(len(q)) if d[1][i] != q[i])
            return ("roundtrip-" + f, "decode(encode(p)) differs from p in field %s: %r -> %r" % (f, q, d[1]))
        return None
    if k == "dec_scp":
        bs, n = c[1], 3 if c[2] is None else c[2]
        if len(bs) < 14:
            return None                                   # no SCP header: the property does not speak
        if o[0] != "ok":
            return ("decode-raises", "decoding %d bytes (a complete SCP header) raised %s" % (len(bs), o[1]))
        want = hand_decode_scp(bs, n)
        got = list(o[1])
        if bs[2] not in (0x87, 0x07):
            want[0] = got[0]                              # flags byte neither documented value: not decided
        if got != want:
            f = next(NAMES[i] for i in range(16) if got[i] != want[i])
            key = "args-min" if f in ("arg1", "arg2", "arg3", "data") else "decode-" + f
            return (key, "decoding %r with n_args=%r: field %s is %r, by the layout it is %r"
                    % (bs, c[2], f, got[NAMES.index(f)], want[NAMES.index(f)]))
        return None
    if k == "dec_sdp":
        bs = c[1]
        if len(bs) < 10 or o[0] != "ok" and False:
            return None
        if o[0] != "ok":
            return ("decode-raises", "decoding %d bytes (a complete SDP header) raised %s" % (len(bs), o[1]))
        want = hand_decode_header(bs) + [list(bs[10:])]
        got = list(o[1])
        if bs[2] not in (0x87, 0x07):
            want[0] = got[0]
        if got != want:
            f = next(NAMES[i] for i in range(11) if got[i] != want[i])
            return ("decode-" + f, "decoding %r: field %s is %r, by the layout it is %r"
                    % (bs, f, got[NAMES.index(f)], want[NAMES.index(f)]))
    return None


def isolation(field, q, oq, p, op):
    """q and p differ in `field` only (both within widths, same arguments present): their encodings may
    differ only in the bits of that field"""
    if not (in_width(q) and in_width(p)) or oq[0] != "ok" or op[0] != "ok":
        return None
    a, b = oq[1], op[1]
    own, tail = owned_bits(field, q)
    if tail is None and len(a) != len(b):
        return ("isolation-" + NAMES[field], "changing %s changed the length of the encoding" % NAMES[field])
    for i in range(min(len(a), len(b)) if tail is None else min(tail, len(a), len(b))):
        if (a[i] ^ b[i]) & ~own.get(i, 0) & 0xff:
            return ("isolation-" + NAMES[field],
                    "changing only %s (%r -> %r) changed bits %#x of byte %d which belong to another field: %r vs %r"
                    % (NAMES[field], q[field], p[field], (a[i] ^ b[i]) & ~own.get(i, 0) & 0xff, i, a, b))
    if tail is not None and (len(a) < tail or len(b) < tail):
        return ("isolation-data", "encoding shorter than its header: %r / %r" % (a, b))
    return None


def oracle_sweep_raw(c, o):
    f, base, lo = c[1], c[2], c[3]
    name = NAMES[f] if isinstance(f, int) else f
    for j, item in enumerate(o[1]):
        q = sweep_packet(base, f, lo + j)
        if item is None:
            return ("encode-raises", "encoding raised with %s=%d" % (name, lo + j), q)
        bs = list(bytes.fromhex(item[0]))
        if bs != layout_scp(q):
            return ("layout-scp", "encoded bytes with %s=%d differ from the documented layout: got %r, documented %r"
                    % (name, lo + j, bs, layout_scp(q)), q)
        if item[1] is not True:
            return ("roundtrip-" + name, "decode(encode(p)) differs from p with %s=%d: %r" % (name, lo + j, item[1]), q)
    return None


# ------------------------------------------------------------------ the check
def run(chk, args):
    chk.trusted += ["CPython struct.pack/unpack_from for the codes x B H I with '<' (modelled generically from the "
                    "format strings; compared byte for byte on every case)",
                    "tools/dump_c15.py statement-shape matcher for packets.py (fails closed)"]
    chk.assumptions += ["header fields, cmd_rc, seq and present arguments are Python ints, reply_expected a bool, data "
                        "a bytes object (a field left at its default None is outside the model)",
                        "the round trip is stated for packets whose present arguments are a prefix arg1..argk (the wire "
                        "format has no presence bits: SCPPacket(arg1=None, arg2=5) and (arg1=5) encode identically)"]
    chk.regenerate(UNITS)
    chk.prove()
    if args.replay:
        rp = json.load(open(args.replay))
        items = [x["replay"] for x in rp.get("failures", []) + rp.get("no_longer_checks", []) if "replay" in x]
        cases, hists = [], []
        for r in items:
            if "partner" in r:
                cases.append(dict(case=r["partner"], stream="replay"))
                cases.append(dict(case=r["case"], stream="replay", iso=(r["field"], len(cases) - 1)))
            elif "history" in r:
                hists.append(r["history"])
            elif "case" in r:
                cases.append(dict(case=r["case"], stream="replay"))
        sweeps = []
    else:
        cases = gen_cases(chk.rng, chk.tier) + gen_numpy(chk.rng, chk.tier) + gen_subclasses(chk.rng, chk.tier)
        sweeps = sweep_cases(chk.rng, chk.tier)
        hists = gen_histories(chk.rng, chk.tier)
    corpus = os.path.join(lib.VERIF, "corpus", "C15.json")
    if os.path.exists(corpus):
        cases += [dict(case=c, stream="corpus") for c in json.load(open(corpus))]
    # ---- implementation
    flat = [x["case"] for x in cases]
    chunks = [flat[i:i + 4000] for i in range(0, len(flat), 4000)]
    schunks = [sweeps[i:i + 4] for i in range(0, len(sweeps), 4)]
    steps = [history_steps(h) for h in hists]        # (also resolves the n_args of the enc steps in place)
    hchunks = [hists[i:i + 400] for i in range(0, len(hists), 400)]
    tcase = None
    if not args.replay or any("threads" in r for r in items):
        trng = chk.rng if not args.replay else None
        if args.replay:
            tcase = [r["threads"] for r in items if "threads" in r][0]
        else:
            per = []
            for t in range(6):
                qs = []
                for j in range(6):
                    q = rand_packet(trng)
                    q[DATA] = [t * 16 + j] * trng.choice([0, 1, 7, 40, 200, 256, 600])
                    qs.append([q, layout_scp(q)])
                per.append(qs)
            tcase = ["threads", per, 2.5 if chk.tier == "quick" else 20]
    res = chk.impl_parallel("impl_c15.py", chunks + schunks + hchunks + ([[tcase]] if tcase else []))
    outs = [o for part in res[:len(chunks)] for o in part]
    souts = [o for part in res[len(chunks):len(chunks) + len(schunks)] for o in part]
    houts = [o for part in res[len(chunks) + len(schunks):len(chunks) + len(schunks) + len(hchunks)] for o in part]
    touts = res[len(chunks) + len(schunks) + len(hchunks)] if tcase else None
    reported = set()
    # threaded search: N threads encode their own packets at once; every result against the independent encoder
    if touts and (not isinstance(touts[0], list) or len(touts[0]) < 3):
        chk.oblige("threads-search-ran", False, "the threaded search did not complete: %r" % (touts[0],))
    elif touts:
        t = touts[0]
        chk.count("threaded-encodes", t[2])
        chk.evaluations += t[2]
        if t[1]:
            th, q, got = t[1][0]
            chk.fail_input("threads-encode", "with %d threads encoding at once, thread %d encoding %r got %r, documented %r"
                           % (len(tcase[1]), th, q, got, layout_scp(q)), dict(threads=tcase, observed=t[1][0]))
    # every judged step of a history becomes an ordinary case: same oracle, same model (a pure function of the
    # current field values / of the datagram), remembered together with the history that led to it
    for h, st, ho in zip(hists, steps, houts):
        chk.count("histories:" + h[0])
        if ho[0] != "hist" or len(ho[1]) != len(st):
            chk.fail_input("reuse-" + str(ho[0]), "history did not run to completion: %r" % (ho,), dict(history=h))
            continue
        for i, (vc, o) in enumerate(zip(st, ho[1])):
            cases.append(dict(case=vc, stream="reuse-" + h[0][5:], hist=(h, i)))
            outs.append(o[:2] if h[0] == "hist_dec" else o)
            if h[0] == "hist_dec" and len(o) > 2 and o[0] == "ok" and len(vc[1]) > 2 and vc[1][2] in (0x87, 0x07) and o[2] != ["ok", vc[1]]:
                # a decoded packet re-encodes to the bytes it was decoded from (any n_args: arguments taken and
                # the rest of the payload are the same bytes in the same order)
                chk.fail_input("reuse-reencode", "step %d of a history: the packet decoded from %r now encodes to %r"
                               % (i, vc[1], o[2]), dict(history=h, step=i, case=vc, observed=o))
    flat = [plain_case(x["case"]) for x in cases]     # what the oracle and the model are asked: int(x) / bool(x)
    hits = set()                                      # indices on which the oracle reported a failing input

    def report(hit, replay):
        if hit[0] in reported or len(reported) >= 25:      # one concrete input per kind of failure
            return
        reported.add(hit[0])
        chk.fail_input(hit[0], hit[1], replay)
    for ci, (x, o) in enumerate(zip(cases, outs)):
        c = flat[ci]
        chk.count("stream:" + x["stream"])
        chk.count("kind:" + c[0])
        chk.count("outcome:" + str(o[0]))
        if c[0] == "enc_scp":
            chk.count("args-present:%d" % n_present(c[1]))
            chk.count("payload-len:%s" % (len(c[1][DATA]) if len(c[1][DATA]) < 13 else "13+"))
        if c[0] == "dec_scp":
            chk.count("decode-len:%s" % ("<14" if len(c[1]) < 14 else len(c[1]) - 14 if len(c[1]) < 27 else "27+"))
        nontriv = (c[0] in ("enc_sdp", "enc_scp") and in_width(c[1]) and o[0] == "ok") or \
                  (c[0] == "dec_scp" and len(c[1]) >= 14) or (c[0] == "dec_sdp" and len(c[1]) >= 10)
        chk.note_case(c, nontriv)
        hit = oracle(c, o)
        if hit:
            hits.add(ci)
        if hit and hit[0] == "encode-raises" and o[1] == "struct.error" and np_int8_port(x["case"][1]):
            hit = ("numpy-int8-port", hit[1] + " [a port given as numpy.int8 4..7: (port & 7) << 5 is evaluated "
                   "in int8 and wraps negative]")
            report(hit, dict(case=x["case"], observed=o, stream=x["stream"]))
        elif hit and "hist" in x:
            report(("reuse-" + hit[0], "step %d of a history on one object (judged on the current values): %s"
                    % (x["hist"][1], hit[1])),
                   dict(history=x["hist"][0], step=x["hist"][1], case=c, observed=o, stream=x["stream"]))
        elif hit:
            report(hit, dict(case=x["case"], observed=o, stream=x["stream"]))
        if "iso" in x:
            f, j = x["iso"]
            hit = isolation(f, flat[j][1], outs[j], c[1], o)
            chk.count("isolation-pairs")
            if hit:
                report(hit, dict(case=c, partner=cases[j]["case"], field=f, observed=[outs[j], o], stream=x["stream"]))
    for s, o in zip(sweeps, souts):
        if s[0] == "sweep16raw":
            chk.count("sweep16-values", s[4] - s[3])
            chk.evaluations += s[4] - s[3]
            hit = oracle_sweep_raw(s, o)
            if hit:
                report(hit[:2], dict(case=["enc_scp", hit[2], n_present(hit[2])], stream="sweep16"))
    mid = len(cases) // 2
    chk.sample(dict(case=cases[mid]["case"], implementation=outs[mid]))
    chk.sample(dict(case=cases[0]["case"], implementation=outs[0]))
    # ---- model
    if chk.model_ok:
        try:
            msw = [s for s in sweeps if s[0] != "sweep16raw"]
            # steps of histories are evaluated below, history by history, in the object machine of the model
            midx = [i for i, c in enumerate(flat) if modelable(c) and "hist" not in cases[i]]
            mflat = [flat[i] for i in midx]
            mcases = mflat + msw
            mouts = [outs[i] for i in midx] + [o for s, o in zip(sweeps, souts) if s[0] != "sweep16raw"]

            def expr(i):
                raw = cases[i]["case"]
                if raw[0] == "enc_sub":                       # an instance of a subclass: an object of that class
                    return "obj_bytes %s" % coq_obj(raw[1] in SUB_SCP, raw[2])
                if raw[0] in ("enc_sdp", "enc_scp") and cases[i]["stream"].startswith(("numpy", "flag")):
                    return "obj_bytes %s" % coq_obj(raw[0] == "enc_scp", raw[1])     # values as Python / numpy values
                return coq_expr(flat[i])
            vals = chk.coq_eval(HEADER, [expr(i) for i in midx], shard=250)
            vals += chk.coq_eval(HEADER, [coq_expr(c) for c in msw], shard=3, name="sweep")
            bad = 0
            for k, (c, o, v) in enumerate(zip(mcases, mouts, vals)):
                chk.traces_validated += 1
                m, i = canon_model(c, v), canon_impl(c, o)
                if m != i and k < len(midx) and midx[k] in hits:
                    continue            # already reported as a failing input of the implementation by the oracle
                if m != i:
                    bad += 1
                    if bad <= 3:
                        chk.disagree("%s: model %r, implementation %r" % (c[0], m, i), dict(case=c, observed=o))
                elif c[0] in ("enc_sdp", "enc_scp") and o[0] == "ok" and len(o) > 2:
                    pass
            if not bad:
                chk.oblige("correspondence:packets (%d cases: exact bytes of every encoding, every field of every "
                           "decoding, error class; 2^16 sweeps of cmd_rc and seq by digest)" % len(mcases), True)
            # whole histories in the object / buffer machine of the model
            hok = [(h, ho) for h, st, ho in zip(hists, steps, houts) if ho[0] == "hist" and len(ho[1]) == len(st)]
            hvals = chk.coq_eval(HEADER, [coq_history(h) for h, _ in hok], shard=60, name="hist")
            bad = 0
            for (h, ho), v in zip(hok, hvals):
                chk.traces_validated += len(ho[1])
                m, i = canon_history(h, v), canon_history_impl(h, ho[1])
                if m != i:
                    js = [j for j in range(min(len(m), len(i))) if m[j] != i[j]] or [min(len(m), len(i))]
                    if any(x.get("hist") and x["hist"][0] is h and x["hist"][1] == js[0] and ci in hits
                           for ci, x in enumerate(cases)):
                        continue        # that step is already reported as a failing input by the oracle
                    bad += 1
                    if bad <= 3:
                        chk.disagree("history step %d: model %r, implementation %r"
                                     % (js[0], m[js[0]:js[0] + 1], i[js[0]:js[0] + 1]), dict(history=h, step=js[0]))
            if not bad:
                chk.oblige("correspondence:histories (%d histories run in the model's object / buffer machine: every "
                           "encode, decode and re-check output)" % len(hok), True)
            # the decodings rig made of its own encodings, decoded by the model from the same bytes
            rt = [(c, o) for c, o in zip(flat, outs) if c[0] in ("enc_sdp", "enc_scp") and o[0] == "ok"]
            rt = rt[:800] if chk.tier == "quick" else rt[:30000]
            dcs = [["dec_sdp", o[1]] if c[0] == "enc_sdp" else ["dec_scp", o[1], c[2]] for c, o in rt]
            vals = chk.coq_eval(HEADER, [coq_expr(d) for d in dcs], shard=250, name="rt")
            bad = 0
            for d, (c, o), v in zip(dcs, rt, vals):
                chk.traces_validated += 1
                if canon_model(d, v) != o[2][:2]:
                    bad += 1
                    if bad <= 3:
                        chk.disagree("%s of rig's own encoding: model %r, implementation %r"
                                     % (d[0], canon_model(d, v), o[2]), dict(case=d, observed=o[2]))
            if not bad:
                chk.oblige("correspondence:decode-of-own-encoding (%d cases)" % len(dcs), True)
        except RuntimeError as e:
            chk.oblige("correspondence:model-evaluates", False, str(e))
    chk.coverage["rule"] = (
        "full sweeps of every 8-bit header field and of all 8x32 port/core pairs (dest and source), reply flag, "
        "walking ones/zeros of the 32-bit arguments, all 2^16 values of cmd_rc and of seq (encode, round trip, "
        "decode), 0-3 arguments x payload lengths 0-13, random in-width SDP/SCP packets with boundary-biased "
        "fields and payloads 0-40 bytes, one-field-changed partners for isolation; malformed stream: fields "
        "outside their width, non-prefix arguments; decoding of random byte strings of every length 0-30 (and "
        "40, 64, 300) with n_args -1..7 and the default; object-reuse histories on ONE packet object (encode / "
        "assign a field, every SDP and SCP field, on SDPPacket and SCPPacket, bytes and bytearray payload / "
        "change the bytearray in place: poke, refill, truncate, extend / encode again; decode / modify or turn "
        "around the decoded object / decode datagrams with the same and with a different header), every step "
        "judged against the current values; error-path histories (an encode that raises because a field is None "
        "or outside its width, each header/SCP field in turn, then the field repaired and the same object encoded "
        "again); field values given as numpy integer scalars of all eight types (model and oracle see int(x)), "
        "flags given as True/False/1/0/2/numpy.bool_ (bool(x)); instances of user-defined subclasses of both classes "
        "(nothing overridden, with __dict__ / extra slots / extra attribute / two levels) encoded and decoded; decoding from a caller's bytes / bytearray / "
        "memoryview, the bytearray then overwritten in place, the earlier packet's fields and re-encoding checked "
        "again; a threaded SEARCH (6 threads encoding their own packets at once for 2.5 s, switch interval 1e-6, "
        "every result against the independent encoder -- finding nothing proves nothing about thread safety). "
        "non-trivial = encoding of an in-width packet that "
        "succeeds, or decoding of a string holding a complete header; distinct by hash of the whole case")
