"""C18 -- commands go to the chip, core and application the caller named.

Theorems (Props/C18.v) about the Gallina model of the context mechanism and of the decorated methods of
MachineController / BMPController (Model/Context.v), whose signature list is regenerated from /repo on
every run (Generated/GenSignatures.v, tools/dump_c18.py; Generated/GenCtxGeometry.v for
spinn5_local_eth_coord);
correspondence: histories of nested with-blocks, application blocks, update_current_context, exceptions and
calls of every decorated method in every way of passing the arguments (and with the non-scalar argument
shapes the methods accept: sequences of states, 1-/2-argument application maps), run on the real controllers
(whose connections are recording fakes) and on the model; EVERY command of every call is compared (connection,
destination, command, sub-command, words carrying the application id), plus exception classes, the events
of block exits and the final stack;
independent oracle: explicit > innermost context > default computed in Python from the dumped signatures,
compared with EVERY command that reached the fake connections (destination, connection of the board holding
the target from the shape of a SpiNN-5 board, application-id words); stack snapshots before/after every block;
exactly one stop on leaving an application block.
"""
import json
import os

import lib
from lib import zlit, vlist

LEVEL = "proof"
# GenBoardTables / GenBoard are C19's units (same source): Proofs/ContextBoard.v proves C18's kernel equal to C19's
UNITS = ["GenSignatures", "GenCtxGeometry", "GenContextShape", "GenBoardTables", "GenBoard"]

SCP = dict(sver=0, read=2, write=3, fill=5, link_read=17, link_write=18, nnp=20, signal=22, ffd=23, led=25,
           iptag=26, alloc_free=28, router=29, info=31, bmp_info=48, power=57)
SIG_STOP = 2
ERRS = {1: "TypeError", 2: "ValueError", 3: "AssertionError"}
INTERRUPTS = ("KeyboardInterrupt", "SystemExit", "HarnessInterrupt")     # model error 6
SCP_ERRORS = ("TimeoutError", "FatalReturnCodeError")                       # model error 7

DEFAULT_INITIAL = {"mc_initial": [["app_id", 66]], "bmp_initial": [["cabinet", 0], ["frame", 0], ["board", 0]]}

# names whose values are plain integers / booleans for every method that has them: these may be supplied
# by a context block
CTX_NAMES = {"MC": ["x", "y", "p", "processor", "app_id", "link", "tag", "clear", "wait", "iptag", "port", "led",
                    "count", "ptr", "size", "length_bytes"],
             "BMP": ["cabinet", "frame", "board", "led", "fpga_num"]}


# ------------------------------------------------------------------ independent geometry (SpiNN-5 boards)
def board_eth(x, y, w, h, rx, ry):
    """Ethernet chip of the board holding chip (x, y), from the shape of a SpiNN-5 board (a hexagon of 48
    chips whose bottom-left chip is the Ethernet chip; boards tile with period 12 at offsets (0,0), (4,8),
    (8,4) from the root) -- not from rig's table."""
    for ox, oy in ((0, 0), (4, 8), (8, 4)):
        dx = (x - rx - ox) % 12
        dy = (y - ry - oy) % 12
        if 0 <= dx <= 7 and 0 <= dy <= 7 and dy - dx <= 3 and dx - dy <= 4:
            return ((x - dx) % w, (y - dy) % h)
    raise AssertionError("chip (%d, %d) is on no board" % (x, y))


# ------------------------------------------------------------------ generator
class Gen(object):
    def __init__(self, rng, sigs, info):
        self.rng = rng
        self.sigs = sigs              # {cls: {name: sig}}
        self.info = info
        self.tok = 0
        self.kept_apps = {}
        self.kept = {}
        self.targets = []

    def token(self):
        self.tok += 1
        return {"t": self.tok % 60}


    def ctl(self, cls):
        r = self.rng
        c = dict(width=None, height=None, root=None, conns=[], bmp=[])
        if cls == "MC":
            if r.random() < 0.75:
                w, h = r.choice([(8, 8), (12, 12), (24, 12), (24, 24), (2, 2), (16, 20), (36, 24), (12, 36)])
                root = r.choice([(0, 0), (0, 0), (0, 0), (4, 8), (8, 4), (3, 5)])
                c.update(width=w, height=h, root=list(root))
                eths = [(x, y) for x in range(w) for y in range(h)
                        if ((x - root[0]) % 12, (y - root[1]) % 12) in ((0, 0), (4, 8), (8, 4))]
                r.shuffle(eths)
                keep = eths[:r.randint(0, min(len(eths), 6))]
                if r.random() < 0.2:
                    keep.append((1, 1))            # a connection to a chip that is not an Ethernet chip
                c["conns"] = [[list(xy), i + 1] for i, xy in enumerate(dict.fromkeys(keep))]
                if r.random() < 0.1:                # partially known geometry: falls back to the initial one
                    c[r.choice(["width", "height", "root"])] = None
        else:
            keys = [(cb, fr) for cb in range(2) for fr in range(2)] + \
                   [(cb, fr, b) for cb in range(2) for fr in range(2) for b in range(4)]
            r.shuffle(keys)
            keep = keys[:r.randint(1, 10)]
            for cf in ((0, 0), (1, 1), (0, 1), (1, 0)):
                if r.random() < 0.7 and cf not in keep:
                    keep.append(cf)
            c["bmp"] = [[list(k), i] for i, k in enumerate(keep)]
        return c

    def discovery(self):
        """A multi-board machine for a real run of discover_connections(): every Ethernet chip gets a status;
        -> (description for the driver, the controller state that must result)"""
        r = self.rng
        w, h = r.choice([(12, 12), (24, 12), (24, 12), (12, 24), (24, 24), (8, 8)])
        root = r.choice([(0, 0), (0, 0), (0, 0), (8, 4), (4, 8)]) if (w, h) != (8, 8) else (0, 0)
        eths = sorted((x, y) for x in range(w) for y in range(h)
                      if ((x - root[0]) % 12, (y - root[1]) % 12) in ((0, 0), (4, 8), (8, 4)))
        eth = []
        for xy in eths:
            st = r.choice(["ok", "ok", "ok", "probe-fails", "probe-fails", "eth-down", "info-fails", "dead"])
            if xy == root and st == "dead":
                st = "ok"
            eth.append([list(xy), st])
        dead = [[x, y] for x in range(1, w - 1) for y in range(1, h - 1)
                if (x, y) not in eths and r.random() < 0.02]
        if r.random() < 0.45:
            # the corner chip and some chips below it dead: the last column is shorter than the machine is high
            dead += [[w - 1, h - 1 - i] for i in range(r.randint(1, 6))]
        desc = dict(w=w, h=h, root=list(root), eth=eth, dead=dead)
        # the connections that are known afterwards: discovered AND kept (the probe over them succeeded)
        conns = [[xy, i + 1] for i, (xy, st) in enumerate(eth) if st == "ok"]
        desc2 = None
        if (w, h) != (8, 8) and r.random() < 0.45:
            # the machine changes -- mostly it shrinks -- and is discovered a second time by the same controller;
            # connections made the first time are retained, the dimensions are those of the machine as it is now
            sizes = [(12, 12), (24, 12), (12, 24), (24, 24)]
            smaller = [z for z in sizes if z[0] <= w and z[1] <= h and z != (w, h)]
            w2, h2 = r.choice(smaller) if smaller and r.random() < 0.7 else r.choice(sizes)
            eths2 = sorted((x, y) for x in range(w2) for y in range(h2)
                           if ((x - root[0]) % 12, (y - root[1]) % 12) in ((0, 0), (4, 8), (8, 4)))
            have = set(tuple(xy) for xy, _ in conns)
            eth2 = [[list(xy), "ok" if xy in have or xy == root else
                     r.choice(["ok", "ok", "probe-fails", "eth-down", "info-fails"])] for xy in eths2]
            desc2 = dict(w=w2, h=h2, root=list(root), eth=eth2, dead=[], id_base=100)
            conns = conns + [[xy, 101 + i] for i, (xy, st) in enumerate(eth2) if st == "ok" and tuple(xy) not in have]
            w, h, eth = w2, h2, eth2
        ctl = dict(width=w, height=h, root=list(root), conns=conns, bmp=[])
        targets = []
        for xy, st in eth:
            # the Ethernet chip, its neighbours, and chips of its board that lie across the torus edge
            for dx, dy in ((0, 0), (0, 0), (1, 0), (0, 1), (1, 1), (-1, 0), (0, -1), (4, 3), (7, 7), (7, 3), (4, 7),
                           (6, 2), (4, 0), (0, 3)):
                t = ((xy[0] + dx) % w, (xy[1] + dy) % h)
                targets.append(t)
        return desc, desc2, ctl, targets

    def aim(self, pos, kw, names):
        """address the call to one of the chips of interest (Ethernet chips and their neighbours)"""
        if not self.targets or self.rng.random() > 0.85:
            return
        t = self.rng.choice(self.targets)
        where = {}
        for i, n in enumerate(names[:len(pos)]):
            where[n] = ("pos", i)
        for i, (k, _) in enumerate(kw):
            where[k] = ("kw", i)
        if "x" in where and "y" in where:
            for n, v in (("x", t[0]), ("y", t[1])):
                kind, i = where[n]
                if kind == "pos":
                    pos[i] = v
                else:
                    kw[i][1] = v

    def value(self, cls, method, name, ctl):
        r = self.rng
        if name in ("x", "y"):
            if r.random() < 0.03:
                return None
            lim = (ctl["width"] if name == "x" else ctl["height"]) or 8
            return r.choice([r.randrange(lim), r.randrange(lim), r.randrange(lim), 255, r.randrange(0, 48)])
        if name in ("p", "processor"):
            return None if r.random() < 0.02 else r.randrange(18)
        if name == "app_id":
            return r.choice([r.randrange(256), r.randrange(16, 200), 66, 0, 255])
        if name in ("cabinet", "frame"):
            return r.choice([0, 0, 0, 1, 1, 1, 1, 2])
        if name == "board":
            if method in ("set_power", "set_led") and r.random() < 0.2:
                # these two accept a sequence of boards (oracle only: the model's values are scalars)
                return {"seq": r.sample(range(6), r.randint(1, 3)),
                        "kind": r.choice(["list", "tuple", "set", "generator", "iter", "reversed", "map", "dict-keys"])}
            return r.choice([0, 1, 2, 3, 3, 5])
        if name == "link":
            return r.randrange(6)
        if name == "tag":
            return r.randrange(256)
        if name in ("clear", "wait"):
            return r.random() < 0.5
        if name == "size":
            return r.choice([4, 8, 16, 6]) if method == "fill" else r.choice([4, 8, 16])
        if name == "length_bytes":
            return r.choice([4, 8])
        if name == "address" and method == "fill":
            return r.choice([0x100, 0x104, 0x102])
        if name == "signal":
            return r.choice([2, 3, 4, 5, 6, 7, 8, 10])
        if name in ("count", "n_tries"):
            return 1
        if name in ("iptag", "led", "fpga_num"):
            return r.randrange(4)
        if name == "port":
            return 50000 + r.randrange(8)
        if name == "ptr":
            return 0x60000000 + 4 * r.randrange(64)
        if name == "state" and cls == "BMP":
            return r.random() < 0.5
        return self.token()

    def call(self, cls, m, ctl, inforce):
        """One call of method m: every way of passing each argument.  inforce = names some enclosing context
        (or the initial one) sets, used only to steer how often a required argument is left out."""
        r = self.rng
        sg = self.sigs[cls][m]
        names = [p for p, _ in sg["params"]]
        dflt = dict((p, d) for p, d in sg["params"])
        kwonly = [k for k, _ in sg["kwonly"]]
        dflt.update(dict((k, d) for k, d in sg["kwonly"]))
        npos = r.randint(0, len(names))
        if r.random() < 0.25:
            npos = len(names)
        pos = [self.value(cls, m, n, ctl) for n in names[:npos]]
        kw = []
        shape = []
        for n in names[npos:] + kwonly:
            omit_ok = (n in inforce) or dflt[n][0] == "val"
            u = r.random()
            if omit_ok and u < 0.6:
                shape.append("ctx" if n in inforce else "default")
                continue
            if not omit_ok and u < 0.12:
                shape.append("missing")
                continue
            kw.append([n, self.value(cls, m, n, ctl)])
            shape.append("kw")
        if sg["varargs"]:
            if m in ("flood_fill_aplx", "load_application"):
                na = r.choice([1, 1, 1, 2, 2, 0, 3])
            else:
                na = r.choice([1, 1, 1, 2, 0])
            va = [self.token() for _ in range(na)]
            if m == "send_scp" and na:
                va[0] = r.choice(sorted(SCP.values()))
            if m == "send_scp" and na == 2:
                va[1] = r.randrange(1 << 16)
            pos = pos + va
        u = r.random()
        if u < 0.03 and not sg["varkw"]:
            kw.append(["no_such_argument", 1])
            shape.append("unexpected-kw")
        elif u < 0.06 and npos > 0:
            kw.append([names[r.randrange(npos)], self.value(cls, m, names[0], ctl)])
            shape.append("multiple-values")
        elif u < 0.08 and not sg["varargs"] and npos == len(names):
            pos.append(1)
            shape.append("too-many-positional")
        r.shuffle(kw)
        self.aim(pos, kw, names)
        return pos, kw, shape + ["pos"] * npos

    def block(self, cls, methods, ctl, inforce, depth, active=(), noupdate=False):
        """A list of ops using up the methods of `methods` (a list that is consumed).
        active: the kept Context objects (variables) entered and not yet left;  noupdate: this level is the
        block of a kept Context object -- update_current_context is not generated there (it would change the
        object itself, which may be on the stack twice)."""
        r = self.rng
        ops = []
        n = r.randint(1, 4)
        for _ in range(n):
            if not methods:
                break
            if cls == "BMP" and r.random() < 0.04:
                # a collection of boards supplied by a context block to one set_led / set_power call
                m = r.choice(["set_led", "set_power"])
                seq = {"seq": r.sample(range(6), r.randint(1, 3)),
                       "kind": r.choice(["list", "tuple", "generator", "iter", "reversed", "map"])}
                first = self.value(cls, m, "led" if m == "set_led" else "state", ctl)
                ckw = [["cabinet", self.value(cls, m, "cabinet", ctl)], ["frame", self.value(cls, m, "frame", ctl)]]
                ops.append(["with", [["board", seq]], [["call", m, [first], ckw, False]], None])
                self.shapes.append((m, ["boards-from-context"]))
                continue
            u = r.random()
            if (u < 0.45 or depth >= 5) and not (active and depth < 5 and r.random() < 0.3):
                m = methods.pop()
                if m == "application":
                    ops.append(self.app(cls, methods, ctl, inforce, depth, active))
                    continue
                pos, kw, shape = self.call(cls, m, ctl, inforce)
                if r.random() < 0.06:
                    ops.append(["callrefused", m, pos, kw, r.choice(SCP_ERRORS)])
                    self.shapes.append((m, shape + ["machine-refuses-a-command"]))
                    continue
                if any(isinstance(v, dict) and v.get("t", 0) % 4 in (1, 2) for v in pos[:1] + [b for a, b in kw if a == "state"]) \
                        and m in ("count_cores_in_state", "wait_for_cores_to_reach_state"):
                    shape.append("sequence-of-states")
                ops.append(["call", m, pos, kw, r.random() < 0.15])
                self.shapes.append((m, shape))
            elif u < 0.75:
                upcoming = methods[-3:]
                cand = [nm for m in upcoming for nm in self.argnames(cls, m) if nm in CTX_NAMES[cls]]
                cand = list(dict.fromkeys(cand)) or CTX_NAMES[cls][:3]
                chosen = [nm for nm in cand if r.random() < 0.6] or [r.choice(cand)]
                if r.random() < 0.15:
                    chosen = []
                if r.random() < 0.1:
                    chosen.append(r.choice(CTX_NAMES[cls]))
                kw = [[nm, self.value(cls, "__call__", nm, ctl)] for nm in dict.fromkeys(chosen)]
                if "x" in dict(kw) and "y" in dict(kw) and self.targets and r.random() < 0.8:
                    t = r.choice(self.targets)
                    kw = [[k, t[0] if k == "x" else t[1] if k == "y" else v] for k, v in kw]
                v = r.random()
                var = None
                if active and v < 0.45:
                    var = r.choice(list(active))              # re-enter a Context object that is still active
                    kw = self.kept[var]
                    self.shapes.append(("__context__", ["re-entered-while-active"]))
                elif self.kept and v < 0.55:
                    var = r.choice(sorted(self.kept))         # re-use one that was left earlier (or is active)
                    kw = self.kept[var]
                    self.shapes.append(("__context__", ["re-used"]))
                elif v < 0.75:
                    var = len(self.kept)                      # keep this one in a variable
                    self.kept[var] = kw
                    self.shapes.append(("__context__", ["kept"]))
                inner = self.block(cls, methods, ctl, inforce | set(k for k, _ in kw), depth + 1,
                                   active=tuple(active) + ((var,) if var is not None else ()),
                                   noupdate=var is not None)
                if var is not None and methods and r.random() < 0.7:
                    # a command at this level after the nested blocks have been left
                    m = methods.pop()
                    if m != "application":
                        pos, ckw, shape = self.call(cls, m, ctl, inforce | set(k for k, _ in kw))
                        inner.append(["call", m, pos, ckw, False])
                        self.shapes.append((m, shape))
                if var is not None and var not in active and methods and r.random() < 0.5:
                    # the kept object, entered once and innermost, is changed through its public update() between
                    # two commands, no block being entered or left in between
                    nm = r.choice([k for k, _ in kw] or CTX_NAMES[cls][:3])
                    upd = [[nm, self.value(cls, "__call__", nm, ctl)]]
                    if r.random() < 0.4:
                        nm2 = r.choice(CTX_NAMES[cls][:5])
                        if nm2 != nm:
                            upd.append([nm2, self.value(cls, "__call__", nm2, ctl)])
                    now = [list(p) for p in kw]
                    for k2, v2 in upd:
                        hit = [p for p in now if p[0] == k2]
                        if hit:
                            hit[0][1] = v2
                        else:
                            now.append([k2, v2])
                    inner.append(["ctxupdate", var, upd])
                    self.kept[var] = now                   # what the object holds from now on
                    self.shapes.append(("__context__", ["kept-object-updated-while-entered"]))
                    m = methods.pop()
                    if m != "application":
                        pos, ckw, shape = self.call(cls, m, ctl, inforce | set(k for k, _ in now))
                        inner.append(["call", m, pos, ckw, False])
                        self.shapes.append((m, shape))
                ops.append(["with", kw, inner, var])
            elif u < 0.83 and cls == "MC":
                ops.append(self.app(cls, methods, ctl, inforce, depth, active))
            elif u < 0.86:
                # a block whose exit callback raises
                nm = r.choice(CTX_NAMES[cls][:5])
                kw = [[nm, self.value(cls, "__call__", nm, ctl)]]
                exc = r.choice(["Exception"] + list(INTERRUPTS))
                self.shapes.append(("__context__", ["exit-callback-raises-" + ("Exception" if exc == "Exception" else "BaseException")]))
                op = ["withcb", kw, self.block(cls, methods, ctl, inforce | {nm}, depth + 1, active), exc]
                ops.append(self.caught(cls, op, methods, ctl, inforce))
            elif u < 0.89 and not noupdate:
                nm = r.choice(CTX_NAMES[cls])
                ops.append(["update", [[nm, self.value(cls, "__call__", nm, ctl)]]])
                inforce = inforce | {nm}
            elif u < 0.92:
                ops.append(["raise"])
            elif u < 0.95:
                how = r.choice(["clear", "pop", "update", "update"])
                nm = r.choice(CTX_NAMES[cls][:6])
                ops.append(["getargs", how, [[nm, self.value(cls, "__call__", nm, ctl)]]])
                self.shapes.append(("__context__", ["returned-arguments-edited"]))
            else:
                ops.append(["try", self.block(cls, methods, ctl, inforce, depth + 1, active, noupdate)])
        return ops

    def app(self, cls, methods, ctl, inforce, depth, active=()):
        r = self.rng
        avar = None
        if r.random() < 0.4:
            # app = c.application(n) kept in a variable and entered more than once (in turn, or nested in itself)
            if self.kept_apps and r.random() < 0.6:
                avar = r.choice(sorted(self.kept_apps))
                self.shapes.append(("__context__", ["application-context-re-entered"]))
            else:
                avar = len(self.kept_apps)
                self.kept_apps[avar] = r.randrange(1, 255)
                self.shapes.append(("__context__", ["application-context-kept"]))
            pos, kw = [self.kept_apps[avar]], []
        else:
            pos, kw, shape = self.call(cls, "application", ctl, inforce)
            self.shapes.append(("application", shape))
        intr = r.choice(INTERRUPTS) if r.random() < 0.3 else None
        op = ["app", pos, kw, self.block(cls, methods, ctl, inforce | {"app_id"}, depth + 1, active,
                                         noupdate=avar is not None), intr, avar]
        if avar is not None and methods and r.random() < 0.5 and depth < 4:
            # and straight away once more
            op2 = ["app", pos, kw, self.block(cls, methods, ctl, inforce | {"app_id"}, depth + 1, active, noupdate=True),
                   None, avar]
            return ["try", [op, op2]]
        if intr:
            self.shapes.append(("__context__", ["stop-command-interrupted"]))
            return self.caught(cls, op, methods, ctl, inforce)
        return op

    def caught(self, cls, op, methods, ctl, inforce):
        """mostly: try: <op> except: pass, then a command at this level"""
        r = self.rng
        if r.random() < 0.25:
            return op
        ops = [["try", [op]]]
        if methods and r.random() < 0.8:
            m = methods.pop()
            if m != "application":
                pos, kw, shape = self.call(cls, m, ctl, inforce)
                ops.append(["call", m, pos, kw, False])
                self.shapes.append((m, shape))
        return ["try", ops]

    def argnames(self, cls, m):
        sg = self.sigs[cls][m]
        return [p for p, _ in sg["params"]] + [k for k, _ in sg["kwonly"]]

    def case(self, cls, methods):
        r = self.rng
        self.shapes = []
        self.kept = {}
        self.kept_apps = {}
        self.targets = []
        desc = desc2 = None
        if cls == "MC" and r.random() < 0.3:
            desc, desc2, ctl, self.targets = self.discovery()
        else:
            ctl = self.ctl(cls)
            if cls == "MC" and ctl["conns"]:
                self.targets = [tuple(xy) for xy, _ in ctl["conns"]]
        u = r.random()
        if u < 0.55:
            init = None
            key = "mc_initial" if cls == "MC" else "bmp_initial"
            inforce = set(k for k, _ in (self.info[key] if self.info.get(key) is not None else DEFAULT_INITIAL[key]))
        elif u < 0.75:
            init, inforce = [], set()
        else:
            names = [nm for nm in CTX_NAMES[cls][:5] if r.random() < 0.5]
            init = [[nm, self.value(cls, "__call__", nm, ctl)] for nm in names]
            inforce = set(names)
        methods = list(methods)
        ops = []
        while methods:
            ops += self.block(cls, methods, ctl, inforce, 0)
        case = dict(cls=cls, init=init, ctl=ctl, ops=ops)
        if desc is not None:
            case["discover"] = desc
            if desc2 is not None:
                case["discover2"] = desc2
        return case, self.shapes


# ------------------------------------------------------------------ exhaustive small domain (thorough tier)
ROLE_VALUES = {  # name: (explicit, innermost context, outer context)
    "x": (1, 2, 3), "y": (4, 5, 6), "p": (7, 8, 9), "processor": (7, 8, 9), "app_id": (10, 20, 30),
    "cabinet": (0, 1, 0), "frame": (1, 0, 1), "board": (1, 2, 3)}
EXH_CTL = {"MC": dict(width=12, height=12, root=[0, 0], conns=[[[0, 0], 1], [[4, 8], 2], [[8, 4], 3]], bmp=[]),
           "BMP": dict(width=None, height=None, root=None, conns=[],
                       bmp=[[[0, 0], 0], [[0, 1], 1], [[1, 0], 2], [[1, 1], 3], [[0, 1, 1], 4], [[1, 0, 2], 5]])}


def exhaustive_cases(sigs):
    """Every decorated method x every number of positional arguments x every way (keyword / innermost
    context only / outer context only / both contexts / nobody) of supplying each remaining contextual
    argument (chip, core, application id; cabinet, frame, board), under two nested blocks and an empty
    initial context."""
    import itertools
    gen = Gen(None, sigs, None)
    cases = []
    for cls in ("MC", "BMP"):
        for m, sg in sigs[cls].items():
            if m == "application":
                continue
            names = [p for p, _ in sg["params"]]
            kwonly = [k for k, _ in sg["kwonly"]]
            for npos in range(len(names) + 1):
                fixed = {}

                def val(n, which=0):
                    if n in ROLE_VALUES:
                        return ROLE_VALUES[n][which]
                    if n not in fixed:
                        fixed[n] = {"size": 8, "length_bytes": 8, "link": 2, "tag": 3, "clear": True, "wait": False,
                                    "signal": 2, "count": 1, "n_tries": 1, "iptag": 1, "led": 1, "fpga_num": 1,
                                    "port": 50000, "ptr": 0x60000100, "address": 0x100 if m == "fill" else None,
                                    "state": True if cls == "BMP" else None}.get(n)
                        if fixed[n] is None:
                            fixed[n] = gen.token()
                    return fixed[n]
                pos = [val(n) for n in names[:npos]]
                if sg["varargs"]:
                    pos = pos + ([0] if m == "send_scp" else [gen.token()])
                rest = names[npos:] + kwonly
                roles = [n for n in rest if n in ROLE_VALUES]
                for modes in itertools.product(("kw", "inner", "outer", "both", "omit"), repeat=len(roles)):
                    mode = dict(zip(roles, modes))
                    kw = [[n, val(n)] for n in rest if mode.get(n, "kw") == "kw"]
                    inner = [[n, ROLE_VALUES[n][1]] for n in roles if mode[n] in ("inner", "both")]
                    outer = [[n, ROLE_VALUES[n][2]] for n in roles if mode[n] in ("outer", "both")]
                    cases.append(dict(cls=cls, init=[], ctl=EXH_CTL[cls],
                                      ops=[["with", outer, [["with", inner, [["call", m, pos, kw, False]]]]]]))
    return cases


# what a kept Context object holds each time it is entered, as found by walking the history along the
# implementation's events (Oracle.run): id(with-op) -> [[name, value]...].  An update() that is written in the
# history but skipped by an exception must not count, which only the walk can tell.
EFF = {}


# ------------------------------------------------------------------ Coq literals
def cstr(s):
    return '"%s"' % s


def cval(v):
    if v is None:
        return "VNone"
    if isinstance(v, bool):
        return "(VBool %s)" % ("true" if v else "false")
    if isinstance(v, int):
        return "(VInt %s)" % zlit(v)
    if "seq" in v:
        # a collection in iteration order; a set of small non-negative ints iterates in ascending order (CPython)
        q = sorted(v["seq"]) if v.get("kind") == "set" else v["seq"]
        return "(VSeq %s)" % vlist(zlit(b) for b in q)
    return "(VTok %s)" % zlit(v["t"])


def ckw(kw):
    return vlist("(%s, %s)" % (cstr(k), cval(v)) for k, v in kw)


def cop(op):
    k = op[0]
    if k == "call":
        return "OCall %s %s %s %s" % (cstr(op[1]), vlist(cval(v) for v in op[2]), ckw(op[3]),
                                      "true" if op[4] else "false")
    if k == "callrefused":
        return "OCallRefused %s %s %s" % (cstr(op[1]), vlist(cval(v) for v in op[2]), ckw(op[3]))
    if k == "ctxupdate":
        return "OUpdate %s" % ckw(op[2])      # the object is the innermost context and on the stack once
    if k == "with":
        return "OWith %s %s" % (ckw(EFF.get(id(op), op[1])), cops(op[2]))
    if k == "app":
        return "OApp %s %s %s %s" % (vlist(cval(v) for v in op[1]), ckw(op[2]), cops(op[3]),
                                     "true" if len(op) > 4 and op[4] else "false")
    if k == "withcb":
        return "OWithCb %s %s" % (ckw(op[1]), cops(op[2]))
    if k == "update":
        return "OUpdate %s" % ckw(op[1])
    if k == "raise":
        return "ORaise"
    return "OTry %s" % cops(op[1])


def cops(ops):
    # get_context_arguments() hands out a fresh dictionary (merge_stack builds one): editing it is no step of the model
    return vlist(cop(o) for o in ops if o[0] != "getargs")


def copt(x, f=zlit):
    return "None" if x is None else "(Some %s)" % f(x)


def coq_machine(d):
    """the simulated machine as the model's dmachine: each Ethernet chip with (connection kept?, connection)"""
    base = d.get("id_base", 0)
    return "(MkDMachine %s %s (%s, %s) %s)" % (
        zlit(d["w"]), zlit(d["h"]), zlit(d["root"][0]), zlit(d["root"][1]),
        vlist("((%s, %s), (%s, %s))" % (zlit(xy[0]), zlit(xy[1]), "true" if st == "ok" else "false", zlit(base + i + 1))
              for i, (xy, st) in enumerate(d["eth"])))


def coq_ctl(c):
    t = c["ctl"]
    if c.get("discover"):
        # the controller's state is what the model's discover_step makes of the fresh controller
        ctl = "(MkCtl None None None [] [])"
        for d in (c["discover"], c.get("discover2")):
            if d:
                ctl = "(discover_step %s %s)" % (coq_machine(d), ctl)
        return ctl
    return "(MkCtl %s %s %s %s %s)" % (
        copt(t["width"]), copt(t["height"]), copt(t["root"], lambda xy: "(%s, %s)" % (zlit(xy[0]), zlit(xy[1]))),
        vlist("((%s, %s), %s)" % (zlit(xy[0]), zlit(xy[1]), zlit(i)) for xy, i in t["conns"]),
        vlist("(%s, %s)" % (vlist(zlit(a) for a in k), zlit(i)) for k, i in t["bmp"]))


def coq_case(c):
    ctl = coq_ctl(c)
    if c["init"] is None:
        init = "mc_initial_context" if c["cls"] == "MC" else "bmp_initial_context"
    else:
        init = ckw(c["init"])
    return "(flat_ctl %s, flat_res (run_ops %s %s %s [mkdict %s]))" % (
        ctl if c.get("discover") else "(MkCtl None None None [] [])", ctl, cstr(c["cls"]), cops(c["ops"]), init)


def jval(fv):
    tag, z, l = fv
    return {0: z, 1: None, 2: bool(z), 3: {"t": z}, 4: {"seq": list(l)}}[tag]


# ------------------------------------------------------------------ model vs implementation
def entry_matches(w, e, full=True):
    """w: flattened model wire; e: trace entry of the implementation"""
    conn, kind, x, y, p, cmd, disc, fields = w
    if kind != e[1]:
        return False
    if kind == 0 and jval(cmd) != e[5]:
        return False
    for i, sh, mask, v in disc:
        a = e[6 + i]
        if not isinstance(a, int) or (a >> sh) & mask != v:
            return False
    if not full:
        return True
    if conn != e[0] or [jval(x), jval(y), jval(p)] != e[2:5]:
        return False
    for fk, i, sh, v in fields:
        a = e[6 + i]
        v = jval(v)
        if isinstance(v, bool):
            v = int(v)
        if fk == 1 and isinstance(v, dict) and "seq" in v:
            if a != sum(1 << b for b in v["seq"]):
                return False
            continue
        if not isinstance(a, int) or not isinstance(v, int):
            return False
        if fk == 0 and (a >> sh) & 0xff != v & 0xff:
            return False
        if fk == 1 and a != (1 << v):
            return False
    return True


def outcome_agrees(model, trace, exc):
    """-> None or a description of the difference.  The model lists EVERY command of the call."""
    wires, err = model
    if len(wires) != len(trace):
        return "model sends %d command(s), implementation sent %d" % (len(wires), len(trace))
    for k, (w, e) in enumerate(zip(wires, trace)):
        if not entry_matches(w, e):
            return "command %d differs" % k
    if err == 6:
        if exc not in INTERRUPTS:
            return "model: the interrupt raised by the connection travels outward"
    elif err == 7:
        if exc not in SCP_ERRORS:
            return "model: the SCPError raised by the connection travels outward"
    elif err != 0 and ERRS.get(err) != exc:
        return "model: %s after %d command(s)" % (ERRS.get(err, "error %d" % err), len(wires))
    if err == 0 and exc is not None:
        return "model: no exception"
    return None


def compare(case, out, val):
    w, h, root, conns, (mev, mstack, mraised) = val      # Coq prints ((w, h, root, conns), res) flat
    if case.get("discover"):
        # the state discover_connections() left against the model's discover_step
        got = out.get("ctl_after") or {}
        model = [w, h, [list(r) for r in root], sorted([[cx, cy], k] for cx, cy, k in conns)]
        impl = [got.get("width"), got.get("height"), [got.get("root")] if got.get("root") is not None else [],
                sorted(got.get("conns", []))]
        if model != impl or out.get("discover_exc"):
            return "state after discover_connections(): model (discover_step) %r, implementation %r %s" % (
                model, impl, out.get("discover_exc") or "")
    iev = [e for e in out["events"] if e[0] != "stack"]
    if len(mev) != len(iev):
        return "model has %d events, implementation %d" % (len(mev), len(iev))
    for k, (me, ie) in enumerate(zip(mev, iev)):
        kind, name, mo = me
        if (kind == 0) != (ie[0] == "call") or (kind == 0 and name != ie[1]):
            return "event %d: model %r, implementation %r" % (k, (kind, name), ie[:2])
        trace, exc = (ie[2], ie[3]) if kind == 0 else (ie[1], ie[2])
        why = outcome_agrees(mo, trace, exc)
        if why:
            return "event %d (%s): %s; model %r, implementation trace %r exception %r" % (
                k, name or "stop", why, mo, trace[:4], exc)
    if out["stack"] is not None:
        ms = [[[k, jval(v)] for k, v in c] for c in mstack]
        if ms != out["stack"]:
            return "final stack: model %r, implementation %r" % (ms, out["stack"])
    if bool(mraised) != bool(out["raised"]):
        return "exception in flight at the end: model %r, implementation %r" % (mraised, out["raised"])
    return None


# ------------------------------------------------------------------ independent oracle
class Reject(Exception):
    pass


class Unwind(Exception):
    pass


class Skip(Exception):
    pass


INNER_P = ("inner", "read", "p")
MC_ROLES = {
    # chip: "xy" | "broadcast" (255, 255) | "keys";  core of the first command: parameter name, constant, or
    # ("inner", method, parameter): what that method resolves when the call does not pass it
    "send_scp": ("xy", "p"), "discover_connections": ("xy", INNER_P), "get_software_version": ("xy", "processor"),
    "get_ip_address": ("xy", 0), "write": ("xy", "p"), "read": ("xy", "p"), "write_across_link": ("xy", 0),
    "read_across_link": ("xy", 0), "read_struct_field": ("xy", "p"), "write_struct_field": ("xy", "p"),
    "read_vcpu_struct_field": ("xy", INNER_P), "write_vcpu_struct_field": ("xy", INNER_P),
    "get_processor_status": ("xy", INNER_P), "get_iobuf": ("xy", INNER_P), "get_iobuf_bytes": ("xy", INNER_P),
    "get_router_diagnostics": ("xy", INNER_P), "iptag_set": ("xy", 0), "iptag_get": ("xy", 0),
    "iptag_clear": ("xy", 0), "set_led": ("xy", 0), "fill": ("xy", "p"), "sdram_alloc": ("xy", 0),
    "sdram_alloc_as_filelike": ("xy", 0), "sdram_free": ("xy", 0), "flood_fill_aplx": ("broadcast", 0),
    "load_application": ("broadcast", 0), "send_signal": ("broadcast", 0), "count_cores_in_state": ("broadcast", 0),
    "wait_for_cores_to_reach_state": ("broadcast", 0), "load_routing_tables": ("keys", 0),
    "load_routing_table_entries": ("xy", 0), "get_routing_table_entries": ("xy", INNER_P),
    "clear_routing_table_entries": ("xy", 0), "get_p2p_routing_table": ("xy", INNER_P), "get_chip_info": ("xy", 0),
    "get_working_links": ("xy", 0), "get_num_working_cores": ("xy", INNER_P), "get_system_info": ("xy", INNER_P),
}
NARGS = {"flood_fill_aplx": (1, 2), "load_application": (1, 2), "send_scp": (1, 7)}


def is_int(v):
    return isinstance(v, int)


class Oracle(object):
    def __init__(self, sigs, info, case, out):
        self.sigs = sigs[case["cls"]]
        self.cls = case["cls"]
        self.case = case
        self.events = list(out["events"])
        self.at = 0
        self.why = None
        if case["init"] is None:
            key = "mc_initial" if self.cls == "MC" else "bmp_initial"
            init = info[key] if info.get(key) is not None else DEFAULT_INITIAL[key]
        else:
            init = case["init"]
        self.stack = [dict((k, v) for k, v in init)]
        self.keptobj = {}

    def fail(self, key, text):
        if self.why is None:
            self.why = (key, text)

    def next_event(self, kind):
        if self.at >= len(self.events):
            self.fail("events", "the implementation stopped early (expected a %s event)" % kind)
            raise Unwind()
        e = self.events[self.at]
        self.at += 1
        if e[0] != kind:
            self.fail("events", "expected a %s event, implementation recorded %r" % (kind, e[:2]))
            raise Unwind()
        return e

    # -- resolution: explicit, else innermost context that sets it, else the method's default
    def innermost(self, name):
        for c in reversed(self.stack):
            if name in c:
                return True, c[name]
        return False, None

    def resolve(self, m, pos, kw):
        sg = self.sigs[m]
        names = [p for p, _ in sg["params"]]
        dflt = dict((p, d) for p, d in sg["params"])
        dflt.update(dict((k, d) for k, d in sg["kwonly"]))
        if len(pos) > len(names) and not sg["varargs"]:
            raise Reject("too many positional arguments")
        explicit = dict(zip(names, pos))
        for k, v in kw:
            if k in explicit and k in names[:len(pos)]:
                raise Reject("multiple values for " + k)
            if k not in dflt and not sg["varkw"]:
                raise Reject("unexpected keyword " + k)
            explicit[k] = v
        lo, hi = NARGS.get(m, (0, 99)) if sg["varargs"] else (0, 99)
        res = {}
        for n in dflt:
            if n in explicit:
                res[n] = explicit[n]
                continue
            found, v = self.innermost(n)
            if found:
                res[n] = v
            elif dflt[n][0] == "req":
                raise Reject("required argument %s not supplied" % n)
            else:
                res[n] = dflt[n][1]
        if sg["varargs"] and not lo <= max(0, len(pos) - len(names)) <= hi:
            raise Skip()       # a malformed non-contextual argument list: the property says nothing
        for k, v in explicit.items():
            res.setdefault(k, v)
        return res

    def inner(self, m, n):
        found, v = self.innermost(n)
        if found:
            return v
        d = dict((p, d) for p, d in self.sigs[m]["params"])[n]
        return d[1]

    # -- connection that should carry a command for chip (x, y)
    def mc_conn(self, x, y):
        t = self.case["ctl"]
        if t["width"] is None or t["height"] is None or t["root"] is None:
            return 0
        eth = board_eth(x, y, t["width"], t["height"], t["root"][0], t["root"][1])
        for xy, ident in t["conns"]:
            if tuple(xy) == eth:
                return ident
        return 0

    def check_app(self, m, app, trace):
        """every command of the trace that has an application-id field carries `app`"""
        for e in trace:
            if e[1] != 0 or not is_int(e[5]):
                continue
            cmd, a1, a2 = e[5], e[6], e[7]
            got = None
            if m in ("send_scp",):
                continue
            if cmd == SCP["alloc_free"] and is_int(a1) and (a1 & 0xff) in (0, 3, 5):
                got = (a1 >> 8) & 0xff
            elif cmd == SCP["router"] and is_int(a1) and (a1 & 0xff) == 2:
                got = (a1 >> 8) & 0xff
            elif cmd == SCP["signal"] and is_int(a2):
                got = a2 & 0xff
            elif cmd == SCP["nnp"] and is_int(a1) and is_int(a2) and (a1 >> 24) == 15:
                got = (a2 >> 24) & 0xff
            if got is not None and got != app:
                self.fail("app-id:" + m, "%s: command %d carries application id %d, resolved application id is %r"
                          % (m, cmd, got, app))

    def check_mc_call(self, m, pos, kw, trace, exc):
        try:
            res = self.resolve(m, pos, kw)
        except Skip:
            return
        except Reject as r:
            if trace:
                self.fail("sent-before-reject:" + m, "%s: %s, yet %d command(s) were sent first: %r"
                          % (m, r, len(trace), trace[0]))
            elif exc != "TypeError":
                self.fail("not-rejected:" + m, "%s: %s, but the call %s" % (
                    m, r, "raised " + exc if exc else "was accepted"))
            return
        if m == "application":
            if trace or exc:
                self.fail("application-call", "application(): sent %r / raised %r" % (trace[:1], exc))
            return
        chip, core = MC_ROLES[m]
        vals = [res.get("x"), res.get("y")] if chip == "xy" else []
        app = res.get("app_id")
        odd = [v for v in vals + ([app] if "app_id" in res else []) if not is_int(v) or isinstance(v, bool)]
        if isinstance(core, str) and not is_int(res.get(core)):
            odd = odd  # a non-integer core is only passed through
        if not trace:
            if odd and exc == "TypeError":
                return                 # arithmetic on None: outside the property's domain
            self.fail("nothing-sent:" + m, "%s: all arguments resolved (%r) but nothing was sent (%s)"
                      % (m, res, exc or "no exception"))
            return
        if chip == "xy":
            want_xy = [res["x"], res["y"]]
        elif chip == "broadcast":
            want_xy = [255, 255]
        else:
            t = [v for k, v in list(zip([p for p, _ in self.sigs[m]["params"]], pos)) + [tuple(x) for x in kw]
                 if k == "routing_tables"]
            if not t and self.innermost("routing_tables")[0]:
                t = [self.innermost("routing_tables")[1]]
            want_xy = [t[0]["t"] % 8, (t[0]["t"] // 8) % 8] if t and isinstance(t[0], dict) else None
        if isinstance(core, tuple):
            want_p = self.inner(core[1], core[2])
        elif isinstance(core, str):
            want_p = res[core]
        else:
            want_p = core
        inner_p = self.inner("read", "p")
        for i, e in enumerate(trace):
            xy = e[2:4]
            if want_xy is not None and xy != want_xy and not (chip != "keys" and xy == [255, 255] and m in (
                    "flood_fill_aplx", "load_application")):
                self.fail("wrong-chip:" + m, "%s: command %d of the call went to chip %r, the resolved chip is %r "
                          "(resolved arguments %r)" % (m, i, xy, want_xy, res))
                return
            if i == 0 and e[4] != want_p:
                self.fail("wrong-core:" + m, "%s: first command went to core %r, the resolved core is %r" % (
                    m, e[4], want_p))
                return
            if i > 0 and e[4] not in (want_p, 0, inner_p):
                self.fail("wrong-core:" + m, "%s: command %d went to core %r" % (m, i, e[4]))
                return
            if is_int(xy[0]) and is_int(xy[1]) and xy != [255, 255] and not isinstance(xy[0], bool):
                want_c = self.mc_conn(xy[0], xy[1])
                if e[0] != want_c:
                    self.fail("wrong-connection:" + m, "%s: command for chip %r travelled over connection %r; the "
                              "board holding it is served by connection %r (0 = initial)" % (m, xy, e[0], want_c))
                    return
        if "app_id" in res and is_int(app) and 0 <= app < 256:
            self.check_app(m, app, trace)

    def check_bmp_call(self, m, pos, kw, trace, exc):
        try:
            res = self.resolve(m, pos, kw)
        except Skip:
            return
        except Reject as r:
            if trace:
                self.fail("sent-before-reject:" + m, "BMP %s: %s, yet a command was sent: %r" % (m, r, trace[0]))
            elif exc != "TypeError":
                self.fail("not-rejected:" + m, "BMP %s: %s, but the call %s" % (m, r, "raised " + exc if exc else "was accepted"))
            return
        cab, fr, bd = res["cabinet"], res["frame"], res["board"]
        boards = bd["seq"] if isinstance(bd, dict) and "seq" in bd else [bd]
        unordered = isinstance(bd, dict) and bd.get("kind") == "set"
        bd = boards[0]
        if unordered and len(trace) == 1 and trace[0][4] in boards:
            bd = trace[0][4]          # a set has no first element: any of its boards may be addressed
        if not all(is_int(v) and not isinstance(v, bool) for v in [cab, fr] + boards):
            return
        look = 0 if m == "set_power" else bd
        conns = dict((tuple(k), i) for k, i in self.case["ctl"]["bmp"])
        want_c = conns.get((cab, fr, look), conns.get((cab, fr)))
        if want_c is None:
            if trace or exc != "AssertionError":
                self.fail("bmp-no-connection:" + m, "BMP %s: no connection serves (%r, %r, %r) but %r / %r"
                          % (m, cab, fr, look, trace[:1], exc))
            return
        if len(trace) != 1:
            self.fail("nothing-sent:" + m, "BMP %s: %d commands sent (%s)" % (m, len(trace), exc))
            return
        e = trace[0]
        if e[0] != want_c:
            self.fail("wrong-connection:" + m, "BMP %s for (%r, %r, %r): connection %r used, most specific is %r"
                      % (m, cab, fr, bd, e[0], want_c))
        if e[2:5] != [0, 0, look]:
            self.fail("wrong-board:" + m, "BMP %s: destination %r, resolved board %r" % (m, e[2:5], bd))
        if m in ("set_power", "set_led") and e[7] != sum(1 << b for b in boards):
            self.fail("wrong-board:" + m, "BMP %s: board mask %r, resolved board(s) %r" % (m, e[7], boards))

    # -- walking the history alongside the implementation's events
    def run(self, ops):
        for op in ops:
            k = op[0]
            if k == "call":
                e = self.next_event("call")
                if e[1] != op[1]:
                    self.fail("events", "expected call of %s, got %s" % (op[1], e[1]))
                    raise Unwind()
                if self.cls == "MC":
                    self.check_mc_call(op[1], op[2], op[3], e[2], e[3])
                else:
                    self.check_bmp_call(op[1], op[2], op[3], e[2], e[3])
                if e[3] is not None and op[4] and not e[2]:
                    raise Unwind()
            elif k in ("with", "app", "withcb"):
                if k == "app":
                    try:
                        res = self.resolve("application", op[1], op[2])
                    except Reject as r:
                        e = self.next_event("call")
                        if e[1] != "application" or e[3] != "TypeError":
                            self.fail("not-rejected:application", "application(): %s but %r" % (r, e))
                        raise Unwind()
                    if self.at < len(self.events) and self.events[self.at][:2] == ["call", "application"]:
                        self.fail("unexpected-reject:application", "application(%r, %r) raised %s" % (
                            op[1], op[2], self.events[self.at][3]))
                        raise Unwind()
                    frame = {"app_id": res["app_id"]}
                    blk = op[3]
                else:
                    var = op[3] if k == "with" and len(op) > 3 else None
                    if var is None:
                        frame = dict((a, b) for a, b in op[1])
                    else:
                        # a Context object kept in a variable: made at its first use that is actually reached,
                        # with the arguments written there; afterwards it holds whatever update() left in it
                        if var not in self.keptobj:
                            self.keptobj[var] = dict((a, b) for a, b in op[1])
                        frame = self.keptobj[var]
                        EFF[id(op)] = [[a, b] for a, b in frame.items()]
                    blk = op[2]
                ent = self.next_event("stack")
                merged = {}
                for c in self.stack:
                    merged.update(c)
                if ent[1] != "enter" or dict((a, json.dumps(b)) for a, b in ent[3]) != dict(
                        (a, json.dumps(b)) for a, b in merged.items()):
                    self.fail("context-in-force", "arguments in force before a block: implementation %r, expected %r"
                              % (ent[3], merged))
                self.stack.append(frame)
                unwinding = False
                try:
                    self.run(blk)
                except Unwind:
                    unwinding = True
                if self.why and self.why[0] == "events":
                    raise Unwind()
                if k == "app":
                    st = self.next_event("stop")
                    found, app = self.innermost("app_id")
                    if is_int(app) and not isinstance(app, bool) and 0 <= app < 256:
                        sends = [x for x in st[1] if x[1] == 0 and x[5] == SCP["signal"]
                                 and is_int(x[7]) and (x[7] >> 16) & 0xff == SIG_STOP]
                        if len(sends) != 1 or len(st[1]) != 1:
                            self.fail("app-stop", "leaving application block %r: commands sent on exit %r "
                                      "(expected exactly one stop)" % (app, st[1]))
                        elif sends[0][2:5] != [255, 255, 0] or sends[0][7] & 0xff != app:
                            self.fail("app-stop", "leaving application block %r: stop command %r" % (app, sends[0]))
                    if len(op) > 4 and op[4] and st[1] and st[2] not in INTERRUPTS:
                        self.fail("events", "the interrupt raised while the stop command was sent did not travel "
                                  "outward (%r)" % (st[2],))
                    if st[2] is not None:
                        unwinding = True
                if k == "withcb":
                    unwinding = True          # the exit callback raises
                self.stack.pop()
                ex = self.next_event("stack")
                if ex[1] != "exit" or json.dumps(ex[2]) != json.dumps(ent[2]):
                    self.fail("exit-restores", "stack before the block %r, after leaving it (%s) %r"
                              % (ent[2], "by exception" if unwinding else "normally", ex[2]))
                if unwinding:
                    raise Unwind()
            elif k == "update":
                self.stack[-1].update(dict((a, b) for a, b in op[1]))
            elif k == "ctxupdate":
                self.keptobj[op[1]].update(dict((a, b) for a, b in op[2]))     # the object itself, wherever it is
            elif k == "callrefused":
                e = self.next_event("call")
                if e[1] != op[1]:
                    self.fail("events", "expected call of %s, got %s" % (op[1], e[1]))
                    raise Unwind()
                if self.cls == "MC":
                    self.check_mc_call(op[1], op[2], op[3], e[2], e[3])
                else:
                    self.check_bmp_call(op[1], op[2], op[3], e[2], e[3])
                if e[3] is not None:
                    raise Unwind()
            elif k == "raise":
                raise Unwind()
            elif k == "try":
                try:
                    self.run(op[1])
                except Unwind:
                    if self.why and self.why[0] == "events":
                        raise

    def check_discovery(self, out):
        """the connections known after discover_connections(): discovered AND kept"""
        d = self.case.get("discover")
        if not d:
            return
        want = self.case["ctl"]
        got = out.get("ctl_after")
        if out.get("discover_exc"):
            self.fail("discover-raised", "discover_connections() raised %s on machine %r" % (out["discover_exc"], d))
            return
        if got is None:
            self.fail("discover-raised", "no state reported after discover_connections()")
            return
        if [got["width"], got["height"], got["root"]] != [want["width"], want["height"], want["root"]]:
            self.fail("discovered-geometry", "after discover_connections(): dimensions/root %r, machine is %r"
                      % ([got["width"], got["height"], got["root"]], [want["width"], want["height"], want["root"]]))
        if sorted(got["conns"]) != sorted(want["conns"]) or got["closed"]:
            self.fail("discovered-connections", "after discover_connections() on %r: connections held %r (closed: %r),"
                      " expected those whose probe succeeded: %r" % (d["eth"], got["conns"], got["closed"], want["conns"]))

    def decide(self, out):
        self.check_discovery(out)
        unwound = False
        try:
            self.run(self.case["ops"])
        except Unwind:
            unwound = True
        if self.why is None and self.at != len(self.events):
            self.fail("events", "implementation recorded %d further events" % (len(self.events) - self.at))
        if self.why is None and out["stack"] is not None:
            want = [[[k, v] for k, v in c.items()] for c in self.stack]
            if json.dumps(want) != json.dumps(out["stack"]):
                self.fail("exit-restores", "stack at the end %r, expected %r" % (out["stack"], want))
        if self.why is None and unwound != bool(out["raised"]):
            self.fail("events", "exception in flight at the end: %r, expected %r" % (out["raised"], unwound))
        return self.why


# ------------------------------------------------------------------ the check
def load_signatures(chk):
    rc, out = lib.sh([lib.PY, os.path.join(lib.VERIF, "tools", "dump_c18.py"), "--json"], timeout=300,
                     env=chk.impl_env())
    if rc != 0:
        raise RuntimeError("dump_c18.py --json failed: " + out[-1500:])
    info = json.loads(out[out.index("{"):])
    sigs = {"MC": {}, "BMP": {}}
    for s in info["signatures"]:
        sigs[s["cls"]][s["name"]] = s
    return sigs, info


def run(chk, args):
    chk.trusted += ["harness/impl_c18.py: recording fake of SCPConnection (send_scp/read/write) standing for the "
                    "network; rig.machine_control.*.time replaced by a no-op clock",
                    "C19 (Props/C19.v) for the statement that spinn5_local_eth_coord names the Ethernet chip of the "
                    "board holding a chip; C15 for the packing of (x, y, p) and the argument words into a datagram"]
    chk.assumptions += [
        "_scp_data_length is already known (the buffer-size probe get_software_version(255, 255, 0) issued by "
        "the scp_data_length property is not part of the model)",
        "the machine answers as the fake of harness/impl_c18.py: every command succeeds, memory reads return "
        "zeros, an allocation returns 0x60000100, a count returns 1 (= the single core loaded); the model lists "
        "every command of each method on that path; failure / retry paths are judged by the oracle only",
        "the pseudo-address (255, 255) is pushed through the same connection arithmetic by the code; the model "
        "reproduces it, the oracle makes no claim about the connection of commands addressed to (255, 255)",
        "application ids are bytes (0..255); machine dimensions are positive",
        "non-contextual arguments are well formed (aligned addresses for the link commands, valid signal / "
        "state names, 0 <= tag < 256, non-empty application maps and routing tables)",
        "context blocks are entered and left by `with` (properly nested); a Context object kept in a variable may "
        "be re-entered any number of times, also while it is already active (the model pushes an equal frame); "
        "update_current_context is not called while such a kept object is the innermost context (it would change "
        "the object itself, i.e. every occurrence of it on the stack)",
        "histories that start with discover_connections() run it for real against a simulated multi-board machine "
        "(harness/impl_c18.py Machine: Ethernet links up/down, probes that time out, dead chips); the model and "
        "the oracle start from the state that must result (connections discovered AND kept)"]
    chk.regenerate(UNITS[:2])
    evaluable = chk.model_ok
    # the shape unit and C19's units are imported by Proofs/ only: when it is Unsupported the proofs are broken
    # (reported), but Model/Context.v can still be evaluated for the correspondence run
    chk.regenerate(UNITS[2:])
    chk.model_ok = evaluable
    chk.prove()
    try:
        sigs, info = load_signatures(chk)
    except Exception as e:
        chk.oblige("signatures-readable", False, str(e))
        return
    n_methods = sum(len(v) for v in sigs.values())
    missing = [m for m in sigs["MC"] if m not in MC_ROLES and m != "application"]
    for key in ("mc_initial", "bmp_initial"):
        if info.get(key) is None:
            chk.oblige("constructor-default:" + key, False,
                       "the default of initial_context is no longer a dictionary in the signature; the search goes on "
                       "with the documented default %r" % (DEFAULT_INITIAL[key],))
    chk.oblige("oracle-covers-every-decorated-method (%d methods)" % n_methods, not missing,
               "no independent role description for: %s" % missing)
    if missing:
        for m in missing:
            MC_ROLES[m] = ("xy", 0)
    if args.replay:
        data = json.load(open(args.replay))
        cases = [f["replay"]["case"] for f in data.get("failures", []) if "case" in f.get("replay", {})]
        cases += [b["replay"]["case"] for b in data.get("no_longer_checks", []) if "case" in b.get("replay", {})]
        shapes = []
    else:
        rounds = 100 if chk.tier == "quick" else 1200
        gen = Gen(chk.rng, sigs, info)
        cases, shapes = [], []
        for _ in range(rounds):
            for cls in ("MC", "BMP"):
                ms = list(sigs[cls])
                if cls == "BMP":
                    ms = ms * 2
                chk.rng.shuffle(ms)
                while ms:
                    k = chk.rng.randint(3, 8)
                    c, sh = gen.case(cls, ms[:k])
                    ms = ms[k:]
                    cases.append(c)
                    shapes += sh
    if chk.tier == "thorough" and not args.replay:
        ex = exhaustive_cases(sigs)
        chk.count("exhaustive-shapes", len(ex))
        cases = ex + cases
    corpus = os.path.join(lib.VERIF, "corpus", "C18.json")
    if os.path.exists(corpus):
        cases = json.load(open(corpus)) + cases
    for m, sh in shapes:
        for s_ in set(sh):
            chk.count("shape:" + s_)
    per_method = {}
    state = dict(bad=0, histories=0, sampled=False)
    header = ("From Coq Require Import ZArith List String. Import ListNotations.\n"
              "Require Import Rig.Model.Base Rig.Generated.GenSignatures Rig.Model.Context.\n"
              "Open Scope string_scope. Open Scope list_scope. Open Scope Z_scope.\n")
    # batches bound the memory held at any time (thorough tier: ~30000 histories)
    for lo in range(0, len(cases), 4000):
        batch = cases[lo:lo + 4000]
        EFF.clear()
        chunks = [batch[i:i + 150] for i in range(0, len(batch), 150)]
        outs = [o for part in chk.impl_parallel("impl_c18.py", chunks) for o in part]
        for c, o in zip(batch, outs):
            if not isinstance(o, dict):
                chk.fail_input("hang", "history does not terminate", dict(case=c, observed=o))
                continue
            ncalls = 0
            for e in o["events"]:
                if e[0] == "call":
                    ncalls += 1
                    per_method[(c["cls"], e[1])] = per_method.get((c["cls"], e[1]), 0) + 1
                    chk.count("call-outcome:" + ("sent" if e[2] else (e[3] or "nothing")))
                elif e[0] == "stop":
                    chk.count("application-exit:" + ("stop-sent" if e[1] else (e[2] or "nothing")))
                elif e[0] == "stack" and e[1] == "exit":
                    chk.count("block-exits")
                if e[0] in ("call", "stop"):
                    chk.count("commands-per-call:%s" % min(len(e[2] if e[0] == "call" else e[1]), 6))
            chk.count("raised-at-top:" + str(o["raised"]))
            chk.count("class:" + c["cls"])
            chk.count("geometry:" + ("discovered" if c.get("discover") else "known" if c["ctl"]["width"] and c["ctl"]["height"] and c["ctl"]["root"]
                                     else "unknown") if c["cls"] == "MC" else "bmp-connections:%d" % len(c["ctl"]["bmp"]))
            if c.get("discover2"):
                chk.count("rediscovery:%dx%d->%dx%d" % (c["discover"]["w"], c["discover"]["h"],
                                                       c["discover2"]["w"], c["discover2"]["h"]))
            if c.get("discover"):
                chk.count("discovery:" + ",".join("%s=%d" % (k, sum(1 for _, st in c["discover"]["eth"] if st == k))
                                                  for k in ("ok", "probe-fails")))
            chk.note_case(dict(cls=c["cls"], init=c["init"], ctl=c["ctl"], ops=c["ops"], discover=c.get("discover"),
                               discover2=c.get("discover2")),
                          (ncalls >= 2 or c["ctl"] is EXH_CTL[c["cls"]])
                          and any(op[0] in ("with", "app") for op in c["ops"]))
            why = Oracle(sigs, info, c, o).decide(o)
            if why:
                chk.fail_input(why[0], why[1], dict(case=c, observed=o))
        if not state["sampled"] and batch:
            mid = len(batch) // 2
            chk.sample(dict(case=batch[mid], implementation=outs[mid]))
            state["sampled"] = True
        if chk.model_ok:
            try:
                idx = [i for i, o in enumerate(outs) if isinstance(o, dict)]
                vals = chk.coq_eval(header, [coq_case(batch[i]) for i in idx], shard=100, name="cases%d" % lo)
                for i, v in zip(idx, vals):
                    chk.traces_validated += 1
                    state["histories"] += 1
                    why = compare(batch[i], outs[i], v)
                    if why:
                        state["bad"] += 1
                        if state["bad"] <= 3:
                            chk.disagree("context history: " + why, dict(case=batch[i], observed=outs[i]))
            except RuntimeError as e:
                chk.oblige("correspondence:model-evaluates", False, str(e))
                chk.model_ok = False
    uncovered = [m for cls in sigs for m in sigs[cls] if per_method.get((cls, m), 0) == 0]
    if not args.replay:
        chk.oblige("every-decorated-method-exercised (min %d calls per method)" % (
            min(per_method.values()) if per_method else 0), not uncovered, "never called: %s" % uncovered)
    if chk.model_ok and not state["bad"]:
        chk.oblige("correspondence:histories (%d histories, %d calls: every command's connection, destination, "
                   "command, sub-command, application-id words; exception class; final stack)"
                   % (state["histories"], sum(per_method.values())), True)
    chk.coverage["rule"] = (
        "random histories over MachineController (discovered connections on random SpiNN-5 geometries, or none) "
        "and BMPController (random (c,f)/(c,f,b) connection sets): nested with-blocks setting subsets of the "
        "contextual names -- anonymous or kept in a variable and re-entered, also while still active --, application "
        "blocks (also with the connection raising KeyboardInterrupt / SystemExit / another BaseException while the "
        "exit's stop command is sent), blocks whose exit callback raises, controllers built with the default, an "
        "empty or a partial explicit initial_context, update_current_context, raise / try, a real discover_connections() run on a simulated machine with "
        "failing probes followed by commands to every board's Ethernet chip and neighbours, and calls of every decorated "
        "method with each argument passed positionally / by keyword / via context / by default / left out, plus "
        "unexpected-keyword, multiple-values and too-many-positional shapes; every method is called in every round "
        "(%d methods). thorough tier adds the exhaustive enumeration: every method x every number of positional "
        "arguments x every way (keyword / inner context / outer context / both / nobody) of supplying each "
        "remaining contextual argument. non-trivial = a history with >= 2 calls and >= 1 block, or an enumerated "
        "shape; distinct by hash of the history" % n_methods)
