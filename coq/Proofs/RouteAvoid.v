(* C03 -- avoid_dead_links as a whole: copy_and_disconnect_tree followed by one A* + splice per broken link, in
   any order, returns a single tree without a repeated chip whose edges are working links -- or the documented
   error, and then the machine is not connected. *)
From Coq Require Import ZArith List Bool Lia Relations.
Require Import Rig.Model.Base Rig.Model.Geometry Rig.Model.Route Rig.Spec.Route Rig.Proofs.Route
        Rig.Proofs.RouteTree Rig.Proofs.RouteNer Rig.Proofs.RouteCopy Rig.Proofs.RouteRepair
        Rig.Proofs.RouteAstar Rig.Proofs.RouteSever Rig.Proofs.RouteSplice.
Import ListNotations.
Open Scope Z_scope.

(* ---- copy_and_disconnect_tree on a tree of nodes only: no other error, no leaf created *)
Definition qitem_ok (m : rmachine) (e : qitem) : Prop :=
  leafless (snd e) /\ (exists c ks, snd e = RNode c ks) /\
  (fst (fst e) = None -> forall c ks, snd e = RNode c ks -> chip_alive m c = true).

Lemma kids_items_ok : forall m c kids np,
    leafless (RNode c kids) ->
    Forall (qitem_ok m) (map (fun k => (Some np, fst k, snd k)) kids).
Proof.
  intros m c kids np Hl. apply Forall_forall. intros e He. apply in_map_iff in He. destruct He as [k [Hk Hin]].
  subst e. destruct (leafless_kids c kids k Hl Hin) as [H1 H2]. split; [exact H1|]. split; [exact H2|]. discriminate.
Qed.

Lemma copy_loop_ok : forall m fuel q f br,
    Forall (qitem_ok m) q -> fleafless f -> (qsize q < fuel)%nat ->
    exists f' br', copy_loop fuel m q f br = Ok (f', br') /\ fleafless f'.
Proof.
  intros m. induction fuel as [|fuel IH]; intros q f br Hq Hl Hf; [lia|].
  cbn [copy_loop]. destruct q as [|[[np dir] old] q]; [exists f, br; split; [reflexivity | exact Hl]|].
  inversion Hq as [|? ? [Hol [[c [kids Hnode]] Halive]] Hq']; subst. cbn [fst snd] in *. subst old.
  assert (Hs : forall np', (qsize (q ++ map (fun k => (np', fst k, snd k)) kids) < fuel)%nat).
  { intros np'. rewrite qsize_app, qsize_kids. simpl in Hf. lia. }
  assert (Hnew : fleafless (f ++ [RNode c []])).
  { intros t Ht. apply in_app_or in Ht. destruct Ht as [Ht|[Ht|[]]]; [apply Hl; exact Ht|]. subst t. intros e []. }
  destruct (chip_alive m c) eqn:Eal.
  - assert (Hq2 : Forall (qitem_ok m) (q ++ map (fun k => (Some c, fst k, snd k)) kids)).
    { apply Forall_app. split; [exact Hq' | apply (kids_items_ok m c kids c Hol)]. }
    destruct np as [p|].
    + destruct (match dir with Some d => zmem d (links_between p c m) | None => false end) eqn:Ed.
      * destruct dir as [d|]; [|discriminate]. apply IH; [exact Hq2 | | apply Hs].
        apply forest_attach_leafless; [exact Hl | intros e [] | discriminate].
      * apply IH; [exact Hq2 | exact Hnew | apply Hs].
    + apply IH; [exact Hq2 | exact Hnew | apply Hs].
  - destruct np as [p|].
    + apply IH; [|exact Hl | apply Hs]. apply Forall_app. split; [exact Hq' | apply (kids_items_ok m c kids p Hol)].
    + rewrite (Halive eq_refl c kids eq_refl) in Eal. discriminate.
Qed.

(* ---- small facts about lists of roots *)
Lemma take_root_exists : forall child f,
    In (Some child) (map root_chip f) -> exists ct f', take_root child f = Some (ct, f').
Proof.
  intros child. induction f as [|t f IH]; intros H; [destruct H|]. cbn [take_root]. destruct (root_is child t) eqn:E.
  - exists t, f. reflexivity.
  - cbn [map] in H. destruct H as [H|H]; [apply root_is_iff in H; congruence|].
    destruct (IH H) as [ct [f' E']]. rewrite E'. exists ct, (t :: f'). reflexivity.
Qed.

Lemma take_root_roots_mem : forall child f ct f' c,
    take_root child f = Some (ct, f') -> In (Some c) (map root_chip f) -> c <> child ->
    In (Some c) (map root_chip f').
Proof.
  intros child. induction f as [|t f IH]; intros ct f' c Ht Hin Hne; [discriminate|]. cbn [take_root] in Ht.
  destruct (root_is child t) eqn:E.
  - inversion Ht; subst. cbn [map] in Hin. destruct Hin as [Hin|Hin]; [|exact Hin].
    apply root_is_iff in E. rewrite E in Hin. inversion Hin. congruence.
  - destruct (take_root child f) as [[r0 f0]|] eqn:E0; [|discriminate]. inversion Ht; subst.
    cbn [map] in *. destruct Hin as [Hin|Hin]; [left; exact Hin | right; apply (IH ct f0 c eq_refl Hin Hne)].
Qed.

Lemma take_root_head : forall child t0 f0 ct f',
    take_root child (t0 :: f0) = Some (ct, f') -> root_chip t0 <> Some child -> exists f0', f' = t0 :: f0'.
Proof.
  intros child t0 f0 ct f' H Hne. cbn [take_root] in H. destruct (root_is child t0) eqn:E.
  - apply root_is_iff in E. congruence.
  - destruct (take_root child f0) as [[r0 f1]|]; [|discriminate]. inversion H; subst. exists f1. reflexivity.
Qed.

Lemma forest_find_take_root : forall child f ct f',
    (forall x, (cnt x (forest_chips f) <= 1)%nat) -> take_root child f = Some (ct, f') ->
    forest_find child f = Some ct.
Proof.
  intros child. induction f as [|t f IH]; intros ct f' Hnd Ht; [discriminate|]. cbn [take_root] in Ht.
  cbn [forest_find]. destruct (root_is child t) eqn:E.
  - inversion Ht; subst. destruct ct as [c0 ks|v]; [|discriminate]. apply root_is_iff in E. cbn in E. inversion E; subst.
    rewrite find_sub_node, rt_chip_eqb_refl. reflexivity.
  - destruct (take_root child f) as [[r0 f0]|] eqn:E0; [|discriminate]. inversion Ht; subst.
    destruct (take_root_in child f ct f0 E0) as [Hin [Hr _]].
    assert (Hz : occ child t = 0%nat).
    { pose proof (Hnd child) as Hn. rewrite cnt_forest_cons in Hn.
      assert (1 <= cnt child (forest_chips f))%nat.
      { apply cnt_in. unfold forest_chips. apply in_flat_map. exists ct. split; [exact Hin|].
        apply occ_in. apply root_occ. exact Hr. }
      lia. }
    rewrite (proj1 (absent_none child t Hz)). apply (IH ct f0); [|reflexivity].
    intros x. pose proof (Hnd x) as Hn. rewrite cnt_forest_cons in Hn. lia.
Qed.

Lemma in_diff_chips : forall x a b, In x (diff_chips a b) <-> In x a /\ ~ In x b.
Proof.
  intros x a b. unfold diff_chips. rewrite filter_In, negb_true_iff, rt_chip_mem_false. reflexivity.
Qed.

(* the descendants of the orphaned root stay inside its tree *)
Lemma desc_closed : forall child f ct f',
    (forall x, (cnt x (forest_chips f) <= 1)%nat) -> take_root child f = Some (ct, f') ->
    forall x y, In x (chips ct) -> Hstar (fhops f) x y -> In y (chips ct).
Proof.
  intros child f ct f' Hnd Ht x y Hx H. induction H as [x|x y z Hxy Hyz IH]; [exact Hx|]. apply IH.
  destruct Hxy as [r He]. apply in_fhops in He. destruct He as [t [Htf He]].
  destruct (take_root_cnt child f ct f' x Ht) as [Hsplit [_ Hmem]]. apply Hmem in Htf. destruct Htf as [Htf|Htf].
  - subst t. apply hops_in_chips in He. exact (proj2 He).
  - exfalso. apply hops_in_chips in He. destruct He as [Hp _].
    assert (1 <= cnt x (forest_chips f'))%nat.
    { apply cnt_in. unfold forest_chips. apply in_flat_map. exists t. split; assumption. }
    apply occ_in in Hx. pose proof (Hnd x). lia.
Qed.

(* ---- the state between two repairs *)
Record rinv (m : rmachine) (f : list rtree) (cs : list chip) (r0 : chip) : Prop := {
  ri_nodup : forall x, (cnt x (forest_chips f) <= 1)%nat;
  ri_hops : forest_hops_ok m f;
  ri_work : forall x, In x (forest_chips f) -> working_chip m x;
  ri_leaf : fleafless f;
  ri_head : exists t0 f0, f = t0 :: f0 /\ root_chip t0 = Some r0;
  ri_cs : NoDup cs /\ ~ In r0 cs;
  ri_roots : forall c, In c cs -> In (Some c) (map root_chip f);
  ri_len : length f = S (length cs) }.

(* one broken link: A* and the splice *)
Lemma repair_one : forall m wrap f parent child cs r0,
    1 <= rm_w m -> 1 <= rm_h m -> rinv m f (child :: cs) r0 ->
    (exists ct path f2,
        forest_find child f = Some ct /\
        a_star child parent (diff_chips (forest_chips f) (chips ct)) m wrap = Ok path /\
        (exists d0 c0 rest, path = (d0, c0) :: rest /\
                            splice child (chips ct) c0 d0 rest f = Ok f2) /\
        rinv m f2 cs r0 /\ (forall x, In x (forest_chips f) -> In x (forest_chips f2))) \/
    (exists ct, forest_find child f = Some ct /\
                a_star child parent (diff_chips (forest_chips f) (chips ct)) m wrap = Failed 0 /\
                ~ Connected m).
Proof.
  intros m wrap f parent child cs r0 Hw Hh [Hnd Hh' Hwk Hlf [t0 [f0 [Hf0 Hr0]]] [Hcs Hr0cs] Hroots Hlen].
  apply NoDup_cons_iff in Hcs. destruct Hcs as [Hchild_cs Hcs].
  destruct (take_root_exists child f (Hroots child (or_introl eq_refl))) as [ct [f' Htr]].
  destruct (take_root_in child f ct f' Htr) as [Hctin [Hctroot Hf'sub]].
  pose proof (forest_find_take_root child f ct f' Hnd Htr) as Hfind.
  assert (Hsplit : forall x, cnt x (forest_chips f) = (occ x ct + cnt x (forest_chips f'))%nat).
  { intros x. apply (take_root_cnt child f ct f' x Htr). }
  destruct (take_root_cnt child f ct f' child Htr) as [_ [Hlen' Hmem]].
  set (cc := chips ct). set (sources := diff_chips (forest_chips f) cc).
  assert (Hchild_cc : In child cc) by (apply occ_in; apply root_occ; exact Hctroot).
  assert (Hcc_f : forall x, In x cc -> In x (forest_chips f)).
  { intros x Hx. unfold forest_chips. apply in_flat_map. exists ct. split; assumption. }
  assert (Hchild_w : working_chip m child) by (apply Hwk; apply Hcc_f; exact Hchild_cc).
  assert (Hns : ~ In child sources) by (intros Hin; apply in_diff_chips in Hin; exact (proj2 Hin Hchild_cc)).
  assert (Hr0ne : r0 <> child) by (intros E; apply Hr0cs; left; symmetry; exact E).
  assert (Hr0f : In r0 (forest_chips f)).
  { rewrite Hf0. unfold forest_chips. cbn [flat_map]. apply in_or_app. left. apply occ_in. apply root_occ. exact Hr0. }
  assert (Hf'in : forall x, In x (forest_chips f') <-> In x (forest_chips f) /\ ~ In x cc).
  { intros x. pose proof (Hnd x) as Hn. pose proof (Hsplit x) as Hs. split.
    - intros Hx. apply cnt_in in Hx. split; [apply cnt_in; lia|]. intros Hc. unfold cc in Hc. apply occ_in in Hc. lia.
    - intros [Hx Hc]. apply cnt_in in Hx. apply cnt_in.
      destruct (occ x ct) eqn:Eo; [lia|]. exfalso. apply Hc. unfold cc. apply occ_in. lia. }
  assert (Hr0src : In r0 sources).
  { apply in_diff_chips. split; [exact Hr0f|]. intros Hin.
    (* the root of the first tree is not inside the orphaned tree *)
    subst f. destruct (take_root_head child t0 f0 ct f' Htr ltac:(rewrite Hr0; congruence)) as [f0' Hf'eq].
    assert (1 <= cnt r0 (forest_chips f'))%nat.
    { apply cnt_in. rewrite Hf'eq. unfold forest_chips. cbn [flat_map]. apply in_or_app. left. apply occ_in. apply root_occ. exact Hr0. }
    apply occ_in in Hin. pose proof (Hnd r0) as Hn. rewrite Hsplit in Hn. fold cc in Hin. unfold cc in Hin. lia. }
  destruct (a_star_spec child parent sources m wrap Hw Hh Hchild_w Hns) as [[path [Ea Hgood]]|[Ea Hno]].
  - left. destruct Hgood as [d0 [c0 [rest [Hpath [Hc0 [Hdet [Hpnd [Hnsink [Hint Hpw]]]]]]]]].
    subst path. cbn [map snd] in Hpnd, Hnsink, Hpw. apply NoDup_cons_iff in Hpnd. destruct Hpnd as [Hc0r Hpnd].
    apply in_diff_chips in Hc0. destruct Hc0 as [Hc0f Hc0cc].
    destruct (splice_ok m child cc rest c0 d0 f (forest_chips f')) as [f2 [Es [G1 [G2 [G3 [G4 G5]]]]]].
    + exact Hnd.
    + exact Hh'.
    + exists ct, f'. split; assumption.
    + exact Hc0f.
    + intros x Hx. apply Hf'in. split.
      * inversion Hx as [|y z Hxy Hyz]; [subst; exact Hc0f|].
        destruct Hxy as [r He]. apply fhops_in_chips in He. exact (proj1 He).
      * intros Hxcc. apply Hc0cc. apply (desc_closed child f ct f' Hnd Htr x c0 Hxcc Hx).
    + intros a Ha. apply Hf'in in Ha. destruct Ha as [Haf Hacc]. split; [intros E; subst; exact (Hacc Hchild_cc)|].
      intros Hin. apply (Hint a Hin). apply in_diff_chips. split; assumption.
    + exact Hchild_cc.
    + exact Hpnd.
    + intros q Hqin. destruct (chip_mem q cc) eqn:Eq.
      * apply rt_chip_mem_In in Eq. right. split; [exact Eq|]. split; [apply Hcc_f; exact Eq|].
        intros E. subst q. apply Hnsink. right. exact Hqin.
      * apply rt_chip_mem_false in Eq. left. split; [|exact Eq]. intros Hqf. apply (Hint q Hqin).
        apply in_diff_chips. split; assumption.
    + intros t r Ht Hr Hrcc. apply Hmem in Ht. destruct Ht as [Ht|Ht].
      * subst t. rewrite Hctroot in Hr. inversion Hr. reflexivity.
      * exfalso. assert (In r (forest_chips f')).
        { unfold forest_chips. apply in_flat_map. exists t. split; [exact Ht|]. apply occ_in. apply root_occ. exact Hr. }
        apply Hf'in in H. exact (proj2 H Hrcc).
    + exact Hdet.
    + exists ct, ((d0, c0) :: rest), f2. split; [exact Hfind|]. split; [exact Ea|].
      split; [exists d0, c0, rest; split; [reflexivity | exact Es]|]. split.
      * pose proof (G5 ct f' Htr) as Hroots2. constructor.
        -- exact G1.
        -- exact G2.
        -- intros x Hx. apply G3 in Hx. destruct Hx as [Hx|Hx]; [apply Hwk; exact Hx | apply Hpw; right; exact Hx].
        -- apply (splice_leafless child cc rest c0 d0 f f2 Hlf Es).
        -- subst f. destruct (take_root_head child t0 f0 ct f' Htr ltac:(rewrite Hr0; congruence)) as [f0' Hf'eq].
           rewrite Hf'eq in Hroots2. cbn [map] in Hroots2. destruct f2 as [|t2 f2']; [discriminate|].
           cbn [map] in Hroots2. inversion Hroots2. exists t2, f2'. split; [reflexivity|]. rewrite H0. exact Hr0.
        -- split; [exact Hcs|]. intros Hin. apply Hr0cs. right. exact Hin.
        -- intros c Hc. rewrite Hroots2. apply (take_root_roots_mem child f ct f' c Htr).
           ++ apply Hroots. right. exact Hc.
           ++ intros E. subst c. exact (Hchild_cs Hc).
        -- cbn [length] in Hlen. lia.
      * intros x Hx. apply G3. left. exact Hx.
  - right. exists ct. split; [exact Hfind|]. split; [exact Ea|]. intros Hconn.
    apply (Hno r0 Hr0src). apply Hconn; [apply Hwk; exact Hr0f | exact Hchild_w].
Qed.

Lemma repair_all_ok : forall m wrap order f r0,
    1 <= rm_w m -> 1 <= rm_h m -> rinv m f (map snd order) r0 ->
    (exists t, repair_all m wrap order f = Ok [t] /\ rinv m [t] [] r0 /\
               (forall x, In x (forest_chips f) -> In x (chips t))) \/
    (repair_all m wrap order f = Failed 0 /\ ~ Connected m).
Proof.
  intros m wrap. induction order as [|[parent child] order IH]; intros f r0 Hw Hh I.
  - left. cbn [map] in I. pose proof (ri_len _ _ _ _ I) as Hlen. cbn [length] in Hlen.
    destruct f as [|t [|t' f]]; try discriminate. exists t. split; [reflexivity|]. split; [exact I|].
    intros x Hx. unfold forest_chips in Hx. cbn [flat_map] in Hx. rewrite app_nil_r in Hx. exact Hx.
  - cbn [map snd] in I. unfold repair_all. cbn [repair_all_gen]. fold (repair_all_gen sever_now).
    destruct (repair_one m wrap f parent child (map snd order) r0 Hw Hh I)
      as [[ct [path [f2 [Hfind [Ea [[d0 [c0 [rest [Hp Es]]]] [I2 Hsub]]]]]]]|[ct [Hfind [Ea Hnc]]]].
    + rewrite Hfind, Ea. cbn [bind]. subst path. unfold splice in Es. rewrite Es. cbn [bind].
      destruct (IH f2 r0 Hw Hh I2) as [[t [E [It Hin]]]|[E Hnc]].
      * left. exists t. split; [exact E|]. split; [exact It|]. intros x Hx. apply Hin. apply Hsub. exact Hx.
      * right. split; [exact E | exact Hnc].
    + right. rewrite Hfind, Ea. cbn [bind]. split; [reflexivity | exact Hnc].
Qed.
