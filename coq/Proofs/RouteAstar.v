(* C03 -- a_star: it terminates within the model's fuel, never raises anything but the documented error, a path
   it returns is a chain of working hops from a source to the sink through chips that are not sources, and it
   reports failure only when no source can reach the sink over working links (best-first search with a closed
   set: every working predecessor of an expanded chip has been visited). *)
From Coq Require Import ZArith List Bool Lia Relations.
Require Import Rig.Model.Base Rig.Generated.GenGeometryLinks Rig.Generated.GenGeometry Rig.Model.Geometry
        Rig.Model.Route Rig.Spec.Route Rig.Proofs.Route Rig.Proofs.RouteTree Rig.Proofs.RouteNer
        Rig.Proofs.RouteCopy Rig.Proofs.RouteRepair.
Import ListNotations.
Open Scope Z_scope.

Definition keys (v : visited_t) : list chip := map fst v.
Definition ochips (o : list (Z * chip)) : list chip := map snd o.

(* the chip one step back along link nl *)
Definition back (m : rmachine) (node : chip) (nl : Z) : chip :=
  ((fst node + fst (rlink_vec (links_opposite nl))) mod rm_w m,
   (snd node + snd (rlink_vec (links_opposite nl))) mod rm_h m).

Definition estep (m : rmachine) (heur : chip -> Z) (node : chip) (st : visited_t * list (Z * chip)) (nl : Z)
  : visited_t * list (Z * chip) :=
  if negb (link_alive m (back m node nl) nl) then st
  else if visited_mem (back m node nl) (fst st) then st
  else (fst st ++ [(back m node nl, Some (nl, node))], snd st ++ [(heur (back m node nl), back m node nl)]).

Lemma expand_fold : forall m heur node st,
    expand m heur node st = fold_left (estep m heur node) links_members st.
Proof. reflexivity. Qed.

(* ---- link arithmetic *)
Lemma opp_vec : forall l dx dy, dir_vec l = Some (dx, dy) ->
                                rlink_vec (links_opposite l) = (- dx, - dy) /\ In l links_members.
Proof.
  intros l dx dy H. unfold dir_vec in H.
  destruct (Z.eqb_spec l 0); [subst; inversion H; subst; split; [reflexivity | simpl; tauto]|].
  destruct (Z.eqb_spec l 1); [subst; inversion H; subst; split; [reflexivity | simpl; tauto]|].
  destruct (Z.eqb_spec l 2); [subst; inversion H; subst; split; [reflexivity | simpl; tauto]|].
  destruct (Z.eqb_spec l 3); [subst; inversion H; subst; split; [reflexivity | simpl; tauto]|].
  destruct (Z.eqb_spec l 4); [subst; inversion H; subst; split; [reflexivity | simpl; tauto]|].
  destruct (Z.eqb_spec l 5); [subst; inversion H; subst; split; [reflexivity | simpl; tauto]|].
  discriminate.
Qed.

Lemma members_dir : forall l, In l links_members -> exists dx dy, dir_vec l = Some (dx, dy).
Proof.
  intros l H. simpl in H. repeat (destruct H as [H|H]; [subst l; eexists; eexists; reflexivity|]). destruct H.
Qed.

Lemma mod_back : forall a d w, 0 <= a < w -> ((a + d) mod w + - d) mod w = a.
Proof.
  intros a d w H. rewrite Zplus_mod_idemp_l. replace (a + d + - d) with a by lia. apply Z.mod_small. exact H.
Qed.

Lemma mod_forth : forall a d w, 0 <= a < w -> ((a + - d) mod w + d) mod w = a.
Proof.
  intros a d w H. rewrite Zplus_mod_idemp_l. replace (a + - d + d) with a by lia. apply Z.mod_small. exact H.
Qed.

Lemma back_of_hop : forall m x l y, hop_ok m x l y -> back m y l = x.
Proof.
  intros m [x1 x2] l y [[[Hx [Hy _]] _] [dx [dy [Hv Hc]]]]. cbn [fst snd] in *.
  destruct (opp_vec l dx dy Hv) as [Ho _]. unfold back. rewrite Ho, Hc. cbn [fst snd].
  rewrite !mod_back by assumption. reflexivity.
Qed.

Lemma hop_of_back : forall m node nl,
    In nl links_members -> in_range (rm_w m) (rm_h m) node ->
    link_alive m (back m node nl) nl = true -> hop_ok m (back m node nl) nl node.
Proof.
  intros m [n1 n2] nl Hin [H1 H2] Hal. cbn [fst snd] in *. apply rt_link_alive_iff in Hal.
  split; [exact Hal|]. destruct (members_dir nl Hin) as [dx [dy Hv]].
  exists dx, dy. split; [exact Hv|]. destruct (opp_vec nl dx dy Hv) as [Ho _].
  unfold back. rewrite Ho. cbn [fst snd]. rewrite !mod_forth by assumption. reflexivity.
Qed.

Lemma working_in_range : forall m c, working_chip m c -> in_range (rm_w m) (rm_h m) c.
Proof. intros m c [H1 [H2 _]]. split; assumption. Qed.

(* ---- the open list *)
Lemma min_key_in : forall l best, In (min_key best l) (best :: l).
Proof.
  induction l as [|a l IH]; intros best; simpl; [left; reflexivity|].
  destruct (key_ltb a best).
  - destruct (IH a) as [H|H]; [right; left; exact H | right; right; exact H].
  - destruct (IH best) as [H|H]; [left; exact H | right; right; exact H].
Qed.

Lemma remove_chip_spec : forall c l,
    NoDup (ochips l) -> In c (ochips l) ->
    length l = S (length (remove_chip c l)) /\ NoDup (ochips (remove_chip c l)) /\
    (forall x, In x (ochips (remove_chip c l)) <-> In x (ochips l) /\ x <> c).
Proof.
  intros c. unfold ochips. induction l as [|a l IH]; intros Hnd Hin; [destruct Hin|].
  cbn [map] in Hnd, Hin. apply NoDup_cons_iff in Hnd. destruct Hnd as [Ha Hnd].
  cbn [remove_chip]. destruct (chip_eqb c (snd a)) eqn:E.
  - apply rt_chip_eqb_eq in E. subst c. split; [reflexivity|]. split; [exact Hnd|].
    intros x. cbn [map In]. split.
    + intros Hx. split; [right; exact Hx|]. intros Heq. subst. exact (Ha Hx).
    + intros [[Hx|Hx] Hne]; [congruence | exact Hx].
  - assert (Hc : In c (map snd l)).
    { destruct Hin as [Hin|Hin]; [|exact Hin]. subst c. rewrite rt_chip_eqb_refl in E. discriminate. }
    destruct (IH Hnd Hc) as [H1 [H2 H3]]. split; [cbn [length]; lia|]. split.
    + cbn [map]. constructor; [|exact H2]. intros Hx. apply H3 in Hx. exact (Ha (proj1 Hx)).
    + intros x. cbn [map In]. split.
      * intros [Hx|Hx].
        -- subst x. split; [left; reflexivity|]. intros Heq. rewrite Heq, rt_chip_eqb_refl in E. discriminate.
        -- apply H3 in Hx. destruct Hx as [Hx Hne]. split; [right; exact Hx | exact Hne].
      * intros [[Hx|Hx] Hne]; [left; exact Hx | right; apply H3; split; assumption].
Qed.

Lemma visited_mem_keys : forall c v, visited_mem c v = true <-> In c (keys v).
Proof.
  intros c v. unfold visited_mem, keys. rewrite existsb_exists, in_map_iff. split.
  - intros [e [Hin He]]. apply rt_chip_eqb_eq in He. exists e. split; [symmetry; exact He | exact Hin].
  - intros [e [He Hin]]. exists e. split; [exact Hin | apply rt_chip_eqb_eq; symmetry; exact He].
Qed.

(* ---- the search invariant *)
Record ainv (m : rmachine) (sink : chip) (sources : list chip) (v : visited_t) (o : list (Z * chip)) : Prop := {
  a_nodup : NoDup (keys v);
  a_sink : exists rest, v = (sink, None) :: rest /\ forall c, ~ In (c, None) rest;
  a_work : forall c, In c (keys v) -> working_chip m c;
  (* predecessor entries: a working hop to a chip visited earlier, which has been expanded *)
  a_pred : forall v1 c l n v2, v = v1 ++ (c, Some (l, n)) :: v2 ->
                               hop_ok m c l n /\ In n (keys v1) /\ ~ In n (ochips o);
  a_open : NoDup (ochips o) /\ incl (ochips o) (keys v);
  (* expanded chips are not sources *)
  a_closed : forall c, In c (keys v) -> ~ In c (ochips o) -> ~ In c sources;
  (* every working predecessor of an expanded chip has been visited *)
  a_complete : forall x y, edge m x y -> In y (keys v) -> ~ In y (ochips o) -> In x (keys v) }.

(* one neighbour link of the chip being expanded *)
Lemma estep_spec : forall m heur node v o nl,
    let st' := estep m heur node (v, o) nl in
    exists added,
      fst st' = v ++ added /\ snd st' = o ++ map (fun e => (heur (fst e), fst e)) added /\
      (forall e, In e added -> e = (back m node nl, Some (nl, node)) /\
                               link_alive m (back m node nl) nl = true /\ ~ In (back m node nl) (keys v)) /\
      (length added <= 1)%nat /\
      (link_alive m (back m node nl) nl = true -> In (back m node nl) (keys (fst st'))).
Proof.
  intros m heur node v o nl. unfold estep. cbn [fst snd].
  destruct (link_alive m (back m node nl) nl) eqn:Eal; cbn [negb].
  - destruct (visited_mem (back m node nl) v) eqn:Evm.
    + exists []. rewrite !app_nil_r. cbn [fst snd map].
      split; [reflexivity|]. split; [reflexivity|]. split; [intros e0 []|]. split; [simpl; lia|].
      intros _. apply visited_mem_keys. exact Evm.
    + exists [(back m node nl, Some (nl, node))]. cbn [fst snd map].
      split; [reflexivity|]. split; [reflexivity|]. split; [|split; [simpl; lia|]].
      * intros e0 [H0|[]]. split; [symmetry; exact H0|]. split; [reflexivity|].
        intros Hin. apply visited_mem_keys in Hin. congruence.
      * intros _. unfold keys. rewrite map_app. apply in_or_app. right. left. reflexivity.
  - exists []. rewrite !app_nil_r. cbn [fst snd map].
    split; [reflexivity|]. split; [reflexivity|]. split; [intros e0 []|]. split; [simpl; lia|].
    intros H0. discriminate.
Qed.

(* all the neighbour links *)
Lemma expand_spec : forall m heur node ls v o,
    let st' := fold_left (estep m heur node) ls (v, o) in
    exists added,
      fst st' = v ++ added /\ snd st' = o ++ map (fun e => (heur (fst e), fst e)) added /\
      (forall e, In e added -> exists nl, In nl ls /\ e = (back m node nl, Some (nl, node)) /\
                                          link_alive m (back m node nl) nl = true /\ ~ In (fst e) (keys v)) /\
      NoDup (keys added) /\
      (forall nl, In nl ls -> link_alive m (back m node nl) nl = true -> In (back m node nl) (keys (fst st'))).
Proof.
  intros m heur node. induction ls as [|nl ls IH]; intros v o.
  - exists []. cbn [fold_left fst snd map]. rewrite !app_nil_r.
    split; [reflexivity|]. split; [reflexivity|]. split; [intros e0 []|]. split; [constructor|]. intros nl0 [].
  - cbn [fold_left]. destruct (estep_spec m heur node v o nl) as [a1 [E1 [E2 [A1 [L1 C1]]]]]. cbv zeta in *.
    destruct (estep m heur node (v, o) nl) as [v1 o1] eqn:Est. cbn [fst snd] in *. subst v1 o1.
    destruct (IH (v ++ a1) (o ++ map (fun e => (heur (fst e), fst e)) a1)) as [a2 [F1 [F2 [A2 [N2 C2]]]]].
    cbv zeta in *. exists (a1 ++ a2). split; [rewrite F1, app_assoc; reflexivity|].
    split; [rewrite F2, map_app, app_assoc; reflexivity|]. split; [|split].
    + intros e Hin. apply in_app_or in Hin. destruct Hin as [Hin|Hin].
      * destruct (A1 e Hin) as [He [Hal Hn]]. exists nl. split; [left; reflexivity|]. split; [exact He|].
        split; [exact Hal|]. rewrite He. exact Hn.
      * destruct (A2 e Hin) as [nl' [Hnl [He [Hal Hn]]]]. exists nl'. split; [right; exact Hnl|]. split; [exact He|].
        split; [exact Hal|]. intros Hk. apply Hn. unfold keys. rewrite map_app. apply in_or_app. left. exact Hk.
    + unfold keys. rewrite map_app. destruct a1 as [|e1 a1].
      * exact N2.
      * destruct a1; [|simpl in L1; lia]. cbn [map app]. constructor; [|exact N2].
        intros Hin. apply in_map_iff in Hin. destruct Hin as [e2 [Heq Hin2]].
        destruct (A2 e2 Hin2) as [_ [_ [_ [_ Hn]]]]. apply Hn. unfold keys. rewrite map_app. apply in_or_app. right.
        left. symmetry. exact Heq.
    + intros nl' [Hnl|Hnl] Hal.
      * subst nl'. specialize (C1 Hal). rewrite F1. unfold keys in *. rewrite map_app. apply in_or_app. left. exact C1.
      * apply C2; assumption.
Qed.

Lemma keys_app : forall a b, keys (a ++ b) = keys a ++ keys b.
Proof. intros. unfold keys. apply map_app. Qed.

Lemma ochips_app : forall a b, ochips (a ++ b) = ochips a ++ ochips b.
Proof. intros. unfold ochips. apply map_app. Qed.

Lemma ochips_added : forall (heur : chip -> Z) (added : visited_t),
    ochips (map (fun e => (heur (fst e), fst e)) added) = keys added.
Proof. intros. unfold ochips, keys. rewrite map_map. reflexivity. Qed.

Lemma nodup_app : forall (a b : list chip),
    NoDup a -> NoDup b -> (forall x, In x a -> ~ In x b) -> NoDup (a ++ b).
Proof.
  induction a as [|x a IH]; intros b Ha Hb Hd; [exact Hb|]. cbn [app]. apply NoDup_cons_iff in Ha.
  destruct Ha as [Hx Ha]. constructor.
  - intros Hin. apply in_app_or in Hin. destruct Hin as [Hin|Hin]; [exact (Hx Hin) | exact (Hd x (or_introl eq_refl) Hin)].
  - apply IH; [exact Ha | exact Hb | intros y Hy; apply Hd; right; exact Hy].
Qed.

(* expanding a chip that is not a source preserves the invariant *)
Lemma ainv_expand : forall m heur sink sources v o node,
    1 <= rm_w m -> 1 <= rm_h m ->
    ainv m sink sources v o -> In node (ochips o) -> ~ In node sources ->
    let st' := expand m heur node (v, remove_chip node o) in
    ainv m sink sources (fst st') (snd st') /\
    (length (fst st') - length (snd st') = S (length v - length o))%nat /\
    (length (snd st') <= length (fst st'))%nat.
Proof.
  intros m heur sink sources v o node Hw Hh I Hnode Hns. cbv zeta. rewrite expand_fold.
  destruct I as [Ind Isink Iwork Ipred [Iond Ioin] Iclosed Icomp].
  destruct (remove_chip_spec node o Iond Hnode) as [R1 [R2 R3]].
  destruct (expand_spec m heur node links_members v (remove_chip node o)) as [added [F1 [F2 [A [N C]]]]].
  cbv zeta in *. destruct (fold_left (estep m heur node) links_members (v, remove_chip node o)) as [v' o'] eqn:Ef.
  cbn [fst snd] in *. subst v' o'.
  assert (Hnodev : In node (keys v)) by (apply Ioin; exact Hnode).
  assert (Hnoder : in_range (rm_w m) (rm_h m) node) by (apply working_in_range; apply Iwork; exact Hnodev).
  assert (Hadd : forall e, In e added -> exists nl, e = (back m node nl, Some (nl, node)) /\
                                                    hop_ok m (back m node nl) nl node /\ ~ In (fst e) (keys v)).
  { intros e He. destruct (A e He) as [nl [Hnl [Heq [Hal Hn]]]]. exists nl. split; [exact Heq|].
    split; [apply hop_of_back; assumption | exact Hn]. }
  assert (Hlen : (length o <= length v)%nat).
  { unfold ochips, keys in *. rewrite <- (map_length snd o), <- (map_length fst v).
    apply NoDup_incl_length; assumption. }
  split; [constructor|].
  - rewrite keys_app. apply nodup_app; [exact Ind | exact N|].
    intros x Hx Hx'. unfold keys in Hx'. apply in_map_iff in Hx'. destruct Hx' as [e [Heq He]].
    destruct (Hadd e He) as [nl [_ [_ Hn]]]. apply Hn. rewrite Heq. exact Hx.
  - destruct Isink as [rest [Hv Hnone]]. exists (rest ++ added). split; [rewrite Hv; reflexivity|].
    intros c Hin. apply in_app_or in Hin. destruct Hin as [Hin|Hin]; [exact (Hnone c Hin)|].
    destruct (Hadd _ Hin) as [nl [Heq _]]. discriminate.
  - intros c Hc. rewrite keys_app in Hc. apply in_app_or in Hc. destruct Hc as [Hc|Hc]; [apply Iwork; exact Hc|].
    unfold keys in Hc. apply in_map_iff in Hc. destruct Hc as [e [Heq He]]. destruct (Hadd e He) as [nl [Hee [[[Hwk _] _] _]]].
    subst e. cbn [fst] in Heq. subst c. exact Hwk.
  - intros v1 c l n v2 Heq.
    assert (Hcase : (exists v2', v = v1 ++ (c, Some (l, n)) :: v2') \/
                    (exists a1 a2, added = a1 ++ (c, Some (l, n)) :: a2 /\ v1 = v ++ a1)).
    { clear - Heq. revert v1 Heq. induction v as [|e v IH]; intros v1 Heq.
      - right. exists v1, v2. split; [exact Heq | reflexivity].
      - destruct v1 as [|e1 v1].
        + cbn [app] in Heq. inversion Heq; subst. left. exists v. reflexivity.
        + cbn [app] in Heq. inversion Heq; subst. destruct (IH v1 H1) as [[v2' H]|[a1 [a2 [H H']]]].
          * left. exists v2'. rewrite H. reflexivity.
          * right. exists a1, a2. split; [exact H | rewrite H'; reflexivity]. }
    destruct Hcase as [[v2' Hv]|[a1 [a2 [Ha Hv1]]]].
    + destruct (Ipred v1 c l n v2' Hv) as [P1 [P2 P3]]. split; [exact P1|]. split; [exact P2|].
      rewrite ochips_app, ochips_added. intros Hin. apply in_app_or in Hin. destruct Hin as [Hin|Hin].
      * apply R3 in Hin. exact (P3 (proj1 Hin)).
      * unfold keys in Hin. apply in_map_iff in Hin. destruct Hin as [e [Heq' He]].
        destruct (Hadd e He) as [nl [_ [_ Hn]]]. apply Hn. rewrite Heq'.
        rewrite Hv in *. (* n is among the keys of v1 *) rewrite keys_app. apply in_or_app. left. exact P2.
    + assert (He : In (c, Some (l, n)) added) by (rewrite Ha; apply in_or_app; right; left; reflexivity).
      destruct (Hadd _ He) as [nl [Heq' [Hhop _]]]. inversion Heq'; subst c l n.
      split; [exact Hhop|]. split.
      * rewrite Hv1, keys_app. apply in_or_app. left. exact Hnodev.
      * rewrite ochips_app, ochips_added. intros Hin. apply in_app_or in Hin. destruct Hin as [Hin|Hin].
        -- apply R3 in Hin. destruct Hin as [_ Hne]. congruence.
        -- unfold keys in Hin. apply in_map_iff in Hin. destruct Hin as [e [Heq'' He']].
           destruct (Hadd e He') as [nl' [_ [_ Hn]]]. apply Hn. rewrite Heq''. exact Hnodev.
  - rewrite ochips_app, ochips_added, keys_app. split.
    + apply nodup_app; [exact R2 | exact N|]. intros x Hx Hx'. apply R3 in Hx.
      unfold keys in Hx'. apply in_map_iff in Hx'. destruct Hx' as [e [Heq He]].
      destruct (Hadd e He) as [nl [_ [_ Hn]]]. apply Hn. rewrite Heq. apply Ioin. exact (proj1 Hx).
    + intros x Hx. apply in_app_or in Hx. apply in_or_app. destruct Hx as [Hx|Hx].
      * left. apply Ioin. apply R3 in Hx. exact (proj1 Hx).
      * right. exact Hx.
  - intros c Hc Hno. rewrite keys_app in Hc. rewrite ochips_app, ochips_added in Hno.
    apply in_app_or in Hc. destruct Hc as [Hc|Hc].
    + destruct (chip_eq_dec c node) as [E|E]; [subst; exact Hns|].
      apply Iclosed; [exact Hc|]. intros Hin. apply Hno. apply in_or_app. left. apply R3. split; assumption.
    + exfalso. apply Hno. apply in_or_app. right. exact Hc.
  - intros x y He Hy Hno. rewrite keys_app in Hy. rewrite ochips_app, ochips_added in Hno. rewrite keys_app.
    apply in_app_or in Hy. destruct Hy as [Hy|Hy]; [|exfalso; apply Hno; apply in_or_app; right; exact Hy].
    destruct (chip_eq_dec y node) as [E|E].
    + subst y. destruct He as [_ [l Hhop]]. pose proof (back_of_hop m x l node Hhop) as Hb.
      destruct Hhop as [Hwl [dx [dy [Hv _]]]]. destruct (opp_vec l dx dy Hv) as [_ Hmem].
      apply rt_link_alive_iff in Hwl. rewrite <- Hb in Hwl. specialize (C l Hmem Hwl).
      rewrite Hb, keys_app in C. exact C.
    + apply in_or_app. left. apply (Icomp x y He Hy). intros Hin. apply Hno. apply in_or_app. left.
      apply R3. split; assumption.
  - rewrite !app_length, map_length. split; lia.
Qed.

(* ---- counting the chips of the machine *)
Lemma all_chips_length : forall m, length (all_chips m) = (Z.to_nat (rm_w m) * Z.to_nat (rm_h m))%nat.
Proof.
  intros m. unfold all_chips, zrange.
  assert (H : forall (xs : list Z) (n : nat),
             length (flat_map (fun x => map (fun y => (x, y)) (map Z.of_nat (seq 0 n))) xs) = (length xs * n)%nat).
  { induction xs as [|x xs IH]; intros n; [reflexivity|]. cbn [flat_map length]. rewrite app_length, IH, !map_length, seq_length. lia. }
  rewrite H, map_length, seq_length. reflexivity.
Qed.

Lemma in_all_chips : forall m c, in_range (rm_w m) (rm_h m) c -> In c (all_chips m).
Proof.
  intros m [x y] [Hx Hy]. cbn [fst snd] in *. unfold all_chips. apply in_flat_map.
  exists x. split; [apply rt_in_zrange; exact Hx|]. apply in_map_iff. exists y. split; [reflexivity | apply rt_in_zrange; exact Hy].
Qed.

Lemma range_nodup_length : forall m (l : list chip),
    1 <= rm_w m -> 1 <= rm_h m ->
    NoDup l -> (forall c, In c l -> in_range (rm_w m) (rm_h m) c) -> (length l <= Z.to_nat (rm_w m * rm_h m))%nat.
Proof.
  intros m l Hw Hh Hnd Hr. rewrite Z2Nat.inj_mul by lia. rewrite <- all_chips_length.
  apply NoDup_incl_length; [exact Hnd|]. intros c Hc. apply in_all_chips. apply Hr. exact Hc.
Qed.

Lemma ainv_length : forall m sink sources v o, 1 <= rm_w m -> 1 <= rm_h m ->
    ainv m sink sources v o -> (length o <= length v <= Z.to_nat (rm_w m * rm_h m))%nat.
Proof.
  intros m sink sources v o Hw Hh I. destruct I as [Ind _ Iwork _ [Iond Ioin] _ _]. split.
  - unfold ochips, keys in *. rewrite <- (map_length snd o), <- (map_length fst v). apply NoDup_incl_length; assumption.
  - rewrite <- (map_length fst v). apply range_nodup_length; try assumption.
    intros c Hc. apply working_in_range. apply Iwork. exact Hc.
Qed.

(* ---- the loop *)
Lemma astar_loop_spec : forall m heur sink sources,
    1 <= rm_w m -> 1 <= rm_h m ->
    forall fuel v o,
      ainv m sink sources v o ->
      (Z.to_nat (rm_w m * rm_h m) + 2 <= fuel + (length v - length o))%nat ->
      exists r v' o',
        astar_loop fuel m heur sources v o = Ok (r, v') /\ ainv m sink sources v' o' /\
        match r with
        | Some sel => In sel (keys v') /\ In sel sources
        | None => o' = []
        end.
Proof.
  intros m heur sink sources Hw Hh. induction fuel as [|fuel IH]; intros v o I Hf.
  - pose proof (ainv_length m sink sources v o Hw Hh I). lia.
  - cbn [astar_loop]. destruct o as [|a t].
    + exists None, v, []. split; [reflexivity|]. split; [exact I | reflexivity].
    + set (node := snd (min_key a t)).
      assert (Hnode : In node (ochips (a :: t))).
      { unfold ochips. apply in_map. apply min_key_in. }
      destruct (chip_mem node sources) eqn:Es.
      * exists (Some node), v, (a :: t). split; [reflexivity|]. split; [exact I|]. split.
        -- destruct I as [_ _ _ _ [_ Ioin] _ _]. apply Ioin. exact Hnode.
        -- apply rt_chip_mem_In. exact Es.
      * apply rt_chip_mem_false in Es.
        destruct (ainv_expand m heur sink sources v (a :: t) node Hw Hh I Hnode Es) as [I' [Hl1 Hl2]]. cbv zeta in *.
        destruct (expand m heur node (v, remove_chip node (a :: t))) as [v1 o1] eqn:Ee. cbn [fst snd] in *.
        apply IH; [exact I'|]. lia.
Qed.

(* ---- the path *)
Lemma cassoc_nodup : forall (v : visited_t) c e, NoDup (keys v) -> In (c, e) v -> cassoc c v = Some e.
Proof.
  induction v as [|[c0 e0] v IH]; intros c e Hnd Hin; [destruct Hin|].
  cbn [keys map fst] in Hnd. apply NoDup_cons_iff in Hnd. destruct Hnd as [Hc0 Hnd]. cbn [cassoc].
  destruct Hin as [Hin|Hin].
  - inversion Hin; subst. rewrite rt_chip_eqb_refl. reflexivity.
  - destruct (chip_eqb c c0) eqn:E.
    + apply rt_chip_eqb_eq in E. subst c0. exfalso. apply Hc0. apply in_map_iff. exists (c, e). split; [reflexivity | exact Hin].
    + apply IH; assumption.
Qed.

Lemma astar_path_spec : forall m sink sources v o,
    ainv m sink sources v o ->
    forall n fuel v1 cur l prev v2,
      v = v1 ++ (cur, Some (l, prev)) :: v2 -> (length v1 <= n)%nat -> (n < fuel)%nat ->
      exists tail,
        astar_path fuel v sink cur = Ok ((l, cur) :: tail) /\ detour_ok m cur l tail sink /\
        (forall q, In q (map snd tail) -> In q (keys v1) /\ q <> sink /\ ~ In q sources) /\
        NoDup (map snd tail).
Proof.
  intros m sink sources v o I. pose proof I as [Ind Isink Iwork Ipred _ Iclosed _].
  induction n as [|n IHn]; intros fuel v1 cur l prev v2 Hv Hlen Hfuel.
  - destruct (Ipred v1 cur l prev v2 Hv) as [_ [Hp _]]. destruct v1; [destruct Hp | simpl in Hlen; lia].
  - destruct fuel as [|fuel]; [lia|]. cbn [astar_path].
    assert (Hin : In (cur, Some (l, prev)) v) by (rewrite Hv; apply in_or_app; right; left; reflexivity).
    rewrite (cassoc_nodup v cur _ Ind Hin).
    destruct (Ipred v1 cur l prev v2 Hv) as [Hhop [Hp Hpo]].
    destruct (chip_eqb prev sink) eqn:Eps.
    + apply rt_chip_eqb_eq in Eps. subst prev. exists []. split; [reflexivity|]. split; [exact Hhop|].
      split; [intros q []|constructor].
    + assert (Hps : prev <> sink) by (intros E; subst; rewrite rt_chip_eqb_refl in Eps; discriminate).
      unfold keys in Hp. apply in_map_iff in Hp. destruct Hp as [[p' e'] [Hpe Hin1]]. cbn [fst] in Hpe. subst p'.
      apply in_split in Hin1. destruct Hin1 as [v1a [v1b Hv1]].
      destruct e' as [[l' p']|].
      * assert (Hv' : v = v1a ++ (prev, Some (l', p')) :: (v1b ++ (cur, Some (l, prev)) :: v2)).
        { rewrite Hv, Hv1, <- app_assoc. reflexivity. }
        assert (Hl1 : (length v1a <= n)%nat).
        { rewrite Hv1, app_length in Hlen. cbn [length] in Hlen. lia. }
        destruct (IHn fuel v1a prev l' p' _ Hv' Hl1 ltac:(lia)) as [tail' [Et [Hd [Hq Hnd']]]].
        rewrite Et. cbn [bind]. exists ((l', prev) :: tail'). split; [reflexivity|].
        split; [cbn [detour_ok]; split; [exact Hhop | exact Hd]|]. split.
        -- intros q Hq'. cbn [map snd] in Hq'. destruct Hq' as [Hq'|Hq'].
           ++ subst q. split; [rewrite Hv1, keys_app; apply in_or_app; right; left; reflexivity|].
              split; [exact Hps|]. apply Iclosed; [|exact Hpo]. rewrite Hv', keys_app. apply in_or_app. right. left. reflexivity.
           ++ destruct (Hq q Hq') as [Q1 [Q2 Q3]]. split; [|split; assumption].
              rewrite Hv1, keys_app. apply in_or_app. left. exact Q1.
        -- cbn [map snd]. constructor; [|exact Hnd']. intros Hq'. destruct (Hq prev Hq') as [Q1 _].
           rewrite Hv', keys_app in Ind. cbn [keys map fst] in Ind.
           apply NoDup_remove_2 in Ind. apply Ind. apply in_or_app. left. exact Q1.
      * (* an entry without predecessor is the sink's *)
        exfalso. destruct Isink as [rest [Hvr Hnone]]. apply Hps.
        assert (Hin2 : In (prev, None) v) by (rewrite Hv, Hv1; apply in_or_app; left; apply in_or_app; right; left; reflexivity).
        rewrite Hvr in Hin2. destruct Hin2 as [Hin2|Hin2]; [inversion Hin2; reflexivity | exfalso; exact (Hnone prev Hin2)].
Qed.

(* ---- a_star *)
Definition path_good (m : rmachine) (sink : chip) (sources : list chip) (path : list (Z * chip)) : Prop :=
  exists d0 c0 rest,
    path = (d0, c0) :: rest /\ In c0 sources /\ detour_ok m c0 d0 rest sink /\
    NoDup (map snd path) /\ ~ In sink (map snd path) /\
    (forall q, In q (map snd rest) -> ~ In q sources) /\
    (forall q, In q (map snd path) -> working_chip m q).

Theorem a_star_spec : forall sink hsrc sources m wrap,
    1 <= rm_w m -> 1 <= rm_h m -> working_chip m sink -> ~ In sink sources ->
    (exists path, a_star sink hsrc sources m wrap = Ok path /\ path_good m sink sources path) \/
    (a_star sink hsrc sources m wrap = Failed 0 /\ forall s, In s sources -> ~ reach m s sink).
Proof.
  intros sink hsrc sources m wrap Hw Hh Hsink Hns. unfold a_star. cbv zeta.
  set (heur := fun n => rdist wrap (rm_w m) (rm_h m) n hsrc).
  set (fuel := S (S (Z.to_nat (rm_w m * rm_h m)))).
  assert (I0 : ainv m sink sources [(sink, None)] [(heur sink, sink)]).
  { constructor.
    - cbn. constructor; [intros []|constructor].
    - exists []. split; [reflexivity|]. intros c [].
    - intros c [Hc|[]]. cbn in Hc. subst. exact Hsink.
    - intros v1 c l n v2 Heq. destruct v1 as [|e v1]; [discriminate|]. destruct v1; discriminate.
    - split; [cbn; constructor; [intros []|constructor]|]. intros x Hx. exact Hx.
    - intros c [Hc|[]] Hno. exfalso. apply Hno. left. exact Hc.
    - intros x y _ [Hy|[]] Hno. exfalso. apply Hno. left. exact Hy. }
  destruct (astar_loop_spec m heur sink sources Hw Hh fuel _ _ I0) as [r [v' [o' [El [I' Hr]]]]].
  { subst fuel. cbn [length]. lia. }
  change (rdist wrap (rm_w m) (rm_h m) sink hsrc) with (heur sink). rewrite El. cbn [bind fst snd].
  destruct r as [sel|].
  - left. destruct Hr as [Hsel Hsrc].
    unfold keys in Hsel. apply in_map_iff in Hsel. destruct Hsel as [[s' e] [Hs' Hin]]. cbn [fst] in Hs'. subst s'.
    apply in_split in Hin. destruct Hin as [v1 [v2 Hv]].
    destruct e as [[l prev]|].
    + pose proof (ainv_length m sink sources v' o' Hw Hh I') as Hlen.
      assert (Hl1 : (length v1 <= Z.to_nat (rm_w m * rm_h m))%nat).
      { rewrite Hv, app_length in Hlen. lia. }
      destruct (astar_path_spec m sink sources v' o' I' _ fuel v1 sel l prev v2 Hv Hl1 ltac:(subst fuel; lia))
        as [tail [Ep [Hd [Hq Hnd]]]].
      exists ((l, sel) :: tail). split; [exact Ep|]. exists l, sel, tail. split; [reflexivity|].
      split; [exact Hsrc|]. split; [exact Hd|]. split; [|split; [|split]].
      * cbn [map snd]. constructor; [|exact Hnd]. intros Hin. destruct (Hq sel Hin) as [_ [_ Q]]. exact (Q Hsrc).
      * cbn [map snd]. intros [Hin|Hin]; [subst; exact (Hns Hsrc)|]. destruct (Hq sink Hin) as [_ [Q _]]. congruence.
      * intros q Hin. destruct (Hq q Hin) as [_ [_ Q]]. exact Q.
      * intros q Hin. cbn [map snd] in Hin. destruct I' as [_ _ Iwork _ _ _ _]. apply Iwork. destruct Hin as [Hin|Hin].
        -- subst q. rewrite Hv, keys_app. apply in_or_app. right. left. reflexivity.
        -- destruct (Hq q Hin) as [Q _]. rewrite Hv, keys_app. apply in_or_app. left. exact Q.
    + exfalso. destruct I' as [_ [rest [Hvr Hnone]] _ _ _ _ _].
      assert (Hin2 : In (sel, None) v') by (rewrite Hv; apply in_or_app; right; left; reflexivity).
      rewrite Hvr in Hin2. destruct Hin2 as [Hin2|Hin2]; [inversion Hin2; subst; exact (Hns Hsrc) | exact (Hnone sel Hin2)].
  - right. split; [reflexivity|]. subst o'. intros s Hs Hreach.
    destruct I' as [_ [rest [Hvr _]] _ _ _ Iclosed Icomp].
    assert (Hall : forall x, reach m x sink -> In x (keys v')).
    { intros x Hx. unfold reach in Hx. remember sink as z eqn:Ez in Hx.
      induction Hx as [x|x y z Hxy Hyz IHr].
      - subst x. rewrite Hvr. left. reflexivity.
      - apply (Icomp x y Hxy); [apply IHr; exact Ez | intros []]. }
    apply (Iclosed s (Hall s Hreach)); [intros [] | exact Hs].
Qed.
