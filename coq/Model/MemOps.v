(* Executable model of the memory operations of rig.machine_control (property C07).  Definitions only.

   The arithmetic of every loop (conditions, block sizes, chunk addresses, data-type keys, command
   arguments, result-buffer slices, updates) is NOT written here: it is the generated definitions of
   Generated/GenMemOps.v, translated from the current source text on every run.  This file supplies the
   control structure around them (the `while` loops with the model's own fuel, Python's slice clipping,
   the exceptions), the transport abstraction and the execution against Model/Machine.v.

   Transport abstraction (what property C06 establishes about send_scp_burst): every command handed to a
   burst is executed by the machine at least once (a retransmission after a lost reply executes it
   again), in some order; its callback is invoked with the reply to one of its own transmissions; the
   callbacks run in some order.  The run functions below therefore take the *order* as an argument (a list
   of chunks in which a chunk may occur several times); the code's own order -- the chunk list itself -- is
   what the correspondence harness evaluates, the theorems quantify over every order that mentions every
   chunk.  A reply datagram is cut to the receive length of send_scp_burst before the callback sees it.

   Outcomes: Ok; Failed 0 / Failed 1 = the two documented ValueErrors of the link functions; Failed rc
   (rc >= 128) = FatalReturnCodeError for the machine's return code rc; OtherError = any other exception
   (struct.error for an argument outside 32 bits, ValueError of a memoryview assignment of the wrong length,
   ValueError of bytearray(negative), KeyError); OutOfFuel = the model's loop bound: the Python loop does
   not terminate (buffer size 0 for read / write, below 4 for the link functions). *)
From Coq Require Import ZArith List Bool String.
Require Import Rig.Generated.GenMemOps Rig.Generated.GenSCP Rig.Model.Base Rig.Model.Machine.
Import ListNotations.
Open Scope Z_scope.

(* ------------------------------------------------------------------ packets and the transport *)
Definition u32 (a : Z) : bool := (0 <=? a) && (a <? 2 ^ 32).

(* consts.address_length_dtype[(i, j)]; a missing key is a KeyError *)
Fixpoint dtype_find (k : Z * Z) (t : list ((Z * Z) * Z)) : option Z :=
  match t with
  | [] => None
  | ((i, j), d) :: t' => if (fst k =? i) && (snd k =? j) then Some d else dtype_find k t'
  end.

Definition dtype_lookup (k : Z * Z) : result Z :=
  match dtype_find k address_length_dtype with Some d => Ok d | None => OtherError end.

(* send_scp_burst: receive_length = int(2 ** math.ceil(math.log(max_length, 2))), the smallest power of two
   >= max_length (tools/dump_c07.py compares the float expression with this closed form for every
   max_length a 16-bit buffer size can give) *)
Definition pow2_ceil (m : Z) : Z := 2 ^ Z.log2_up m.
Definition receive_length (buffer : Z) : Z := pow2_ceil (burst_max_length buffer).
(* the code as found (before fix commit dbd83a4): max_length = buffer_size + consts.SDP_HEADER_LENGTH *)
Definition receive_length_orig (buffer : Z) : Z := pow2_ceil (buffer + SDP_HEADER_LENGTH).

(* what is left of a reply's payload after sock.recv(receive_length): the datagram is 2 padding bytes,
   the SDP header, cmd_rc and seq (together read_reply_data_offset bytes), then the payload *)
Definition recv_payload (rl : Z) (d : list Z) : list Z := firstn (Z.to_nat (rl - read_reply_data_offset)) d.

(* the SCP command (cmd_rc, arg1, arg2, arg3, data) as the machine decodes it *)
Definition decode_cmd (code a1 a2 a3 : Z) (data : list Z) : option cmd :=
  if code =? SCPCommands_read then Some (CRead a1 a2 a3)
  else if code =? SCPCommands_write then Some (CWrite a1 a2 a3 data)
  else if code =? SCPCommands_fill then Some (CFill a1 a2 a3)
  else if code =? SCPCommands_link_read then Some (CLinkRead a1 a2 a3)
  else if code =? SCPCommands_link_write then Some (CLinkWrite a1 a2 a3 data)
  else None.

Record call := { c_code : Z; c_arg1 : Z; c_arg2 : Z; c_arg3 : Z; c_data : list Z }.

(* the environment of one call of the library: advertised buffer size, receive length in force,
   topology, destination *)
Record env := { e_buffer : Z; e_rl : Z; e_nbr : chip -> Z -> chip }.

Definition mk_env (buffer : Z) (nbr : chip -> Z -> chip) : env :=
  {| e_buffer := buffer; e_rl := receive_length buffer; e_nbr := nbr |}.

(* one command: packed (struct.error unless the arguments fit 32 bits), executed, its reply received *)
Definition issue (E : env) (M : machine) (c : chip) (core : Z) (k : call)
  : result (machine * request * list Z) :=
  if u32 (c_arg1 k) && u32 (c_arg2 k) && u32 (c_arg3 k) then
    match decode_cmd (c_code k) (c_arg1 k) (c_arg2 k) (c_arg3 k) (c_data k) with
    | None => Failed rc_cmd
    | Some cm =>
        let r := {| rq_chip := c; rq_core := core; rq_cmd := cm |} in
        match exec (e_buffer E) (e_nbr E) M r with
        | (M', ROk d) => Ok (M', r, recv_payload (e_rl E) d)
        | (_, RErr rc) => Failed rc
        end
    end
  else OtherError.

(* ------------------------------------------------------------------ Python slices *)
(* l[lo:hi] for 0 <= lo (hi < 0 counts from the end) *)
Definition py_slice {A} (l : list A) (lo hi : Z) : list A :=
  let n := zlen l in
  let hi' := if hi <? 0 then Z.max 0 (hi + n) else Z.min hi n in
  let lo' := Z.min lo n in
  firstn (Z.to_nat (hi' - lo')) (skipn (Z.to_nat lo') l).

(* mem[lo:hi][:] = d for a memoryview over buf, 0 <= lo: the lengths must agree (ValueError otherwise) *)
Definition splice (buf : list Z) (lo hi : Z) (d : list Z) : result (list Z) :=
  let n := zlen buf in
  let lo' := Z.min lo n in
  let hi' := Z.max lo' (Z.min hi n) in
  if zlen d =? hi' - lo' then Ok (firstn (Z.to_nat lo') buf ++ d ++ skipn (Z.to_nat hi') buf)
  else OtherError.

(* ------------------------------------------------------------------ SCPConnection.read *)
Record rchunk := { rk_call : call; rk_lo : Z; rk_hi : Z }.

Fixpoint read_chunks_aux (fuel : nat) (address buffer offset length : Z) : result (list rchunk) :=
  match fuel with
  | O => OutOfFuel
  | S f =>
      if read_cond length then
        let block_size := read_block_size length buffer in
        let ra := read_chunk_address address offset in
        bind (dtype_lookup (read_dtype_key ra block_size)) (fun dtype =>
          let '(code, a1, a2, a3) := read_call ra block_size dtype in
          let '(lo, hi) := read_slice offset block_size in
          bind (read_chunks_aux f address buffer (read_next_offset offset block_size)
                  (read_next_length length block_size))
               (fun rest => Ok ({| rk_call := {| c_code := code; c_arg1 := a1; c_arg2 := a2; c_arg3 := a3;
                                                c_data := [] |}; rk_lo := lo; rk_hi := hi |} :: rest)))
      else Ok []
  end.

Definition read_chunks (address length buffer : Z) : result (list rchunk) :=
  read_chunks_aux (S (Z.to_nat length)) address buffer read_offset0 length.

(* the callbacks of [order] run one after the other, each with the reply to its own command *)
Fixpoint read_run (E : env) (M : machine) (c : chip) (core : Z) (order : list rchunk)
  (buf : list Z) : result (list request * list Z) :=
  match order with
  | [] => Ok ([], buf)
  | k :: rest =>
      bind (issue E M c core (rk_call k)) (fun '(M', r, d) =>
      bind (splice buf (rk_lo k) (rk_hi k) d) (fun buf' =>
      bind (read_run E M' c core rest buf') (fun '(tr, out) => Ok (r :: tr, out))))
  end.

(* data = bytearray(length_bytes): ValueError for a negative length *)
Definition sc_read_order (E : env) (M : machine) (c : chip) (core address length : Z)
  (order : list rchunk -> list rchunk) : result (list request * list Z) :=
  if length <? 0 then OtherError
  else bind (read_chunks address length (e_buffer E)) (fun cs =>
         read_run E M c core (order cs) (repeat 0 (Z.to_nat length))).

Definition sc_read (E : env) (M : machine) (c : chip) (core address length : Z) :=
  sc_read_order E M c core address length (fun cs => cs).

(* ------------------------------------------------------------------ SCPConnection.write *)
Fixpoint write_chunks_aux (fuel : nat) (address buffer pos : Z) (data : list Z) : result (list call) :=
  match fuel with
  | O => OutOfFuel
  | S f =>
      if write_cond pos (zlen data) then
        let '(lo, hi) := write_block_slice pos buffer in
        let block := py_slice data lo hi in
        let block_size := zlen block in
        bind (dtype_lookup (write_dtype_key address block_size)) (fun dtype =>
          let '(code, a1, a2, a3) := write_call address block_size dtype in
          bind (write_chunks_aux f (write_next_address address block_size) buffer
                  (write_next_pos pos block_size) data)
               (fun rest => Ok ({| c_code := code; c_arg1 := a1; c_arg2 := a2; c_arg3 := a3;
                                   c_data := block |} :: rest)))
      else Ok []
  end.

Definition write_chunks (address buffer : Z) (data : list Z) : result (list call) :=
  write_chunks_aux (S (List.length data)) address buffer write_pos0 data.

(* the machine executes the commands of [order] one after the other; replies carry nothing *)
Fixpoint call_run (E : env) (M : machine) (c : chip) (core : Z) (order : list call)
  : result (list request * machine) :=
  match order with
  | [] => Ok ([], M)
  | k :: rest =>
      bind (issue E M c core k) (fun '(M', r, _) =>
      bind (call_run E M' c core rest) (fun '(tr, M'') => Ok (r :: tr, M'')))
  end.

Definition sc_write_order (E : env) (M : machine) (c : chip) (core address : Z) (data : list Z)
  (order : list call -> list call) : result (list request * machine) :=
  bind (write_chunks address (e_buffer E) data) (fun cs => call_run E M c core (order cs)).

Definition sc_write (E : env) (M : machine) (c : chip) (core address : Z) (data : list Z) :=
  sc_write_order E M c core address data (fun cs => cs).

(* ------------------------------------------------------------------ struct fields *)
Fixpoint field_find (name : string) (t : list (string * (Z * Z))) : option (Z * Z) :=
  match t with
  | [] => None
  | (n, v) :: t' => if String.eqb name n then Some v else field_find name t'
  end.

(* read_struct_field("sv", name, x, y, p): the bytes handed to struct.unpack *)
Definition mc_read_struct (E : env) (M : machine) (c : chip) (core : Z) (name : string)
  : result (list request * list Z) :=
  match field_find name sv_fields with
  | None => OtherError
  | Some (off, n) => sc_read E M c core (struct_field_address sv_struct_base off) n
  end.

(* write_struct_field("sv", name, values, x, y, p); data = struct.pack(pack_chars, values) *)
Definition mc_write_struct (E : env) (M : machine) (c : chip) (core : Z) (name : string) (data : list Z)
  : result (list request * machine) :=
  match field_find name sv_fields with
  | None => OtherError
  | Some (off, _) => sc_write E M c core (struct_field_address sv_struct_base off) data
  end.

(* struct.unpack("<I", b)[0] *)
Definition le_word (b : list Z) : Z :=
  nth 0 b 0 + 256 * nth 1 b 0 + 65536 * nth 2 b 0 + 16777216 * nth 3 b 0.

(* _get_vcpu_field_and_address: reads sv.vcpu_base of the chip (core argument left at its default),
   then base + size * p + offset *)
Definition mc_vcpu_address (E : env) (M : machine) (c : chip) (p : Z) (name : string)
  : result (list request * Z * Z) :=
  match field_find name vcpu_fields with
  | None => OtherError
  | Some (off, n) =>
      bind (mc_read_struct E M c vcpu_access_core "vcpu_base") (fun '(tr, b) =>
        Ok (tr, vcpu_field_address (le_word b) vcpu_struct_size p off, n))
  end.

Definition mc_read_vcpu (E : env) (M : machine) (c : chip) (p : Z) (name : string)
  : result (list request * list Z) :=
  bind (mc_vcpu_address E M c p name) (fun '(tr, a, n) =>
  bind (sc_read E M c vcpu_access_core a n) (fun '(tr', out) => Ok (tr ++ tr', out))).

Definition mc_write_vcpu (E : env) (M : machine) (c : chip) (p : Z) (name : string) (data : list Z)
  : result (list request * machine) :=
  bind (mc_vcpu_address E M c p name) (fun '(tr, a, _) =>
  bind (sc_write E M c vcpu_access_core a data) (fun '(tr', M') => Ok (tr ++ tr', M'))).

(* ------------------------------------------------------------------ fill *)
(* struct.pack('<B', data) * size : struct.error unless 0 <= data <= 255; a negative count gives b'' *)
Definition mc_fill (E : env) (M : machine) (c : chip) (core address data size : Z)
  : result (list request * machine) :=
  if fill_uses_write address size then
    if (data <? 0) || (255 <? data) then OtherError
    else sc_write E M c core address (repeat data (Z.to_nat size))
  else
    let '(code, a1, a2, a3) := fill_call address data size in
    bind (issue E M c core {| c_code := code; c_arg1 := a1; c_arg2 := a2; c_arg3 := a3; c_data := [] |})
         (fun '(M', r, _) => Ok ([r], M')).

(* ------------------------------------------------------------------ across a link *)
(* (core, call) of every command of write_across_link, in order *)
Fixpoint lwrite_chunks_aux (fuel : nat) (address buffer cur length link : Z) (data : list Z)
  : result (list (Z * call)) :=
  match fuel with
  | O => OutOfFuel
  | S f =>
      if lwrite_cond length then
        let to_write := lwrite_to_write length buffer in
        let '(lo, hi) := lwrite_slice cur to_write in
        let cur_data := py_slice data lo hi in
        let '(core, code, a1, a2, a3) := lwrite_call address to_write link in
        bind (lwrite_chunks_aux f (lwrite_next_address address to_write) buffer
                (lwrite_next_cur cur to_write) (lwrite_next_length length to_write) link data)
             (fun rest => Ok ((core, {| c_code := code; c_arg1 := a1; c_arg2 := a2; c_arg3 := a3;
                                        c_data := cur_data |}) :: rest))
      else Ok []
  end.

Definition lwrite_chunks (address buffer link : Z) (data : list Z) : result (list (Z * call)) :=
  if negb (lwrite_guard_address address =? 0) then Failed 0
  else if negb (lwrite_guard_length (zlen data) =? 0) then Failed 1
  else lwrite_chunks_aux (S (List.length data)) address buffer lwrite_cur0 (zlen data) link data.

Fixpoint corecall_run (E : env) (M : machine) (c : chip) (order : list (Z * call))
  : result (list request * machine) :=
  match order with
  | [] => Ok ([], M)
  | (core, k) :: rest =>
      bind (issue E M c core k) (fun '(M', r, _) =>
      bind (corecall_run E M' c rest) (fun '(tr, M'') => Ok (r :: tr, M'')))
  end.

Definition mc_write_link_order (E : env) (M : machine) (c : chip) (address link : Z) (data : list Z)
  (order : list (Z * call) -> list (Z * call)) : result (list request * machine) :=
  bind (lwrite_chunks address (e_buffer E) link data) (fun cs => corecall_run E M c (order cs)).

Definition mc_write_link (E : env) (M : machine) (c : chip) (address link : Z) (data : list Z) :=
  mc_write_link_order E M c address link data (fun cs => cs).

(* read_across_link: one send_scp per chunk, the replies fill the buffer from the front *)
Fixpoint lread_aux (fuel : nat) (E : env) (M : machine) (c : chip) (address length link : Z)
  (acc : list Z) : result (list request * list Z) :=
  match fuel with
  | O => OutOfFuel
  | S f =>
      if lread_cond length then
        let to_read := lread_to_read length (e_buffer E) in
        let '(core, code, a1, a2, a3) := lread_call address to_read link in
        bind (issue E M c core {| c_code := code; c_arg1 := a1; c_arg2 := a2; c_arg3 := a3; c_data := [] |})
             (fun '(M', r, d) =>
        (* mem[:to_read] = response.data on the `length` bytes that remain *)
        if zlen d =? Z.max 0 (Z.min to_read length) then
          bind (lread_aux f E M' c (lread_next_address address to_read) (lread_next_length length to_read)
                  link (acc ++ d))
               (fun '(tr, out) => Ok (r :: tr, out))
        else OtherError)
      else Ok ([], acc ++ repeat 0 (Z.to_nat length))
  end.

Definition mc_read_link (E : env) (M : machine) (c : chip) (address length link : Z)
  : result (list request * list Z) :=
  if negb (lread_guard_address address =? 0) then Failed 0
  else if negb (lread_guard_length length =? 0) then Failed 1
  else if length <? 0 then OtherError
  else lread_aux (S (Z.to_nat length)) E M c address length link [].

(* ------------------------------------------------------------------ one entry point for the harness *)
Inductive op :=
| OpRead (core address length : Z)
| OpWrite (core address : Z) (data : list Z)
| OpReadStruct (core : Z) (field : string)
| OpWriteStruct (core : Z) (field : string) (data : list Z)
| OpReadVcpu (p : Z) (field : string)
| OpWriteVcpu (p : Z) (field : string) (data : list Z)
| OpFill (core address data size : Z)
| OpReadLink (address length link : Z)
| OpWriteLink (address link : Z) (data : list Z).

(* trace of requests, bytes returned to the caller, machine afterwards *)
Definition run_op (E : env) (M : machine) (c : chip) (o : op) : result (list request * list Z * machine) :=
  let rd r := bind r (fun '(tr, out) => Ok (tr, out, M)) in
  let wr r := bind r (fun '(tr, M') => Ok (tr, @nil Z, M')) in
  match o with
  | OpRead core a n => rd (sc_read E M c core a n)
  | OpWrite core a d => wr (sc_write E M c core a d)
  | OpReadStruct core f => rd (mc_read_struct E M c core f)
  | OpWriteStruct core f d => wr (mc_write_struct E M c core f d)
  | OpReadVcpu p f => rd (mc_read_vcpu E M c p f)
  | OpWriteVcpu p f d => wr (mc_write_vcpu E M c p f d)
  | OpFill core a d s => wr (mc_fill E M c core a d s)
  | OpReadLink a n l => rd (mc_read_link E M c a n l)
  | OpWriteLink a l d => wr (mc_write_link E M c a l d)
  end.

(* digest of a request, for comparing command traces with the implementation's *)
Definition cmd_fields (cm : cmd) : list Z :=
  match cm with
  | CRead a n t => [SCPCommands_read; a; n; t; 0]
  | CWrite a n t d => [SCPCommands_write; a; n; t; digest d]
  | CFill a w s => [SCPCommands_fill; a; w; s; 0]
  | CLinkRead a n l => [SCPCommands_link_read; a; n; l; 0]
  | CLinkWrite a n l d => [SCPCommands_link_write; a; n; l; digest d]
  end.

Definition request_fields (r : request) : list Z :=
  fst (rq_chip r) :: snd (rq_chip r) :: rq_core r :: cmd_fields (rq_cmd r).

Definition trace_digest (tr : list request) : Z :=
  fold_left (fun h r => fold_left (fun h v => Z.land (h * 1000003 + v + 1) 1073741823) (request_fields r) h) tr 0.
