(* C18 -- the stop command of an application block's exit, computed explicitly. *)
From Coq Require Import ZArith List Bool String Lia.
Require Import Rig.Model.Base Rig.Generated.GenSignatures Rig.Generated.GenCtxGeometry Rig.Model.Context
               Rig.Spec.Context Rig.Proofs.Context Rig.Proofs.ContextBlocks.
Import ListNotations.
Open Scope string_scope.
Open Scope list_scope.
Open Scope Z_scope.

Lemma stack_lookup_snoc : forall n s c,
  stack_lookup n (s ++ [c]) = match slast n c with Some v => Some v | None => stack_lookup n s end.
Proof.
  intros n s c. induction s as [|c0 r IH]; simpl.
  - destruct (slast n c); reflexivity.
  - rewrite IH. destruct (slast n c); [reflexivity|]. reflexivity.
Qed.

Lemma slast_mkdict_single : forall n (v : value), slast n (mkdict [(n, v)]) = Some v.
Proof. intros. unfold mkdict, supdate_all. simpl. rewrite String.eqb_refl. reflexivity. Qed.

(* the signature the model of the exit relies on (re-checked against the generated list) *)
Lemma send_signal_sig :
  find_sig "MC" "send_signal"
  = Some (MkSig "MC" "send_signal" [("signal", DRequired); ("app_id", DRequired)] false false []).
Proof. reflexivity. Qed.

Lemma mc_conn_255 : forall c, exists k, mc_get_connection c (VInt 255) (VInt 255) = Some k.
Proof.
  intros c. unfold mc_get_connection.
  destruct (c_width c); [|eauto]. destruct (c_height c); [|eauto]. destruct (c_root c) as [[rx ry]|]; [|eauto].
  simpl. destruct (cassoc _ (c_conns c)); eauto.
Qed.

Definition stop_wire (k : Z) (a : value) : wire :=
  MkWire k 0 (VInt 255) (VInt 255) (VInt 0) (VInt SCP_signal) [(1%nat, 20, 15, 0)]
         [(FByte, 1%nat, 16, stop_signal); (FByte, 1%nat, 0, a)].

(* send_signal(sig) with the application id supplied by the context: one signal command, broadcast,
   carrying that id *)
Lemma send_signal_from_context : forall c st sigv a z,
  stack_lookup "app_id" st = Some a -> as_int a = Some z -> (exists y, as_int sigv = Some y) ->
  exists k, mc_get_connection c (VInt 255) (VInt 255) = Some k /\
    call FUEL c "MC" "send_signal" st [sigv] []
    = ([MkWire k 0 (VInt 255) (VInt 255) (VInt 0) (VInt SCP_signal) [(1%nat, 20, 15, 0)]
               [(FByte, 1%nat, 16, sigv); (FByte, 1%nat, 0, a)]], None).
Proof.
  intros c st sigv a z Hl Ha [y Hy].
  destruct (mc_conn_255 c) as [k Hk]. exists k. split; [exact Hk|].
  unfold FUEL. cbn [call]. rewrite send_signal_sig.
  assert (Hnk : new_kwargs (MkSig "MC" "send_signal" [("signal", DRequired); ("app_id", DRequired)] false false [])
                  st 1 [] = [("app_id", DVal a)]).
  { unfold new_kwargs. cbn [sg_params sg_kwonly skipn map supdate_all fold_left].
    fold (overlay (merge_stack st) [("app_id", DRequired)]).
    pose proof (overlay_keys (merge_stack st) [("app_id", DRequired)]) as Hkeys.
    pose proof (sassoc_overlay "app_id" (merge_stack st) [("app_id", DRequired)]) as Hval.
    rewrite (slast_nodup _ _ (nodup_keys_merge st)), sassoc_merge_stack, Hl in Hval.
    change (smem "app_id" [("app_id", DRequired)]) with true in Hval. cbv iota in Hval.
    destruct (overlay (merge_stack st) [("app_id", DRequired)]) as [|[k0 d0] [|x r]]; simpl in Hkeys;
      try discriminate.
    inversion Hkeys; subst k0. simpl in Hval. inversion Hval; subst. reflexivity. }
  unfold resolve. cbn [List.length]. rewrite Hnk.
  cbn -[mc_get_connection as_int field_value_ok]. unfold field_value_ok. rewrite Ha, Hy.
  cbn -[mc_get_connection]. rewrite Hk. reflexivity.
Qed.

(* leaving an application block whose body does not itself change the block's context: exactly one
   more event, the stop command for the block's application id, and the stack is restored -- also when the
   connection raises a BaseException (KeyboardInterrupt, ...) while that command is being sent *)
Theorem application_stop : forall c pos kw blk (intr : bool) s sg e a z,
  find_sig "MC" "application" = Some sg -> resolve sg s pos kw = Some e ->
  sassoc "app_id" (e_args e) = Some a -> as_int a = Some z -> no_update_here blk ->
  exists evb rb k,
    run_ops c "MC" blk (s ++ [mkdict [("app_id", a)]]) = (evb, s ++ [mkdict [("app_id", a)]], rb)
    /\ chip_connection_ok c (VInt 255) (VInt 255) k
    /\ run_op c "MC" (OApp pos kw blk intr) s
       = (evb ++ [EvStop ([stop_wire k a], if intr then Some IntrErr else None)], s, rb || intr).
Proof.
  intros c pos kw blk intr s sg e a z Hs Hr Ha Hz Hn.
  destruct (application_exit c "MC" pos kw blk intr s sg e a Hs Hr Ha) as [evb [fr [rb [H1 [H2 H3]]]]].
  specialize (H2 Hn). subst fr.
  assert (Hl : stack_lookup "app_id" (s ++ [mkdict [("app_id", a)]]) = Some a)
    by (rewrite stack_lookup_snoc, slast_mkdict_single; reflexivity).
  destruct (send_signal_from_context c _ stop_signal a z Hl Hz) as [k [Hk Hc]].
  { exists AppSignal_stop. reflexivity. }
  exists evb, rb, k. split; [exact H1|]. split; [apply mc_connection_choice; exact Hk|].
  cbv zeta in H3. rewrite H3.
  assert (Ho : forall o : outcome, o = ([stop_wire k a], None) ->
               (evb ++ [EvStop (if intr then interrupted o else o)], s,
                rb || has_err (if intr then interrupted o else o))
               = (evb ++ [EvStop ([stop_wire k a], if intr then Some IntrErr else None)], s, rb || intr)).
  { intros o Eo. subst o. destruct intr; simpl; [reflexivity|]. reflexivity. }
  apply Ho. exact Hc.
Qed.

(* ------------------------------------------------------------------ instances (non-vacuity) *)
Definition ex_ctl : ctl :=
  MkCtl (Some 24) (Some 12) (Some (0, 0)) [((0, 0), 1); ((8, 4), 2); ((12, 0), 3)] [([0; 0], 0); ([0; 0; 2], 1)].
Definition ex_stack : stack := [ [("app_id", VInt 66)]; [("x", VInt 1); ("p", VInt 3)]; [("x", VInt 9)] ].

(* read(address, length, y=7) under contexts x=1,p=3 (outer) and x=9 (inner): x from the innermost context,
   y explicit, p from the outer context; the board of chip (9, 7) is served by connection 2 *)
Lemma ex_precedence_instance :
  exists sg e, find_sig "MC" "read" = Some sg /\ sig_wf sg
    /\ resolve sg ex_stack [VTok 1; VInt 8] [("y", VInt 7)] = Some e
    /\ sassoc "x" (e_args e) = Some (VInt 9) /\ sassoc "y" (e_args e) = Some (VInt 7)
    /\ sassoc "p" (e_args e) = Some (VInt 3)
    /\ call FUEL ex_ctl "MC" "read" ex_stack [VTok 1; VInt 8] [("y", VInt 7)]
       = ([MkWire 2 1 (VInt 9) (VInt 7) (VInt 3) VNone [] []], None).
Proof.
  eexists. eexists. split; [reflexivity|]. split; [apply nodupb_sound; reflexivity|].
  split; [vm_compute; reflexivity|]. repeat split; vm_compute; reflexivity.
Qed.

(* a default: get_software_version() with nothing in force goes to (255, 255, 0).  (255, 255) is the
   pseudo-address "the chip this connection is attached to"; the code pushes it through the same table
   arithmetic as a real coordinate -- here it lands on the connection of Ethernet chip (12, 0) -- and the
   property makes no claim about it. *)
Lemma ex_default_instance :
  call FUEL ex_ctl "MC" "get_software_version" [[]] [] []
  = ([MkWire 3 0 (VInt 255) (VInt 255) (VInt 0) (VInt SCP_sver) [] []], None).
Proof. vm_compute. reflexivity. Qed.

(* a required argument nobody supplies *)
Lemma ex_required_instance :
  exists sg, find_sig "MC" "read" = Some sg
    /\ spec_value sg ex_stack [VTok 1; VInt 8] [] "y" = Some DRequired
    /\ call FUEL ex_ctl "MC" "read" ex_stack [VTok 1; VInt 8] [] = ([], Some TypeErr).
Proof. eexists. split; [reflexivity|]. split; vm_compute; reflexivity. Qed.

(* an application block left by an exception raised two blocks further in: the premises of
   application_stop hold, the stop for application 17 is sent, the stack is as before *)
Definition ex_block : list op :=
  [ OWith [("x", VInt 1); ("y", VInt 2)]
      [ OCall "sdram_alloc" [VInt 8] [] false;
        OWith [("app_id", VInt 30)] [ OCall "sdram_alloc" [VInt 8] [("x", VInt 3)] false; ORaise ];
        OCall "sdram_free" [VInt 4] [] false ] ].

Lemma ex_application_instance :
  exists sg e,
    find_sig "MC" "application" = Some sg /\ resolve sg ex_stack [VInt 17] [] = Some e
    /\ sassoc "app_id" (e_args e) = Some (VInt 17) /\ as_int (VInt 17) = Some 17
    /\ no_update_here ex_block
    /\ run_op ex_ctl "MC" (OApp [VInt 17] [] ex_block false) ex_stack
       = ([EvCall "sdram_alloc" ([MkWire 1 0 (VInt 1) (VInt 2) (VInt 0) (VInt SCP_alloc_free)
                                         [(0%nat, 0, 255, Alloc_alloc_sdram)] [(FByte, 0%nat, 8, VInt 17)]], None);
           EvCall "sdram_alloc" ([MkWire 1 0 (VInt 3) (VInt 2) (VInt 0) (VInt SCP_alloc_free)
                                         [(0%nat, 0, 255, Alloc_alloc_sdram)] [(FByte, 0%nat, 8, VInt 30)]], None);
           EvStop ([stop_wire 3 (VInt 17)], None)],
          ex_stack, true).
Proof.
  eexists. eexists. split; [reflexivity|]. split; [vm_compute; reflexivity|].
  repeat split; vm_compute; reflexivity.
Qed.

(* BMP: board 2 of frame (0, 0) has its own connection, board 1 goes through the frame's; frame (1, 0)
   has none: rejected by the assertion before anything is sent *)
Lemma ex_bmp_instance :
  call FUEL ex_ctl "BMP" "read_adc" [[("cabinet", VInt 0); ("frame", VInt 0); ("board", VInt 0)]] [] [("board", VInt 2)]
  = ([MkWire 1 0 (VInt 0) (VInt 0) (VInt 2) (VInt SCP_bmp_info) [] []], None)
  /\ call FUEL ex_ctl "BMP" "read_adc" [[("cabinet", VInt 0); ("frame", VInt 0); ("board", VInt 0)]] [] [("board", VInt 1)]
  = ([MkWire 0 0 (VInt 0) (VInt 0) (VInt 1) (VInt SCP_bmp_info) [] []], None)
  /\ call FUEL ex_ctl "BMP" "read_adc" [[("cabinet", VInt 0); ("frame", VInt 0); ("board", VInt 0)]] [VInt 1] []
  = ([], Some AssertErr).
Proof. repeat split; vm_compute; reflexivity. Qed.

(* a method re-entering itself: count_cores_in_state with a sequence of three states (token 2) and an
   explicit application id 9 while the context says 66: three count commands, every one carrying 9 *)
Lemma ex_iterable_instance :
  call FUEL ex_ctl "MC" "count_cores_in_state" [[("app_id", VInt 66)]] [VTok 2; VInt 9] []
  = (let w := MkWire 3 0 (VInt 255) (VInt 255) (VInt 0) (VInt SCP_signal) [(1%nat, 20, 15, 4 + AppDiag_count)]
                     [(FByte, 1%nat, 0, VInt 9)] in [w; w; w], None).
Proof. vm_compute. reflexivity. Qed.

(* An observation the prescription makes explicit (rd rsf_p / rd read_p): get_processor_status(5) inside
   `with c(x=1, y=2, p=3)`.  The caller's p = 5 selects the address (which core's record is read); the two
   reads themselves are calls of read_struct_field / read that do not pass p on, so THEIR core argument is
   resolved again -- from the context (3), not the monitor core 0 they get when no context sets p. *)
Lemma ex_nested_core_instance :
  call FUEL (MkCtl None None None [] []) "MC" "get_processor_status"
       [[("app_id", VInt 66)]; [("x", VInt 1); ("y", VInt 2); ("p", VInt 3)]] [VInt 5] []
  = ([MkWire 0 1 (VInt 1) (VInt 2) (VInt 3) VNone [] []; MkWire 0 1 (VInt 1) (VInt 2) (VInt 3) VNone [] []], None).
Proof. vm_compute. reflexivity. Qed.

(* a Ctrl-C while the stop command of an application block is being sent, caught further out; and a block
   whose exit callback raises: in both cases the commands that follow carry the outer arguments again *)
Lemma ex_interrupt_instance :
  run_ops ex_ctl "MC"
    [ OTry [ OApp [VInt 17] [] [ OWithCb [("app_id", VInt 30)] [ OCall "sdram_free" [VInt 4; VInt 1; VInt 2] [] false ] ] true ];
      OCall "send_signal" [stop_signal] [] false ] [[("app_id", VInt 66)]]
  = ([EvCall "sdram_free" ([MkWire 1 0 (VInt 1) (VInt 2) (VInt 0) (VInt SCP_alloc_free)
                                   [(0%nat, 0, 255, Alloc_free_sdram_by_ptr)] []], None);
      EvStop ([stop_wire 3 (VInt 17)], Some IntrErr);
      EvCall "send_signal" ([stop_wire 3 (VInt 66)], None)],
     [[("app_id", VInt 66)]], false).
Proof. vm_compute. reflexivity. Qed.
