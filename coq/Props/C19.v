(* C19 -- SpiNN-5 board geometry functions agree with the board tiling. *)
From Coq Require Import ZArith List Bool.
Require Import Rig.Generated.GenBoardTables Rig.Generated.GenBoard Rig.Model.Base Rig.Model.Board Rig.Spec.Board Rig.Proofs.Board.
Import ListNotations.
Open Scope Z_scope.

Theorem C19_eth_table_is_12x12 :
  length SPINN5_ETH_OFFSET = 12%nat /\ Forall (fun r => length r = 12%nat) SPINN5_ETH_OFFSET.
Proof. exact eth_table_is_12x12. Qed.
