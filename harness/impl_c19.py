"""Drive rig's SpiNN-5 board geometry functions on JSON-described cases (run by /venv/bin/python,
PYTHONPATH=<repo>:/verif/harness).  No expectation is computed here: outputs only."""
from rig import geometry
from rig.links import Links


def enc_fpga(r):
    if r is None:
        return -1
    f, n = r
    return int(f) * 65536 + int(n)


def plain(v):
    """Return value -> JSON (tuples of ints, None)."""
    if v is None:
        return None
    return [int(a) for a in v]


def typed(c):
    """Arguments are Python ints unless the case names a numpy dtype (then numpy scalars of that dtype)."""
    if c.get("dtype"):
        import numpy as np
        return np.dtype(c["dtype"]).type
    return int


def machine(c):
    T = typed(c)
    w, h, rx, ry = T(c["w"]), T(c["h"]), T(c["rx"]), T(c["ry"])
    root = () if c.get("defaults") else (rx, ry)
    out = []
    raw_fpga = []
    for x in map(T, range(c["w"])):
        for y in map(T, range(c["h"])):
            ex, ey = geometry.spinn5_local_eth_coord(x, y, w, h, *root)
            bx, by = geometry.spinn5_chip_coord(x, y, *root)
            out += [int(ex), int(ey), int(bx), int(by)]
            for l in Links:
                r = geometry.spinn5_fpga_link(x, y, l, *root)
                out.append(enc_fpga(r))
                if r is not None:
                    raw_fpga.append([int(x), int(y), int(l), plain(r)])
    # the list of Ethernet chips is asked for with Python ints (with narrow numpy scalars width + 11
    # leaves the dtype for widths near its limit; narrow arguments in their domain are separate cases)
    eth = [plain(e) for e in geometry.spinn5_eth_coords(c["w"], c["h"], *(() if c.get("defaults") else (c["rx"], c["ry"])))]
    return ["ok", out, eth, raw_fpga]


def point(c):
    f, T = c["f"], typed(c)
    a = [T(v) for v in c["args"]]
    if f == "local":
        return ["ok", plain(geometry.spinn5_local_eth_coord(*a))]
    if f == "chip":
        return ["ok", plain(geometry.spinn5_chip_coord(*a))]
    if f == "fpga":
        x, y, l, rx, ry = a
        l = c["args"][2]
        try:
            l = Links(l)            # callers pass enum members; other integers go in as they are
        except ValueError:
            pass
        return ["ok", plain(geometry.spinn5_fpga_link(x, y, l, rx, ry))]
    if f == "eth":
        return ["ok", [plain(e) for e in geometry.spinn5_eth_coords(*a)]]
    raise KeyError(f)


def dimsrange(c):
    out = []
    for k in range(c["lo"], c["hi"]):
        w, h = geometry.standard_system_dimensions(3 * k)
        out += [int(w), int(h)]
    return ["ok", out]


def history(c):
    """A sequence of calls in this one interpreter, including generators of spinn5_eth_coords that are
    abandoned or consumed piecemeal.  One result per operation; nothing is judged here."""
    gens = {}
    res = []
    for op in c["ops"]:
        kind, a = op[0], op[1:]
        try:
            if kind == "eth_full":
                res.append(["ok", [plain(e) for e in geometry.spinn5_eth_coords(*a)]])
            elif kind == "eth_take":                       # next() n times, then the generator is dropped
                g = geometry.spinn5_eth_coords(*a[:4])
                got = []
                for _ in range(a[4]):
                    try:
                        got.append(plain(next(g)))
                    except StopIteration:
                        break
                res.append(["ok", got])
            elif kind == "eth_in":                         # membership test stops at the first match
                res.append(["ok", (a[4], a[5]) in geometry.spinn5_eth_coords(*a[:4])])
            elif kind == "eth_break":                      # search loop left with break
                got = []
                for e in geometry.spinn5_eth_coords(*a[:4]):
                    got.append(plain(e))
                    if len(got) >= a[4]:
                        break
                res.append(["ok", got])
            elif kind == "eth_open":                       # a generator kept alive under a name
                gens[a[0]] = geometry.spinn5_eth_coords(*a[1:5])
                res.append(["ok", None])
            elif kind == "eth_next":
                got = []
                for _ in range(a[1]):
                    try:
                        got.append(plain(next(gens[a[0]])))
                    except StopIteration:
                        break
                res.append(["ok", got])
            elif kind == "eth_drain":
                res.append(["ok", [plain(e) for e in gens.pop(a[0])]])
            elif kind in ("local", "chip", "fpga"):
                res.append(point(dict(f=kind, args=a)))
            elif kind == "dims":
                res.append(["ok", plain(geometry.standard_system_dimensions(a[0]))])
            else:
                raise KeyError(kind)
        except ValueError:
            res.append(["fail", 0])
        except Exception as e:
            res.append(["other", type(e).__name__])
    return ["ok", res]


def threads(c):
    """Several threads call the lookup functions in tight loops, each on its own list of calls; every
    result is compared with the value given for that call (computed beforehand by the harness from the
    board description) and with the value the same call returned single-threaded at the start."""
    import signal
    import sys
    import threading
    import time
    # this case runs for c["seconds"] of wall time on several threads (and then a traced deterministic part): lift
    # the per-case CPU-time limit of implutil.run_cases accordingly (it is re-armed for the next case)
    signal.setitimer(signal.ITIMER_PROF, 10 * c["seconds"] + 120)
    signal.alarm(int(20 * c["seconds"]) + 600)
    fns = dict(chip=geometry.spinn5_chip_coord, local=geometry.spinn5_local_eth_coord,
               fpga=lambda x, y, l, rx, ry: geometry.spinn5_fpga_link(x, y, Links(l), rx, ry))

    def shape(f, r):                          # what the given expectation speaks about
        return (r is not None) if f == "fpga" else tuple(int(v) for v in r)
    lists = [[(f, tuple(a), tuple(e) if isinstance(e, list) else e, fns[f](*a)) for f, a, e in calls]
             for calls in c["calls"]]
    first = [[f, list(a), plain(ref) if ref is not None else None]
             for calls in lists for f, a, e, ref in calls]
    bad, counts = [], [0] * len(lists)
    stop = time.time() + c["seconds"]
    old = sys.getswitchinterval()

    def work(k):
        mine, n = lists[k], 0
        while time.time() < stop and len(bad) < 8:
            for f, a, e, ref in mine:
                r = fns[f](*a)
                n += 1
                if r != ref or shape(f, r) != e:
                    bad.append([f, list(a), plain(r) if r is not None else None,
                                plain(ref) if ref is not None else None, "free-running threads"])
        counts[k] = n
    sys.setswitchinterval(1e-6)
    try:
        ts = [threading.Thread(target=work, args=(k,)) for k in range(len(lists))]
        for t in ts:
            t.start()
        for t in ts:
            t.join()
    finally:
        sys.setswitchinterval(old)
    # systematic part: one preemption at every line.  Thread A (this thread, traced from outside with
    # sys.settrace; no source hook) stops at the k-th line event inside rig/geometry.py while thread B makes
    # one complete call; afterwards both calls are repeated.  Every result is compared as above.
    geo = geometry.__file__.replace(".pyc", ".py")
    pick = [calls[0] for calls in lists] + [calls[1] for calls in lists]
    n_sched = 0
    for fa, aa, ea, refa in pick:
        for fb, ab, eb, refb in pick:
            if (fa, aa) == (fb, ab) or "local" in (fa, fb):
                continue
            k = 0
            while k < 40 and len(bad) < 8:
                k += 1
                seen = [0]
                got_b = []

                def local_trace(frame, event, arg):
                    if event == "line":
                        seen[0] += 1
                        if seen[0] == k:
                            t = threading.Thread(target=lambda: got_b.append(fns[fb](*ab)))
                            t.start()
                            t.join()
                    return local_trace

                def global_trace(frame, event, arg):
                    return local_trace if frame.f_code.co_filename == geo else None
                fns[fa](*aa)                                   # warm: the call under test repeats a call
                sys.settrace(global_trace)
                try:
                    ra = fns[fa](*aa)
                finally:
                    sys.settrace(None)
                n_sched += 1
                after = [(fb, ab, eb, refb, fns[fb](*ab)), (fa, aa, ea, refa, fns[fa](*aa))]
                for f, a, e, ref, r in [(fa, aa, ea, refa, ra)] + [(fb, ab, eb, refb, g) for g in got_b] + after:
                    if r != ref or shape(f, r) != e:
                        bad.append([f, list(a), plain(r) if r is not None else None,
                                    plain(ref) if ref is not None else None,
                                    "%s%r stopped at its line event %d while another thread called %s%r; then both repeated"
                                    % (fa, tuple(aa), k, fb, tuple(ab))])
                if seen[0] < k:
                    break                                      # the call has fewer line events than k
    counts.append(n_sched)
    return ["ok", first, bad[:8], sum(counts)]


def run_case(c):
    try:
        if c["k"] == "threads":
            return threads(c)
        if c["k"] == "history":
            return history(c)
        if c["k"] == "dimsrange":
            return dimsrange(c)
        if c["k"] == "machine":
            return machine(c)
        if c["k"] == "point":
            return point(c)
        if c["k"] == "dims":
            return ["ok", plain(geometry.standard_system_dimensions(typed(c)(c["n"])))]
    except ValueError:
        return ["fail", 0]
    except Exception as e:
        return ["other", type(e).__name__]
    raise KeyError(c["k"])


if __name__ == "__main__":
    import implutil
    implutil.run_cases(run_case, per_case_s=20)
