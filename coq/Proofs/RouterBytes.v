(* C10 -- little-endian fields, struct.pack / unpack round trip, the staging buffer built by the packing loop *)
From Coq Require Import ZArith List Bool Lia.
Require Import Rig.Model.Base Rig.Generated.GenRouter Rig.Model.Tables Rig.Model.Router.
Require Import Rig.Spec.Router Rig.Proofs.RouterWord.
Import ListNotations.
Open Scope Z_scope.

Ltac Zify.zify_post_hook ::= Z.to_euclidean_division_equations.

(* ------------------------------------------------------------------------------------------------ *)
(** * lists *)

Lemma len_app : forall {A} (a b : list A), len (a ++ b) = len a + len b.
Proof. intros. unfold len. rewrite app_length, Nat2Z.inj_add. reflexivity. Qed.

Lemma len_nonneg : forall {A} (l : list A), 0 <= len l.
Proof. intros. unfold len. lia. Qed.

Lemma len_repeat : forall {A} (x : A) n, len (repeat x n) = Z.of_nat n.
Proof. intros. unfold len. rewrite repeat_length. reflexivity. Qed.

Lemma firstn_app_exact : forall {A} (a b : list A) n, n = length a -> firstn n (a ++ b) = a.
Proof.
  intros A a b n ->. rewrite firstn_app, Nat.sub_diag, firstn_all. simpl. apply app_nil_r.
Qed.

Lemma skipn_app_exact : forall {A} (a b : list A) n, n = length a -> skipn n (a ++ b) = b.
Proof.
  intros A a b n ->. rewrite skipn_app, Nat.sub_diag, skipn_all. reflexivity.
Qed.

(* ------------------------------------------------------------------------------------------------ *)
(** * le_bytes / le_value *)

Lemma le_bytes_S : forall n v, le_bytes (S n) v = (v mod 256) :: le_bytes n (v / 256).
Proof.
  intros n v. simpl. f_equal.
  - change 255 with (Z.ones 8). rewrite Z.land_ones by lia. reflexivity.
  - rewrite Z.shiftr_div_pow2 by lia. reflexivity.
Qed.

Lemma le_bytes_length : forall n v, length (le_bytes n v) = n.
Proof. induction n as [|n IH]; intros v; simpl; [reflexivity|]. rewrite IH. reflexivity. Qed.

Lemma le_value_cons : forall b r, le_value (b :: r) = b + 256 * le_value r.
Proof. reflexivity. Qed.

Lemma le_value_bytes : forall n v, 0 <= v < 2 ^ (8 * Z.of_nat n) -> le_value (le_bytes n v) = v.
Proof.
  induction n as [|n IH]; intros v Hv.
  - simpl in *. lia.
  - rewrite le_bytes_S, le_value_cons.
    rewrite IH.
    + pose proof (Z.div_mod v 256 ltac:(lia)). lia.
    + replace (8 * Z.of_nat (S n)) with (8 + 8 * Z.of_nat n) in Hv by lia.
      rewrite Z.pow_add_r in Hv by lia. change (2 ^ 8) with 256 in Hv.
      split; [apply Z.div_pos; lia|].
      apply Z.div_lt_upper_bound; lia.
Qed.

Lemma le_bytes_range : forall n v b, In b (le_bytes n v) -> 0 <= b < 256.
Proof.
  induction n as [|n IH]; intros v b H.
  - contradiction.
  - rewrite le_bytes_S in H. destruct H as [<-|H].
    + apply Z.mod_pos_bound. lia.
    + eapply IH. exact H.
Qed.

(* ------------------------------------------------------------------------------------------------ *)
(** * pack_fields / unpack_fields *)

Lemma fits_range : forall s v, fits s v = true -> 0 <= v < 2 ^ (8 * s).
Proof. intros s v H. unfold fits in H. apply andb_prop in H. destruct H as [H1 H2]. lia. Qed.

Lemma pack_fields_cons_ok : forall s ss v vs r,
  fits s v = true -> pack_fields ss vs = Some r ->
  pack_fields (s :: ss) (v :: vs) = Some (le_bytes (Z.to_nat s) v ++ r).
Proof. intros s ss v vs r H H0. cbn [pack_fields]. rewrite H, H0. reflexivity. Qed.

Lemma pack_fields_length : forall sizes vals bs,
  Forall (fun s => 0 <= s) sizes ->
  pack_fields sizes vals = Some bs -> len bs = fold_right Z.add 0 sizes.
Proof.
  induction sizes as [|s ss IH]; intros vals bs Hs H; destruct vals as [|v vs]; simpl in H; try discriminate.
  - injection H as <-. reflexivity.
  - destruct (fits s v) eqn:Hf; [|discriminate].
    destruct (pack_fields ss vs) as [r|] eqn:Hr; [|discriminate].
    injection H as <-. inversion Hs as [|? ? Hs0 Hss]; subst.
    rewrite len_app. change (fold_right Z.add 0 (s :: ss)) with (s + fold_right Z.add 0 ss).
    rewrite (IH vs r Hss Hr).
    unfold len. rewrite le_bytes_length. lia.
Qed.

Lemma unpack_pack_fields : forall sizes vals bs,
  Forall (fun s => 0 <= s) sizes ->
  pack_fields sizes vals = Some bs -> unpack_fields sizes bs = vals.
Proof.
  induction sizes as [|s ss IH]; intros vals bs Hs H; destruct vals as [|v vs]; simpl in H; try discriminate.
  - reflexivity.
  - destruct (fits s v) eqn:Hf; [|discriminate].
    destruct (pack_fields ss vs) as [r|] eqn:Hr; [|discriminate].
    injection H as <-. inversion Hs as [|? ? Hs0 Hss]; subst.
    change (unpack_fields (s :: ss) (le_bytes (Z.to_nat s) v ++ r))
      with (le_value (firstn (Z.to_nat s) (le_bytes (Z.to_nat s) v ++ r))
            :: unpack_fields ss (skipn (Z.to_nat s) (le_bytes (Z.to_nat s) v ++ r))).
    rewrite firstn_app_exact by (rewrite le_bytes_length; reflexivity).
    rewrite skipn_app_exact by (rewrite le_bytes_length; reflexivity).
    rewrite le_value_bytes.
    + f_equal. exact (IH vs r Hss Hr).
    + apply fits_range in Hf. rewrite Z2Nat.id by assumption. exact Hf.
Qed.

(* ------------------------------------------------------------------------------------------------ *)
(** * one record *)

Lemma rec_bytes_length : forall i e, length (rec_bytes i e) = 16%nat.
Proof. intros. unfold rec_bytes. rewrite !app_length, !le_bytes_length. reflexivity. Qed.

Lemma route_word_24_32 : forall rs, (forall r, In r rs -> 0 <= r < 24) -> 0 <= route_word rs < 2 ^ 32.
Proof.
  intros rs H. pose proof (route_word_bound rs 24 ltac:(lia) H) as B.
  assert (2 ^ 24 < 2 ^ 32) by (apply Z.pow_lt_mono_r; lia). lia.
Qed.

Lemma pack_record : forall i e,
  0 <= i < 2 ^ 16 -> entry_ok e ->
  pack_fields rte_field_sizes (lrte_rec_values i (route_word (e_route e)) (e_key e) (e_mask e))
  = Some (rec_bytes i e).
Proof.
  intros i e Hi [Hr [Hk Hm]].
  pose proof (route_word_24_32 _ Hr) as Hw.
  assert (F : forall s v, 0 <= v < 2 ^ (8 * s) -> fits s v = true).
  { intros s v Hv. unfold fits. apply andb_true_intro. split; [apply Z.leb_le|apply Z.ltb_lt]; lia. }
  unfold rte_field_sizes, lrte_rec_values.
  change (rec_bytes i e) with
    (le_bytes (Z.to_nat 2) i ++ le_bytes (Z.to_nat 2) 0 ++ le_bytes (Z.to_nat 4) (route_word (e_route e))
     ++ le_bytes (Z.to_nat 4) (e_key e) ++ le_bytes (Z.to_nat 4) (e_mask e) ++ []).
  change (8 * 4) with 32 in F || idtac.
  apply pack_fields_cons_ok; [apply F; change (8 * 2) with 16; lia|].
  apply pack_fields_cons_ok; [apply F; change (8 * 2) with 16; lia|].
  apply pack_fields_cons_ok; [apply F; change (8 * 4) with 32; lia|].
  apply pack_fields_cons_ok; [apply F; change (8 * 4) with 32; lia|].
  apply pack_fields_cons_ok; [apply F; change (8 * 4) with 32; lia|].
  reflexivity.
Qed.

Lemma unpack_record : forall i e,
  0 <= i < 2 ^ 16 -> entry_ok e ->
  unpack_fields [2; 2; 4; 4; 4] (rec_bytes i e) = [i; 0; route_word (e_route e); e_key e; e_mask e].
Proof.
  intros i e Hi He.
  change [2; 2; 4; 4; 4] with rte_field_sizes.
  change [i; 0; route_word (e_route e); e_key e; e_mask e]
    with (lrte_rec_values i (route_word (e_route e)) (e_key e) (e_mask e)).
  apply unpack_pack_fields.
  - unfold rte_field_sizes. repeat constructor; lia.
  - apply pack_record; assumption.
Qed.

(* ------------------------------------------------------------------------------------------------ *)
(** * the packing loop builds the concatenation of the records *)

Lemma recs_from_length : forall es i, length (recs_from i es) = length es.
Proof. induction es as [|e es IH]; intros i; simpl; [reflexivity|]. rewrite IH. reflexivity. Qed.

Lemma concat_recs_length : forall es i, length (concat (recs_from i es)) = (16 * length es)%nat.
Proof.
  induction es as [|e es IH]; intros i; [reflexivity|].
  cbn [recs_from concat]. rewrite app_length, rec_bytes_length, IH. cbn [length]. lia.
Qed.

Lemma write_at_middle : forall (pre bs post : list Z) off,
  off = len pre ->
  write_at off bs (pre ++ repeat 0 (length bs) ++ post) = Some (pre ++ bs ++ post).
Proof.
  intros pre bs post off ->. unfold write_at.
  assert (Hle : (0 <=? len pre) && (len pre + len bs <=? len (pre ++ repeat 0 (length bs) ++ post)) = true).
  { apply andb_true_intro. split; [apply Z.leb_le, len_nonneg|].
    apply Z.leb_le. rewrite !len_app, len_repeat. pose proof (len_nonneg post). unfold len. lia. }
  rewrite Hle. f_equal.
  rewrite firstn_app_exact by (unfold len; rewrite Nat2Z.id; reflexivity).
  f_equal. f_equal.
  replace (Z.to_nat (len pre + len bs)) with (length pre + length bs)%nat by (unfold len; lia).
  rewrite skipn_app.
  replace (length pre + length bs - length pre)%nat with (length bs) by lia.
  rewrite skipn_all2 by lia. simpl.
  apply skipn_app_exact. rewrite repeat_length. reflexivity.
Qed.

Lemma pack_loop_spec : forall es i pre,
  0 <= i -> i + len es <= 2 ^ 16 -> Forall entry_ok es ->
  len pre = 16 * i ->
  pack_loop i es (pre ++ repeat 0 (16 * length es)) = Some (pre ++ concat (recs_from i es)).
Proof.
  induction es as [|e es IH]; intros i pre Hi Hn Hok Hpre.
  - simpl. reflexivity.
  - inversion Hok as [|? ? He Hes]; subst.
    cbn [pack_loop].
    assert (Hneg : existsb (fun r => r <? 0) (e_route e) = false).
    { destruct He as [Hr _]. apply not_true_is_false. intros Hx.
      apply existsb_exists in Hx. destruct Hx as [r [Hin Hlt]]. apply Hr in Hin. lia. }
    rewrite Hneg.
    unfold len in Hn. cbn [length] in Hn. rewrite Nat2Z.inj_succ in Hn.
    rewrite pack_record by (try assumption; lia).
    replace (16 * length (e :: es))%nat with (16 + 16 * length es)%nat by (cbn [length]; lia).
    rewrite repeat_app.
    replace 16%nat with (length (rec_bytes i e)) at 1 by apply rec_bytes_length.
    rewrite write_at_middle by (unfold lrte_rec_offset; lia).
    replace (pre ++ rec_bytes i e ++ repeat 0 (16 * length es))
      with ((pre ++ rec_bytes i e) ++ repeat 0 (16 * length es)) by (rewrite app_assoc; reflexivity).
    rewrite IH.
    + cbn [recs_from concat]. rewrite app_assoc. reflexivity.
    + lia.
    + unfold len. lia.
    + assumption.
    + rewrite len_app. unfold len at 2. rewrite rec_bytes_length. lia.
Qed.

Lemma pack_entries_spec : forall es,
  len es <= 2 ^ 16 -> Forall entry_ok es ->
  pack_entries es = Some (concat (recs_from 0 es)).
Proof.
  intros es Hn Hok. unfold pack_entries, lrte_data_len.
  replace (Z.to_nat (16 * len es)) with (16 * length es)%nat by (unfold len; lia).
  apply (pack_loop_spec es 0 []); try assumption; try lia. reflexivity.
Qed.

(* ------------------------------------------------------------------------------------------------ *)
(** * cutting a byte string into records *)

Lemma chunks_concat : forall (l : list (list Z)) n fuel,
  (0 < n)%nat -> Forall (fun c => length c = n) l -> (length l <= fuel)%nat ->
  chunks fuel n (concat l) = l.
Proof.
  induction l as [|c l IH]; intros n fuel Hn Hl Hf.
  - destruct fuel; reflexivity.
  - inversion Hl as [|? ? Hc Hl']; subst.
    destruct fuel as [|fuel]; [simpl in Hf; lia|].
    simpl concat. simpl chunks.
    destruct (c ++ concat l) eqn:E.
    + destruct c; [simpl in Hn; lia|discriminate].
    + rewrite <- E. rewrite firstn_app_exact by reflexivity.
      rewrite skipn_app_exact by reflexivity.
      f_equal. apply IH; try assumption. simpl in Hf. lia.
Qed.
