#!/usr/bin/env python3
"""Print the markdown table of seeded changes (seeded/*/meta.json) for DESIGN.md section 8.6."""
import json, os, glob
V = os.path.dirname(os.path.dirname(os.path.abspath(__file__)))
print("| seed | change (site) | needs | caught by (quick tier unless stated) |")
print("|---|---|---|---|")
for d in sorted(glob.glob(os.path.join(V, "seeded", "*"))):
    m = json.load(open(os.path.join(d, "meta.json")))
    res = []
    for p, c in sorted(m.get("checks", {}).items()):
        v = [l for l in c["output"] if l.startswith("VIOLATION")]
        if v:
            res.append("%s: %s" % (p, "failing input" if "no-failing-input-found" not in v[0] else "proof/correspondence broken, no-failing-input-found"))
        else:
            res.append("%s: not caught" % p)
    extra = m.get("later", "")
    s = (m.get("summary") or "").replace("|", "/").replace("\n", " ")
    n = (m.get("needs") or "").replace("|", "/").replace("\n", " ")
    print("| %s | %s | %s | %s%s |" % (os.path.basename(d), s[:230], n[:200], "; ".join(res), (" — " + extra) if extra else ""))
