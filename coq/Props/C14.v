(* C14 -- placeholder while the harness is being built; replaced by the property theorems. *)
From Coq Require Import ZArith String List Bool.
Require Import Rig.Generated.GenProbe Rig.Model.Base Rig.Model.Probe.
Import ListNotations.
Open Scope Z_scope.

Example C14_info_format_parses :
  parse_format ci_data_format = Some (repeat (FInt 1) 18 ++ [FInt 2; FInt 4]).
Proof. reflexivity. Qed.
