(* Shared definitions of the executable models: outcomes, association lists. No proofs here. *)
From Coq Require Import ZArith List Bool.
Import ListNotations.
Open Scope Z_scope.

(* Outcome of a modelled call.  [Failed k] is a documented exception of the library (k numbers the
   class); [OtherError] is any other Python exception (KeyError, IndexError, ZeroDivisionError, ...);
   [OutOfFuel] is the model's own loop bound, which the theorems prove unreachable. *)
Inductive result (A : Type) : Type :=
| Ok (a : A)
| Failed (k : Z)
| OtherError
| OutOfFuel.
Arguments Ok {A} a.
Arguments Failed {A} k.
Arguments OtherError {A}.
Arguments OutOfFuel {A}.

Definition bind {A B} (r : result A) (f : A -> result B) : result B :=
  match r with
  | Ok a => f a
  | Failed k => Failed k
  | OtherError => OtherError
  | OutOfFuel => OutOfFuel
  end.

Definition chip := (Z * Z)%type.
Definition chip_eqb (a b : chip) : bool := (fst a =? fst b) && (snd a =? snd b).

Fixpoint zassoc {A} (k : Z) (l : list (Z * A)) : option A :=
  match l with
  | [] => None
  | (k', v) :: l' => if k =? k' then Some v else zassoc k l'
  end.

Fixpoint cassoc {A} (k : chip) (l : list (chip * A)) : option A :=
  match l with
  | [] => None
  | (k', v) :: l' => if chip_eqb k k' then Some v else cassoc k l'
  end.

(* dict update keeping the position of an existing key (Python dict semantics) *)
Fixpoint zupdate {A} (k : Z) (v : A) (l : list (Z * A)) : list (Z * A) :=
  match l with
  | [] => [(k, v)]
  | (k', v') :: l' => if k =? k' then (k, v) :: l' else (k', v') :: zupdate k v l'
  end.

Definition chip_mem (c : chip) (l : list chip) : bool := existsb (chip_eqb c) l.
