"""C12 -- flood-fill regions: theorems (Props/C12.v) + correspondence of the Gallina model with
rig.machine_control.regions (compress_flood_fill_regions, RegionCoreTree, get_region_for_chip) +
an independent oracle that expands every emitted (region, core mask) pair into the cores it selects."""
import json
import os
import time

import lib
from lib import zlit, vlist

LEVEL = "proof"
UNITS = ["GenRegions", "GenRegionsFill"]

HEADER = ("From Coq Require Import ZArith List. Import ListNotations. Open Scope Z_scope.\n"
          "Require Import Rig.Generated.GenRegions Rig.Generated.GenRegionsFill Rig.Model.Base Rig.Model.Regions Rig.Model.RegionsFill.\n"
          # insertion sequences are written as one hexadecimal number, 6 digits per core (x, y, p), after a
          # leading 1 (parsing a list of tens of thousands of decimal literals dominates the run otherwise)
          "Definition unpack_step (s : Z * list core) : Z * list core :=\n"
          "  let z := fst s in (Z.shiftr z 24, (Z.land (Z.shiftr z 16) 255, Z.land (Z.shiftr z 8) 255, Z.land z 255) :: snd s).\n"
          "Definition unpack (n z : Z) : list core :=\n"
          "  match n with Zpos p => snd (Pos.iter unpack_step (z, []) p) | _ => [] end.\n"
          # exhaustive 4 x 4 enumeration (thorough tier): the same insertion sequence as the driver builds
          "Definition enum_b (cls mask i : Z) : bool :=\n"
          "  if cls =? 0 then false else if cls =? 1 then Z.testbit mask i else if cls =? 2 then negb (Z.testbit mask i) else true.\n"
          "Definition enum_cores (bx by_ a b cls mask : Z) : list core :=\n"
          "  flat_map (fun i => (if Z.testbit mask i then [(bx + i mod 4, by_ + i / 4, a)] else [])\n"
          "                     ++ (if enum_b cls mask i then [(bx + i mod 4, by_ + i / 4, b)] else []))\n"
          "           [0;1;2;3;4;5;6;7;8;9;10;11;12;13;14;15].\n"
          "Fixpoint zlist_eqb (a b : list Z) : bool :=\n"
          "  match a, b with [], [] => true | x :: a', y :: b' => (x =? y) && zlist_eqb a' b' | _, _ => false end.\n"
          "Fixpoint enum_check (bx by_ a b cls mask : Z) (expected : list (list Z)) : bool :=\n"
          "  match expected with\n"
          "  | [] => true\n"
          "  | e :: rest =>\n"
          "      match compress (enum_cores bx by_ a b cls mask) with\n"
          "      | Ok out => zlist_eqb (map (fun rc => fst rc * 262144 + snd rc) out) e\n"
          "      | _ => false\n"
          "      end && enum_check bx by_ a b cls (mask + 1) rest\n"
          "  end.\n")


# ------------------------------------------------------------------ independent oracle
# The documented meaning of a region word, written here from the documentation (module docstring,
# get_region_for_chip's docstring/comments) with arithmetic only; it shares nothing with the Gallina
# model nor with add_core.
def word_fields(w):
    level = (w // 65536) % 4
    bx = (w // (1 << 24)) % 256
    by = (w // 65536) % 256 - level
    return level, bx, by, w % 65536


def chips_of_word(w):
    """The chips selected by region word w, as a list (a chip can occur at most once)."""
    level, bx, by, blocks = word_fields(w)
    side = 4 ** (3 - level)            # side of one of the 16 sub-blocks
    if bx % (4 * side) or by % (4 * side):
        return []                      # no chip has these truncated coordinates: the word matches nothing
    out = []
    for j in range(4):
        for i in range(4):
            if (blocks >> (i + 4 * j)) & 1:
                x0, y0 = bx + i * side, by + j * side
                out.extend((x, y) for x in range(x0, x0 + side) for y in range(y0, y0 + side))
    return out


def oracle_compress(targets, out):
    """targets: {(x, y): set(p)} (all inside the core space); out: the driver's result.
    -> None or (key, sentence)."""
    if out[0] == "hang":
        return ("compress:hang", "compress_flood_fill_regions did not return within the time limit")
    if out[0] == "fail":
        return ("compress:valueerror", "ValueError for a target set inside the 256 x 256 x 18 core space")
    if out[0] == "other":
        return ("compress:exception", "raised %s for a target set inside the core space" % out[1])
    pairs = [tuple(p) for p in out[2]]
    got = {}                            # chip -> OR of the masks that select it
    for w, m in pairs:
        if not (0 <= w < (1 << 32)):
            return ("compress:word-range", "region %r is not a 32-bit word" % (w,))
        if m < 0 or m >> 18:
            extra = [p for p in range(18, max(19, m.bit_length())) if m >> p & 1] if m > 0 else ["negative"]
            return ("compress:extra", "core mask %#x selects cores %r, which do not exist" % (m, extra))
        for chip in chips_of_word(w):
            seen = got.get(chip, 0)
            if seen & m:
                p = (seen & m).bit_length() - 1
                return ("compress:twice", "core %d of chip %r is selected twice (again by pair (%#x, %#x))"
                        % (p, chip, w, m))
            got[chip] = seen | m
    want = {chip: sum(1 << p for p in ps) for chip, ps in targets.items() if ps}
    for chip, m in got.items():
        extra = m & ~want.get(chip, 0)
        if extra:
            return ("compress:extra", "core %d of chip %r is selected but was not requested"
                    % (extra.bit_length() - 1, chip))
    for chip, m in want.items():
        missing = m & ~got.get(chip, 0)
        if missing:
            return ("compress:missing", "core %d of chip %r was requested but no pair selects it"
                    % (missing.bit_length() - 1, chip))
    for a, b in zip(pairs, pairs[1:]):
        if not a < b:
            return ("compress:order", "pairs not in strictly increasing order: (%#x, %#x) then (%#x, %#x)"
                    % (a + b))
    return None


def oracle_chip(x, y, w):
    """`a single-chip region word selects that chip only`: get_region_for_chip(x, y) (level 3)."""
    if not (0 <= w < (1 << 32)):
        return "get_region_for_chip(%d, %d) = %r is not a 32-bit word" % (x, y, w)
    sel = chips_of_word(w)
    if sel != [(x, y)]:
        return "get_region_for_chip(%d, %d) = %#x selects %r" % (x, y, w, sel[:6])
    return None


# ------------------------------------------------------------------ shrinking a failing target set
def verdict(case, out):
    return oracle_compress({(t[0], t[1]): set(t[2]) for t in case["targets"]}, out)


def shrink(chk, case, key, rounds=14):
    """Greedy delta-debugging of a failing compress case: drop chunks of chips, then single cores, as long
    as the independent oracle still reports the same kind of failure on the implementation's output."""
    cur = [[t[0], t[1], list(t[2])] for t in case["targets"]]
    out = None

    def attempt(cands):
        if not cands:
            return None
        res = chk.impl("impl_c12.py", [dict(case, targets=c) for c in cands], timeout=600)
        best = None
        for c, o in zip(cands, res):
            w = verdict(dict(targets=c), o)
            if w and w[0] == key and (best is None or len(c) < len(best[0])):
                best = (c, o, w)
        return best
    for _ in range(rounds):
        n = len(cur)
        if n <= 1:
            break
        cands = []
        for k in (2, 4, 8, 16, 32):
            if k > n:
                break
            size = (n + k - 1) // k
            chunks = [cur[i:i + size] for i in range(0, n, size)]
            cands += chunks + [sum(chunks[:i] + chunks[i + 1:], []) for i in range(len(chunks))]
        if n <= 40:
            cands += [cur[:i] + cur[i + 1:] for i in range(n)]
        cands = [c for c in cands if 0 < len(c) < n][:160]
        budget, kept = 400000, []           # bound the size of one batch (whole-machine cases)
        for c in cands:
            if len(c) <= budget:
                kept.append(c)
                budget -= len(c)
        cands = kept
        best = attempt(cands)
        if best is None:
            break
        cur, out = best[0], best[1]
    for _ in range(8):
        if len(cur) > 300:
            break
        cands = []
        for i, t in enumerate(cur):
            for p in sorted(set(t[2])):
                rest = [q for q in t[2] if q != p]
                cands.append(cur[:i] + ([[t[0], t[1], rest]] if rest else []) + cur[i + 1:])
        best = attempt([c for c in cands if c][:300])
        if best is None:
            break
        cur, out = best[0], best[1]
    if out is None:
        return None
    return dict(case, targets=cur, tags=case.get("tags", []) + ["shrunk"]), out


def judge_call(c, o):
    """(key, sentence) or None for one call of a history, by the independent oracle."""
    if c["mode"] == "compress":
        return verdict(c, o) if c.get("valid", True) else None
    if c["mode"] == "tree" and c["level"] == 0 and o[0] == "ok":
        targets = {}
        for x, y, p in c["adds"]:
            targets.setdefault((x, y), set()).add(p)
        w = oracle_compress(targets, ["ok", None, sorted(tuple(q) for q in o[2])])
        return ("tree-" + w[0], w[1]) if w else None
    return None


def shrink_history(chk, hist, idx, key):
    """The failing call with as few of the earlier calls as still make it fail (same kind of failure)."""
    calls = [clean(c) for c in hist["calls"][:idx + 1]]
    best = None
    cands = [[calls[-1]]] + [[c, calls[-1]] for c in calls[:-1]] + [calls[:i] + calls[i + 1:] for i in range(len(calls) - 1)]
    cands = [c for c in cands if len(c) < len(calls)]
    try:
        res = chk.impl("impl_c12.py", [dict(mode="history", calls=c) for c in cands], timeout=600) if cands else []
    except Exception:
        res = []
    for c, o in zip(cands, res):
        if o[0] == "ok":
            w = judge_call(c[-1], o[1][-1])
            if w and w[0] == key and (best is None or len(c) < len(best[0])):
                best = (c, o[1][-1], w)
    if best is None:
        o = chk.impl("impl_c12.py", [dict(mode="history", calls=calls)], timeout=600)[0]
        w = judge_call(calls[-1], o[1][-1]) if o[0] == "ok" else None
        return dict(mode="history", calls=calls), (o[1][-1] if o[0] == "ok" else o), w or (key, "(not reproduced when replayed alone)")
    return dict(mode="history", calls=best[0]), best[1], best[2]


# ------------------------------------------------------------------ generator
def block(bx, by, side):
    return [(x, y) for x in range(bx, bx + side) for y in range(by, by + side)]


def rand_cores(rng, lo=1, hi=4):
    return set(rng.sample(range(18), rng.randint(lo, hi)))


def add(t, chips, cores):
    for c in chips:
        if 0 <= c[0] < 256 and 0 <= c[1] < 256:
            t.setdefault(c, set()).update(cores)


def gen_shape(rng, t, kind, heavy):
    """Add one shape to the target map t; returns the tags describing it."""
    if kind == "sparse":
        area = rng.choice([4, 16, 64, 256])
        ox, oy = rng.randrange(0, 256, area), rng.randrange(0, 256, area)
        for _ in range(rng.randint(1, 30)):
            add(t, [(ox + rng.randrange(area), oy + rng.randrange(area))], rand_cores(rng))
        return ["sparse"]
    if kind == "corners":
        for c in rng.sample([(0, 0), (255, 255), (0, 255), (255, 0), (3, 3), (4, 4), (63, 64), (64, 63),
                             (15, 16), (252, 252), (192, 255), (255, 192), (127, 128), (128, 127)],
                            rng.randint(1, 6)):
            add(t, [c], rand_cores(rng))
        return ["corners"]
    if kind == "neighbours":
        # different core sets on neighbouring chips, inside a block and across block boundaries
        b = rng.choice([1, 2, 3, 4, 15, 16, 63, 64, 127, 128, 191, 192, 255])
        o = rng.randrange(256)
        base = rand_cores(rng, 1, 5)
        for k in range(rng.randint(2, 4)):
            cs = set(base)
            for _ in range(rng.randint(1, 2)):
                cs ^= {rng.randrange(18)}
            chip = (b - 1 + k, o) if rng.random() < 0.5 else (o, b - 1 + k)
            add(t, [chip], cs or {0})
        return ["neighbours"]
    # blocks: full / nearly full / straddling, per core
    side = {"full4": 4, "full16": 16, "full64": 64, "full256": 256,
            "straddle4": 4, "straddle16": 16, "straddle64": 64}[kind]
    if kind.startswith("straddle"):
        off = rng.choice([side // 2, 1, side - 1])
        bx = rng.randrange(0, 256 - side, side) + (off if rng.random() < 0.8 else 0)
        by = rng.randrange(0, 256 - side, side) + (off if rng.random() < 0.8 else 0)
        if (bx % side, by % side) == (0, 0):
            bx += off
    else:
        bx, by = rng.randrange(0, 256, side), rng.randrange(0, 256, side)
    chips = block(bx, by, side)
    ncore_full = 1 if side >= 64 else rng.randint(1, 2) if side >= 16 else rng.randint(1, 3)
    full = rand_cores(rng, ncore_full, ncore_full)
    add(t, chips, full)
    tags = [kind]
    r = rng.random()
    if r < 0.75 and (side < 64 or heavy):
        # the same block nearly full for other cores: missing one chip, one sub-block, or a few chips
        others = set(rng.sample(sorted(set(range(18)) - full), 1 if side >= 64 else rng.randint(1, 2)))
        how = rng.choice(["chip", "sub", "few"])
        if how == "chip":
            hole = {rng.choice(chips)}
        elif how == "sub" and side > 4:
            s = side // 4
            hx, hy = bx + s * rng.randrange(4), by + s * rng.randrange(4)
            hole = set(block(hx, hy, s))
        else:
            hole = set(rng.sample(chips, rng.randint(2, 4)))
        add(t, [c for c in chips if c not in hole], others)
        tags.append("nearly-full-other-core")
    if rng.random() < 0.4:
        # one chip of the block (or its neighbour) has an extra core
        c = rng.choice(chips)
        add(t, [rng.choice([c, (c[0] + 1, c[1]), (bx - 1, c[1]), (c[0], by + side)])], rand_cores(rng, 1, 2))
        tags.append("extra-core-on-one-chip")
    return tags


QUICK_KINDS = (["sparse"] * 20 + ["corners"] * 5 + ["neighbours"] * 12 + ["full4"] * 25 + ["straddle4"] * 8
               + ["full16"] * 7 + ["straddle16"] * 3)


def gen_case(rng, idx, tier):
    """One compress case: a target map, a container kind and a chip order."""
    t = {}
    tags = []
    r = rng.random()
    if r < 0.012:
        tags += gen_shape(rng, t, rng.choice(["full64", "straddle64"]), heavy=rng.random() < 0.5)
    else:
        for _ in range(rng.choice([1, 1, 1, 2, 2, 3])):
            tags += gen_shape(rng, t, rng.choice(QUICK_KINDS), heavy=False)
    chips = sorted(t)
    order = rng.choice(["sorted", "shuffled", "reversed"])
    if order == "shuffled":
        rng.shuffle(chips)
    elif order == "reversed":
        chips.reverse()
    container = rng.choice(["set", "set", "list"])
    targets = []
    for c in chips:
        ps = sorted(t[c])
        if container == "list":
            ps = ps + [rng.choice(ps) for _ in range(rng.choice([0, 0, 1, 2]))]     # duplicates
            rng.shuffle(ps)
        targets.append([c[0], c[1], ps])
    if rng.random() < 0.06:
        # chips on which nothing is requested (empty core set): no pair may select them
        for _ in range(rng.randint(1, 2)):
            c = (rng.randrange(256), rng.randrange(256))
            if c not in t:
                targets.insert(rng.randint(0, len(targets)), [c[0], c[1], []])
                tags.append("empty-core-set")
    # one case in seven: the caller re-uses its targets dictionary (clears it) between the call and the first look at
    # the pairs -- the pairs must be those of the cores requested by the call
    reuse = len(targets) % 7 == 3
    if reuse:
        tags.append("caller-clears-targets-before-reading-the-pairs")
    return dict(mode="compress", targets=targets, container=container, tags=sorted(set(tags)), order=order,
                valid=True, clear_after_call=reuse)


def gen_blocks_late(rng, small=False):
    """Two or more blocks (4x4 / 16x16, aligned) each completely requested for ONE core, inserted block after
    block, followed by late insertions into them (further cores on the LAST chip of a block, which the loops of
    compress_flood_fill_regions meet after the block has become full) and next to them.  The insertion order
    is the point of the case: container is a list and the chips keep the order chosen here."""
    nblocks = rng.choice([2, 2, 3])
    sides = [rng.choice([4, 16]) if not small else rng.choice([4, 4, 16]) for _ in range(nblocks)]
    if not any(sd == 16 for sd in sides) and rng.random() < 0.7:
        sides[rng.randrange(nblocks)] = 16
    same_core = rng.random() < 0.6
    p0 = rng.randrange(17)
    used, targets, tags = set(), [], ["blocks+late"]
    neighbours = rng.random() < 0.6            # blocks next to each other (same parent) or anywhere
    ax, ay = rng.randrange(0, 256, 64), rng.randrange(0, 256, 64)
    late = []
    for sd in sides:
        for _ in range(20):
            if neighbours:
                bx, by = ax + rng.randrange(0, 64, sd), ay + rng.randrange(0, 64, sd)
            else:
                bx, by = rng.randrange(0, 256, sd), rng.randrange(0, 256, sd)
            chips = block(bx, by, sd)
            if not used & set(chips):
                break
        else:
            continue
        used |= set(chips)
        p = p0 if same_core else rng.randrange(17)
        how = rng.choice(["sorted", "sorted", "shuffled", "reversed"])
        if how == "shuffled":
            rng.shuffle(chips)
        elif how == "reversed":
            chips.reverse()
        for c in chips[:-1]:
            targets.append([c[0], c[1], [p]])
        extra = []
        r = rng.random()
        if r < 0.6:
            extra = [rng.choice([q for q in range(18) if q > p] or [p])]        # a higher-numbered core
        elif r < 0.8:
            extra = rng.sample(range(18), 2)
        last = chips[-1]
        targets.append([last[0], last[1], [p] + [q for q in extra if q != p] + ([p] if rng.random() < 0.2 else [])])
        if rng.random() < 0.5:                  # a chip next to the block, later
            late.append([bx + sd if bx + sd < 256 else bx - 1, by + rng.randrange(sd), [rng.choice([p, rng.randrange(18)])]])
        tags.append("single-core-full%d" % sd)
    seen = {(t[0], t[1]) for t in targets}
    for l in late:
        if (l[0], l[1]) not in seen:
            seen.add((l[0], l[1]))
            targets.append(l)
    return dict(mode="compress", targets=targets, container="list", tags=sorted(set(tags)), order="chosen", valid=True)


def gen_tree_blocks_late(rng):
    """RegionCoreTree(level=0) used directly: single-core full blocks, then late add_core calls anywhere inside
    them (same or other cores), next to them, and duplicates."""
    adds, blocks = [], []
    for _ in range(rng.choice([2, 2, 3])):
        sd = rng.choice([4, 16, 16])
        bx, by = rng.randrange(0, 128, sd), rng.randrange(0, 128, sd)
        p = rng.randrange(18)
        chips = block(bx, by, sd)
        if rng.random() < 0.5:
            rng.shuffle(chips)
        adds += [[x, y, p] for x, y in chips]
        blocks.append((bx, by, sd, p))
    for _ in range(rng.randint(1, 5)):
        bx, by, sd, p = rng.choice(blocks)
        where = rng.choice(["inside", "inside", "next"])
        x, y = (bx + rng.randrange(sd), by + rng.randrange(sd)) if where == "inside" else (min(255, bx + sd), by + rng.randrange(sd))
        adds.append([x, y, rng.choice([p, rng.randrange(18)])])
    return dict(mode="tree", level=0, adds=adds, tags=["blocks+late"])


def gen_history(rng):
    """2-4 calls (compress_flood_fill_regions / RegionCoreTree uses) made one after the other in ONE interpreter.
    Each call is judged on its own and must equal the same call made in a fresh interpreter (= the stateless model)."""
    calls = []
    ncalls = rng.randint(2, 4)
    for k in range(ncalls):
        r = rng.random()
        if k < ncalls - 1 and rng.random() < 0.3:
            c = gen_failing_call(rng)
        elif r < 0.45:
            c = gen_blocks_late(rng, small=rng.random() < 0.5)
        elif r < 0.6:
            c = gen_tree_blocks_late(rng)
        elif r < 0.7:
            c = gen_tree_case(rng)
        else:
            t, tags = {}, []
            for _ in range(rng.choice([1, 1, 2])):
                tags += gen_shape(rng, t, rng.choice(["sparse", "full4", "full4", "full16", "neighbours", "straddle4"]), heavy=False)
            chips = sorted(t)
            if rng.random() < 0.5:
                rng.shuffle(chips)
            c = dict(mode="compress", targets=[[x, y, sorted(t[(x, y)])] for x, y in chips],
                     container=rng.choice(["set", "list"]), tags=sorted(set(tags)), order="sorted", valid=True)
        calls.append(c)
    return dict(mode="history", calls=calls)


WIDE_DTYPES = ["uint16", "int32", "uint32", "int64", "uint64"]
NARROW_DTYPES = ["int16", "uint8", "int8"]      # 1 << 15 does not fit (defect repaired by /repo 2baef63; judged like the rest)


def gen_numpy(rng):
    """Coordinates and core numbers given as numpy scalars of one integer dtype (keys and values of the targets
    dict / arguments of add_core).  Chips with x or y >= 128 are always present."""
    r = rng.random()
    if r < 0.25:
        c = gen_tree_case(rng) if rng.random() < 0.5 else gen_tree_blocks_late(rng)
        if c["level"] == 0:
            c["adds"] += [[rng.randrange(128, 256), rng.randrange(256), rng.randrange(18)],
                          [rng.randrange(256), rng.randrange(128, 256), rng.randrange(18)]]
    else:
        c = gen_blocks_late(rng, small=True) if r < 0.4 else gen_case(rng, 0, "quick")
        have = {(t[0], t[1]) for t in c["targets"]}
        for chip in [(rng.randrange(128, 256), rng.randrange(256)), (rng.randrange(256), rng.randrange(128, 256)), (255, 255)]:
            if chip not in have:
                have.add(chip)
                c["targets"].insert(rng.randint(0, len(c["targets"])), [chip[0], chip[1], sorted(rand_cores(rng, 1, 2))])
    c["dtype"] = rng.choice(WIDE_DTYPES + NARROW_DTYPES)
    c["tags"] = sorted(set(c.get("tags", []) + ["numpy"]))
    return c


def gen_failing_call(rng):
    """A call that raises part-way: an entry outside the space at a random position of the targets dict, or a
    caller's mapping whose iteration fails after some items."""
    if rng.random() < 0.6:
        c = gen_malformed(rng)
        if len(c["targets"]) < 3:
            c["targets"] = [[rng.randrange(256), rng.randrange(256), sorted(rand_cores(rng))] for _ in range(4)] + c["targets"]
        return c
    c = gen_case(rng, 0, "quick")
    c["targets"] = c["targets"][:40]
    c["raise_after"] = rng.randint(1, max(1, len(c["targets"]) - 1))
    c["valid"] = False
    c["nomodel"] = True
    c["tags"] = ["raising-mapping"]
    return c


def gen_tree_rw(rng):
    """ONE RegionCoreTree object: add_core calls interleaved with complete traversals (list() of the generator);
    every traversal is judged against the cores added so far."""
    level = rng.choice([0, 0, 0, 1, 2, 3])
    base = gen_tree_blocks_late(rng) if (level == 0 and rng.random() < 0.4) else gen_tree_case(rng)
    if base["level"] != level:
        side = 4 ** (4 - level)
        base = dict(mode="tree", level=level, adds=[[rng.randrange(side), rng.randrange(side), rng.randrange(18)]
                                                    for _ in range(rng.randint(3, 25))])
    adds = [a for a in base["adds"] if 0 <= a[0] < 4 ** (4 - level) and 0 <= a[1] < 4 ** (4 - level) and 0 <= a[2] < 18][:320]
    ops = [["add"] + a for a in adds]
    cuts = sorted({rng.randint(0, len(ops)) for _ in range(rng.randint(1, 3))} | ({len(ops) - 1} if len(ops) > 1 and rng.random() < 0.6 else set()))
    out = []
    for i, op in enumerate(ops):
        if i in cuts:
            out.append(["read"])
            if rng.random() < 0.3:
                out.append(["read"])
        out.append(op)
    out.append(["read"])
    return dict(mode="tree_rw", level=level, ops=out)


def gen_ffa(rng):
    """The entry points: 2-4 MachineController.flood_fill_aplx / load_application calls on ONE controller whose
    _send_scp records the packets.  Cores given as sets, lists, tuples, frozensets and one-shot iterables; the same
    set objects changed in place between two fills; load_application with scripted cores that fail to start."""
    def small_targets():
        t = {}
        for _ in range(rng.choice([1, 1, 2])):
            gen_shape(rng, t, rng.choice(["sparse", "full4", "full4", "neighbours", "corners", "straddle4"]), heavy=False)
        chips = sorted(t)[:60]
        if rng.random() < 0.5:
            rng.shuffle(chips)
        return [[x, y, sorted(t[(x, y)])] for x, y in chips]
    calls, prev_set = [], False
    for k in range(rng.randint(2, 4)):
        if prev_set and rng.random() < 0.75:
            calls.append(dict(kind=rng.choice(["fill", "fill", "load"]), form="two", apps=[],
                              reuse=dict(edits=[], newdict=rng.random() < 0.4, n=rng.randint(1, 4)), fail=[]))
            continue
        kind = rng.choice(["fill", "fill", "load"])
        napps = 1 if rng.random() < 0.7 else 2
        kinds = ["set", "set", "set", "list", "tuple", "frozenset"] + (["iter", "gen", "filter"] if kind == "fill" else [])
        apps = [dict(targets=small_targets(), container=rng.choice(kinds)) for _ in range(napps)]
        calls.append(dict(kind=kind, form="two" if napps == 1 and rng.random() < 0.6 else "map", apps=apps, reuse=None, fail=[]))
        prev_set = napps == 1 and apps[0]["container"] == "set"
    # concrete edits and failing cores need the running state of the re-used objects
    cur = None
    for call in calls:
        if call["reuse"] is not None:
            n = call["reuse"].pop("n")
            for _ in range(n):
                chip = rng.choice(sorted(cur))
                if cur[chip] and rng.random() < 0.45:
                    p = rng.choice(sorted(cur[chip]))
                    cur[chip].discard(p)
                    call["reuse"]["edits"].append(["discard", chip[0], chip[1], p])
                else:
                    p = rng.randrange(18)
                    cur[chip].add(p)
                    call["reuse"]["edits"].append(["add", chip[0], chip[1], p])
            req = [(x, y, p) for (x, y), ps in cur.items() for p in ps]
        else:
            cur = ({(t[0], t[1]): set(t[2]) for t in call["apps"][0]["targets"]}
                   if len(call["apps"]) == 1 and call["apps"][0]["container"] == "set" else None)
            req = [(t[0], t[1], p) for a in call["apps"] for t in a["targets"] for p in t[2]]
        if call["kind"] == "load" and req and rng.random() < 0.75:
            call["fail"] = [list(q) for q in rng.sample(sorted(set(req)), min(len(set(req)), rng.randint(1, 3)))]
    return dict(mode="ffa", calls=calls)


def ffa_expected(case):
    """The flood fills a case must produce: per call a list of (targets {chip: set}, model order or None)."""
    out, cur = [], None
    for call in case["calls"]:
        if call["reuse"] is not None and cur is not None:
            for op, x, y, p in call["reuse"]["edits"]:
                getattr(cur[(x, y)], op)(p)
            apps = [dict(cur)]
        else:
            apps = [dict(((t[0], t[1]), set(t[2])) for t in a["targets"]) for a in call["apps"]]
            cur = ({k: set(v) for k, v in apps[0].items()}
                   if len(apps) == 1 and call["apps"][0]["container"] == "set" else None)
            if cur is not None:
                apps = [dict(cur)]
        fills = [({k: set(v) for k, v in a.items()}, i) for i, a in enumerate(apps)]
        if call["kind"] == "load":
            failing = set(tuple(q) for q in call.get("fail", []))
            for a in apps:
                again = {}
                for (x, y), ps in a.items():
                    f = {p for p in ps if (x, y, p) in failing}
                    if f:
                        again[(x, y)] = f
                if again:
                    fills.append((again, None))
        out.append(fills)
    return out


def gen_lazy(rng):
    """targets given as a non-dict Mapping that builds every chip's cores on demand (fresh, short-lived objects), or as
    defaultdict / plain dict: many chips, neighbouring chips with different core sets."""
    t = {}
    n = rng.choice([3, 4, 6, 12, 30, 80])
    ox, oy = rng.randrange(0, 240), rng.randrange(0, 240)
    for _ in range(n):
        chip = (ox + rng.randrange(16), oy + rng.randrange(16)) if rng.random() < 0.7 else (rng.randrange(256), rng.randrange(256))
        t[chip] = rand_cores(rng, 1, 4)
    if rng.random() < 0.4:
        gen_shape(rng, t, rng.choice(["full4", "neighbours"]), heavy=False)
    chips = sorted(t)
    if rng.random() < 0.5:
        rng.shuffle(chips)
    return dict(mode="compress", targets=[[x, y, sorted(t[(x, y)])] for x, y in chips], container=rng.choice(["set", "list"]),
                mapping=rng.choice(["lazy", "lazy", "lazy-items", "lazy-items", "defaultdict", "plaindict"]),
                tags=["on-demand-mapping"], order="chosen", valid=True)


def clean(c):
    """A case as written to replays / samples: without the harness's private back references."""
    return {k: v for k, v in c.items() if not k.startswith("_")}


def gen_malformed(rng):
    c = gen_case(rng, 0, "quick")
    bad = rng.choice([[256, 0, [1]], [0, 256, [2]], [-1, 5, [0]], [5, -1, [0]], [3, 3, [18]], [3, 3, [-1]],
                      [300, 300, [40]], [0, 0, [17, 18]]])
    c["targets"] = [t for t in c["targets"][:20] if (t[0], t[1]) != (bad[0], bad[1])]
    c["targets"].insert(rng.randint(0, len(c["targets"])), bad)
    c["valid"] = False
    c["tags"] = ["malformed"]
    return c


def gen_tree_case(rng):
    """Direct use of RegionCoreTree(level=l): sequence of add_core calls with duplicates, then traversal."""
    level = rng.choice([0, 1, 2, 3, 3])
    side = 4 ** (4 - level)
    adds = []
    if level == 3 or rng.random() < 0.5:
        cores = sorted(rand_cores(rng, 1, 3))
        chips = block(0, 0, 4) if level == 3 else block(rng.randrange(0, side, 4), rng.randrange(0, side, 4), 4)
        for p in cores:
            keep = chips if rng.random() < 0.6 else rng.sample(chips, rng.randint(1, 15))
            adds += [[x, y, p] for x, y in keep]
    for _ in range(rng.randint(0, 12)):
        adds.append([rng.randrange(side), rng.randrange(side), rng.randrange(18)])
    rng.shuffle(adds)
    adds += [list(rng.choice(adds)) for _ in range(rng.randint(0, 3))] if adds else []
    if rng.random() < 0.15:
        adds.insert(rng.randint(0, len(adds)), rng.choice([[side, 0, 0], [0, side, 0], [0, 0, 18], [-1, 0, 0]]))
    return dict(mode="tree", level=level, adds=adds)


def expand(case):
    """A case given by rectangles [x0, y0, w, h, cores] (kept in replays of very large cases) -> targets."""
    if "rects" in case:
        t = {}
        for x0, y0, w, h, cores in case["rects"]:
            for x in range(x0, x0 + w):
                for y in range(y0, y0 + h):
                    t.setdefault((x, y), []).extend(cores)
        case = dict(case, targets=[[x, y, ps] for (x, y), ps in t.items()])
    return case


# ------------------------------------------------------------------ Coq literals
def coq_cores(order, valid):
    if valid:
        return "(unpack %d 0x1%s)" % (len(order), "".join("%02x%02x%02x" % (x, y, p) for x, y, p in order))
    return vlist("(%s, %s, %s)" % (zlit(x), zlit(y), zlit(p)) for x, y, p in order)


def in_space(order):
    return all(0 <= x < 256 and 0 <= y < 256 and 0 <= p < 256 for x, y, p in order)


def canon_model(v):
    if v[0] == "Ok":
        return ["ok", v[1]]
    if v[0] == "Failed":
        return ["fail", v[1]]
    if v[0] == "OtherError":
        return ["other"]
    return ["outoffuel"]


def pairs(l):
    return [tuple(p) for p in l]


def eval_retry(chk, header, exprs, **kw):
    """chk.coq_eval; a shard killed from outside (out-of-memory killer on the shared machine) is not a
    statement about the model: evaluate once more before giving up."""
    try:
        return chk.coq_eval(header, exprs, **kw)
    except RuntimeError as e:
        if "Error:" in str(e) and "rc=137" not in str(e) and "Killed" not in str(e):
            raise                    # a Coq error is a statement about the model; anything else is the machine
        time.sleep(20)
        return chk.coq_eval(header, exprs, **kw)


def run_enum(chk):
    """Thorough tier: EVERY subset of one 4 x 4 block for core a, with core b absent / on the same chips / on
    the complementary chips / on the whole block (4 x 65536 target sets): oracle on each output of the
    implementation, and the model evaluated in Coq on the same 262144 insertion sequences."""
    bx, by, a, b, step = 84, 168, 2, 11, 1024
    jobs = [dict(mode="enum4", bx=bx, by=by, a=a, b=b, cls=cls, lo=lo, hi=lo + step)
            for cls in range(4) for lo in range(0, 65536, step)]
    chunks = [jobs[i::12] for i in range(12)]
    res = chk.impl_parallel("impl_c12.py", chunks, timeout=3000)
    outs = {}
    for k, part in enumerate(res):
        for j, o in zip(chunks[k], part):
            outs[(j["cls"], j["lo"])] = o
    exprs, nfail = [], 0
    for j in jobs:
        o = outs[(j["cls"], j["lo"])]
        if o[0] != "ok":
            chk.fail_input("enum4:" + o[0], "exhaustive 4x4 enumeration: driver returned %r" % (o[:2],), dict(case=j))
            continue
        good = True
        for mask, out in zip(range(j["lo"], j["hi"]), o[1]):
            targets = {}
            for i in range(16):
                ps = set()
                if mask >> i & 1:
                    ps.add(a)
                if [False, bool(mask >> i & 1), not (mask >> i & 1), True][j["cls"]]:
                    ps.add(b)
                if ps:
                    targets[(bx + i % 4, by + i // 4)] = ps
            chk.note_case(["enum4", j["cls"], mask], nontrivial=len(targets) >= 2)
            res_o = ["other", out] if isinstance(out, str) else ["ok", None, out]
            why = oracle_compress(targets, res_o)
            if why:
                good = False
                if nfail < 5:
                    nfail += 1
                    chk.fail_input(why[0], why[1], dict(case=dict(mode="compress", container="list", valid=True, order="sorted",
                                                                  tags=["enum4"],
                                                                  targets=[[x, y, sorted(ps)] for (x, y), ps in targets.items()]),
                                                        observed=res_o))
        chk.count("exhaustive 4x4 block, pattern class %d (target sets)" % j["cls"], j["hi"] - j["lo"])
        if good:
            exprs.append("enum_check %d %d %d %d %d %d %s" % (
                bx, by, a, b, j["cls"], j["lo"],
                vlist(vlist(str(r * 262144 + m) for r, m in out) for out in o[1])))
    if chk.model_ok and exprs:
        try:
            vals = eval_retry(chk, HEADER, exprs, shard=6, timeout=3000, name="enum")
            chk.traces_validated += step * len(exprs)
            chk.oblige("correspondence:exhaustive 4x4 block x 4 patterns of a second core (%d target sets, exact "
                       "list equality inside Coq)" % (step * len(exprs)), all(v is True for v in vals),
                       "chunks that differ: %r" % [e[:40] for e, v in zip(exprs, vals) if v is not True][:5])
        except RuntimeError as e:
            chk.oblige("correspondence:exhaustive-4x4-evaluates", False, str(e))
    chk.coverage["exhaustive_subdomain"] = ("every subset of the 4x4 block at (%d, %d) for core %d, with core %d absent / on "
                                            "the same chips / on the complementary chips / on all 16 chips: 4 x 65536 "
                                            "target sets" % (bx, by, a, b))


# ------------------------------------------------------------------ the check
def run(chk, args):
    chk.trusted += ["CPython dict/set iteration order is observed by the driver and handed to the model as the "
                    "insertion sequence; sorted() on tuples of ints is modelled by an insertion sort",
                    "float arithmetic of int(base + (scale / 4) * (i % 4)) is exact (powers of 4 below 2^53)"]
    chk.assumptions += ["targets are {(x, y): iterable of p} with Python ints; the property quantifies over the "
                        "256 x 256 x 18 core space (outside it add_core raises ValueError, which the model mirrors)",
                        "the meaning of a region word is the documented one (block corner / level / 16 sub-block "
                        "bits), as SC&MP evaluates it; SC&MP itself is not modelled"]
    t0 = time.time()
    timing = {}
    chk.regenerate(UNITS)
    chk.prove()
    timing["regenerate+prove"] = round(time.time() - t0, 1)
    rng = chk.rng
    thorough = chk.tier == "thorough"
    if args.replay:
        rep = json.load(open(args.replay))
        items = rep.get("failures", []) + rep.get("no_longer_checks", [])
        cases = [expand(f["replay"]["case"]) for f in items if "case" in f.get("replay", {})]
        cases = [c for c in cases if c.get("mode") != "compress" or isinstance(c.get("targets"), list)]
    else:
        n = 1250 if not thorough else 8000
        n = int(os.environ.get("C12_CASES", n))            # (for trying the pipeline out on a loaded machine)
        cases = []
        for i in range(n):
            if i % 16 == 15:
                cases.append(gen_malformed(rng))
            elif i % 8 == 3:
                cases.append(gen_tree_case(rng) if i % 16 == 3 else gen_tree_blocks_late(rng))
            elif i % 10 == 1:
                cases.append(gen_history(rng))
            elif i % 10 == 6:
                cases.append(gen_blocks_late(rng))
            elif i % 10 == 7:
                cases.append(gen_tree_rw(rng))
            elif i % 10 == 2:
                cases.append(gen_numpy(rng))
            elif i % 10 == 8:
                cases.append(gen_ffa(rng))
            elif i % 10 == 4:
                cases.append(gen_lazy(rng))
            else:
                cases.append(gen_case(rng, i, chk.tier))
        for dt in NARROW_DTYPES:
            lim = 128 if dt == "int8" else 256
            cases.append(dict(mode="compress", container="list", order="sorted", tags=["numpy-narrow"], valid=True,
                              dtype=dt,
                              targets=[[3, 3, [1, 17]], [100, 7, [2]], [lim - 1, lim - 1, [0]], [15, 15, [5]]]))
        # a whole machine for one core, and the whole machine but one chip for another
        cases.append(expand(dict(mode="compress", rects=[[0, 0, 256, 256, [7]]], container="set", tags=["full256"],
                                 order="sorted", valid=True)))
        if thorough:
            hx, hy = rng.randrange(256), rng.randrange(256)
            cases.append(expand(dict(mode="compress", container="list", tags=["full256", "nearly-full-other-core"],
                                     rects=[[0, 0, 256, 256, [7]], [0, 0, hx, 256, [9]], [hx + 1, 0, 255 - hx, 256, [9]],
                                            [hx, 0, 1, hy, [9]], [hx, hy + 1, 1, 255 - hy, [9]]],
                                     order="sorted", valid=True)))
    corpus = os.path.join(lib.VERIF, "corpus", "C12.json")
    if os.path.exists(corpus):
        cases = json.load(open(corpus)) + cases
    # get_region_for_chip: the single-chip word of every chip (thorough) / of a structured sample (quick)
    if thorough:
        chip_list = [[x, y, l] for x in range(256) for y in range(256) for l in (None, 0, 1, 2, 3)]
    else:
        chip_list = [[x, y, l] for x in list(range(0, 20)) + [63, 64, 65, 127, 128, 191, 192, 252, 253, 254, 255]
                     for y in list(range(0, 20)) + [63, 64, 65, 127, 128, 191, 192, 252, 253, 254, 255]
                     for l in (None, 0, 1, 2, 3)]
        chip_list += [[rng.randrange(256), rng.randrange(256), rng.choice([None, 0, 1, 2, 3])] for _ in range(3000)]
    chip_cases = [dict(mode="chips", chips=chip_list[i:i + 20000]) for i in range(0, len(chip_list), 20000)]

    # ---------------- implementation
    allc = cases + chip_cases
    # balance the chunks: big cases spread over the workers
    nchunk = 12
    chunks = [[] for _ in range(nchunk)]
    where = []
    sizes = [0] * nchunk
    for c in allc:
        k = sizes.index(min(sizes))
        where.append((k, len(chunks[k])))
        chunks[k].append(c)
        sizes[k] += 50 + sum(sum(len(t[2]) for t in cc.get("targets", [])) + len(cc.get("adds", []))
                             for cc in [c] + c.get("calls", [])) + len(c.get("chips", [])) // 4
    t1 = time.time()
    res = chk.impl_parallel("impl_c12.py", chunks, timeout=2400)
    timing["implementation"] = round(time.time() - t1, 1)
    outs = [res[k][j] for k, j in where]
    chip_outs = outs[len(cases):]
    outs = outs[:len(cases)]
    # a history is judged call by call: every call on its own by the oracle, and against the stateless model
    fc, fo = [], []
    rw_sessions = []
    for c, o in zip(cases, outs):
        if c["mode"] == "tree_rw":
            rw_sessions.append((c, o))
            chk.count("tree objects re-read while being filled")
            adds_before, k, nadd = [], 0, 0
            if o[0] != "ok":
                fc.append(dict(mode="tree", level=c["level"], adds=[op[1:] for op in c["ops"] if op[0] == "add"], _rw=(c, -1)))
                fo.append(o)
                continue
            for op in c["ops"]:
                if op[0] == "add":
                    adds_before.append(op[1:])
                else:
                    fc.append(dict(mode="tree", level=c["level"], adds=list(adds_before), tags=["read-%d" % k], _rw=(c, k)))
                    fo.append(["ok", o[1][:len(adds_before)], o[2][k]])
                    k += 1
                    chk.count("tree reads judged")
            continue
        if c["mode"] == "ffa":
            chk.count("entry-point sessions (flood_fill_aplx / load_application on one controller)")
            if o[0] != "ok":
                chk.fail_input("entry:" + o[0], "flood_fill_aplx session: driver returned %r" % (o[:2],), dict(case=c))
                continue
            for ci, (call, res, exp) in enumerate(zip(c["calls"], o[1], ffa_expected(c))):
                chk.count("entry-point call:" + call["kind"] + ("+reused-sets" if call["reuse"] is not None else ""))
                for a in call["apps"]:
                    chk.count("entry-point cores as:" + a["container"])
                if res["exc"] or len(res["fills"]) != len(exp):
                    chk.fail_input("entry:exception" if res["exc"] else "entry:fill-count",
                                   "call #%d (%s): %s" % (ci + 1, call["kind"], "raised %s" % res["exc"] if res["exc"] else
                                                          "%d flood fills were sent, %d expected" % (len(res["fills"]), len(exp))),
                                   dict(case=dict(c, calls=c["calls"][:ci + 1]), observed=res))
                    break
                for fi, ((tg, oi), raw) in enumerate(zip(exp, res["fills"])):
                    bad = [a for a in raw if (a[0] >> 24) != 7]
                    if bad:
                        chk.fail_input("entry:command", "call #%d fill #%d: a packet between flood-fill start and end is not a "
                                       "core select: arg1=%#x" % (ci + 1, fi + 1, bad[0][0]), dict(case=c))
                        continue
                    order = (res["orders"][oi] if oi is not None and oi < len(res["orders"])
                             else [[x, y, p] for (x, y), ps in tg.items() for p in sorted(ps)])
                    fc.append(dict(mode="compress", targets=[[x, y, sorted(ps)] for (x, y), ps in tg.items()], container="set",
                                   order="chosen", tags=["entry-point"], valid=True, _ffa=(c, ci, fi), _raw=raw))
                    fo.append(["ok", order, [[a[1], a[0] & 0xffffff] for a in raw]])
                    chk.count("entry-point flood fills judged")
            continue
        if c["mode"] != "history":
            fc.append(c)
            fo.append(o)
            continue
        chk.count("histories (2-4 calls in one interpreter)")
        if o[0] != "ok":
            if o[0] == "hang":
                chk.fail_input("history:hang", "a history of calls did not finish within the time limit", dict(case=c))
            continue
        for i, (cc, oo) in enumerate(zip(c["calls"], o[1])):
            fc.append(dict(cc, _h=(c, i)))
            fo.append(oo)
            chk.count("history calls")
    cases, outs = fc, fo

    # ---------------- oracle on every implementation output
    t2 = time.time()
    nfail = 0
    failing = []
    for c, o in zip(cases, outs):
        if o[0] == "skipped":
            continue
        chk.count("mode:" + c["mode"])
        if c["mode"] == "compress":
            for tg in c["tags"]:
                chk.count("shape:" + tg)
            chk.count("container:" + c["container"])
            if c.get("mapping"):
                chk.count("targets mapping:" + c["mapping"])
            chk.count("chip-order:" + c["order"])
            ncores = sum(len(set(t[2])) for t in c["targets"])
            chk.count("cores:" + ("<=16" if ncores <= 16 else "<=256" if ncores <= 256 else "<=4096" if ncores <= 4096 else ">4096"))
            chk.count("outcome:" + o[0])
            merged = o[0] == "ok" and any(((w >> 16) & 3) < 3 or bin(w & 0xffff).count("1") > 1 for w, m in o[2])
            if o[0] == "ok":
                for lv in sorted({(w >> 16) & 3 for w, m in o[2]}):
                    chk.count("emits-level-%d" % lv)
            chk.note_case([c["targets"], c.get("dtype")], nontrivial=(o[0] == "ok" and len(c["targets"]) >= 2 and (merged or len(o[2]) >= 2)))
            if c.get("dtype"):
                chk.count("numpy dtype:" + c["dtype"])
            if c["valid"]:
                targets = {(t[0], t[1]): set(t[2]) for t in c["targets"]}
                why = oracle_compress(targets, o)
                if why and nfail < 20:
                    nfail += 1
                    failing.append((c, o, why, ncores))
        else:
            chk.count("tree-level:%d" % c["level"])
            chk.count("outcome:" + o[0])
            for tg in c.get("tags", []):
                chk.count("tree-shape:" + tg)
            chk.note_case(clean(c), nontrivial=(o[0] == "ok" and len(o[2]) >= 2))
            if c["level"] == 0 and o[0] == "ok" and all(0 <= x < 256 and 0 <= y < 256 and 0 <= p < 18 for x, y, p in c["adds"]):
                # a level-0 tree is what compress_flood_fill_regions builds; its sorted traversal is that
                # function's return value for this insertion sequence
                targets = {}
                for x, y, p in c["adds"]:
                    targets.setdefault((x, y), set()).add(p)
                why = oracle_compress(targets, ["ok", None, sorted(o[2])])
                if why and nfail < 20:
                    nfail += 1
                    failing.append((c, o, ("tree-" + why[0], why[1]), len(c["adds"])))
    # report the failing inputs, the first of each kind shrunk to a small target set
    shrunk_keys = set()
    for c, o, why, ncores in sorted(failing, key=lambda f: f[3]):
        rep_case, rep_out, rep_why = c, o, why
        if "_ffa" in c:
            sess, ci, fi = c["_ffa"]
            call = sess["calls"][ci]
            chk.fail_input("entry-" + why[0], "MachineController.%s, call #%d on one controller, flood fill #%d: the FFCS packets "
                           "sent: %s" % ("load_application" if call["kind"] == "load" else "flood_fill_aplx", ci + 1, fi + 1, why[1]),
                           dict(case=dict(sess, calls=sess["calls"][:ci + 1]), requested=c["targets"], pairs_sent=o[2]))
            continue
        if "_h" in c:
            hist, idx = c["_h"]
            hcase, hout, hwhy = shrink_history(chk, hist, idx, why[0])
            if len(hcase["calls"]) == 1:        # the call fails on its own: an ordinary failing input
                c = rep_case = clean(c)
        if "_h" in c:
            chk.fail_input("history-" + hwhy[0], "call #%d of %d calls made in one interpreter: %s"
                           % (len(hcase["calls"]), len(hcase["calls"]), hwhy[1]),
                           dict(case=hcase, observed_last_call=hout if len(json.dumps(hout)) < 60000 else hout[0],
                                note="every call starts from a freshly imported rig in the replay driver; the last "
                                     "call is the one judged"))
            continue
        if c["mode"] == "tree" and "_rw" in c:
            chk.fail_input("reuse-" + why[0], "one RegionCoreTree(level=0) object, traversal #%d (after %d add_core calls): %s"
                           % (c["_rw"][1] + 1, len(c["adds"]), why[1]), dict(case=clean(c["_rw"][0]), observed_read=o[2]))
            continue
        if c["mode"] == "tree":
            chk.fail_input(why[0], "RegionCoreTree(level=0), sorted traversal: " + why[1], dict(case=clean(c), observed=o))
            continue
        if why[0] not in shrunk_keys and len(shrunk_keys) < 4 and o[0] != "hang":
            shrunk_keys.add(why[0])
            try:
                sh = shrink(chk, c, why[0])
            except Exception:
                sh = None
            if sh:
                rep_case, rep_out = sh
                rep_why = verdict(rep_case, rep_out) or why
        if sum(len(t[2]) for t in rep_case["targets"]) > 5000:
            if "rects" in rep_case:
                rep_case = {k: v for k, v in rep_case.items() if k != "targets"}
            else:
                rep_case = dict(rep_case, targets="(%d chips; the same seed regenerates the case)" % len(rep_case["targets"]))
            rep_out = [rep_out[0]] + rep_out[2:]
        chk.fail_input(rep_why[0], rep_why[1], dict(case=rep_case, observed=rep_out))
    nchips = 0
    for cc, o in zip(chip_cases, chip_outs):
        if o[0] != "ok":
            chk.fail_input("chip:exception", "get_region_for_chip raised %s" % o[1:], dict(case=cc["chips"][:5]))
            continue
        for (x, y, l), w in zip(cc["chips"], o[1]):
            nchips += 1
            if l in (None, 3):
                why = oracle_chip(x, y, w)
                if why and nfail < 20:
                    nfail += 1
                    chk.fail_input("chip:not-single", why, dict(x=x, y=y, level=l, word=w))
    chk.count("get_region_for_chip calls", nchips)
    mid = next((i for i in range(len(cases) // 2, len(cases)) if cases[i]["mode"] == "compress"
                and len(cases[i]["targets"]) <= 12), 0)
    chk.sample(dict(case=clean(cases[mid]), implementation=outs[mid]))
    trees = [i for i, c in enumerate(cases) if c["mode"] == "tree" and len(c["adds"]) <= 20]
    if trees:
        chk.sample(dict(case=clean(cases[trees[0]]), implementation=outs[trees[0]]))

    timing["oracle"] = round(time.time() - t2, 1)
    t3 = time.time()
    # ---------------- model, evaluated in Coq on the same insertion sequences
    if chk.model_ok:
        try:
            exprs, idx = [], []
            for i, (c, o) in enumerate(zip(cases, outs)):
                if o[0] in ("skipped", "hang") or c.get("nomodel"):
                    continue
                if not thorough and c["mode"] == "compress" and len(o[1] if o[0] == "ok" else o[2]) > 20000:
                    chk.count("model evaluation left to the thorough tier (> 20000 cores)")
                    continue
                if "_ffa" in c:
                    exprs.append("ffcs_packets %s" % coq_cores(o[1], in_space(o[1])))
                elif c["mode"] == "compress":
                    order = o[1] if o[0] == "ok" else o[2]
                    exprs.append("compress %s" % coq_cores(order, in_space(order)))
                else:
                    exprs.append("run_tree %d %s" % (3 - c["level"], coq_cores(c["adds"], in_space(c["adds"]))))
                idx.append(i)
            # shards of bounded text size
            vals = eval_retry(chk, HEADER, exprs, shard=60 if not thorough else 150, timeout=2400)
            bad = 0
            for i, v in zip(idx, vals):
                c, o = cases[i], outs[i]
                chk.traces_validated += 1
                m = canon_model(v)
                if "_ffa" in c:
                    same = m[0] == "ok" and pairs(m[1]) == pairs(c["_raw"])
                    shown = (m if m[0] != "ok" else ["ok", m[1][:8]], c["_raw"][:8])
                    if not same and bad < 3:
                        bad += 1
                        chk.disagree("flood_fill_aplx: the (arg1, arg2) of the FFCS packets sent differ from the model's "
                                     "ffcs_packets: model %r, sent %r" % shown, dict(case=c["_ffa"][0], call=c["_ffa"][1] + 1))
                    continue
                if c["mode"] == "compress":
                    same = (m[0] == o[0] and (m[0] != "ok" or pairs(m[1]) == pairs(o[2]))
                            and (m[0] != "fail" or m[1] == o[1]))
                    shown = (m if m[0] != "ok" else ["ok", m[1][:8]], [o[0]] + ([o[2][:8]] if o[0] == "ok" else o[1:2]))
                else:
                    same = (m[0] == o[0] and (m[0] != "ok" or (list(m[1][0]) == o[1] and pairs(m[1][1]) == pairs(o[2])))
                            and (m[0] != "fail" or m[1] == o[1]))
                    shown = (m, o)
                if not same and bad < 3 and "_h" in c:
                    bad += 1
                    hist, hi = c["_h"]
                    chk.disagree("call #%d of a history made in one interpreter differs from the same call in a fresh "
                                 "interpreter (the stateless model): model %r, implementation %r" % (hi + 1, shown[0], shown[1]),
                                 dict(case=dict(mode="history", calls=[clean(q) for q in hist["calls"][:hi + 1]])))
                    continue
                if not same and bad < 3 and "_rw" in c:
                    bad += 1
                    chk.disagree("one tree object, traversal #%d differs from a fresh tree given the same %d add_core calls: "
                                 "model %r, implementation %r" % (c["_rw"][1] + 1, len(c["adds"]), shown[0], shown[1]),
                                 dict(case=clean(c["_rw"][0])))
                    continue
                if not same and bad < 3:
                    bad += 1
                    c = clean(c)
                    small = (c if len(json.dumps(c)) < 60000 else {k: v for k, v in c.items() if k != "targets"} if "rects" in c
                             else dict(c, targets="(large; same seed regenerates it)"))
                    chk.disagree("%s: model %r, implementation %r" % (c["mode"], shown[0], shown[1]),
                                 dict(case=small, observed=o if len(json.dumps(o)) < 60000 else o[0]))
            if not bad:
                chk.oblige("correspondence:compress/RegionCoreTree (%d cases, exact list equality incl. order, "
                           "add_core return values, error class)" % len(idx), True)
            # one tree object: the model's session (Model/RegionsFill.v tree_session) against all reads at once
            sess = [(c, o) for c, o in rw_sessions if o[0] == "ok"]
            if sess:
                sx = ["tree_session %d %s" % (3 - c["level"], vlist("OpRead" if op[0] == "read" else "OpAdd %s %s %s" % tuple(zlit(q) for q in op[1:])
                                                                     for op in c["ops"])) for c, o in sess]
                sv = eval_retry(chk, HEADER, sx, shard=40, timeout=1200, name="sessions")
                okall = True
                for (c, o), v in zip(sess, sv):
                    chk.traces_validated += 1
                    m = canon_model(v)
                    if not (m[0] == "ok" and [pairs(r) for r in m[1]] == [pairs(r) for r in o[2]]):
                        okall = False
                        chk.disagree("tree_session: the reads of one tree object differ from the model's", dict(case=c))
                        break
                if okall:
                    chk.oblige("correspondence:tree_session (%d tree objects read while filled, every read)" % len(sess), True)
            # get_region_for_chip: the generated definition against the implementation (validates the translator)
            words = [(x, y, 3 if l is None else l, w) for cc, o in zip(chip_cases, chip_outs) if o[0] == "ok"
                     for (x, y, l), w in zip(cc["chips"], o[1])]
            per = 8000
            cexprs = []
            for k in range(0, len(words), per):
                lit = vlist("(%d, %d, %d, %d)" % q for q in words[k:k + per])
                cexprs.append("forallb (fun q => let '(x, y, l, w) := q in get_region_for_chip x y l =? w) %s" % lit)
            cvals = eval_retry(chk, HEADER, cexprs, shard=2, timeout=1200, name="chips")
            chk.traces_validated += len(words)
            chk.oblige("correspondence:get_region_for_chip (%d calls; default level = generated default %s)"
                       % (len(words), "3"), all(v is True for v in cvals))
            dv = eval_retry(chk, HEADER, ["get_region_for_chip_default_level"], name="deflevel")
            chk.oblige("get_region_for_chip default level is 3 (the single-chip level the property speaks of)", dv == [3],
                       "generated default is %r" % (dv,))
        except RuntimeError as e:
            chk.oblige("correspondence:model-evaluates", False, str(e))
    timing["model-in-coq"] = round(time.time() - t3, 1)
    if thorough and not args.replay:
        t4 = time.time()
        run_enum(chk)
        timing["exhaustive-4x4"] = round(time.time() - t4, 1)
    chk.coverage["timing_s"] = timing
    chk.coverage["rule"] = (
        "compress cases: unions of 1-3 shapes (sparse chips in a 4/16/64/256 area; corner chips; neighbouring chips "
        "with different core sets across 4/16/64 boundaries; 4x4, 16x16, 64x64 blocks full for 1-3 cores and nearly "
        "full (one chip / one sub-block / a few chips missing) for other cores; blocks straddling block boundaries; one "
        "whole-machine case), chips in sorted/shuffled/reversed order, cores as set or as shuffled list with "
        "duplicates; every 16th case has a core outside the space (ValueError expected); every 8th case drives "
        "RegionCoreTree(level=l) directly (add_core return values + unsorted traversal). Non-trivial = returns pairs, "
        ">= 2 chips and (some pair below level 3 or with >= 2 sub-block bits, or >= 2 pairs); distinct by hash of the "
        "target list. Every output is expanded by the oracle to the multiset of cores it selects."
        + (" Thorough tier adds: the whole machine but one chip for a second core; get_region_for_chip on all 256 x 256 "
           "chips x {default, 0, 1, 2, 3}; every subset of one 4x4 block for one core x 4 patterns of a second core "
           "(262144 target sets, oracle on each, model compared inside Coq)." if thorough else ""))
