(* C03 -- cutting a subtree out of a forest (the re-parenting step of avoid_dead_links): find_sub / sever on a
   tree in which the chip occurs exactly once, as a non-root node; the parent relation given by the hops. *)
From Coq Require Import ZArith List Bool Lia Relations.
Require Import Rig.Model.Base Rig.Model.Geometry Rig.Model.Route Rig.Spec.Route Rig.Proofs.Route
        Rig.Proofs.RouteTree Rig.Proofs.RouteNer Rig.Proofs.RouteCopy Rig.Proofs.RouteRepair.
Import ListNotations.
Open Scope Z_scope.

Definition kids_t := list (option Z * rtree).

(* the inner loops of find_sub and sever *)
Fixpoint find_kids (c : chip) (ks : kids_t) : option rtree :=
  match ks with
  | [] => None
  | k :: ks' => match find_sub c (snd k) with Some s => Some s | None => find_kids c ks' end
  end.

Fixpoint sever_kids (c : chip) (ks : kids_t) : option kids_t :=
  match ks with
  | [] => None
  | k :: ks' => match sever c (snd k) with
                | Some s' => Some ((fst k, s') :: ks')
                | None => option_map (cons k) (sever_kids c ks')
                end
  end.

Lemma find_sub_node : forall c c' kids,
    find_sub c (RNode c' kids) = if chip_eqb c c' then Some (RNode c' kids) else find_kids c kids.
Proof.
  intros c c' kids. cbn [find_sub]. destruct (chip_eqb c c'); [reflexivity|].
  induction kids as [|k kids IH]; [reflexivity|]. cbn [find_kids]. rewrite <- IH. reflexivity.
Qed.

Lemma sever_node : forall c p kids,
    sever c (RNode p kids) =
    if existsb (kid_is c) kids then Some (RNode p (remove_first_kid c kids))
    else option_map (RNode p) (sever_kids c kids).
Proof.
  intros c p kids. cbn [sever]. destruct (existsb (kid_is c) kids); [reflexivity|]. f_equal.
  induction kids as [|k kids IH]; [reflexivity|]. cbn [sever_kids]. rewrite <- IH. reflexivity.
Qed.

Definition socc (x : chip) (ks : kids_t) : nat := fold_right (fun k acc => (occ x (snd k) + acc)%nat) 0%nat ks.

Lemma occ_node' : forall x c kids,
    occ x (RNode c kids) = ((if chip_eq_dec c x then 1 else 0) + socc x kids)%nat.
Proof. intros. apply occ_node. Qed.

Lemma socc_app : forall x a b, socc x (a ++ b) = (socc x a + socc x b)%nat.
Proof. intros x a b. apply fold_occ_app. Qed.

(* a chip that does not occur is neither found nor cut *)
Lemma absent_none : forall c t, occ c t = 0%nat -> find_sub c t = None /\ sever c t = None.
Proof.
  intros c. induction t as [v|p kids IH] using rtree_ind2; intros H; [split; reflexivity|].
  rewrite occ_node' in H. destruct (chip_eq_dec p c) as [E|E]; [lia|].
  rewrite find_sub_node, sever_node.
  assert (Hpc : chip_eqb c p = false).
  { destruct (chip_eqb c p) eqn:X; [|reflexivity]. apply rt_chip_eqb_eq in X. congruence. }
  rewrite Hpc. cbn [plus] in H.
  assert (G : find_kids c kids = None /\ existsb (kid_is c) kids = false /\ sever_kids c kids = None).
  { induction IH as [|k kids Hk _ IHk]; [repeat split; reflexivity|]. cbn [socc fold_right] in H.
    assert (H1 : occ c (snd k) = 0%nat) by lia.
    assert (H2 : socc c kids = 0%nat) by (unfold socc; lia).
    destruct (Hk H1) as [F1 F2]. destruct (IHk H2) as [G1 [G2 G3]].
    cbn [find_kids sever_kids existsb]. rewrite F1, F2, G1, G2, G3. split; [reflexivity|]. split; [|reflexivity].
    rewrite orb_false_r. unfold kid_is. destruct (snd k) as [c1 ks1|v1]; [|reflexivity]. cbn [root_is].
    destruct (chip_eqb c c1) eqn:X; [|reflexivity]. apply rt_chip_eqb_eq in X. subst c1.
    rewrite occ_node' in H1. destruct (chip_eq_dec c c); [lia | congruence]. }
  destruct G as [G1 [G2 G3]]. rewrite G1, G2, G3. split; reflexivity.
Qed.

Lemma root_occ : forall c t, root_chip t = Some c -> (1 <= occ c t)%nat.
Proof.
  intros c [c0 kids|v] H; [|discriminate]. cbn in H. inversion H; subst. rewrite occ_node'.
  destruct (chip_eq_dec c c); [lia | congruence].
Qed.

Lemma kid_is_root : forall c k, kid_is c k = true <-> root_chip (snd k) = Some c.
Proof.
  intros c [r t]. unfold kid_is. cbn [snd]. destruct t as [c0 ks|v]; cbn [root_is root_chip].
  - rewrite rt_chip_eqb_eq. split; intros H; [subst; reflexivity | inversion H; reflexivity].
  - split; discriminate.
Qed.

(* what cutting c out of t gives: the subtree s rooted at c and the rest t' *)
Definition cut_spec (c : chip) (t : rtree) (s t' : rtree) : Prop :=
  find_sub c t = Some s /\ sever c t = Some t' /\ root_chip s = Some c /\ root_chip t' = root_chip t /\
  (forall x, occ x t = (occ x t' + occ x s)%nat) /\
  (forall e, In e (tree_hops t') -> In e (tree_hops t)) /\
  (forall e, In e (tree_hops s) -> In e (tree_hops t)).

(* children that do not contain c at all *)
Lemma absent_prefix : forall c (pre : kids_t),
    socc c pre = 0%nat ->
    forall rest, find_kids c (pre ++ rest) = find_kids c rest /\
                 sever_kids c (pre ++ rest) = option_map (app pre) (sever_kids c rest) /\
                 remove_first_kid c (pre ++ rest) = pre ++ remove_first_kid c rest /\
                 existsb (kid_is c) (pre ++ rest) = existsb (kid_is c) rest.
Proof.
  intros c. induction pre as [|k pre IH]; intros H rest.
  - cbn [app]. split; [reflexivity|]. split; [destruct (sever_kids c rest); reflexivity|]. split; reflexivity.
  - cbn [socc fold_right] in H. assert (H1 : occ c (snd k) = 0%nat) by lia.
    assert (H2 : socc c pre = 0%nat) by (unfold socc; lia).
    destruct (absent_none c (snd k) H1) as [F1 F2]. destruct (IH H2 rest) as [G1 [G2 [G3 G4]]].
    assert (Hk : kid_is c k = false).
    { destruct (kid_is c k) eqn:X; [|reflexivity]. apply kid_is_root in X. apply root_occ in X. lia. }
    cbn [app find_kids sever_kids remove_first_kid existsb]. rewrite F1, F2, G1, G2, G3, G4, Hk.
    split; [reflexivity|]. split; [destruct (sever_kids c rest); reflexivity|]. split; reflexivity.
Qed.

Lemma socc_split : forall c (ks : kids_t), socc c ks = 1%nat ->
    exists pre k post, ks = pre ++ k :: post /\ socc c pre = 0%nat /\ occ c (snd k) = 1%nat /\ socc c post = 0%nat.
Proof.
  intros c. induction ks as [|k ks IH]; intros H; [discriminate|]. cbn [socc fold_right] in H.
  destruct (occ c (snd k)) as [|n] eqn:E.
  - destruct (IH H) as [pre [k0 [post [H1 [H2 [H3 H4]]]]]]. exists (k :: pre), k0, post.
    split; [rewrite H1; reflexivity|]. split; [unfold socc in *; cbn [fold_right app]; rewrite E; lia|]. split; assumption.
  - exists [], k, ks. assert (n = 0%nat) by lia. subst n. split; [reflexivity|]. split; [reflexivity|].
    split; [exact E|]. unfold socc. lia.
Qed.

Lemma hops_kids_mono : forall p (ks ks' : kids_t),
    (forall e k', In k' ks' -> In e (hops_kid p k') -> exists k, In k ks /\ In e (hops_kid p k)) ->
    forall e, In e (tree_hops (RNode p ks')) -> In e (tree_hops (RNode p ks)).
Proof.
  intros p ks ks' H e He. apply in_hops_node in He. destruct He as [k' [Hk' He]].
  destruct (H e k' Hk' He) as [k [Hk Hek]]. apply in_hops_node. exists k. split; assumption.
Qed.

Lemma cut_exists : forall c t,
    occ c t = 1%nat -> root_chip t <> Some c -> exists s t', cut_spec c t s t'.
Proof.
  intros c. induction t as [v|p kids IH] using rtree_ind2; intros Hocc Hroot.
  - unfold occ in Hocc. simpl in Hocc. discriminate.
  - rewrite occ_node' in Hocc. destruct (chip_eq_dec p c) as [E|E]; [subst; exfalso; apply Hroot; reflexivity|].
    cbn [plus] in Hocc.
    assert (Hpc : chip_eqb c p = false).
    { destruct (chip_eqb c p) eqn:X; [|reflexivity]. apply rt_chip_eqb_eq in X. congruence. }
    destruct (socc_split c kids Hocc) as [pre [k [post [Hk [Hpre [Hkc Hpost]]]]]].
    destruct (absent_prefix c pre Hpre (k :: post)) as [G1 [G2 [G3 G4]]].
    rewrite Forall_forall in IH.
    assert (Hkin : In k kids) by (rewrite Hk; apply in_or_app; right; left; reflexivity).
    unfold cut_spec. rewrite find_sub_node, sever_node, Hpc, Hk, G1, G4. cbn [find_kids existsb].
    destruct (kid_is c k) eqn:Ekid.
    + (* the child k itself is the node on chip c *)
      cbn [orb]. apply kid_is_root in Ekid. destruct k as [rk sk]. cbn [snd] in *.
      destruct sk as [c1 ks1|v1]; [|discriminate]. cbn [root_chip] in Ekid. inversion Ekid; subst c1.
      rewrite find_sub_node, rt_chip_eqb_refl.
      exists (RNode c ks1), (RNode p (pre ++ post)). split; [reflexivity|].
      split; [rewrite G3; cbn [remove_first_kid]; unfold kid_is; cbn [snd root_is]; rewrite rt_chip_eqb_refl; reflexivity|].
      split; [reflexivity|]. split; [reflexivity|]. split; [|split].
      * intros x. rewrite !(occ_node' x p), !socc_app. cbn [socc fold_right snd]. unfold socc. lia.
      * apply hops_kids_mono. intros e k' Hk' He. exists k'. split; [|exact He].
        apply in_app_or in Hk'. apply in_or_app. destruct Hk' as [Hk'|Hk']; [left; exact Hk' | right; right; exact Hk'].
      * intros e He. apply in_hops_node. exists (rk, RNode c ks1). split; [apply in_or_app; right; left; reflexivity|].
        unfold hops_kid. cbn [snd]. right. exact He.
    + (* c lies deeper, below the child k *)
      cbn [orb].
      assert (Hpostex : existsb (kid_is c) post = false).
      { destruct (existsb (kid_is c) post) eqn:X; [|reflexivity]. apply existsb_exists in X.
        destruct X as [k1 [Hk1 X]]. apply kid_is_root in X. apply root_occ in X.
        assert (occ c (snd k1) <= socc c post)%nat.
        { clear - Hk1. induction post as [|a post IH]; [destruct Hk1|]. cbn [socc fold_right]. destruct Hk1 as [Hk1|Hk1].
          - subst. lia.
          - specialize (IH Hk1). unfold socc in IH. lia. }
        lia. }
      rewrite Hpostex.
      assert (Hkr : root_chip (snd k) <> Some c).
      { intros X. apply kid_is_root in X. congruence. }
      destruct (IH k Hkin Hkc Hkr) as [s [tk' [C1 [C2 [C3 [C4 [C5 [C6 C7]]]]]]]].
      rewrite C1, G2. cbn [sever_kids]. rewrite C2. cbn [option_map].
      exists s, (RNode p (pre ++ (fst k, tk') :: post)). split; [reflexivity|]. split; [reflexivity|].
      split; [exact C3|]. split; [reflexivity|]. split; [|split].
      * intros x. rewrite !(occ_node' x p), !socc_app. cbn [socc fold_right snd]. rewrite (C5 x). unfold socc. lia.
      * apply hops_kids_mono. intros e k' Hk' He. apply in_app_or in Hk'. destruct Hk' as [Hk'|[Hk'|Hk']].
        -- exists k'. split; [apply in_or_app; left; exact Hk' | exact He].
        -- subst k'. exists k. split; [apply in_or_app; right; left; reflexivity|].
           unfold hops_kid in *. cbn [fst snd] in He. destruct k as [rk sk]. cbn [fst snd] in *.
           destruct tk' as [c2 ks2|v2]; [|destruct He].
           destruct sk as [c1 ks1|v1]; [|cbn in C4; discriminate]. cbn [root_chip] in C4. inversion C4; subst c2.
           destruct He as [He|He]; [left; exact He | right; apply C6; exact He].
        -- exists k'. split; [apply in_or_app; right; right; exact Hk' | exact He].
      * intros e He. apply in_hops_node. exists k. split; [apply in_or_app; right; left; reflexivity|].
        unfold hops_kid. destruct k as [rk sk]. cbn [fst snd] in *. destruct sk as [c1 ks1|v1].
        -- right. apply C7. exact He.
        -- unfold occ in Hkc. simpl in Hkc. discriminate.
Qed.

(* ------------------------------------------------------------------------------------------------
   forests *)
Definition fhops (f : list rtree) : list (chip * option Z * chip) := flat_map tree_hops f.

Lemma in_fhops : forall e f, In e (fhops f) <-> exists t, In t f /\ In e (tree_hops t).
Proof. intros. unfold fhops. apply in_flat_map. Qed.

Lemma forest_cut : forall c f,
    cnt c (forest_chips f) = 1%nat -> (forall t, In t f -> root_chip t <> Some c) ->
    exists s,
      forest_find c f = Some s /\ root_chip s = Some c /\
      map root_chip (forest_sever_any c f) = map root_chip f /\
      (forall x, cnt x (forest_chips f) = (cnt x (forest_chips (forest_sever_any c f)) + occ x s)%nat) /\
      (forall e, In e (fhops (forest_sever_any c f)) -> In e (fhops f)) /\
      (forall e, In e (tree_hops s) -> In e (fhops f)).
Proof.
  intros c. induction f as [|t f IH]; intros Hc Hr.
  - discriminate.
  - rewrite cnt_forest_cons in Hc. cbn [forest_find forest_sever_any].
    destruct (occ c t) as [|n] eqn:E.
    + destruct (absent_none c t E) as [F1 F2]. rewrite F1, F2.
      destruct (IH Hc (fun t0 H0 => Hr t0 (or_intror H0))) as [s [G1 [G2 [G3 [G4 [G5 G6]]]]]].
      exists s. split; [exact G1|]. split; [exact G2|]. split; [cbn [map]; rewrite G3; reflexivity|].
      split; [intros x; rewrite !cnt_forest_cons, (G4 x); lia|]. split.
      * intros e He. unfold fhops in *. cbn [flat_map] in *. apply in_app_or in He. apply in_or_app.
        destruct He as [He|He]; [left; exact He | right; apply G5; exact He].
      * intros e He. unfold fhops. cbn [flat_map]. apply in_or_app. right. apply G6. exact He.
    + assert (n = 0%nat) by lia. subst n.
      destruct (cut_exists c t E (Hr t (or_introl eq_refl))) as [s [t' [C1 [C2 [C3 [C4 [C5 [C6 C7]]]]]]]].
      rewrite C1, C2. exists s. split; [reflexivity|]. split; [exact C3|]. split; [cbn [map]; rewrite C4; reflexivity|].
      split; [intros x; rewrite !cnt_forest_cons, (C5 x); lia|]. split.
      * intros e He. unfold fhops in *. cbn [flat_map] in *. apply in_app_or in He. apply in_or_app.
        destruct He as [He|He]; [left; apply C6; exact He | right; exact He].
      * intros e He. unfold fhops. cbn [flat_map]. apply in_or_app. left. apply C7. exact He.
Qed.

Lemma hops_in_chips : forall t p r x, In (p, r, x) (tree_hops t) -> In p (chips t) /\ In x (chips t).
Proof.
  induction t as [v|c0 kids IH] using rtree_ind2; intros p r x H.
  - destruct H.
  - apply in_hops_node in H. destruct H as [k [Hk He]]. rewrite Forall_forall in IH.
    unfold hops_kid in He. destruct k as [rk sk]. cbn [fst snd] in He.
    destruct sk as [c1 ks1|v1]; [|destruct He].
    assert (Hsub : forall y, In y (chips (RNode c1 ks1)) -> In y (chips (RNode c0 kids))).
    { intros y Hy. simpl. right. apply in_flat_map. exists (rk, RNode c1 ks1). split; assumption. }
    destruct He as [He|He].
    + inversion He; subst. split; [simpl; left; reflexivity | apply Hsub; simpl; left; reflexivity].
    + destruct (IH _ Hk p r x He) as [H1 H2]. split; apply Hsub; assumption.
Qed.

Lemma hop_child_nonroot : forall t p r x,
    In (p, r, x) (tree_hops t) -> root_chip t = Some x -> (2 <= occ x t)%nat.
Proof.
  intros [c0 kids|v] p r x H Hr; [|destruct H]. cbn in Hr. inversion Hr; subst c0.
  apply in_hops_node in H. destruct H as [[rk sk] [Hk He]]. unfold hops_kid in He. cbn [fst snd] in He.
  destruct sk as [c1 ks1|v1]; [|destruct He].
  assert (Hx : In x (chips (RNode c1 ks1))).
  { destruct He as [He|He]; [inversion He; subst; simpl; left; reflexivity|].
    apply hops_in_chips in He. exact (proj2 He). }
  apply occ_in in Hx. rewrite occ_node'. destruct (chip_eq_dec x x) as [_|N]; [|congruence].
  assert (occ x (RNode c1 ks1) <= socc x kids)%nat.
  { clear - Hk. induction kids as [|a kids IH]; [destruct Hk|]. cbn [socc fold_right]. destruct Hk as [Hk|Hk].
    - subst. cbn [snd]. lia.
    - specialize (IH Hk). unfold socc in IH. lia. }
  lia.
Qed.

(* ---- the parent relation *)
Definition Hrel (E : list (chip * option Z * chip)) (p x : chip) : Prop := exists r, In (p, r, x) E.
Definition Hstar (E : list (chip * option Z * chip)) : chip -> chip -> Prop := clos_refl_trans_1n chip (Hrel E).

Lemma hstar_mono : forall E E' x y, (forall e, In e E -> In e E') -> Hstar E x y -> Hstar E' x y.
Proof.
  intros E E' x y Hs H. induction H as [x|x y z Hxy Hyz IH]; [apply Relation_Operators.rt1n_refl|].
  eapply Relation_Operators.rt1n_trans; [|exact IH]. destruct Hxy as [r Hr]. exists r. apply Hs. exact Hr.
Qed.

Lemma hstar_trans : forall E x y z, Hstar E x y -> Hstar E y z -> Hstar E x z.
Proof.
  intros E x y z H1 H2. induction H1 as [x|x y w Hxy Hyw IH]; [exact H2|].
  eapply Relation_Operators.rt1n_trans; [exact Hxy | apply IH; exact H2].
Qed.

(* every node of a tree descends from its root *)
Lemma tree_connected : forall t r x, root_chip t = Some r -> In x (chips t) -> Hstar (tree_hops t) r x.
Proof.
  induction t as [v|c0 kids IH] using rtree_ind2; intros r x Hr Hx; [discriminate|].
  cbn in Hr. inversion Hr; subst c0. simpl in Hx. destruct Hx as [Hx|Hx].
  - subst. apply Relation_Operators.rt1n_refl.
  - apply in_flat_map in Hx. destruct Hx as [[rk sk] [Hk Hx]]. cbn [snd] in Hx. rewrite Forall_forall in IH.
    destruct sk as [c1 ks1|v1]; [|destruct Hx].
    eapply Relation_Operators.rt1n_trans.
    + exists rk. apply in_hops_node. exists (rk, RNode c1 ks1). split; [exact Hk|]. unfold hops_kid. simpl. left. reflexivity.
    + apply (hstar_mono (tree_hops (RNode c1 ks1))).
      * intros e He. apply in_hops_node. exists (rk, RNode c1 ks1). split; [exact Hk|]. unfold hops_kid. cbn [snd]. right. exact He.
      * apply (IH _ Hk c1 x); [reflexivity | exact Hx].
Qed.

(* adding one edge u -> w cannot create a path to z unless w already reached z *)
Lemma hstar_upper : forall E E' u w z,
    (forall p x, Hrel E' p x -> Hrel E p x \/ (p = u /\ x = w)) ->
    ~ Hstar E w z -> forall x, Hstar E' x z -> Hstar E x z.
Proof.
  intros E E' u w z Hup Hw x H. unfold Hstar in H. remember z as z0 eqn:Ez in H.
  induction H as [x|x y z1 Hxy Hyz IH]; [subst; apply Relation_Operators.rt1n_refl|].
  specialize (IH Ez). destruct (Hup x y Hxy) as [Hold|[Hx Hy]].
  - eapply Relation_Operators.rt1n_trans; [exact Hold | exact IH].
  - subst x y z1. contradiction.
Qed.

(* if every edge into c comes from u, a path to c passes through u *)
Lemma hstar_into : forall E c u x,
    (forall p, Hrel E p c -> p = u) -> Hstar E x c -> x = c \/ Hstar E x u.
Proof.
  intros E c u x Hin H. unfold Hstar in H. apply clos_rt1n_rt in H. apply clos_rt_rtn1 in H.
  inversion H as [|y z Hyz Hxy]; subst.
  - left. reflexivity.
  - right. rewrite (Hin y Hyz) in Hxy. unfold Hstar. apply clos_rt_rt1n. apply clos_rtn1_rt. exact Hxy.
Qed.

(* ------------------------------------------------------------------------------------------------
   none of the operations creates a vertex leaf *)
Definition leafless (t : rtree) : Prop := forall e, ~ In e (tree_leaves t).

Lemma leaves_attach_subtree : forall p d sub t e,
    In e (tree_leaves (attach p (Some d, sub) t)) -> In e (tree_leaves t) \/ In e (leaves_kid p (Some d, sub)).
Proof.
  intros p d sub. induction t as [v0|c0 kids IH] using rtree_ind2; intros e H.
  - simpl in H. destruct H.
  - rewrite attach_node_eq in H. apply in_leaves_node in H. destruct H as [k [Hk He]].
    rewrite Forall_forall in IH.
    assert (Hk' : In k (map (fun rk => (fst rk, attach p (Some d, sub) (snd rk))) kids)
                  \/ (chip_eqb c0 p = true /\ k = (Some d, sub))).
    { destruct (chip_eqb c0 p); [apply in_app_or in Hk; destruct Hk as [Hk|[Hk|[]]]; [left; exact Hk | right; split; [reflexivity | symmetry; exact Hk]] | left; exact Hk]. }
    destruct Hk' as [Hk'|[Hc Hk']].
    + apply in_map_iff in Hk'. destruct Hk' as [[rk sk] [Heq Hk1]]. subst k.
      unfold leaves_kid in He. cbn [fst snd] in He. destruct sk as [c1 ks1|v1].
      * rewrite attach_node_eq in He. rewrite <- attach_node_eq in He.
        destruct (IH _ Hk1 e He) as [H0|H0]; [|right; exact H0].
        left. apply in_leaves_node. exists (rk, RNode c1 ks1). split; [exact Hk1|]. unfold leaves_kid. cbn [snd]. exact H0.
      * left. apply in_leaves_node. exists (rk, RLeaf v1). split; [exact Hk1|]. exact He.
    + subst k. apply rt_chip_eqb_eq in Hc. subst c0. right. exact He.
Qed.

Lemma leafless_attach : forall p d sub t, leafless t -> leafless sub -> root_chip sub <> None ->
                                          leafless (attach p (Some d, sub) t).
Proof.
  intros p d sub t Ht Hs Hr e He. apply leaves_attach_subtree in He. destruct He as [He|He]; [exact (Ht e He)|].
  unfold leaves_kid in He. cbn [snd] in He. destruct sub as [c ks|v]; [exact (Hs e He) | apply Hr; reflexivity].
Qed.

Lemma leafless_kids : forall c kids k, leafless (RNode c kids) -> In k kids ->
                                       leafless (snd k) /\ exists c1 ks1, snd k = RNode c1 ks1.
Proof.
  intros c kids [rk sk] H Hk. cbn [snd]. destruct sk as [c1 ks1|v1].
  - split; [|exists c1, ks1; reflexivity]. intros e He. apply (H e). apply in_leaves_node.
    exists (rk, RNode c1 ks1). split; [exact Hk|]. unfold leaves_kid. cbn [snd]. exact He.
  - exfalso. apply (H (c, rk, v1)). apply in_leaves_node. exists (rk, RLeaf v1). split; [exact Hk|].
    unfold leaves_kid. simpl. left. reflexivity.
Qed.

Lemma leafless_node : forall c kids, (forall k, In k kids -> leafless (snd k) /\ exists c1 ks1, snd k = RNode c1 ks1) ->
                                     leafless (RNode c kids).
Proof.
  intros c kids H e He. apply in_leaves_node in He. destruct He as [k [Hk He]]. destruct (H k Hk) as [Hl [c1 [ks1 Hs]]].
  unfold leaves_kid in He. rewrite Hs in He. rewrite Hs in Hl. exact (Hl e He).
Qed.

Lemma find_sub_leafless : forall c t s, leafless t -> find_sub c t = Some s -> leafless s.
Proof.
  intros c. induction t as [v|p kids IH] using rtree_ind2; intros s Hl H; [discriminate|].
  rewrite find_sub_node in H. destruct (chip_eqb c p); [inversion H; subst; exact Hl|].
  rewrite Forall_forall in IH.
  assert (G : forall ks, (forall k, In k ks -> In k kids) -> find_kids c ks = Some s -> leafless s).
  { induction ks as [|k ks IHk]; intros Hsub Hf; [discriminate|]. cbn [find_kids] in Hf.
    destruct (find_sub c (snd k)) as [s0|] eqn:E.
    - inversion Hf; subst. apply (IH k (Hsub k (or_introl eq_refl)) s); [|exact E].
      apply (leafless_kids p kids k Hl (Hsub k (or_introl eq_refl))).
    - apply IHk; [intros k0 H0; apply Hsub; right; exact H0 | exact Hf]. }
  apply (G kids); [auto | exact H].
Qed.

Lemma remove_first_kid_sub : forall c (ks : kids_t) k, In k (remove_first_kid c ks) -> In k ks.
Proof.
  intros c. induction ks as [|a ks IH]; intros k H; [destruct H|]. cbn [remove_first_kid] in H.
  destruct (kid_is c a); [right; exact H|]. destruct H as [H|H]; [left; exact H | right; apply IH; exact H].
Qed.

Lemma sever_leafless : forall c t t', leafless t -> sever c t = Some t' -> leafless t'.
Proof.
  intros c. induction t as [v|p kids IH] using rtree_ind2; intros t' Hl H; [discriminate|].
  rewrite sever_node in H. rewrite Forall_forall in IH. destruct (existsb (kid_is c) kids).
  - inversion H; subst. apply leafless_node. intros k Hk. apply (leafless_kids p kids k Hl).
    apply (remove_first_kid_sub c kids k Hk).
  - destruct (sever_kids c kids) as [ks'|] eqn:E; [|discriminate]. cbn [option_map] in H. inversion H; subst.
    apply leafless_node.
    assert (G : forall ks ks', (forall k, In k ks -> In k kids) -> sever_kids c ks = Some ks' ->
                               forall k, In k ks' -> leafless (snd k) /\ exists c1 ks1, snd k = RNode c1 ks1).
    { induction ks as [|k0 ks IHk]; intros ks0 Hsub Hs k Hk; [discriminate|]. cbn [sever_kids] in Hs.
      destruct (sever c (snd k0)) as [s'|] eqn:Es.
      - inversion Hs; subst. destruct Hk as [Hk|Hk].
        + subst k. cbn [snd]. pose proof (leafless_kids p kids k0 Hl (Hsub k0 (or_introl eq_refl))) as [Hk0 [c1 [ks1 Hn]]].
          split; [apply (IH k0 (Hsub k0 (or_introl eq_refl)) s' Hk0 Es)|].
          rewrite Hn in Es. rewrite sever_node in Es. destruct (existsb (kid_is c) ks1).
          * inversion Es. eexists; eexists; reflexivity.
          * destruct (sever_kids c ks1); [|discriminate]. inversion Es. eexists; eexists; reflexivity.
        + apply (leafless_kids p kids k Hl). apply Hsub. right. exact Hk.
      - destruct (sever_kids c ks) as [ks1|] eqn:E1; [|discriminate]. cbn [option_map] in Hs. inversion Hs; subst.
        destruct Hk as [Hk|Hk].
        + subst k. apply (leafless_kids p kids k0 Hl). apply Hsub. left. reflexivity.
        + apply (IHk ks1); [intros k1 H1; apply Hsub; right; exact H1 | reflexivity | exact Hk]. }
    apply (G kids ks'); [auto | exact E].
Qed.

Definition fleafless (f : list rtree) : Prop := forall t, In t f -> leafless t.

Lemma forest_find_leafless : forall c f s, fleafless f -> forest_find c f = Some s -> leafless s.
Proof.
  intros c. induction f as [|t f IH]; intros s Hl H; [discriminate|]. cbn [forest_find] in H.
  destruct (find_sub c t) as [s0|] eqn:E.
  - inversion H; subst. apply (find_sub_leafless c t s); [apply Hl; left; reflexivity | exact E].
  - apply IH; [intros t0 H0; apply Hl; right; exact H0 | exact H].
Qed.

Lemma forest_sever_any_leafless : forall c f, fleafless f -> fleafless (forest_sever_any c f).
Proof.
  intros c. induction f as [|t f IH]; intros Hl t0 H0; [destruct H0|]. cbn [forest_sever_any] in H0.
  destruct (sever c t) as [t'|] eqn:E.
  - destruct H0 as [H0|H0]; [subst; apply (sever_leafless c t t0); [apply Hl; left; reflexivity | exact E] | apply Hl; right; exact H0].
  - destruct H0 as [H0|H0]; [subst; apply Hl; left; reflexivity|].
    apply (IH (fun t1 H1 => Hl t1 (or_intror H1))). exact H0.
Qed.

Lemma forest_attach_leafless : forall p d sub f, fleafless f -> leafless sub -> root_chip sub <> None ->
                                                 fleafless (forest_attach p (Some d, sub) f).
Proof.
  intros p d sub f Hf Hs Hr t Ht. unfold forest_attach in Ht. apply in_map_iff in Ht. destruct Ht as [t0 [Heq Ht0]].
  subst t. apply leafless_attach; [apply Hf; exact Ht0 | exact Hs | exact Hr].
Qed.
