(* C01, premise discharge, part 3: the end-to-end statement for the MODELS of table generation (C10) and of
   minimisation (C04): generated tables lie in the minimisers' domain; (1) + (2) + C04 + delivery_of_tree. *)
From Coq Require Import ZArith List Bool Permutation Lia.
Require Import Rig.Generated.GenTable Rig.Generated.GenTableEnums.
Require Import Rig.Model.Base Rig.Generated.GenRouter.
Require Import Rig.Model.Tables Rig.Spec.Tables Rig.Proofs.Tables Rig.Proofs.TablesFold.
Require Import Rig.Model.Table Rig.Spec.Table Rig.Proofs.TableCheck Rig.Proofs.Table Rig.Proofs.TableOC3.
Require Import Rig.Model.Network Rig.Spec.Network Rig.Proofs.Network Rig.Proofs.NetworkTree.
Require Import Rig.Proofs.NetworkComposeDefs Rig.Proofs.NetworkComposeMin Rig.Proofs.NetworkComposeGen.
Import ListNotations.
Open Scope Z_scope.

(* ------------------------------------------------------------------------------------------------ *)
(** * Generated tables are in the domain of the minimisers *)

Lemma hw_tables_keys : forall T, map fst (hw_tables T) = map fst T.
Proof. intros T. unfold hw_tables. rewrite map_map. reflexivity. Qed.

Lemma hw_tables_In : forall T c t, In (c, t) (hw_tables T) -> exists es, In (c, es) T /\ t = map hw_entry es.
Proof.
  intros T c t H. unfold hw_tables in H. apply in_map_iff in H. destruct H as [[c' es] [Heq Hin]].
  cbn [fst snd] in Heq. injection Heq as -> <-. exists es. split; [exact Hin|reflexivity].
Qed.

Lemma generated_chips_NoDup : forall routes net_keys T,
  tables_spec (all_visits routes net_keys) T -> NoDup (map fst T).
Proof. intros routes net_keys T [H _]. rewrite H. apply first_occ_NoDup. exact t_chip_eqb_eq. Qed.

(* the (key, mask) of an entry of a net that has a well-formed key is that key *)
Lemma zassoc_km_eq : forall n (net_keys : list (Z * km)) (a b : km),
  zassoc n net_keys = Some a -> zassoc n net_keys = Some b -> a = b.
Proof.
  intros n net_keys a b Ha Hb.
  assert (H : Some a = Some b) by (transitivity (zassoc n net_keys); [symmetry; exact Ha|exact Hb]).
  injection H as H. exact H.
Qed.

Lemma generated_table_domain : forall m routes net_keys T c es,
  nets_ok m routes net_keys -> routing_tree_to_tables routes net_keys = ROk T ->
  cassoc c T = Some es -> minimiser_domain (map hw_entry es).
Proof.
  intros m routes net_keys T c es Hok HT Hc.
  pose proof (generated_spec _ _ _ _ Hok HT) as Hspec.
  pose proof (entry_net routes net_keys T c es) as Hnet.
  destruct Hok as [Hkeys [Horth Hvalid]].
  split; [|split].
  - (* table32 *)
    intros x Hx. apply in_map_iff in Hx. destruct Hx as [e [<- He]].
    destruct (Hnet e Hspec Hc He) as [n [t [d [kids [Hnt [Ez _]]]]]].
    destruct (Hkeys n t Hnt) as [c0 [Ez0 H32]].
    rewrite (zassoc_km_eq _ _ _ _ Ez0 Ez) in H32. exact H32.
  - (* nonempty_sources *)
    intros x Hx. apply in_map_iff in Hx. destruct Hx as [e [<- He]].
    destruct (Hnet e Hspec Hc He) as [n [t [d [kids [Hnt [Ez Hnode]]]]]].
    destruct (Hvalid n t Hnt) as [_ [_ Hh]].
    assert (Hd : dir_ok d) by (apply (node_in_dir_ok _ _ _ _ _ _ _ Hnode Hh); left; reflexivity).
    destruct (in_direction_port d Hd) as [s [Hs [Henc Hpos]]].
    destruct Hspec as [_ Hper]. destruct (Hper c es Hc) as [_ Hent]. destruct (Hent e He) as [_ Hsrc].
    assert (Hin : In s (Tables.e_sources e)).
    { apply Hsrc. exists ((Tables.e_key e, Tables.e_mask e), (d, c, out_set kids)).
      split; [|split; [split; reflexivity|exact Hs]].
      apply all_visits_In. exists n, t, (Tables.e_key e, Tables.e_mask e), (d, c, out_set kids).
      repeat split; try assumption. apply bfs_order_nodes. exists d, c, kids. split; [exact Hnode|reflexivity]. }
    intros Hz. unfold hw_entry, entry_bits in Hz. cbn [e_sources] in Hz.
    assert (Hb : Z.testbit (bits_of (Tables.e_sources e)) (src_bit (port_of d)) = true).
    { apply bits_of_testbit; [exact Hpos|]. exists s. split; assumption. }
    rewrite Hz, Z.bits_0 in Hb. discriminate.
  - (* orthogonal *)
    right. intros i j a b k Hij Ha Hb Hk Hm.
    rewrite nth_error_map in Ha, Hb.
    destruct (nth_error es i) as [ea|] eqn:Ei; [|discriminate]. injection Ha as <-.
    destruct (nth_error es j) as [eb|] eqn:Ej; [|discriminate]. injection Hb as <-.
    pose proof (nth_error_In _ _ Ei) as Hea. pose proof (nth_error_In _ _ Ej) as Heb.
    destruct (Hnet ea Hspec Hc Hea) as [na [ta [da [ka [Hnta [Eza _]]]]]].
    destruct (Hnet eb Hspec Hc Heb) as [nb [tb [db [kb [Hntb [Ezb _]]]]]].
    rewrite matches_hw_entry in *.
    destruct (Z.eq_dec na nb) as [Heq|Hne].
    + (* same net: same (key, mask), but the entries of a chip have distinct (key, mask) *)
      exfalso. subst nb. pose proof (zassoc_km_eq _ _ _ _ Eza Ezb) as Hkm.
      destruct Hspec as [_ Hper]. destruct (Hper c es Hc) as [Hkms _].
      assert (Hnd : NoDup (map (fun e0 => (Tables.e_key e0, Tables.e_mask e0)) es)).
      { rewrite Hkms. apply first_occ_NoDup. exact km_eqb_eq. }
      rewrite NoDup_nth_error in Hnd. apply Hij. apply Hnd.
      * rewrite map_length. apply nth_error_Some. rewrite Ei. discriminate.
      * rewrite !nth_error_map, Ei, Ej. cbn [option_map]. rewrite Hkm. reflexivity.
    + exact (Horth na ta nb tb _ _ Hnta Hntb Hne Eza Ezb k Hk Hm).
Qed.

Lemma empty_table_domain : minimiser_domain [].
Proof.
  split; [intros e []|]. split; [intros e []|]. right. intros i j a b k _ Ha. destruct i; discriminate.
Qed.

Lemma generated_in_domain : forall m routes net_keys T,
  nets_ok m routes net_keys -> routing_tree_to_tables routes net_keys = ROk T ->
  NoDup (map fst (hw_tables T))
  /\ (forall c t, In (c, t) (hw_tables T) -> minimiser_domain t)
  /\ (forall c, minimiser_domain (table_at (hw_tables T) c)).
Proof.
  intros m routes net_keys T Hok HT.
  pose proof (generated_chips_NoDup _ _ _ (generated_spec _ _ _ _ Hok HT)) as Hnd.
  split; [rewrite hw_tables_keys; exact Hnd|]. split.
  - intros c t Hin. apply hw_tables_In in Hin. destruct Hin as [es [Hin ->]].
    apply (generated_table_domain m routes net_keys T c es Hok HT). apply cassoc_In_NoDup; assumption.
  - intros c. destruct (cassoc c T) as [es|] eqn:Ec.
    + rewrite (table_at_hw_tables T c es Ec). apply (generated_table_domain m routes net_keys T c es Hok HT Ec).
    + assert (E : table_at (hw_tables T) c = []).
      { unfold table_at. destruct (cassoc c (hw_tables T)) as [t|] eqn:E'; [|reflexivity].
        apply cassoc_In_some in E'. apply hw_tables_In in E'. destruct E' as [es [Hin _]].
        rewrite (cassoc_In_NoDup T c es Hnd Hin) in Ec. discriminate. }
      rewrite E. exact empty_table_domain.
Qed.

(* ------------------------------------------------------------------------------------------------ *)
(** * (1) in the words of the hardware model *)

(* the bits of the route word of a node's out-set: bit i (a link 0..5 or a core route 6..23) is set iff a
   child -- subtree or vertex -- hangs on route i *)
Lemma out_set_bits : forall kids i, 0 <= i < 24 ->
  (Z.testbit (bits_of (out_set kids)) i = true <-> exists t, In (Some i, t) kids).
Proof. intros kids i Hi. rewrite bits_of_testbit_route by exact Hi. apply out_set_In. Qed.

Lemma tables_of_trees_hop_route_at : forall m routes net_keys T,
  nets_ok m routes net_keys -> routing_tree_to_tables routes net_keys = ROk T ->
  forall n t c0 k, In (n, t) routes -> zassoc n net_keys = Some c0 -> key32 k -> km_matches c0 k = true ->
  forall d c kids, node_in none_dir t d c kids ->
    route_at (hw_tables T) k c (port_of d) = Some (bits_of (out_set kids))
    /\ exists e, lookup (table_at (hw_tables T) c) k = Some e
                 /\ e_route e = bits_of (out_set kids) /\ listed e (port_of d).
Proof.
  intros m routes net_keys T Hok HT n t c0 k Hnt Ez Hk Hm d c kids Hnode.
  pose proof (tables_of_trees_hop m routes net_keys T Hok HT n t c0 k Hnt Ez Hk Hm d c kids Hnode) as H.
  split; [apply node_hop_route_at; exact H|exact H].
Qed.

Lemma converted_tree_leaves : forall t, is_node t ->
  (forall c x, In (c, x) (tree_cores (rtree_of t)) <->
               exists d kids v, node_in none_dir t d c kids /\ In (Some (x + 6), TLeaf v) kids /\ 0 <= x)
  /\ (forall c l, In (c, l) (tree_exits (rtree_of t)) <->
                  exists d kids v, node_in none_dir t d c kids /\ In (Some l, TLeaf v) kids /\ l < 6)
  /\ (NoDup (tchips t) -> NoDup (tree_cores (rtree_of t)) /\ NoDup (tree_exits (rtree_of t))).
Proof.
  intros t Hn. split; [intros c x; apply tree_cores_spec; exact Hn|].
  split; [intros c l; apply tree_exits_spec; exact Hn|].
  intros Hnd. split; [apply tree_cores_NoDup|apply tree_exits_NoDup]; exact Hnd.
Qed.

(* ------------------------------------------------------------------------------------------------ *)
(** * (3) end to end *)

(* any tables that route, chip by chip, like the generated ones *)
Lemma end_to_end_route_eq : forall m routes net_keys T tabs',
  nets_ok m routes net_keys -> routing_tree_to_tables routes net_keys = ROk T ->
  tables_route_eq (hw_tables T) tabs' ->
  forall n t c0 k, In (n, t) routes -> zassoc n net_keys = Some c0 -> key32 k -> km_matches c0 k = true ->
  tree_ok m tabs' k (tree_exits (rtree_of t)) None (rtree_of t)
  /\ DeliveredExactly m tabs' k (root (rtree_of t)) (tree_cores (rtree_of t)) (tree_exits (rtree_of t)).
Proof.
  intros m routes net_keys T tabs' Hok HT Heq n t c0 k Hnt Ez Hk Hmatch.
  destruct (tables_of_trees_tree_ok m routes net_keys T Hok HT n t c0 k Hnt Ez Hk Hmatch) as [Htok Hls].
  pose proof (minimise_preserves_tree_ok m _ tabs' k _ _ None Hk Heq Htok Hls) as Htok'.
  split; [exact Htok'|].
  destruct Hok as [_ [_ Hvalid]]. destruct (Hvalid n t Hnt) as [_ [Hnd _]].
  apply tree_delivered_exactly; [exact Htok'|apply tree_cores_NoDup; exact Hnd|apply Permutation_refl|
                                 apply tree_exits_NoDup; exact Hnd].
Qed.

Lemma tables_route_eq_refl : forall T, tables_route_eq T T.
Proof. intros T c. apply route_eq_refl. Qed.

(* the generated tables themselves *)
Lemma end_to_end_generated : forall m routes net_keys T,
  nets_ok m routes net_keys -> routing_tree_to_tables routes net_keys = ROk T ->
  forall n t c0 k, In (n, t) routes -> zassoc n net_keys = Some c0 -> key32 k -> km_matches c0 k = true ->
  DeliveredExactly m (hw_tables T) k (root (rtree_of t)) (tree_cores (rtree_of t)) (tree_exits (rtree_of t)).
Proof.
  intros m routes net_keys T Hok HT n t c0 k Hnt Ez Hk Hmatch.
  apply (end_to_end_route_eq m routes net_keys T (hw_tables T) Hok HT (tables_route_eq_refl _) n t c0 k);
    assumption.
Qed.

Lemma route_eq_nil : forall T, route_eq [] T.
Proof. intros T k e _ H. discriminate. Qed.

(* the model of minimise_tables applied to the generated tables routes like them, chip by chip *)
Lemma minimise_tables_tables_route_eq : forall m routes net_keys T tg out,
  nets_ok m routes net_keys -> routing_tree_to_tables routes net_keys = ROk T ->
  minimise_tables (hw_tables T) tg = TablesOk out ->
  tables_route_eq (hw_tables T) out.
Proof.
  intros m routes net_keys T tg out Hok HT Hmin.
  destruct (generated_in_domain m routes net_keys T Hok HT) as [Hnd [Hdom _]].
  pose proof (minimise_tables_domain_spec (hw_tables T) tg Hnd Hdom) as H. rewrite Hmin in H.
  destruct H as [Hall _]. intros c. unfold table_at at 1.
  destruct (cassoc c (hw_tables T)) as [t|] eqn:Ec; [|apply route_eq_nil].
  destruct (Hall c t (cassoc_In_some _ _ _ Ec)) as [tl [_ [_ [Hre _]]]]. exact Hre.
Qed.

(* (3) generation, then minimise_tables with any targets that does not fail *)
Lemma end_to_end_models : forall m routes net_keys T tg out,
  nets_ok m routes net_keys -> routing_tree_to_tables routes net_keys = ROk T ->
  minimise_tables (hw_tables T) tg = TablesOk out ->
  forall n t c0 k, In (n, t) routes -> zassoc n net_keys = Some c0 -> key32 k -> km_matches c0 k = true ->
  DeliveredExactly m out k (root (rtree_of t)) (tree_cores (rtree_of t)) (tree_exits (rtree_of t)).
Proof.
  intros m routes net_keys T tg out Hok HT Hmin n t c0 k Hnt Ez Hk Hmatch.
  apply (end_to_end_route_eq m routes net_keys T out Hok HT
           (minimise_tables_tables_route_eq m routes net_keys T tg out Hok HT Hmin) n t c0 k); assumption.
Qed.

Lemma method_ok_route_eq : forall f t target r, method_ok f t -> f t target = Ok r -> route_eq t r.
Proof.
  intros f t target r [full [Hn [Hre [_ Htl]]]] H. destruct target as [tl|].
  - specialize (Htl tl). rewrite H in Htl. destruct Htl as [H1 _]. exact H1.
  - rewrite Hn in H. injection H as <-. exact Hre.
Qed.

Lemma minimised_by_some_method_route_eq : forall t t',
  minimiser_domain t -> minimised_by_some_method t t' -> route_eq t t'.
Proof.
  intros t t' Hdom [->|[[target H]|[[target H]|[target H]]]].
  - apply route_eq_refl.
  - apply (method_ok_route_eq remove_default t target t' (remove_default_method_ok t) H).
  - apply (method_ok_route_eq oc_minimise t target t' (oc_minimise_spec t Hdom) H).
  - pose proof (minimise_table_domain_spec t target Hdom) as Hs. rewrite H in Hs. destruct Hs as [Hs _]. exact Hs.
Qed.

(* (3') every chip's table minimised by whichever of the modelled methods, with whichever target *)
Lemma end_to_end_any_method : forall m routes net_keys T tabs',
  nets_ok m routes net_keys -> routing_tree_to_tables routes net_keys = ROk T ->
  (forall c, minimised_by_some_method (table_at (hw_tables T) c) (table_at tabs' c)) ->
  forall n t c0 k, In (n, t) routes -> zassoc n net_keys = Some c0 -> key32 k -> km_matches c0 k = true ->
  DeliveredExactly m tabs' k (root (rtree_of t)) (tree_cores (rtree_of t)) (tree_exits (rtree_of t)).
Proof.
  intros m routes net_keys T tabs' Hok HT Hmin n t c0 k Hnt Ez Hk Hmatch.
  destruct (generated_in_domain m routes net_keys T Hok HT) as [_ [_ Hdom]].
  assert (Heq : tables_route_eq (hw_tables T) tabs').
  { intros c. apply minimised_by_some_method_route_eq; [apply Hdom|apply Hmin]. }
  apply (end_to_end_route_eq m routes net_keys T tabs' Hok HT Heq n t c0 k); assumption.
Qed.

(* orthogonality can be decided with rig's own intersect *)
Lemma km_disjoint_intersect : forall c1 c2 : km,
  intersect (fst c1) (snd c1) (fst c2) (snd c2) = false -> km_disjoint c1 c2.
Proof.
  intros [k1 m1] [k2 m2] H k _ Hm. cbn [fst snd] in H. exact (intersect_false_disjoint k1 m1 k2 m2 k H Hm).
Qed.

(* ------------------------------------------------------------------------------------------------ *)
(** * Table generation does not fail on valid trees with orthogonal keys *)

Lemma node_in_chip : forall d t d' c' kids', node_in d t d' c' kids' -> In c' (tchips t).
Proof.
  intros d t d' c' kids' H. induction H as [d c kids|d c kids r t d' c' kids' Hk Hn IH].
  - apply root_in_tchips.
  - rewrite tchips_node. right. apply in_flat_map. exists (Some r, t). split; [exact Hk|exact IH].
Qed.

Lemma flat_map_NoDup_same : forall {A B} (f : A -> list B) l x y z,
  NoDup (flat_map f l) -> In x l -> In y l -> In z (f x) -> In z (f y) -> x = y.
Proof.
  intros A B f l x y z. induction l as [|a l IH]; intros Hnd Hx Hy Hzx Hzy; [contradiction|].
  cbn [flat_map] in Hnd. apply NoDup_app_inv in Hnd. destruct Hnd as [_ [Hnd Hdis]].
  destruct Hx as [->|Hx]; destruct Hy as [->|Hy].
  - reflexivity.
  - exfalso. apply (Hdis z Hzx). apply in_flat_map. exists y. split; assumption.
  - exfalso. apply (Hdis z Hzy). apply in_flat_map. exists x. split; assumption.
  - apply IH; assumption.
Qed.

(* in a tree without a repeated chip a chip names one node *)
Lemma node_in_unique : forall d t d1 c k1,
  node_in d t d1 c k1 -> forall d2 k2, NoDup (tchips t) -> node_in d t d2 c k2 -> k1 = k2.
Proof.
  intros d t d1 c k1 H. induction H as [d c kids|d c kids r t d' c' kids' Hk Hn IH]; intros d2 k2 Hnd H2.
  - inversion H2 as [? ? ?|? ? ? r t ? ? ? Hk Hsub]; subst; [reflexivity|].
    exfalso. rewrite tchips_node in Hnd. inversion Hnd as [|? ? Hc _]; subst. apply Hc.
    apply in_flat_map. exists (Some r, t). split; [exact Hk|]. apply (node_in_chip _ _ _ _ _ Hsub).
  - inversion H2 as [? ? ?|? ? ? r0 t0 ? ? ? Hk0 Hsub]; subst.
    + exfalso. rewrite tchips_node in Hnd. inversion Hnd as [|? ? Hc _]; subst. apply Hc.
      apply in_flat_map. exists (Some r, t). split; [exact Hk|]. apply (node_in_chip _ _ _ _ _ Hn).
    + rewrite tchips_node in Hnd. inversion Hnd as [|? ? _ Hndk]; subst.
      assert (E : (Some r, t) = (Some r0, t0)).
      { apply (flat_map_NoDup_same (fun k => tchips (snd k)) kids _ _ c' Hndk Hk Hk0).
        - apply (node_in_chip _ _ _ _ _ Hn).
        - apply (node_in_chip _ _ _ _ _ Hsub). }
      injection E as <- <-. apply (IH d2 k2); [|exact Hsub].
      apply (NoDup_flat_map_in (fun k => tchips (snd k)) kids (Some r, t) Hndk Hk).
Qed.

Lemma km32_self_match : forall c : km, km32 c -> key32 (fst c) /\ km_matches c (fst c) = true.
Proof.
  intros [key mask] [Hk [Hm Hwf]]. cbn [fst snd] in *. split; [unfold key32; lia|].
  unfold km_matches. cbn [fst snd]. apply Z.eqb_eq.
  assert (Hb : wfb (key, mask)) by (apply wf_km_wfb; unfold wf_km; cbn [fst snd]; apply Z.eqb_eq; exact Hwf).
  apply Z.bits_inj'. intros j Hj. rewrite Z.land_spec.
  destruct (Z.testbit key j) eqn:E; [|reflexivity].
  pose proof (Hb j Hj E) as Hmj. cbn [fst snd] in Hmj. rewrite Hmj. reflexivity.
Qed.

Lemma NoDup_map_fst_inj : forall {A B} (l : list (A * B)) a b b',
  NoDup (map fst l) -> In (a, b) l -> In (a, b') l -> b = b'.
Proof.
  intros A B l a b b'. induction l as [|[a0 b0] l IH]; intros Hnd H1 H2; [contradiction|].
  cbn [map fst] in Hnd. inversion Hnd as [|? ? Hx Hr]; subst.
  assert (Hno : forall y, In (a0, y) l -> False).
  { intros y Hy. apply Hx. apply in_map_iff. exists (a0, y). split; [reflexivity|exact Hy]. }
  destruct H1 as [H1|H1]; destruct H2 as [H2|H2].
  - congruence.
  - injection H1 as -> ->. exfalso. exact (Hno _ H2).
  - injection H2 as -> ->. exfalso. exact (Hno _ H1).
  - apply IH; assumption.
Qed.

Lemma nets_no_conflict : forall m routes net_keys,
  nets_ok m routes net_keys -> NoDup (map fst routes) -> ~ conflict (all_visits routes net_keys).
Proof.
  intros m routes net_keys [Hkeys [Horth Hvalid]] Hnd [u [v [Hu [Hv [[Hc Hkm] Hne]]]]].
  apply all_visits_In in Hu. destruct Hu as [n1 [t1 [c1 [w1 [Hnt1 [Ez1 [Hw1 ->]]]]]]].
  apply all_visits_In in Hv. destruct Hv as [n2 [t2 [c2 [w2 [Hnt2 [Ez2 [Hw2 ->]]]]]]].
  apply bfs_order_nodes in Hw1. destruct Hw1 as [d1 [ch1 [k1 [Hn1 ->]]]].
  apply bfs_order_nodes in Hw2. destruct Hw2 as [d2 [ch2 [k2 [Hn2 ->]]]].
  unfold kv_chip, kv_km, kv_outs in *. cbn [fst snd] in *. subst ch2 c2.
  assert (En : n1 = n2).
  { destruct (Z.eq_dec n1 n2) as [E|E]; [exact E|exfalso].
    destruct (Hkeys n1 t1 Hnt1) as [c0 [Ez0 H32]]. rewrite (zassoc_km_eq _ _ _ _ Ez0 Ez1) in H32.
    destruct (km32_self_match c1 H32) as [Hk Hm].
    pose proof (Horth n1 t1 n2 t2 c1 c1 Hnt1 Hnt2 E Ez1 Ez2 (fst c1) Hk Hm) as Hf. congruence. }
  subst n2. pose proof (NoDup_map_fst_inj routes n1 t1 t2 Hnd Hnt1 Hnt2) as Et. subst t2.
  destruct (Hvalid n1 t1 Hnt1) as [_ [Hndc _]].
  apply Hne. rewrite (node_in_unique _ _ _ _ _ Hn1 d2 k2 Hndc Hn2). reflexivity.
Qed.

(* routing_tree_to_tables raises nothing -- in particular no MultisourceRouteError -- on nets_ok inputs
   (nets being the keys of a dictionary: listed once) *)
Lemma tables_of_trees_succeeds : forall m routes net_keys,
  nets_ok m routes net_keys -> NoDup (map fst routes) ->
  exists T, routing_tree_to_tables routes net_keys = ROk T.
Proof.
  intros m routes net_keys Hok Hnd.
  pose proof (nets_ok_inputs_ok _ _ _ Hok) as Hin.
  pose proof (tables_of_trees routes net_keys Hin) as H.
  pose proof (multisource_iff routes net_keys Hin) as Hms.
  destruct (routing_tree_to_tables routes net_keys) as [T|k0 m0 c0| |]; try contradiction.
  - exists T. reflexivity.
  - exfalso. apply (nets_no_conflict m routes net_keys Hok Hnd). apply Hms. exists k0, m0, c0. reflexivity.
Qed.

(* ------------------------------------------------------------------------------------------------ *)
(** * A concrete instance *)

(* On ex_machine (Proofs/NetworkTree.v: 3x3, chip (1,1) dead, link north of (0,0) dead, link south of (2,0)
   is a device link).  Three nets:
     1: key 5/0xf, (0,0) -> east (1,0) -> east (2,0): cores 1 and 2 (the sink listed twice) and the device
        on link 5 of (2,0);
     2: key 6/0xf, (1,0): core 0 there, and east to (2,0): core 3;
     3: key 8/0xc (matches 8..11), (2,0) -> west (1,0) -> west (0,0): core 1.
   On (1,0) the entries of nets 1 and 3 go straight through: default-route removal drops them. *)
Definition ex2_tree1 : tree :=
  TNode (0, 0) [(Some 0, TNode (1, 0) [(Some 0, TNode (2, 0) [(Some 7, TLeaf 10); (Some 8, TLeaf 10);
                                                               (Some 7, TLeaf 10); (Some 8, TLeaf 10);
                                                               (Some 5, TLeaf 11)])])].
Definition ex2_tree2 : tree :=
  TNode (1, 0) [(Some 6, TLeaf 20); (Some 0, TNode (2, 0) [(Some 9, TLeaf 21)])].
Definition ex2_tree3 : tree :=
  TNode (2, 0) [(Some 3, TNode (1, 0) [(Some 3, TNode (0, 0) [(Some 7, TLeaf 30)])])].

Definition ex2_routes : list (Z * tree) := [(1, ex2_tree1); (2, ex2_tree2); (3, ex2_tree3)].
Definition ex2_keys : list (Z * km) := [(1, (5, 15)); (2, (6, 15)); (3, (8, 12))].

Ltac solve_hops :=
  repeat match goal with
         | |- _ <= _ < _ => lia
         | |- _ /\ _ => split
         | |- True => exact I
         | |- exists d, Some _ = Some d /\ _ => eexists; split; [reflexivity|]
         | |- ~ In _ _ => vm_compute; intuition discriminate
         | |- _ = neighbour _ _ _ => vm_compute; reflexivity
         end.

Lemma ex2_nets_ok : nets_ok ex_machine ex2_routes ex2_keys.
Proof.
  split; [|split].
  - intros n t [H|[H|[H|[]]]]; injection H as <- <-; eexists; (split; [reflexivity|]);
      vm_compute; repeat split; discriminate.
  - intros n1 t1 n2 t2 c1 c2 H1 H2 Hne Hz1 Hz2.
    destruct H1 as [H1|[H1|[H1|[]]]]; injection H1 as <- <-;
      destruct H2 as [H2|[H2|[H2|[]]]]; injection H2 as <- <-;
        try (exfalso; apply Hne; reflexivity);
        cbn in Hz1, Hz2; injection Hz1 as <-; injection Hz2 as <-;
          apply km_disjoint_intersect; vm_compute; reflexivity.
  - intros n t [H|[H|[H|[]]]]; injection H as <- <-; (split; [exact I|]); split.
    + vm_compute. repeat constructor; cbn [In]; intuition discriminate.
    + cbn [ex2_tree1 hops_ok kid_hop_ok fst snd]. solve_hops.
    + vm_compute. repeat constructor; cbn [In]; intuition discriminate.
    + cbn [ex2_tree2 hops_ok kid_hop_ok fst snd]. solve_hops.
    + vm_compute. repeat constructor; cbn [In]; intuition discriminate.
    + cbn [ex2_tree3 hops_ok kid_hop_ok fst snd]. solve_hops.
Qed.

Definition ex2_generated : list (chip * list Tables.entry) :=
  [((0, 0), [Tables.mkEntry [0] 5 15 [-1]; Tables.mkEntry [7] 8 12 [0]]);
   ((1, 0), [Tables.mkEntry [0] 5 15 [3]; Tables.mkEntry [0; 6] 6 15 [-1]; Tables.mkEntry [3] 8 12 [0]]);
   ((2, 0), [Tables.mkEntry [5; 7; 8] 5 15 [3]; Tables.mkEntry [9] 6 15 [3]; Tables.mkEntry [3] 8 12 [-1]])].

Definition ex2_minimised : list (chip * table) :=
  [((0, 0), [mkEntry 1 5 15 16777216; mkEntry 128 8 12 1]);
   ((1, 0), [mkEntry 65 6 15 16777216]);
   ((2, 0), [mkEntry 416 5 15 8; mkEntry 512 6 15 8; mkEntry 8 8 12 16777216])].

Lemma ex2_instance :
  nets_ok ex_machine ex2_routes ex2_keys
  /\ routing_tree_to_tables ex2_routes ex2_keys = ROk ex2_generated
  /\ minimise_tables (hw_tables ex2_generated) TNone = TablesOk ex2_minimised
  (* nets 1 and 3 are default routed at (1,0) *)
  /\ lookup (table_at ex2_minimised (1, 0)) 5 = None /\ lookup (table_at ex2_minimised (1, 0)) 9 = None
  (* the leaves of the converted trees *)
  /\ tree_cores (rtree_of ex2_tree1) = [((2, 0), 1); ((2, 0), 2)]
  /\ tree_exits (rtree_of ex2_tree1) = [((2, 0), 5)]
  /\ tree_cores (rtree_of ex2_tree3) = [((0, 0), 1)]
  (* the conclusions, obtained from end_to_end_models *)
  /\ DeliveredExactly ex_machine ex2_minimised 5 (0, 0) [((2, 0), 1); ((2, 0), 2)] [((2, 0), 5)]
  /\ DeliveredExactly ex_machine ex2_minimised 6 (1, 0) [((1, 0), 0); ((2, 0), 3)] []
  /\ DeliveredExactly ex_machine ex2_minimised 9 (2, 0) [((0, 0), 1)] []
  (* and the executable checker agrees *)
  /\ check_delivery ex_machine ex2_minimised 5 (0, 0) [((2, 0), 1); ((2, 0), 2)] [((2, 0), 5)] = true.
Proof.
  assert (HT : routing_tree_to_tables ex2_routes ex2_keys = ROk ex2_generated) by (vm_compute; reflexivity).
  assert (HM : minimise_tables (hw_tables ex2_generated) TNone = TablesOk ex2_minimised) by (vm_compute; reflexivity).
  split; [exact ex2_nets_ok|]. split; [exact HT|]. split; [exact HM|].
  split; [vm_compute; reflexivity|]. split; [vm_compute; reflexivity|].
  split; [vm_compute; reflexivity|]. split; [vm_compute; reflexivity|]. split; [vm_compute; reflexivity|].
  split; [|split; [|split]].
  - apply (end_to_end_models ex_machine ex2_routes ex2_keys ex2_generated TNone ex2_minimised ex2_nets_ok HT HM
             1 ex2_tree1 (5, 15) 5); [left; reflexivity|reflexivity|unfold key32; lia|reflexivity].
  - apply (end_to_end_models ex_machine ex2_routes ex2_keys ex2_generated TNone ex2_minimised ex2_nets_ok HT HM
             2 ex2_tree2 (6, 15) 6); [right; left; reflexivity|reflexivity|unfold key32; lia|reflexivity].
  - apply (end_to_end_models ex_machine ex2_routes ex2_keys ex2_generated TNone ex2_minimised ex2_nets_ok HT HM
             3 ex2_tree3 (8, 12) 9); [right; right; left; reflexivity|reflexivity|unfold key32; lia|reflexivity].
  - vm_compute. reflexivity.
Qed.
