#!/usr/bin/env python3
"""Print the per-property status table of DESIGN.md section 8.7 from coq/Props/*.v (theorem / example counts),
evidence/*.json (axioms per theorem, quick-tier cases and wall time) and the static columns below."""
import glob, json, os, re
V = os.path.dirname(os.path.dirname(os.path.abspath(__file__)))
TIE = {
 "C01": ("T (GenNetwork: link/route numbering; C10/C04/C03 units) + V on real outputs + C (simulator vs checker)", "full for the models (end-to-end composition theorem); real executions, incl. the C SA kernel, certified per instance by check_delivery in Coq"),
 "C02": ("C (exact, incl. SA step replay) + V on real outputs", "full for the sequential family (Hilbert curve for all sizes), rand; SA Python kernel invariant; C kernel outputs validated only; float schedule not modelled"),
 "C03": ("T (C11 geometry units) + C (exact trees) + V on real outputs", "full (route_valid for all inputs; A* completeness)"),
 "C04": ("T (intersect, generality, merge bits) + C (exact) + V on real outputs", "full"),
 "C05": ("T (align, slices_overlap) + C (exact)", "full"),
 "C06": ("T (constants) + C (exact traces on schedules, clock model)", "full under Causal+Fresh; refuted without Fresh (known finding)"),
 "C07": ("T (chunk arithmetic, receive length, dtype table, struct offsets) + C + trace validator", "full (faults enter through C06)"),
 "C08": ("C (histories) + V on extracted layouts", "full safety; completeness under exclusive_children, refuted without (2 known findings)"),
 "C09": ("T (packet fields, nn id, block count, loop tests) + C + trace validator", "full under two guards, both proved necessary (2 known findings)"),
 "C10": ("T (command args, record layout, decode) + C (tables; simulated router)", "full"),
 "C11": ("T (length kernels, link tables, spiral tail of shortest_torus_path; digests of the hand-modelled functions) + C (scripted random, forced draws, numbers beyond 2^53)", "full"),
 "C12": ("T (get_region_for_chip, tree bit expressions; fail-closed on new state) + C (exact lists, histories, reuse)", "full"),
 "C13": ("C (histories, recording controller)", "full; SEEK_END sign refuted (known finding)"),
 "C14": ("T (bit-field extraction, table walk, version/status/IOBUF expressions, struct tables) + C (wire-level simulator)", "full (replies per documented layouts)"),
 "C15": ("T (format strings, masks, shifts, guards by ast) + C (exact bytes both ways)", "full"),
 "C16": ("C (bit exact, Flocq model)", "partial by nature: numpy modelled from observation; round trip refuted beyond 2^53 (known finding)"),
 "C17": ("T (shared-state inventory by ast) + differential history / family / fresh-interpreter runs", "partial by nature: inventoried carriers + differential runs"),
 "C18": ("T (signatures by ast and introspection; eth table; local_eth kernel) + C (whole traces)", "full on the fake-machine path of every method"),
 "C19": ("T (tables dumped, kernels translated) + C (whole machines)", "full; int(sqrt) proved over Flocq doubles"),
 "C20": ("T (constants, formats, live sv struct, presets) + C (exact datagrams)", "full"),
}
tot_t = tot_e = 0
rows = []
for p in sorted(TIE):
    src = open(os.path.join(V, "coq", "Props", p + ".v")).read()
    src = re.sub(r"\(\*.*?\*\)", "", src, flags=re.S)
    nt = len(re.findall(r"^(?:Theorem|Lemma|Corollary)\s", src, re.M))
    ne = len(re.findall(r"^Example\s", src, re.M))
    tot_t += nt; tot_e += ne
    ev = {}
    try:
        ev = json.load(open(os.path.join(V, "evidence", p + ".json")))
    except Exception:
        pass
    cov = ev.get("coverage", {})
    axs = sorted({a.split(".")[-1] for v in (cov.get("theorem_axioms") or {}).values() for a in v})
    quick = "%s cases" % cov.get("evaluations", "?")
    rows.append("| %s | %d (+%d examples) | %s | %s | %s | %s |" % (p, nt, ne, ", ".join(axs) or "closed", TIE[p][0], TIE[p][1], quick))
def loc(d):
    return sum(len(open(f).read().splitlines()) for f in glob.glob(os.path.join(V, "coq", d, "*.v")))
print("%d property theorems and %d satisfiability examples in `coq/Props/` (%d lines of proofs, %d of models, %d of "
      "specifications); every one is closed by `exact <lemma>` and printed by `Print Assumptions` on every run.\n"
      "\"closed\" = \"Closed under the global context\".\n" % (tot_t, tot_e, loc("Proofs"), loc("Model"), loc("Spec")))
print("| id | theorems | axioms | tie to /repo | claim | quick tier |")
print("|---|---|---|---|---|---|")
print("\n".join(rows))
