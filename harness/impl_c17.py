"""C17 driver: run a sequence of library calls in ONE interpreter; for each call report a canonical result
and whether any argument object changed (deep structural snapshot before/after)."""
import json
import random
import sys
import warnings

warnings.simplefilter("ignore")
import pnr_gen  # noqa: E402
from pnr_gen import canon  # noqa: E402


def placer(name):
    # NB: `rig.place_and_route.place` the attribute is a function (it shadows the sub-package), so the
    # sub-modules must be fetched with from-imports.
    from rig.place_and_route.place.sequential import place as seq
    from rig.place_and_route.place.hilbert import place as hb
    from rig.place_and_route.place.rcm import place as rcm
    from rig.place_and_route.place.breadth_first import place as bf
    from rig.place_and_route.place.rand import place as rd
    from rig.place_and_route.place.sa import place as sa
    from rig.place_and_route.place.sa.python_kernel import PythonKernel
    cbk = lambda k: ({"on_temperature_change": k["callback"]} if k.get("callback") else {})
    return {"sequential": lambda *a, **k: seq(*a, **({"vertex_order": k["vertex_order"]} if k.get("vertex_order") is not None else {})),
            "hilbert": lambda *a, **k: hb(*a),
            "rcm": lambda *a, **k: rcm(*a), "breadth_first": lambda *a, **k: bf(*a),
            "rand": lambda *a, **k: rd(*a, random=k["random"]),
            "sa_c": lambda *a, **k: sa(*a, effort=k.get("effort", 0.05), random=k["random"], **cbk(k)),
            "sa_py": lambda *a, **k: sa(*a, effort=k.get("effort", 0.05), random=k["random"], kernel=PythonKernel, **cbk(k))}[name]


def snap(objs):
    return json.dumps(canon(objs), sort_keys=True, default=repr)


def chain(call):
    from rig.place_and_route import allocate, route
    from rig.routing_table import routing_tree_to_tables, minimise_tables
    machine, vres, nets, cons, net_keys = pnr_gen.build(call["problem"])
    mutated = []
    out = {}
    random.seed(call["seed"])
    rnd = random.Random(call["seed"])

    def stage(name, f, args):
        before = snap(args)
        try:
            r = f()
        except Exception as e:
            r = None
            out[name] = ["raised", type(e).__name__]
        after = snap(args)
        if before != after:
            mutated.append(name)
        return r
    args = dict(vres=vres, nets=nets, machine=machine, cons=cons)
    extra = {"effort": call["effort"]} if "effort" in call else {}
    kept = []
    if call.get("callback") and call["placer"].startswith("sa"):
        # user code called by the annealer: it keeps what it is handed ("keep") or treats it as its own and empties
        # it ("edit"); neither may change the outcome, and what it was handed must not change afterwards
        def cb(iteration_count, placements, cost, acceptance_rate, temperature, distance_limit):
            kept.append((placements, dict(placements)))
            if call["callback"] == "edit":
                placements.clear()
        extra["callback"] = cb
    if call.get("vertex_order") and call["placer"] == "sequential":
        order = list(vres)
        random.Random(call["seed"]).shuffle(order)
        args["vertex_order"] = order           # the caller's own list: snapshotted like every other argument
        extra["vertex_order"] = order
    pl = stage("place", lambda: placer(call["placer"])(vres, nets, machine, cons, random=rnd, **extra), args)
    if call.get("callback") == "keep" and any(ref != copy for ref, copy in kept):
        mutated.append("place:snapshot-handed-to-callback-changed-later")
    if pl is None:
        return out, mutated
    out["place"] = canon(pl)
    args["placements"] = pl
    al = stage("allocate", lambda: allocate(vres, nets, machine, cons, pl), args)
    if al is None:
        return out, mutated
    out["allocate"] = canon(al)
    args["allocations"] = al
    if call.get("partial_alloc"):
        # a caller-built allocations mapping that leaves some vertices out (route() treats them as having no cores)
        drop = [v for i, v in enumerate(al) if (i + call["seed"]) % 3 == 0]
        al = type(al)((v, a) for v, a in al.items() if v not in drop)
        args["allocations"] = al
    rt = stage("route", lambda: route(vres, nets, machine, cons, pl, al, radius=call.get("radius", 20)), args)
    if rt is None:
        return out, mutated
    out["route"] = [canon(rt[n]) for n in nets]
    args["routes"] = [rt[n] for n in nets]
    args["net_keys"] = [list(net_keys[n]) for n in nets]
    tb = stage("tables", lambda: routing_tree_to_tables(rt, net_keys), args)
    if tb is None:
        return out, mutated
    out["tables"] = canon(dict(tb))
    args["tables"] = dict(tb)
    mt = stage("minimise", lambda: minimise_tables(tb, call.get("target")), args)
    if mt is not None:
        out["minimise"] = canon(dict(mt))
    return out, mutated


def covering(call):
    from rig.routing_table import RoutingTableEntry, Routes
    from rig.routing_table.ordered_covering import ordered_covering
    table = [RoutingTableEntry({Routes(r) for r in rs}, k, m) for rs, k, m in call["table"]]
    before = snap(table)
    try:
        t, aliases = ordered_covering(table, call.get("target"), no_raise=True)
        res = [canon(t), canon(aliases)]
    except Exception as e:
        res = ["raised", type(e).__name__]
    return res, (["ordered_covering"] if snap(table) != before else [])


def tables_call(call):
    """A direct call of a table minimiser on entries that carry sources."""
    from rig.routing_table import RoutingTableEntry, Routes, minimise_table, minimise_tables
    from rig.routing_table.ordered_covering import minimise as oc
    from rig.routing_table.remove_default_routes import minimise as rdr
    table = [RoutingTableEntry({Routes(r) for r in rs}, k, m, {None if x is None else Routes(x) for x in src})
             for rs, k, m, src in call["table"]]
    before = snap(table)
    try:
        if call["fn"] == "oc":
            res = canon(oc(table, call["target"]))
        elif call["fn"] == "rdr":
            res = canon(rdr(table, call["target"]))
        elif call["fn"] == "minimise_table":
            res = canon(minimise_table(table, call["target"]))
        else:
            res = canon(dict(minimise_tables({(0, 0): table, (1, 0): list(table)}, call["target"])))
    except Exception as e:
        res = ["raised", type(e).__name__]
    return res, (["tables." + call["fn"]] if snap(table) != before else [])


def wrapper_call(call):
    """wrapper() / place_and_route_wrapper() on a generated problem; every argument object (the constraints list and
    the keyword dictionaries included) is snapshotted before and after."""
    import warnings
    from rig.place_and_route.machine import Cores
    from rig.place_and_route.constraints import ReserveResourceConstraint
    from rig.place_and_route.wrapper import wrapper as w_wrapper, place_and_route_wrapper as w_pnr
    from impl_c01 import system_info
    warnings.simplefilter("ignore")
    machine, vres, nets, cons, net_keys = pnr_gen.build(call["problem"])
    core_res = Cores
    if call["custom_cores"]:
        core_res = "my-cores"
        ren = lambda d: type(d)((core_res if k is Cores else k, v) for k, v in d.items())
        vres = type(vres)((v, ren(r)) for v, r in vres.items())
        machine.chip_resources = ren(machine.chip_resources)
        machine.chip_resource_exceptions = type(machine.chip_resource_exceptions)(
            (xy, ren(r)) for xy, r in machine.chip_resource_exceptions.items())
        for k in cons:
            if isinstance(k, ReserveResourceConstraint) and k.resource is Cores:
                k.resource = core_res
    apps = {v: "app" for v in vres}
    random.seed(call["seed"])
    pf = placer(call["placer"])
    kwargs = dict(place=lambda *a, **k: pf(*a, random=None), core_resource=core_res)
    args = dict(vres=vres, apps=apps, nets=nets, net_keys=[list(net_keys[n]) for n in nets], machine=machine)
    if call["give_kwargs"]:
        kwargs.update(place_kwargs={}, allocate_kwargs={}, route_kwargs={"radius": call["radius"]})
        args.update(place_kwargs=kwargs["place_kwargs"], allocate_kwargs=kwargs["allocate_kwargs"],
                    route_kwargs=kwargs["route_kwargs"])
    if call["which"] == "wrapper":
        target = machine
        kwargs.update(reserve_monitor=call["reserve_monitor"], align_sdram=call["align_sdram"])
        if not cons and not call["give_constraints"]:
            pos = ()
        else:
            pos = (cons,)
            args["constraints"] = cons
        f = w_wrapper
    else:
        target = system_info(machine, core_res if call["custom_cores"] else None)
        cons = [k for k in cons if not isinstance(k, ReserveResourceConstraint)]
        args["system_info"] = dict(target)
        if not cons and not call["give_constraints"]:
            pos = ()
        else:
            pos = (cons,)
            args["constraints"] = cons
        f = w_pnr
    before = snap(args)
    try:
        pl, al, amap, tables = f(vres, apps, nets, net_keys, target, *pos, **kwargs)
        res = [canon(pl), canon(al), canon({a: dict(m) for a, m in amap.items()}), canon(dict(tables))]
    except Exception as e:
        res = ["raised", type(e).__name__]
    return res, (["wrapper." + call["which"]] if snap(args) != before else [])


def bitfield(call):
    """Define fields on a BitField (tags given as str / list / a set object that the caller REUSES on a second
    bit field when asked), assign values and the layout; report keys, masks and tags of both bit fields and
    whether any caller-owned tags object changed."""
    from rig.bitfield import BitField
    b = BitField(call["length"])
    shared = {}                     # caller-owned tag collections, reused across add_field calls

    def tags_arg(t):
        if isinstance(t, list) and t and t[0] == "set":      # ["set", name, [tags...]]
            if t[1] not in shared:
                shared[t[1]] = set(t[2])
            return shared[t[1]]
        return t
    res = []
    # materialise every caller-owned tag set first, so that the snapshot below covers all of them
    for t in [f[3] for f in call["fields"]] + [f[3] for f in call.get("second") or []] \
            + [c[4] for c in call.get("children", [])]:
        tags_arg(t)
    before = snap(shared)
    try:
        for name, length, start, tags in call["fields"]:
            b.add_field(name, length=length, start_at=start, tags=tags_arg(tags))
        second = None
        if call.get("second"):
            second = BitField(call["length"])
            for name, length, start, tags in call["second"]:
                second.add_field(name, length=length, start_at=start, tags=tags_arg(tags))
        for parent, value, name, length, tags in call.get("children", []):
            b(**{parent: value}).add_field(name, length=length, tags=tags_arg(tags))
        vals = {n: v for n, v in call["values"]}
        for parent, value, name, length, tags in call.get("children", []):
            if vals.get(parent) == value:
                vals[name] = 0                  # the child is in scope for this key: it needs a value too
        k = b(**vals)
        b.assign_fields()
        res = [k.get_value(), k.get_mask(), sorted((n, b.get_location_and_length(n)) for n, _, _, _ in call["fields"]),
               sorted((n, sorted(b.get_tags(n))) for n, _, _, _ in call["fields"])]
        if second is not None:
            second.assign_fields()
            res.append(sorted((n, sorted(second.get_tags(n))) for n, _, _, _ in call["second"]))
            res.append(sorted((t, second.get_mask(tag=t)) for n, _, _, tg in call["second"]
                              for t in sorted(second.get_tags(n))))
        mutated = ["bitfield.tags"] if snap(shared) != before else []
    except Exception as e:
        res = ["raised", type(e).__name__]
        mutated = []
    return res, mutated


def reuse(call):
    """Object reuse: build the rig objects ONCE, run one mapping chain on them, edit the machine in place, then
    run a second chain on the SAME objects.  The result of the second chain must equal that of the same chain
    on freshly built equal objects (the harness runs that as the fresh counterpart)."""
    from rig.place_and_route import allocate, route
    from rig.routing_table import routing_tree_to_tables, minimise_tables
    from rig.links import Links
    machine, vres, nets, cons, net_keys = pnr_gen.build(call["problem"])

    def run(spec):
        random.seed(spec["seed"])
        rnd = random.Random(spec["seed"])
        out = {}
        try:
            pl = placer(spec["placer"])(vres, nets, machine, cons, random=rnd)
            out["place"] = canon(pl)
            al = allocate(vres, nets, machine, cons, pl)
            out["allocate"] = canon(al)
            rt = route(vres, nets, machine, cons, pl, al, radius=spec.get("radius", 20))
            out["route"] = [canon(rt[n]) for n in nets]
            tb = routing_tree_to_tables(rt, net_keys)
            out["tables"] = canon(dict(tb))
            out["minimise"] = canon(dict(minimise_tables(tb, spec.get("target"))))
        except Exception as e:
            out["raised"] = type(e).__name__
        return out
    if call.get("first"):
        run(call["first"])
    for x, y, l in call["edit_dead_links"]:
        machine.dead_links.add((x, y, Links(l)))
    return run(call["second"]), []


class FakeSock(object):
    def __getattr__(self, n):
        return lambda *a, **k: None


def controller(call):
    import rig.machine_control.scp_connection as sc
    import rig.machine_control.machine_controller as mcm
    import rig.machine_control.bmp_controller as bmc
    real = sc.socket.socket
    sc.socket.socket = lambda *a, **k: FakeSock()
    try:
        mc = mcm.MachineController("localhost")
        first = canon(mc.get_context_arguments() if hasattr(mc, "get_context_arguments") else None)
        d0 = [mc.n_tries, mc.timeout, mc.structs is not None]
        # use the object: nested contexts, updating the innermost, leaving by exception
        for upd in call["updates"]:
            mc.update_current_context(**upd)
        try:
            with mc(x=call["x"], y=call["y"]):
                mc.update_current_context(p=call["p"])
                if call["raise"]:
                    raise KeyError()
        except KeyError:
            pass
        b = bmc.BMPController("localhost")
        b.update_current_context(**call["bmp"])
        if call.get("edit_structs"):
            # the caller treats the first controller's public struct definitions as its own and edits them in place
            sv = mc.structs[b"sv"]
            sv.base += 4 * call["edit_structs"]
            name = sorted(sv.fields)[call["edit_structs"] % len(sv.fields)]
            sv.fields[name] = sv.fields[name]._replace(offset=sv.fields[name].offset + 4)
            del mc.structs[sorted(k for k in mc.structs if k != b"sv")[0]]
        mc2 = mcm.MachineController("localhost")
        b2 = bmc.BMPController("localhost")

        def structs_digest(st):
            return sorted([repr(n), s_.base, s_.size, sorted([repr(f), tuple(v)] for f, v in s_.fields.items())]
                          for n, s_ in st.items())
        import hashlib
        res = [first, d0, canon(mc2.get_context_arguments()), canon(b2.get_context_arguments()),
               hashlib.sha1(repr(structs_digest(mc2.structs)).encode()).hexdigest()]
    except Exception as e:
        res = ["raised", type(e).__name__, str(e)[:80]]
    finally:
        sc.socket.socket = real
    return res, []


def machine_defaults(call):
    from rig.place_and_route.machine import Machine, Cores
    m = Machine(2, 2)
    m.chip_resources[Cores] = call["cores"]
    m.chip_resource_exceptions[(0, 0)] = {Cores: 1}
    m.dead_chips.add((1, 1))
    m.dead_links.add((0, 0, 0))
    m2 = Machine(3, 3)
    return canon(m2), []


def boot_call(call):
    """boot() against a recording socket and a frozen clock: digest of the datagrams sent."""
    import hashlib
    import rig.machine_control.boot as B
    sent = []

    class Sock(object):
        def connect(self, a):
            pass

        def send(self, d):
            sent.append(bytes(d))

        def close(self):
            pass

    class SockMod(object):
        AF_INET = SOCK_DGRAM = 0

        @staticmethod
        def socket(*a, **k):
            return Sock()

    class TimeMod(object):
        @staticmethod
        def time():
            return 1000000

        @staticmethod
        def sleep(s):
            pass
    rs, rt = B.socket, B.time
    B.socket, B.time = SockMod, TimeMod
    opts = dict(call["options"])
    if call.get("preset"):
        opts.update(getattr(B, call["preset"]))
    given = dict(call["overrides"]) if call.get("overrides") is not None else None
    before = snap(given)
    try:
        if given is None:
            B.boot("host", **opts)
        else:
            B.boot("host", sv_overrides=given, **opts)
        res = [len(sent), hashlib.sha1(b"".join(sent)).hexdigest()]
    except Exception as e:
        res = ["raised", type(e).__name__]
    finally:
        B.socket, B.time = rs, rt
    return res, (["boot.sv_overrides"] if snap(given) != before else [])


KINDS = dict(wrapper=wrapper_call, tables=tables_call, boot=boot_call, reuse=reuse, chain=chain, covering=covering, bitfield=bitfield, controller=controller, machine=machine_defaults)

if __name__ == "__main__":
    import implutil

    def run(seq):
        out = []
        for call in seq:
            res, mutated = KINDS[call["kind"]](call)
            out.append(dict(result=res, mutated=mutated))
        return out
    implutil.run_cases(run, per_case_s=120)
