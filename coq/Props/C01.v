(* C01 -- Multicast packets reach exactly the cores of their net's sinks.
   Property theorems only; each is closed by `exact` of a lemma of Proofs/Network.v / Proofs/NetworkTree.v.

   What is proved for ALL machines, tables, keys and trees:
     (V)  the checker that the harness evaluates on the tables really produced by rig's pipeline is sound for
          the inductive packet semantics [delivers] (Spec/Network.v): `true` is a proof of the property's
          sentence for that net ([C01_check_delivery_sound]);
     (U)  composition: tables that agree, node by node, with a routing tree deliver the packet to exactly
          the tree's leaves, over live links only, without dropping it and without circulation
          ([C01_delivery_of_tree], [C01_tree_delivered_exactly]); one-step facts of default routing
          ([C01_default_route_straight], [C01_default_route_next], [C01_injected_unmatched_dropped]);
          the semantics is deterministic ([C01_delivers_deterministic]);
     (T)  rig's numbering of links and routes is the one the hardware model interprets
          ([C01_rig_numbering_is_hardware], recomputed from the live enumerations on every run).
   NOT proved here (see DESIGN 4/C01): that rig's router, table generator and minimisers always produce a
   tree and tables satisfying [tree_ok] (that is C03, C10, C04); for real executions this gap is closed per
   instance by (V). *)
From Coq Require Import ZArith List Bool Permutation.
Require Import Rig.Generated.GenNetwork Rig.Model.Base Rig.Model.Table Rig.Model.Network Rig.Spec.Network
        Rig.Proofs.Network Rig.Proofs.NetworkTree.
Import ListNotations.
Open Scope Z_scope.

(* (V) soundness of the evaluator.  [run] returns None when its fuel runs out, so exhaustion can never
   make the checker answer true. *)
Theorem C01_check_delivery_sound :
  forall m tables key src cores links,
    check_delivery m tables key src cores links = true ->
    DeliveredExactly m tables key src cores links.
Proof. exact check_delivery_sound. Qed.

(* (U) composition, for a (sub)tree entered through any port; the whole net is [arrival = None]. *)
Theorem C01_delivery_of_tree :
  forall m tables key endpoints t arrival,
    tree_ok m tables key endpoints arrival t ->
    exists ds es,
      delivers m tables key endpoints (root t) arrival ds es
      /\ Permutation ds (tree_cores t) /\ Permutation es (tree_exits t).
Proof. exact delivery_of_tree. Qed.

Theorem C01_tree_delivered_exactly :
  forall m tables key links t,
    tree_ok m tables key links None t ->
    NoDup (tree_cores t) -> Permutation (tree_exits t) links -> NoDup links ->
    DeliveredExactly m tables key (root t) (tree_cores t) links.
Proof. exact tree_delivered_exactly. Qed.

(* the executable form of tree_ok *)
Theorem C01_tree_okb_sound :
  forall m tables key endpoints t arrival,
    tree_okb m tables key endpoints arrival t = true -> tree_ok m tables key endpoints arrival t.
Proof. exact tree_okb_sound. Qed.

(* the meaning of the route word used by [tree_ok] and [delivers], bit by bit *)
Theorem C01_route_word_meaning :
  forall r,
    (forall l, In l (route_links r) <-> (0 <= l < 6 /\ Z.testbit r l = true))
    /\ (forall k, In k (route_cores r) <-> (0 <= k < 18 /\ Z.testbit r (k + 6) = true))
    /\ NoDup (route_links r) /\ NoDup (route_cores r).
Proof. exact route_word_meaning. Qed.

(* (U) default routing: a packet that came in through port l of a chip none of whose entries matches
   leaves by link (l + 3) mod 6 and does nothing else ... *)
Theorem C01_default_route_straight :
  forall m tables key endpoints c l ds es,
    0 <= l < 6 ->
    lookup (table_at tables c) key = None ->
    (delivers m tables key endpoints c (Some l) ds es
     <-> send1 m tables key endpoints c ((l + 3) mod 6) ds es).
Proof. exact default_route_straight. Qed.

(* ... i.e. (unless that link is an endpoint) the link and the next chip must be live and the packet goes
   on at the next chip as one that came in through port l again: straight through *)
Theorem C01_default_route_next :
  forall m tables key endpoints c l ds es,
    0 <= l < 6 ->
    lookup (table_at tables c) key = None ->
    ~ In (c, opposite l) endpoints ->
    (delivers m tables key endpoints c (Some l) ds es <->
     ~ In (c, opposite l) (n_dead_links m) /\ ~ In (neighbour m c (opposite l)) (n_dead_chips m)
     /\ delivers m tables key endpoints (neighbour m c (opposite l)) (Some l) ds es).
Proof. exact default_route_next. Qed.

(* ... whereas a packet injected at a chip none of whose entries matches is dropped *)
Theorem C01_injected_unmatched_dropped :
  forall m tables key endpoints c ds es,
    lookup (table_at tables c) key = None ->
    ~ delivers m tables key endpoints c None ds es.
Proof. exact injected_unmatched_dropped. Qed.

(* (U) what a packet does is determined by the tables *)
Theorem C01_delivers_deterministic :
  forall m tables key endpoints c a ds es,
    delivers m tables key endpoints c a ds es ->
    forall ds' es', delivers m tables key endpoints c a ds' es' -> ds = ds' /\ es = es'.
Proof. exact delivers_deterministic. Qed.

(* (T) Links.to_vector, Links.opposite, Routes <-> Links, Routes.core / core_num, Routes.opposite of the
   current /repo agree with link_vec, opposite and the bit numbering of the hardware model *)
Theorem C01_rig_numbering_is_hardware :
  net_link_vectors = map (fun l => (l, link_vec l)) link_ids
  /\ net_link_opposite = map (fun l => (l, opposite l)) link_ids
  /\ net_route_links = map (fun l => (l, l)) link_ids
  /\ net_route_of_link = map (fun l => (l, l)) link_ids
  /\ net_route_cores = map (fun b => (b, b - 6)) core_bits
  /\ net_route_of_core = map (fun b => (b - 6, b)) core_bits
  /\ net_route_opposite = map (fun l => (l, opposite l)) link_ids.
Proof. exact rig_numbering_is_hardware. Qed.

(* Non-vacuity: a 3x3 machine with a dead link, a dead chip and a device link; a three-node tree whose
   middle hop is default routed (no entry for the key at (1,0)); the checker accepts and tree_ok holds. *)
Example C01_example_delivered :
  check_delivery ex_machine ex_tables 5 (0, 0) ex_cores ex_links = true
  /\ tree_ok ex_machine ex_tables 5 ex_links None ex_tree
  /\ lookup (table_at ex_tables (1, 0)) 5 = None
  /\ Permutation (tree_cores ex_tree) ex_cores /\ tree_exits ex_tree = ex_links.
Proof. exact ex_instance. Qed.

(* ... and the evaluator refuses a circulating packet, a dead link, a dead chip and a dropped packet *)
Example C01_example_rejected :
  check_delivery ex_machine ex_tables_loop 5 (0, 0) ex_cores ex_links = false
  /\ run 1000 ex_machine ex_tables_loop 5 ex_links [((0, 0), None)] = None
  /\ run 1000 ex_machine ex_tables_dead_link 5 ex_links [((0, 0), None)] = None
  /\ run 1000 ex_machine ex_tables_dead_chip 5 ex_links [((0, 0), None)] = None
  /\ run 1000 ex_machine ex_tables 6 ex_links [((0, 0), None)] = None.
Proof. exact ex_rejected. Qed.

(* ================================================================================================ *)
(** * Premise discharge: the end-to-end statement for the MODELS of table generation and minimisation

   (DESIGN 4/C01, "U (premise discharge)".)  The theorems below close, for the Gallina models of
   routing_tree_to_tables (C10, Model/Tables.v) and of the minimisers (C04, Model/Table.v), the gap that the
   header of this file leaves open: for any set of nets with orthogonal keys and valid routing trees
   (C03's conclusion), the generated tables -- and whatever the modelled minimisers make of them -- satisfy
   [tree_ok], hence deliver each net's packet exactly once to each leaf core of its tree and to nothing
   else, over live links, without drop or circulation.  What remains per instance (V) is that the real
   router returned a valid tree where C03 is partial, and that the Python code is its model (C10/C04/C03
   correspondence runs).

   Definitions: Proofs/NetworkComposeDefs.v (definitions only).
     [hw_entry], [hw_tables]   C10's entries/tables in C04's bit-set representation (C10's [entry_bits]);
     [rtree_of t]              C10's tree as the hardware model's per-chip tree: the cores / endpoint links of
                               a node are the core routes (6..23) / link routes (0..5) on which vertices hang
                               (each once, however often a sink is listed), its children the subtrees;
     [port_of d]               the port by which a node reached in direction d is entered (None for the root);
     [listed e a]              entry e lists arrival port a among its sources (None = bit 24);
     [valid_tree m t]          t is a RoutingTree, no chip occurs twice, every subtree hangs on a link 0..5
                               that is not dead and leads to the subtree's chip, which is not dead; vertices hang
                               on None or on a member of Routes; no hop uses a link that is an endpoint link of
                               the tree itself;
     [nets_ok m routes keys]   every routed net has a 32-bit key and mask with no key bit outside the mask;
                               ORTHOGONALITY: the (key, mask) of two different nets match no common 32-bit key
                               (nets sharing one identical key and mask are left out); every tree is valid;
     [tree_listed]             at every node the key's first match lists the arrival port;
     [tables_route_eq T T']    chip by chip, T' routes like T (C04's route_eq);
     [minimised_by_some_method t t']  t' = t, or one of remove_default / oc_minimise / minimise_table
                               returned t' for t with some target.
   In what follows unqualified [entry], [e_route], [lookup] ... are those of Model/Table.v. *)
Require Rig.Model.Route Rig.Spec.Route.
Require Import Rig.Model.Tables Rig.Spec.Tables.
Require Import Rig.Generated.GenTable Rig.Model.Table Rig.Spec.Table Rig.Model.Network Rig.Spec.Network.
Require Import Rig.Proofs.NetworkComposeDefs Rig.Proofs.NetworkComposeMin Rig.Proofs.NetworkComposeGen
        Rig.Proofs.NetworkCompose Rig.Proofs.NetworkComposeRoute Rig.Proofs.NetworkComposeC03.

(* (1) tables_of_trees_hop.  If the model of routing_tree_to_tables returns tables T for nets_ok inputs,
   then for every net, every 32-bit key k matched by the net's (key, mask), and every node of the net's tree
   -- chip c, children kids, reached by direction d --: the route word the hardware applies to the packet
   arriving at c through port_of d is exactly the word of the node's out-set; it is the route of the first
   matching entry, and that entry lists the arrival port among its sources. *)
Theorem C01_tables_of_trees_hop :
  forall m routes net_keys T,
    nets_ok m routes net_keys -> routing_tree_to_tables routes net_keys = ROk T ->
    forall n t c0 k, In (n, t) routes -> zassoc n net_keys = Some c0 -> key32 k -> km_matches c0 k = true ->
    forall d c kids, node_in none_dir t d c kids ->
      route_at (hw_tables T) k c (port_of d) = Some (bits_of (out_set kids))
      /\ exists e, lookup (table_at (hw_tables T) c) k = Some e
                   /\ e_route e = bits_of (out_set kids) /\ listed e (port_of d).
Proof. exact tables_of_trees_hop_route_at. Qed.

(* ... where the word of an out-set has bit i (link 0..5, core route 6..23) set iff a child hangs on route i *)
Theorem C01_out_set_word :
  forall kids i, 0 <= i < 24 ->
    (Z.testbit (bits_of (out_set kids)) i = true <-> exists t, In (Some i, t) kids).
Proof. exact out_set_bits. Qed.

(* (1) hence tree_ok holds of the converted tree w.r.t. the generated tables, with the tree's own endpoint
   links as the net's endpoints, and every first match lists the arrival port *)
Theorem C01_tables_of_trees_tree_ok :
  forall m routes net_keys T,
    nets_ok m routes net_keys -> routing_tree_to_tables routes net_keys = ROk T ->
    forall n t c0 k, In (n, t) routes -> zassoc n net_keys = Some c0 -> key32 k -> km_matches c0 k = true ->
      tree_ok m (hw_tables T) k (tree_exits (rtree_of t)) None (rtree_of t)
      /\ tree_listed (hw_tables T) k None (rtree_of t).
Proof. exact tables_of_trees_tree_ok. Qed.

(* the leaves of the converted tree are the tree's: core x of chip c is a leaf iff a vertex hangs on core
   route x + 6 at a node of chip c; link l of c is an endpoint iff a vertex hangs on link route l there;
   without a repeated chip no leaf is repeated *)
Theorem C01_converted_tree_leaves :
  forall t, is_node t ->
    (forall c x, In (c, x) (tree_cores (rtree_of t)) <->
                 exists d kids v, node_in none_dir t d c kids /\ In (Some (x + 6), TLeaf v) kids /\ 0 <= x)
    /\ (forall c l, In (c, l) (tree_exits (rtree_of t)) <->
                    exists d kids v, node_in none_dir t d c kids /\ In (Some l, TLeaf v) kids /\ l < 6)
    /\ (NoDup (tchips t) -> NoDup (tree_cores (rtree_of t)) /\ NoDup (tree_exits (rtree_of t))).
Proof. exact converted_tree_leaves. Qed.

(* table generation itself does not fail (no MultisourceRouteError) on nets_ok inputs *)
Theorem C01_tables_of_trees_succeeds :
  forall m routes net_keys,
    nets_ok m routes net_keys -> NoDup (map fst routes) ->
    exists T, routing_tree_to_tables routes net_keys = ROk T.
Proof. exact tables_of_trees_succeeds. Qed.

(* (2) minimise_preserves_hop.  tO, tT: per-chip tables before and after; the table of chip c in tT routes
   like the one in tO (route_eq); e is the first entry of tO at c matching the 32-bit key k; the packet came
   in through a port a that e lists (None: injected at c).  Then the hardware applies to it, on tT as on tO,
   exactly e's route word -- whether tT has a matching entry or not. *)
Theorem C01_minimise_preserves_hop :
  forall tO tT c k e a,
    key32 k ->
    route_eq (table_at tO c) (table_at tT c) ->
    lookup (table_at tO c) k = Some e ->
    listed e a ->
    route_at tT k c a = Some (e_route e) /\ route_at tO k c a = Some (e_route e).
Proof. exact minimise_preserves_hop. Qed.

(* (2) the default-routed case spelt out: tT matches nothing, so e had the single source link l, the packet
   came in through l, and e's route -- the hardware's default route -- is exactly the opposite link *)
Theorem C01_minimise_preserves_hop_default :
  forall tO tT c k e a,
    key32 k ->
    route_eq (table_at tO c) (table_at tT c) ->
    lookup (table_at tO c) k = Some e ->
    listed e a ->
    lookup (table_at tT c) k = None ->
    exists l, a = Some l /\ 0 <= l < 6 /\ e_route e = Z.shiftl 1 (opposite l)
              /\ route_at tT k c a = Some (Z.shiftl 1 (opposite l)).
Proof. exact minimise_preserves_hop_default. Qed.

(* (2) hence tree_ok carries over from tO to any tT that routes like it chip by chip *)
Theorem C01_minimise_preserves_tree_ok :
  forall m tO tT k endpoints t a,
    key32 k ->
    tables_route_eq tO tT ->
    tree_ok m tO k endpoints a t ->
    tree_listed tO k a t ->
    tree_ok m tT k endpoints a t.
Proof. exact minimise_preserves_tree_ok. Qed.

(* the side conditions of C04's theorems hold of generated tables: chips listed once; every chip's table
   (the empty table for a chip without one) is in minimiser_domain -- 32-bit keys and masks, non-empty
   sources, and orthogonal because the nets' keys are *)
Theorem C01_generated_tables_in_minimiser_domain :
  forall m routes net_keys T,
    nets_ok m routes net_keys -> routing_tree_to_tables routes net_keys = ROk T ->
    NoDup (map fst (hw_tables T))
    /\ (forall c t, In (c, t) (hw_tables T) -> minimiser_domain t)
    /\ (forall c, minimiser_domain (table_at (hw_tables T) c)).
Proof. exact generated_in_domain. Qed.

(* (3) generic form: ANY tables that route like the generated ones chip by chip *)
Theorem C01_end_to_end_route_eq :
  forall m routes net_keys T tabs',
    nets_ok m routes net_keys -> routing_tree_to_tables routes net_keys = ROk T ->
    tables_route_eq (hw_tables T) tabs' ->
    forall n t c0 k, In (n, t) routes -> zassoc n net_keys = Some c0 -> key32 k -> km_matches c0 k = true ->
      tree_ok m tabs' k (tree_exits (rtree_of t)) None (rtree_of t)
      /\ DeliveredExactly m tabs' k (root (rtree_of t)) (tree_cores (rtree_of t)) (tree_exits (rtree_of t)).
Proof. exact end_to_end_route_eq. Qed.

(* (3) the generated tables as they are *)
Theorem C01_end_to_end_generated :
  forall m routes net_keys T,
    nets_ok m routes net_keys -> routing_tree_to_tables routes net_keys = ROk T ->
    forall n t c0 k, In (n, t) routes -> zassoc n net_keys = Some c0 -> key32 k -> km_matches c0 k = true ->
      DeliveredExactly m (hw_tables T) k (root (rtree_of t)) (tree_cores (rtree_of t)) (tree_exits (rtree_of t)).
Proof. exact end_to_end_generated. Qed.

(* (3) C01_end_to_end_models: the MODEL of routing_tree_to_tables followed by the MODEL of minimise_tables
   (identity / default-route removal / ordered covering, first to meet the target or the shortest), for any
   targets (None, an integer, a per-chip dictionary) with which it does not fail: a packet carrying any
   32-bit key matched by a net's (key, mask), injected at the root chip of the net's tree, is delivered
   exactly once to each leaf core of the tree, leaves exactly once through each of its endpoint links,
   reaches nothing else, is not dropped, crosses only live links between live chips and does not circulate
   (DeliveredExactly, Spec/Network.v). *)
Theorem C01_end_to_end_models :
  forall m routes net_keys T tg out,
    nets_ok m routes net_keys -> routing_tree_to_tables routes net_keys = ROk T ->
    minimise_tables (hw_tables T) tg = TablesOk out ->
    forall n t c0 k, In (n, t) routes -> zassoc n net_keys = Some c0 -> key32 k -> km_matches c0 k = true ->
      DeliveredExactly m out k (root (rtree_of t)) (tree_cores (rtree_of t)) (tree_exits (rtree_of t)).
Proof. exact end_to_end_models. Qed.

(* (3') any method per chip: each chip's table left alone or replaced by what remove_default, oc_minimise
   or minimise_table returned for it with whatever target *)
Theorem C01_end_to_end_any_method :
  forall m routes net_keys T tabs',
    nets_ok m routes net_keys -> routing_tree_to_tables routes net_keys = ROk T ->
    (forall c, minimised_by_some_method (table_at (hw_tables T) c) (table_at tabs' c)) ->
    forall n t c0 k, In (n, t) routes -> zassoc n net_keys = Some c0 -> key32 k -> km_matches c0 k = true ->
      DeliveredExactly m tabs' k (root (rtree_of t)) (tree_cores (rtree_of t)) (tree_exits (rtree_of t)).
Proof. exact end_to_end_any_method. Qed.

(* orthogonality of two (key, mask) pairs is decided by rig's own intersect (regenerated from the source) *)
Theorem C01_orthogonal_by_intersect :
  forall c1 c2 : km, intersect (fst c1) (snd c1) (fst c2) (snd c2) = false -> km_disjoint c1 c2.
Proof. exact km_disjoint_intersect. Qed.

(* Bridge to C03: a set of nets whose trees (Model/Route.v's type; tree_of is the structural map to
   Model/Tables.v's) satisfy C03's conclusion ValidTree is nets_ok, given what ValidTree does not state:
   the tree's chips are not dead, sink routes are members of Routes, no hop uses an endpoint link of its own
   tree; and then the cores delivered to are exactly the cores named by the routes of the net's sinks. *)
Theorem C01_nets_ok_of_C03 :
  forall m (rroutes : list (Z * Route.rtree)) (net_keys : list (Z * km)),
    (forall n t, In (n, t) rroutes -> exists c, zassoc n net_keys = Some c /\ km32 c) ->
    (forall n1 t1 n2 t2 c1 c2,
       In (n1, t1) rroutes -> In (n2, t2) rroutes -> n1 <> n2 ->
       zassoc n1 net_keys = Some c1 -> zassoc n2 net_keys = Some c2 -> km_disjoint c1 c2) ->
    (forall n t, In (n, t) rroutes ->
       (exists src sinks, Route.ValidTree m src sinks t)
       /\ (forall c, In c (Route.chips t) -> ~ In c (Route.rm_dead_chips m))
       /\ (forall c r v, In (c, Some r, v) (Route.tree_leaves t) -> 0 <= r < 24)
       /\ (forall p l c, In (p, Some l, c) (Route.tree_hops t) ->
                         ~ In (p, l) (tree_exits (rtree_of (tree_of t))))) ->
    nets_ok (nm_of m) (map (fun nt => (fst nt, tree_of (snd nt))) rroutes) net_keys.
Proof. exact nets_ok_of_C03. Qed.

(* ... and with C03's own theorems discharging two of those three assumptions: for nets routed by the MODEL of
   the router (route_net) under the hypotheses of C03_route_valid, with endpoint constraints naming members of
   Routes, every chip of the tree is a working chip (C03_route_all_working) and every leaf route is in 0..23
   (C03_leaf_routes_in_range).  What remains an assumption -- nothing in rig or in C03 rules it out -- is that
   no hop of a tree uses a link that is also an endpoint link of that same tree (the pipeline generator marks
   endpoint links dead, as probing does for links with peripherals). *)
Theorem C01_nets_ok_of_route_net :
  forall m (rroutes : list (Z * Route.rtree)) (net_keys : list (Z * km)),
    (forall n t, In (n, t) rroutes -> exists c, zassoc n net_keys = Some c /\ km32 c) ->
    (forall n1 t1 n2 t2 c1 c2,
       In (n1, t1) rroutes -> In (n2, t2) rroutes -> n1 <> n2 ->
       zassoc n1 net_keys = Some c1 -> zassoc n2 net_keys = Some c2 -> km_disjoint c1 c2) ->
    (forall n t, In (n, t) rroutes ->
       routed_by_model m t
       /\ (forall p l c, In (p, Some l, c) (Route.tree_hops t) ->
                         ~ In (p, l) (tree_exits (rtree_of (tree_of t))))) ->
    nets_ok (nm_of m) (map (fun nt => (fst nt, tree_of (snd nt))) rroutes) net_keys.
Proof. exact nets_ok_of_route_net. Qed.

Theorem C01_delivered_cores_are_sink_cores :
  forall m src sinks t c x,
    Route.ValidTree m src sinks t ->
    (In (c, x) (tree_cores (rtree_of (tree_of t))) <->
     0 <= x /\ exists v rs, In (v, c, rs) sinks /\ In (Some (x + 6)) rs).
Proof. exact delivered_cores_are_sink_cores. Qed.

(* Every hypothesis instantiated (vm_compute) on ex_machine (3x3, dead chip (1,1), dead link north of (0,0),
   device on link 5 of (2,0)) with three nets with keys 5/0xf, 6/0xf, 8/0xc: the model of
   routing_tree_to_tables returns ex2_generated, the model of minimise_tables (no target) returns
   ex2_minimised, in which the straight-through entries of nets 1 and 3 on chip (1,0) are gone (default
   routed); C01_end_to_end_models then gives the three deliveries, and the executable checker agrees. *)
Example C01_end_to_end_example :
  nets_ok ex_machine ex2_routes ex2_keys
  /\ routing_tree_to_tables ex2_routes ex2_keys = ROk ex2_generated
  /\ minimise_tables (hw_tables ex2_generated) TNone = TablesOk ex2_minimised
  /\ lookup (table_at ex2_minimised (1, 0)) 5 = None /\ lookup (table_at ex2_minimised (1, 0)) 9 = None
  /\ tree_cores (rtree_of ex2_tree1) = [((2, 0), 1); ((2, 0), 2)]
  /\ tree_exits (rtree_of ex2_tree1) = [((2, 0), 5)]
  /\ tree_cores (rtree_of ex2_tree3) = [((0, 0), 1)]
  /\ DeliveredExactly ex_machine ex2_minimised 5 (0, 0) [((2, 0), 1); ((2, 0), 2)] [((2, 0), 5)]
  /\ DeliveredExactly ex_machine ex2_minimised 6 (1, 0) [((1, 0), 0); ((2, 0), 3)] []
  /\ DeliveredExactly ex_machine ex2_minimised 9 (2, 0) [((0, 0), 1)] []
  /\ check_delivery ex_machine ex2_minimised 5 (0, 0) [((2, 0), 1); ((2, 0), 2)] [((2, 0), 5)] = true.
Proof. exact ex2_instance. Qed.

(* the bridge from C03 is not vacuous: a tree accepted by C03's validator *)
Example C01_C03_bridge_example :
  Route.ValidTree (Route.perfect 3 2) (0, 0) [(7, (2, 1), [Some 6; Some 7])] ex3_tree
  /\ valid_tree (nm_of (Route.perfect 3 2)) (tree_of ex3_tree)
  /\ tree_cores (rtree_of (tree_of ex3_tree)) = [((2, 1), 0); ((2, 1), 1)].
Proof. exact ex3_bridge. Qed.
