"""Dumper of unit GenTablesWrapper (property C10): the SHAPE of the deprecated second entry point of the
tree -> table conversion, rig/place_and_route/utils.py : build_routing_tables, and the defaults of
rig/routing_table/remove_default_routes.py : minimise that it relies on.  Read with `ast` (nothing is
imported).  Fail closed: any other shape is Unsupported, reported as the broken obligation
translate:GenTablesWrapper.

Modelled shape (coq/Model/TablesWrapper.v):
    def build_routing_tables(routes, net_keys, omit_default_routes=<D>):
        from rig.routing_table import routing_tree_to_tables, remove_default_routes
        warnings.warn(...)
        tables = dict()
        for chip, table in iteritems(routing_tree_to_tables(routes, net_keys)):
            if omit_default_routes:
                table = remove_default_routes.minimise(table, target_length=None)
            if table:
                tables[chip] = table
        return tables
    def minimise(table, target_length, check_for_aliases=<C>): ...
"""
import ast
import os
import sys

sys.path.insert(0, os.path.dirname(os.path.abspath(__file__)))
import dumplib as D  # noqa: E402

REPO = os.environ.get("PYTHONPATH", "/repo").split(os.pathsep)[0]
U = ast.unparse


class Unsupported(Exception):
    pass


def need(cond, what):
    if not cond:
        raise Unsupported(what)


def func(path, name):
    import warnings
    with warnings.catch_warnings():
        warnings.simplefilter("ignore")
        tree = ast.parse(open(os.path.join(REPO, path)).read())
    for n in tree.body:
        if isinstance(n, ast.FunctionDef) and n.name == name:
            b = list(n.body)
            if b and isinstance(b[0], ast.Expr) and isinstance(b[0].value, ast.Constant) \
                    and isinstance(b[0].value.value, str):
                b = b[1:]
            return n, b
    raise Unsupported("%s: function %s not found" % (path, name))


def boolconst(n, what):
    need(isinstance(n, ast.Constant) and type(n.value) is bool, what + ": a literal True/False expected, got " + U(n))
    return n.value


def main():
    f, b = func("rig/place_and_route/utils.py", "build_routing_tables")
    need([a.arg for a in f.args.args] == ["routes", "net_keys", "omit_default_routes"] and len(f.args.defaults) == 1
         and not f.args.vararg and not f.args.kwarg and not f.args.kwonlyargs,
         "build_routing_tables(routes, net_keys, omit_default_routes=<default>)")
    omit_default = boolconst(f.args.defaults[0], "default of omit_default_routes")
    need(len(b) == 5, "build_routing_tables: five statements after the docstring, found %d" % len(b))
    need(U(b[0]) == "from rig.routing_table import routing_tree_to_tables, remove_default_routes", "the import: " + U(b[0]))
    need(isinstance(b[1], ast.Expr) and isinstance(b[1].value, ast.Call) and U(b[1].value.func) == "warnings.warn",
         "warnings.warn(...): " + U(b[1]))
    need(U(b[2]) == "tables = dict()", "tables = dict(): " + U(b[2]))
    lp = b[3]
    need(isinstance(lp, ast.For) and not lp.orelse and U(lp.target) == "(chip, table)"
         and U(lp.iter) == "iteritems(routing_tree_to_tables(routes, net_keys))" and len(lp.body) == 2,
         "for chip, table in iteritems(routing_tree_to_tables(routes, net_keys)): two statements")
    s0, s1 = lp.body
    need(isinstance(s0, ast.If) and not s0.orelse and U(s0.test) == "omit_default_routes" and len(s0.body) == 1
         and U(s0.body[0]) == "table = remove_default_routes.minimise(table, target_length=None)",
         "if omit_default_routes: table = remove_default_routes.minimise(table, target_length=None): " + U(s0))
    need(isinstance(s1, ast.If) and not s1.orelse and U(s1.test) == "table" and len(s1.body) == 1
         and U(s1.body[0]) == "tables[chip] = table", "if table: tables[chip] = table: " + U(s1))
    need(U(b[4]) == "return tables", "return tables: " + U(b[4]))
    g, _ = func("rig/routing_table/remove_default_routes.py", "minimise")
    need([a.arg for a in g.args.args] == ["table", "target_length", "check_for_aliases"] and len(g.args.defaults) == 1,
         "remove_default_routes.minimise(table, target_length, check_for_aliases=<default>)")
    check_default = boolconst(g.args.defaults[0], "default of check_for_aliases")
    # ---- inventory of the classes whose instances the conversion takes (no pickle / copy / comparison hooks)
    def members(path, cname):
        import warnings
        with warnings.catch_warnings():
            warnings.simplefilter("ignore")
            tree = ast.parse(open(os.path.join(REPO, path)).read())
        for n in tree.body:
            if isinstance(n, ast.ClassDef) and n.name == cname:
                need([U(x) for x in n.bases] == ["object"], "%s(object): bases are %r" % (cname, [U(x) for x in n.bases]))
                names = []
                for m in n.body:
                    if isinstance(m, ast.FunctionDef):
                        names.append(m.name + "".join("@" + U(d) for d in m.decorator_list))
                    elif isinstance(m, ast.Assign):
                        names.append(U(m))
                    elif not (isinstance(m, ast.Expr) and isinstance(m.value, ast.Constant)):
                        need(False, "%s: unexpected class member %s" % (cname, U(m)[:80]))
                return names
        raise Unsupported("%s: class %s not found" % (path, cname))
    rt_members = members("rig/place_and_route/routing_tree.py", "RoutingTree")
    need(rt_members == ["__slots__ = ['_chip_x', '_chip_y', 'children']", "__init__", "chip@property",
                        "chip@chip.setter", "__iter__", "__repr__", "traverse"],
         "RoutingTree: the members are no longer __slots__, __init__, chip (property), __iter__, __repr__, traverse "
         "(copying, pickling, comparing and hashing are the object defaults): %r" % rt_members)
    net_members = members("rig/netlist.py", "Net")
    need(net_members == ["__init__", "__contains__", "__iter__"],
         "Net: the members are no longer __init__, __contains__, __iter__ (nets compare and hash by identity): %r"
         % net_members)
    out = [D.HEADER % "dump_c10w.py",
           "(* inventory: RoutingTree has members %s; Net has members %s -- no __eq__/__hash__/__getstate__/"
           "__setstate__/__reduce__/__copy__/__deepcopy__ (checked, fail closed) *)"
           % (", ".join(m.split(" =")[0] for m in rt_members), ", ".join(net_members)),
           "(* rig/place_and_route/utils.py : build_routing_tables, line %d -- shape checked (see tools/dump_c10w.py) *)" % f.lineno,
           D.definition("brt_omit_default_routes_default", "bool", "true" if omit_default else "false"),
           "(* the per-chip step: `if omit_default_routes: table = remove_default_routes.minimise(table, "
           "target_length=None)` then `if table: tables[chip] = table` *)",
           D.definition("brt_minimise_target_is_none", "bool", "true"),
           D.definition("brt_drops_empty_tables", "bool", "true"),
           "(* rig/routing_table/remove_default_routes.py : minimise, line %d *)" % g.lineno,
           D.definition("rdr_check_for_aliases_default", "bool", "true" if check_default else "false")]
    sys.stdout.write("\n".join(out))


if __name__ == "__main__":
    try:
        main()
    except Unsupported as e:            # fail closed, with one clean line for the obligation's detail
        sys.stderr.write("Unsupported: %s\n" % e)
        sys.exit(2)
    except Exception as e:         # anything unforeseen is also a refusal, never a silent pass
        sys.stderr.write("Unsupported: %s: %s\n" % (type(e).__name__, e))
        sys.exit(2)
