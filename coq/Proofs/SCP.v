(* Proofs about the executable model of send_scp_burst (Model/SCP.v) against Spec/SCP.v.
   Part 1: a small-step relation [astep] (one socket operation / one callback at a time) that the big-step
   function [run] refines.  Invariants are proved once per small step; the theorems of Props/C06.v follow. *)
From Coq Require Import ZArith List Bool Lia Arith.
Require Import Rig.Generated.GenSCP Rig.Model.Base Rig.Model.SCP Rig.Spec.SCP.
Import ListNotations.
Open Scope Z_scope.

(* ------------------------------------------------------------------------------------------------ *)
(* Small steps                                                                                        *)
(* ------------------------------------------------------------------------------------------------ *)

Record mstate := MS { m_tr : list output; m_k : conn; m_b : bstate }.

Definition set_buf (k : conn) (buf : list dgram) : conn :=
  {| k_seq := k_seq k; k_ntx := k_ntx k; k_now := k_now k; k_buf := buf |}.
Definition bump_ntx (k : conn) : conn :=
  {| k_seq := k_seq k; k_ntx := k_ntx k + 1; k_now := k_now k; k_buf := k_buf k |}.
Definition new_entry (cf : config) (c : cmd) (s now : Z) : entry :=
  {| e_seq := s; e_cmd := c_id c; e_tries := 1; e_timeout := cf_timeout cf + c_extra c;
     e_deadline := now + (cf_timeout cf + c_extra c) |}.
Definition bump (e : entry) (now : Z) : entry :=
  {| e_seq := e_seq e; e_cmd := e_cmd e; e_tries := e_tries e + 1; e_timeout := e_timeout e;
     e_deadline := now + e_timeout e |}.
Definition BS (q : list cmd) (qd : bool) (out : list entry) (cbs : list (Z * dgram)) : bstate :=
  {| b_queue := q; b_queued := qd; b_out := out; b_cbs := cbs |}.

Inductive astep (cf : config) : mstate -> mstate -> Prop :=
| A_send : forall tr k q c out cbs s s',
    Z.of_nat (length out) < cf_window cf ->
    free_seq (S (length out)) (k_seq k) out = Some (s, s') ->
    astep cf (MS tr k (BS (c :: q) true out cbs))
             (MS (tr ++ [OSend (k_ntx k) (c_id c) s (k_now k)])
                 {| k_seq := s'; k_ntx := k_ntx k + 1; k_now := k_now k; k_buf := k_buf k |}
                 (BS q true (out ++ [new_entry cf c s (k_now k)]) cbs))
| A_exhausted : forall tr k out cbs,
    astep cf (MS tr k (BS [] true out cbs)) (MS tr k (BS [] false out cbs))
| A_callback : forall tr k q qd out c d cbs,
    astep cf (MS tr k (BS q qd out ((c, d) :: cbs))) (MS (tr ++ [OCallback c d]) k (BS q qd out cbs))
| A_select : forall tr k b t,
    astep cf (MS tr k b) (MS (tr ++ [OSelect t]) k b)
| A_event : forall tr k b data t,
    astep cf (MS tr k b)
             (MS tr {| k_seq := k_seq k; k_ntx := k_ntx k; k_now := t; k_buf := k_buf k ++ data |} b)
| A_recv_hit : forall tr k q qd out cbs d buf e,
    k_buf k = d :: buf -> d_rc d = rc_ok -> find_entry (d_seq d) out = Some e ->
    astep cf (MS tr k (BS q qd out cbs))
             (MS (tr ++ [ORecv d]) (set_buf k buf)
                 (BS q qd (remove_entry (d_seq d) out) (cbs ++ [(e_cmd e, d)])))
| A_recv_ignored : forall tr k b d buf,
    k_buf k = d :: buf ->
    (d_rc d = rc_ok /\ find_entry (d_seq d) (b_out b) = None) \/
    (d_rc d <> rc_ok /\ is_retryable (d_rc d) = true) ->
    astep cf (MS tr k b) (MS (tr ++ [ORecv d]) (set_buf k buf) b)
| A_resend : forall tr k q qd pre e post cbs,
    e_deadline e < k_now k -> e_tries e < cf_tries cf ->
    astep cf (MS tr k (BS q qd (pre ++ e :: post) cbs))
             (MS (tr ++ [OSend (k_ntx k) (e_cmd e) (e_seq e) (k_now k)]) (bump_ntx k)
                 (BS q qd (pre ++ bump e (k_now k) :: post) cbs)).

Inductive star (cf : config) : mstate -> mstate -> Prop :=
| star_refl : forall m, star cf m m
| star_step : forall m1 m2 m3, astep cf m1 m2 -> star cf m2 m3 -> star cf m1 m3.

Lemma star_trans : forall cf m1 m2 m3, star cf m1 m2 -> star cf m2 m3 -> star cf m1 m3.
Proof.
  intros cf m1 m2 m3 H12. induction H12 as [m | a b c Hab Hbc IH]; intros H23.
  - exact H23.
  - eapply star_step; [exact Hab | apply IH; exact H23].
Qed.

Lemma star_one : forall cf m1 m2, astep cf m1 m2 -> star cf m1 m2.
Proof. intros cf m1 m2 H. eapply star_step; [exact H | apply star_refl]. Qed.

(* how a call can end, in terms of the last small-step state m and the complete trace *)
Inductive ends (cf : config) : outcome -> list output -> mstate -> Prop :=
| E_returned : forall m, running (m_b m) = false -> ends cf Returned (m_tr m) m
| E_timeout : forall m pre e post,
    b_out (m_b m) = pre ++ e :: post -> e_deadline e < k_now (m_k m) -> cf_tries cf <= e_tries e ->
    ends cf (RaisedTimeout (e_cmd e)) (m_tr m) m
| E_fatal : forall m d buf,
    k_buf (m_k m) = d :: buf -> d_rc d <> rc_ok -> is_retryable (d_rc d) = false ->
    ends cf (fatal_outcome (d_rc d) (option_map e_cmd (find_entry (d_seq d) (b_out (m_b m)))))
         (m_tr m ++ [ORecv d]) m
| E_need : forall m, ends cf NeedEvent (m_tr m) m
| E_diverge : forall tr m, ends cf SeqSearchDiverges tr m.

(* ------------------------------------------------------------------------------------------------ *)
(* The phases of [run] as sequences of small steps                                                    *)
(* ------------------------------------------------------------------------------------------------ *)

Lemma app_cons_assoc : forall {A} (l : list A) a l', (l ++ [a]) ++ l' = l ++ a :: l'.
Proof. intros A l a l'. rewrite <- app_assoc. reflexivity. Qed.

Lemma star_cast : forall cf m tr tr' k b,
  star cf m (MS tr k b) -> tr = tr' -> star cf m (MS tr' k b).
Proof. intros cf m tr tr' k b H E. subst tr'. exact H. Qed.

Lemma fill_refines : forall cf q qd k out f cbs tr0,
  fill cf q qd k out = Some f ->
  star cf (MS tr0 k (BS q qd out cbs))
          (MS (tr0 ++ f_outputs f) (f_conn f) (BS (f_queue f) (f_queued f) (f_out f) cbs)).
Proof.
  intros cf q. induction q as [|c q IH]; intros qd k out f cbs tr0 Hf; cbn [fill] in Hf.
  - destruct ((Z.of_nat (length out) <? cf_window cf) && qd) eqn:Hc.
    + inversion Hf; subst f; clear Hf. cbn [f_outputs f_conn f_queue f_queued f_out].
      rewrite app_nil_r. apply andb_prop in Hc. destruct Hc as [_ Hq]. subst qd.
      apply star_one. apply A_exhausted.
    + inversion Hf; subst f; clear Hf. cbn [f_outputs f_conn f_queue f_queued f_out].
      rewrite app_nil_r. apply star_refl.
  - destruct ((Z.of_nat (length out) <? cf_window cf) && qd) eqn:Hc.
    + apply andb_prop in Hc. destruct Hc as [Hw Hq]. subst qd. apply Z.ltb_lt in Hw.
      destruct (free_seq (S (length out)) (k_seq k) out) as [[s s']|] eqn:Hs; [|discriminate Hf].
      match type of Hf with
      | match fill cf q true ?k' ?out' with _ => _ end = _ =>
          destruct (fill cf q true k' out') as [r|] eqn:Hr; [|discriminate Hf]
      end.
      inversion Hf; subst f; clear Hf. cbn [f_outputs f_conn f_queue f_queued f_out].
      eapply star_step.
      * apply A_send; [exact Hw | exact Hs].
      * eapply star_cast; [apply (IH _ _ _ _ cbs _ Hr) | apply app_cons_assoc].
    + inversion Hf; subst f; clear Hf. cbn [f_outputs f_conn f_queue f_queued f_out].
      rewrite app_nil_r. apply star_refl.
Qed.

Lemma callbacks_refine : forall cf cbs tr0 k q qd out,
  star cf (MS tr0 k (BS q qd out cbs)) (MS (tr0 ++ callback_outputs cbs) k (BS q qd out [])).
Proof.
  intros cf cbs. induction cbs as [|[c d] cbs IH]; intros tr0 k q qd out.
  - cbn. rewrite app_nil_r. apply star_refl.
  - cbn [callback_outputs map fst snd]. eapply star_step; [apply A_callback|].
    eapply star_cast; [apply IH | apply app_cons_assoc].
Qed.

Lemma set_buf_buf : forall k buf, k_buf (set_buf k buf) = buf.
Proof. reflexivity. Qed.

(* the receive loop: either it drains the buffer, or it stops in front of a fatal datagram *)
Lemma recv_refines : forall cf buf k out cbs q qd tr0,
  k_buf k = buf ->
  let r := recv_loop buf out cbs in
  (r_fatal r = None ->
     star cf (MS tr0 k (BS q qd out cbs))
             (MS (tr0 ++ r_outputs r) (set_buf k []) (BS q qd (r_out r) (r_cbs r))))
  /\ (forall rc c, r_fatal r = Some (rc, c) ->
        exists tr1 out1 cbs1 d buf',
          star cf (MS tr0 k (BS q qd out cbs)) (MS tr1 (set_buf k (d :: buf')) (BS q qd out1 cbs1))
          /\ tr0 ++ r_outputs r = tr1 ++ [ORecv d]
          /\ d_rc d <> rc_ok /\ is_retryable (d_rc d) = false
          /\ rc = d_rc d /\ c = option_map e_cmd (find_entry (d_seq d) out1)).
Proof.
  intros cf buf. induction buf as [|d buf IH]; intros k out cbs q qd tr0 Hk; cbn zeta.
  - cbn [recv_loop r_fatal r_outputs r_out r_cbs]. split.
    + intros _. rewrite app_nil_r.
      replace (set_buf k []) with k; [apply star_refl|].
      destruct k as [a b c e]; cbn in Hk; subst e; reflexivity.
    + intros rc c H. discriminate H.
  - cbn [recv_loop]. destruct (d_rc d =? rc_ok) eqn:Hok.
    + apply Z.eqb_eq in Hok. destruct (find_entry (d_seq d) out) as [e|] eqn:Hfe.
      * specialize (IH (set_buf k buf) (remove_entry (d_seq d) out) (cbs ++ [(e_cmd e, d)]) q qd
                       (tr0 ++ [ORecv d]) eq_refl).
        cbn zeta in IH. destruct IH as [IH1 IH2].
        cbn [r_fatal r_outputs r_out r_cbs]. split.
        -- intros Hn. eapply star_step.
           ++ apply (A_recv_hit cf tr0 k q qd out cbs d buf e Hk Hok Hfe).
           ++ eapply star_cast; [apply IH1; exact Hn | apply app_cons_assoc].
        -- intros rc c Hf. destruct (IH2 rc c Hf) as (tr1 & out1 & cbs1 & d1 & buf' & Hst & Htr & H1 & H2 & H3 & H4).
           exists tr1, out1, cbs1, d1, buf'. split; [|split; [|repeat split; assumption]].
           ++ eapply star_step; [apply (A_recv_hit cf tr0 k q qd out cbs d buf e Hk Hok Hfe)|exact Hst].
           ++ rewrite <- Htr. symmetry. apply app_cons_assoc.
      * specialize (IH (set_buf k buf) out cbs q qd (tr0 ++ [ORecv d]) eq_refl).
        cbn zeta in IH. destruct IH as [IH1 IH2].
        cbn [r_fatal r_outputs r_out r_cbs].
        assert (Hstep : astep cf (MS tr0 k (BS q qd out cbs))
                              (MS (tr0 ++ [ORecv d]) (set_buf k buf) (BS q qd out cbs))).
        { apply A_recv_ignored; [exact Hk|]. left. split; [exact Hok|exact Hfe]. }
        split.
        -- intros Hn. eapply star_step; [exact Hstep|].
           eapply star_cast; [apply IH1; exact Hn | apply app_cons_assoc].
        -- intros rc c Hf. destruct (IH2 rc c Hf) as (tr1 & out1 & cbs1 & d1 & buf' & Hst & Htr & H1 & H2 & H3 & H4).
           exists tr1, out1, cbs1, d1, buf'. split; [|split; [|repeat split; assumption]].
           ++ eapply star_step; [exact Hstep|exact Hst].
           ++ rewrite <- Htr. symmetry. apply app_cons_assoc.
    + apply Z.eqb_neq in Hok. destruct (is_retryable (d_rc d)) eqn:Hre.
      * specialize (IH (set_buf k buf) out cbs q qd (tr0 ++ [ORecv d]) eq_refl).
        cbn zeta in IH. destruct IH as [IH1 IH2].
        cbn [r_fatal r_outputs r_out r_cbs].
        assert (Hstep : astep cf (MS tr0 k (BS q qd out cbs))
                              (MS (tr0 ++ [ORecv d]) (set_buf k buf) (BS q qd out cbs))).
        { apply A_recv_ignored; [exact Hk|]. right. split; [exact Hok|exact Hre]. }
        split.
        -- intros Hn. eapply star_step; [exact Hstep|].
           eapply star_cast; [apply IH1; exact Hn | apply app_cons_assoc].
        -- intros rc c Hf. destruct (IH2 rc c Hf) as (tr1 & out1 & cbs1 & d1 & buf' & Hst & Htr & H1 & H2 & H3 & H4).
           exists tr1, out1, cbs1, d1, buf'. split; [|split; [|repeat split; assumption]].
           ++ eapply star_step; [exact Hstep|exact Hst].
           ++ rewrite <- Htr. symmetry. apply app_cons_assoc.
      * cbn [r_fatal r_outputs r_out r_cbs]. split.
        -- intros H. discriminate H.
        -- intros rc c Hf. inversion Hf; subst rc c; clear Hf.
           exists tr0, out, cbs, d, buf. split; [|repeat split; try assumption; try reflexivity].
           replace (set_buf k (d :: buf)) with k; [apply star_refl|].
           destruct k as [a b c e]; cbn in Hk; subst e; reflexivity.
Qed.

(* the timeout scan over [todo], the entries before it ([done]) having been dealt with *)
Lemma scan_refines : forall cf todo done k q qd cbs tr0,
  let s := scan cf (k_now k) (k_ntx k) todo in
  star cf (MS tr0 k (BS q qd (done ++ todo) cbs))
          (MS (tr0 ++ s_outputs s)
              {| k_seq := k_seq k; k_ntx := s_ntx s; k_now := k_now k; k_buf := k_buf k |}
              (BS q qd (done ++ s_out s) cbs))
  /\ (forall c, s_timeout s = Some c ->
        exists pre e post, done ++ s_out s = pre ++ e :: post /\ e_cmd e = c /\
                           e_deadline e < k_now k /\ cf_tries cf <= e_tries e).
Proof.
  intros cf todo. induction todo as [|e rest IH]; intros done k q qd cbs tr0; cbn zeta.
  - cbn [scan s_outputs s_ntx s_out s_timeout]. split.
    + rewrite !app_nil_r. destruct k; apply star_refl.
    + intros c H. discriminate H.
  - cbn [scan]. destruct (e_deadline e <? k_now k) eqn:Hd.
    + apply Z.ltb_lt in Hd. destruct (cf_tries cf <=? e_tries e) eqn:Ht.
      * apply Z.leb_le in Ht. cbn [s_outputs s_ntx s_out s_timeout]. split.
        -- rewrite !app_nil_r. destruct k; apply star_refl.
        -- intros c H. inversion H; subst c. exists done, e, rest. repeat split; assumption.
      * apply Z.leb_gt in Ht. cbn [s_outputs s_ntx s_out s_timeout].
        specialize (IH (done ++ [bump e (k_now k)]) (bump_ntx k) q qd cbs
                       (tr0 ++ [OSend (k_ntx k) (e_cmd e) (e_seq e) (k_now k)])).
        cbn zeta in IH. cbn [bump_ntx k_now k_ntx k_seq k_buf] in IH. destruct IH as [IH1 IH2].
        rewrite !app_cons_assoc in IH1. rewrite !app_cons_assoc in IH2.
        split.
        -- eapply star_step.
           ++ apply (A_resend cf tr0 k q qd done e rest cbs Hd Ht).
           ++ exact IH1.
        -- exact IH2.
    + cbn [s_outputs s_ntx s_out s_timeout].
      specialize (IH (done ++ [e]) k q qd cbs tr0). cbn zeta in IH. destruct IH as [IH1 IH2].
      rewrite !app_cons_assoc in IH1. rewrite !app_cons_assoc in IH2.
      split; [exact IH1|exact IH2].
Qed.
