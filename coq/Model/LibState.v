(* Model of the library state that survives between calls of rig (C17).

   [accounted] lists, by hand, every carrier of cross-call state the model accounts for, with the class that
   says WHY it cannot make a later call depend on an earlier one, and with the number of syntactic write
   sites / unprotected escapes the argument relies on.  The inventory actually present in the source is
   regenerated on every run (Generated/GenSharedState.v); Props/C17.v proves the two lists equal, so a new
   carrier, a new write site or a new escape is a broken proof obligation.  Definitions only. *)
From Coq Require Import ZArith List String Bool.
Require Import Rig.Model.Base Rig.Model.Geometry.
Import ListNotations.
Open Scope Z_scope.
Open Scope string_scope.

Inductive carrier_class :=
| ReadOnlyTable      (* bound once at import, never written *)
| InitOnlyTable      (* written only while its module is being imported *)
| ReadOnlyDefault    (* mutable default argument never written through *)
| ForwardedDefault   (* mutable default argument passed on as is to a receiver that copies *)
| Memo.              (* a cache: written, but transparently (memo_transparent) *)

Definition carrier := (string * string * string * Z * Z)%type.

Definition accounted : list (carrier * carrier_class) := [
  (("rig/bitfield.py", "default", "recurse_assign_fields.field_values", (0), (1)), ForwardedDefault) (* default object handed on unmodified; the receiver copies it before any write (checked by the differential run of harness/c17.py) *);
  (("rig/geometry.py", "module", "SPINN5_ETH_OFFSET", (0), (0)), ReadOnlyTable) (* constant table, no write site anywhere in rig/ *);
  (("rig/geometry.py", "module", "SPINN5_FPGA_LINKS", (0), (0)), ReadOnlyTable) (* constant table, no write site anywhere in rig/ *);
  (("rig/links.py", "module", "_link_direction_lookup", (2), (0)), InitOnlyTable) (* written only by module-level statements executed once at import *);
  (("rig/links.py", "module", "_direction_link_lookup", (0), (0)), ReadOnlyTable) (* constant table, no write site anywhere in rig/ *);
  (("rig/machine_control/bmp_controller.py", "default", "__init__.initial_context", (0), (1)), ForwardedDefault) (* default object handed on unmodified; the receiver copies it before any write (checked by the differential run of harness/c17.py) *);
  (("rig/machine_control/boot.py", "module", "spin1_boot_options", (0), (0)), ReadOnlyTable) (* constant table, no write site anywhere in rig/ *);
  (("rig/machine_control/boot.py", "module", "spin2_boot_options", (0), (0)), ReadOnlyTable) (* constant table, no write site anywhere in rig/ *);
  (("rig/machine_control/boot.py", "module", "spin3_boot_options", (0), (0)), ReadOnlyTable) (* constant table, no write site anywhere in rig/ *);
  (("rig/machine_control/boot.py", "module", "spin4_boot_options", (0), (0)), ReadOnlyTable) (* constant table, no write site anywhere in rig/ *);
  (("rig/machine_control/boot.py", "module", "spin5_boot_options", (0), (0)), ReadOnlyTable) (* constant table, no write site anywhere in rig/ *);
  (("rig/machine_control/boot.py", "default", "boot.sv_overrides", (0), (0)), ReadOnlyDefault) (* default object never written before being rebound to a copy (or never written at all) *);
  (("rig/machine_control/consts.py", "module", "RETRYABLE_SCP_RETURN_CODES", (0), (0)), ReadOnlyTable) (* constant table, no write site anywhere in rig/ *);
  (("rig/machine_control/consts.py", "module", "FATAL_SCP_RETURN_CODES", (0), (0)), ReadOnlyTable) (* constant table, no write site anywhere in rig/ *);
  (("rig/machine_control/consts.py", "module", "signal_types", (0), (0)), ReadOnlyTable) (* constant table, no write site anywhere in rig/ *);
  (("rig/machine_control/consts.py", "module", "diagnostic_signal_types", (0), (0)), ReadOnlyTable) (* constant table, no write site anywhere in rig/ *);
  (("rig/machine_control/consts.py", "module", "address_length_dtype", (0), (0)), ReadOnlyTable) (* constant table, no write site anywhere in rig/ *);
  (("rig/machine_control/machine_controller.py", "default", "__init__.initial_context", (0), (1)), ForwardedDefault) (* default object handed on unmodified; the receiver copies it before any write (checked by the differential run of harness/c17.py) *);
  (("rig/machine_control/machine_controller.py", "default", "__new__.working_links", (0), (1)), ForwardedDefault) (* default object handed on unmodified; the receiver copies it before any write (checked by the differential run of harness/c17.py) *);
  (("rig/machine_control/struct_file.py", "module", "perl_to_python_packs", (0), (0)), ReadOnlyTable) (* constant table, no write site anywhere in rig/ *);
  (("rig/place_and_route/machine.py", "default", "__init__.chip_resources", (0), (0)), ReadOnlyDefault) (* default object never written before being rebound to a copy (or never written at all) *);
  (("rig/place_and_route/machine.py", "default", "__init__.chip_resource_exceptions", (0), (0)), ReadOnlyDefault) (* default object never written before being rebound to a copy (or never written at all) *);
  (("rig/place_and_route/machine.py", "default", "__init__.dead_chips", (0), (0)), ReadOnlyDefault) (* default object never written before being rebound to a copy (or never written at all) *);
  (("rig/place_and_route/machine.py", "default", "__init__.dead_links", (0), (0)), ReadOnlyDefault) (* default object never written before being rebound to a copy (or never written at all) *);
  (("rig/place_and_route/place/sa/algorithm.py", "default", "place.kernel_kwargs", (0), (0)), ReadOnlyDefault) (* default object never written before being rebound to a copy (or never written at all) *);
  (("rig/place_and_route/route/ner.py", "module", "_concentric_hexagons", (1), (0)), Memo) (* memo of concentric_hexagons keyed by radius; see memo_transparent *);
  (("rig/place_and_route/route/ner.py", "default", "route.allocations", (0), (0)), ReadOnlyDefault) (* default object never written before being rebound to a copy (or never written at all) *);
  (("rig/place_and_route/wrapper.py", "default", "place_and_route_wrapper.constraints", (0), (0)), ReadOnlyDefault) (* default object never written before being rebound to a copy (or never written at all) *);
  (("rig/place_and_route/wrapper.py", "default", "place_and_route_wrapper.place_kwargs", (0), (0)), ReadOnlyDefault) (* default object never written before being rebound to a copy (or never written at all) *);
  (("rig/place_and_route/wrapper.py", "default", "place_and_route_wrapper.allocate_kwargs", (0), (0)), ReadOnlyDefault) (* default object never written before being rebound to a copy (or never written at all) *);
  (("rig/place_and_route/wrapper.py", "default", "place_and_route_wrapper.route_kwargs", (0), (0)), ReadOnlyDefault) (* default object never written before being rebound to a copy (or never written at all) *);
  (("rig/place_and_route/wrapper.py", "default", "wrapper.constraints", (0), (0)), ReadOnlyDefault) (* default object never written before being rebound to a copy (or never written at all) *);
  (("rig/place_and_route/wrapper.py", "default", "wrapper.place_kwargs", (0), (0)), ReadOnlyDefault) (* default object never written before being rebound to a copy (or never written at all) *);
  (("rig/place_and_route/wrapper.py", "default", "wrapper.allocate_kwargs", (0), (0)), ReadOnlyDefault) (* default object never written before being rebound to a copy (or never written at all) *);
  (("rig/place_and_route/wrapper.py", "default", "wrapper.route_kwargs", (0), (0)), ReadOnlyDefault) (* default object never written before being rebound to a copy (or never written at all) *);
  (("rig/routing_table/entries.py", "default", "__new__.sources", (0), (0)), ReadOnlyDefault) (* default object never written before being rebound to a copy (or never written at all) *);
  (("rig/routing_table/ordered_covering.py", "default", "ordered_covering.aliases", (0), (0)), ReadOnlyDefault) (* default object never written before being rebound to a copy (or never written at all) *);
  (("rig/routing_table/ordered_covering.py", "default", "__new__.entries", (0), (0)), ReadOnlyDefault) (* default object never written before being rebound to a copy (or never written at all) *);
  (("rig/type_casts.py", "classattr", "NumpyFloatToFixConverter.dtypes", (0), (0)), ReadOnlyTable) (* class-level constant, no write site *);
  (("rig/utils/contexts.py", "default", "__init__.initial_context", (0), (0)), ReadOnlyDefault) (* default object never written before being rebound to a copy (or never written at all) *);
  (("rig/utils/docstrings.py", "default", "add_signature_to_docstring.kw_only_args", (0), (0)), ReadOnlyDefault) (* default object never written before being rebound to a copy (or never written at all) *)
].

Definition carrier_eqb (a b : carrier) : bool :=
  let '(f1, k1, n1, w1, e1) := a in
  let '(f2, k2, n2, w2, e2) := b in
  String.eqb f1 f2 && String.eqb k1 k2 && String.eqb n1 n2 && Z.eqb w1 w2 && Z.eqb e1 e2.

Fixpoint carriers_eqb (l1 l2 : list carrier) : bool :=
  match l1, l2 with
  | [], [] => true
  | a :: l1', b :: l2' => carrier_eqb a b && carriers_eqb l1' l2'
  | _, _ => false
  end.

(* a carrier may be written only if it is a memo or an import-time table, and may escape only if it is a
   forwarded default *)
Definition class_consistent (c : carrier * carrier_class) : bool :=
  let '((_, _, _, w, e), k) := c in
  match k with
  | Memo => Z.eqb e 0                              (* written, never handed out unprotected *)
  | InitOnlyTable => Z.eqb e 0
  | ForwardedDefault => Z.eqb w 0 && Z.eqb e 1     (* never written here; handed on exactly once *)
  | ReadOnlyTable | ReadOnlyDefault => Z.eqb w 0 && Z.eqb e 0
  end.

(* ---- the one genuinely stateful carrier: the memo of rig.place_and_route.route.ner ----
   memoized_concentric_hexagons(radius): out = d.get(radius); if out is None: out = f(radius); d[radius] = out *)
Definition memo (A : Type) := list (Z * A).

Definition memo_call {A} (f : Z -> A) (m : memo A) (r : Z) : A * memo A :=
  match zassoc r m with
  | Some v => (v, m)
  | None => (f r, zupdate r (f r) m)
  end.

(* any history of earlier calls *)
Definition memo_after {A} (f : Z -> A) (history : list Z) : memo A :=
  fold_left (fun m r => snd (memo_call f m r)) history [].

(* mutable default arguments: the callee works on a copy; the model of "copy then write" *)
Definition call_with_default {S} (default : S) (arg : option S) (write : S -> S) : S * S :=
  (* returns (the state the body works on, the default object afterwards) *)
  (write (match arg with Some a => a | None => default end), default).

(* ---- a default object as a heap cell, under the two disciplines a function body can follow ----
   [Copies]: the body rebinds the parameter to a copy before its first write (what an inventory row with 0 write
   sites and 0 escapes means);  [Aliases]: the body writes through the parameter (>= 1 write site; boot() as found,
   before fix 0f4c024).  A call returns (the value the body computes with, the default object afterwards). *)
Inductive discipline := Copies | Aliases.

Definition default_call {S} (d : discipline) (write : S -> S) (cell : S) (arg : option S) : S * S :=
  match arg, d with
  | Some a, _ => (write a, cell)
  | None, Copies => (write cell, cell)
  | None, Aliases => (write cell, write cell)
  end.

(* the default object after a history of earlier calls (each with its own write and explicit-or-default argument) *)
Definition default_after {S} (d : discipline) (history : list ((S -> S) * option S)) (cell0 : S) : S :=
  fold_left (fun cell c => snd (default_call d (fst c) cell (snd c))) history cell0.

(* the memo of rig.place_and_route.route.ner as the router model uses it: radius -> concentric_hexagons radius (0,0) *)
Definition ner_memo_call (m : memo (list chip)) (radius : Z) : list chip * memo (list chip) :=
  memo_call (fun r => Rig.Model.Geometry.concentric_hexagons r (0, 0)) m radius.
