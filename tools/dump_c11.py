"""Dump the live link tables of rig.links as Coq literals (unit GenGeometryLinks, property C11).
Run under /venv/bin/python with PYTHONPATH=/repo; prints the .v text."""
import sys
import dumplib as D
import rig.links as L

import ast
import inspect
import warnings


def function_node(module, qualname):
    with warnings.catch_warnings():
        warnings.simplefilter("ignore")
        tree = ast.parse(inspect.getsource(module))
    body = tree.body
    node = None
    for part in qualname.split("."):
        node = next(n for n in body if isinstance(n, (ast.FunctionDef, ast.ClassDef)) and n.name == part)
        body = node.body
    return node


def strip_doc(node):
    body = list(node.body)
    if body and isinstance(body[0], ast.Expr) and isinstance(body[0].value, ast.Constant) \
            and isinstance(body[0].value.value, str):
        body = body[1:]
    return body


class Mismatch(Exception):
    pass


def match(t, n, holes, where="body"):
    """Match source node n against template node t.  A template Name `HOLE_x` (as an expression, or alone
    as an expression statement) matches any expression / any single statement, recorded in holes[x].
    Everything else must have the same node type and the same fields."""
    if isinstance(t, ast.Expr) and isinstance(t.value, ast.Name) and t.value.id.startswith("HOLE_"):
        if not isinstance(n, ast.stmt):
            raise Mismatch("%s: expected a statement" % where)
        holes[t.value.id[5:]] = n
        return
    if isinstance(t, ast.Name) and t.id.startswith("HOLE_"):
        if not isinstance(n, ast.expr):
            raise Mismatch("%s: expected an expression" % where)
        holes[t.id[5:]] = n
        return
    if type(t) is not type(n):
        raise Mismatch("%s: %s where the model expects %s (line %s)"
                       % (where, type(n).__name__, type(t).__name__, getattr(n, "lineno", "?")))
    for f in t._fields:
        if f in ("ctx", "type_comment", "kind"):
            continue
        a, b = getattr(t, f, None), getattr(n, f, None)
        w = "%s.%s" % (type(t).__name__, f)
        if isinstance(a, list):
            if not isinstance(b, list) or len(a) != len(b):
                raise Mismatch("%s: %d items where the model expects %d (line %s)"
                               % (w, len(b) if isinstance(b, list) else -1, len(a), getattr(n, "lineno", "?")))
            for x, y in zip(a, b):
                match(x, y, holes, w)
        elif isinstance(a, ast.AST):
            if not isinstance(b, ast.AST):
                raise Mismatch("%s: missing" % w)
            match(a, b, holes, w)
        elif a != b:
            raise Mismatch("%s: %r where the model expects %r (line %s)" % (w, b, a, getattr(n, "lineno", "?")))


def match_function(module, qualname, template):
    node = function_node(module, qualname)
    t = ast.parse(template).body[0]
    holes = {}
    try:
        match(t.args, node.args, holes, "parameters")
        tb, nb = strip_doc(t), strip_doc(node)
        if len(tb) != len(nb):
            raise Mismatch("%d top-level statements where the model expects %d" % (len(nb), len(tb)))
        for x, y in zip(tb, nb):
            match(x, y, holes)
    except Mismatch as e:
        raise SystemExit("Unsupported: %s no longer has the shape the model follows -- %s" % (qualname, e))
    return holes


class Rewrite(ast.NodeTransformer):
    """random.randint(a, b) -> randint(a, b) (the draw is the oracle function `rint` of the model);
    `<name> is not None` -> has_<name> (a boolean parameter of the translated fragment)"""

    def visit_Call(self, node):
        self.generic_visit(node)
        f = node.func
        if isinstance(f, ast.Attribute) and f.attr == "randint" and isinstance(f.value, ast.Name) \
                and f.value.id == "random" and len(node.args) == 2 and not node.keywords:
            return ast.copy_location(ast.Call(func=ast.Name(id="randint", ctx=ast.Load()), args=node.args,
                                              keywords=[]), node)
        return node

    def visit_Compare(self, node):
        self.generic_visit(node)
        if isinstance(node.left, ast.Name) and len(node.ops) == 1 and isinstance(node.ops[0], ast.IsNot) \
                and isinstance(node.comparators[0], ast.Constant) and node.comparators[0].value is None:
            return ast.copy_location(ast.Name(id="has_" + node.left.id, ctx=ast.Load()), node)
        return node


def synth(name, params, stmts, ret_names, ret, pre="", calls=None, extra_binder=""):
    """translate the given source statements as the body of a function of its own with py2v"""
    import py2v
    body = ast.parse(pre).body + [Rewrite().visit(st) for st in stmts]
    if ret_names:
        body += ast.parse("return (%s)" % ", ".join(ret_names)).body
    fn = ast.FunctionDef(name=name,
                         args=ast.arguments(posonlyargs=[], args=[ast.arg(arg=a) for a in params],
                                            kwonlyargs=[], kw_defaults=[], defaults=[]),
                         body=body, decorator_list=[], type_params=[])
    ast.fix_missing_locations(fn)
    spec = dict(name=name, coq=name, params=params, ret=ret)
    text = py2v.Fn(fn, spec, calls or {}).translate()
    if extra_binder:
        text = text.replace("Definition %s " % name, "Definition %s %s " % (name, extra_binder), 1)
    return text


def expr_Z(e, types):
    import py2v
    f = py2v.Fn(None, dict(name="<expression>"), {})
    f.types = dict(types)
    callees = set(id(n.func) for n in ast.walk(e) if isinstance(n, ast.Call))
    for n in ast.walk(e):
        if isinstance(n, ast.Name) and id(n) not in callees and n.id not in types:
            raise SystemExit("Unsupported: name %s in a translated expression" % n.id)
        if isinstance(n, ast.Name) and id(n) in callees and n.id not in ("max", "min", "abs"):
            raise SystemExit("Unsupported: call of %s in a translated expression" % n.id)
    return f


T_MESH_PATH = """
def shortest_mesh_path(source, destination):
    return minimise_xyz(HOLE_component for s, d in zip(source, destination))
"""

T_TORUS_PATH = """
def shortest_torus_path(source, destination, width, height):
    HOLE_h0
    HOLE_h1
    HOLE_h2
    HOLE_h3
    HOLE_h4
    approaches = [(HOLE_d0, HOLE_v0), (HOLE_d1, HOLE_v1), (HOLE_d2, HOLE_v2), (HOLE_d3, HOLE_v3)]
    _, vector = min(approaches, key=(lambda a: (a[0], random.random())))
    x, y, z = minimise_xyz(vector)
    HOLE_spiral
    return (x, y, z)
"""

T_LDF = """
def longest_dimension_first(vector, start=(0, 0), width=None, height=None):
    x, y = start
    out = []
    for dimension, magnitude in sorted(enumerate(vector), key=(lambda x: abs(x[1]) + random.random()),
                                       reverse=True):
        if magnitude == 0:
            break
        sign = HOLE_sign
        for _ in range(HOLE_count):
            HOLE_delta
            HOLE_a0
            HOLE_a1
            HOLE_a2
            HOLE_a3
            direction = Links.from_vector((dx, dy))
            out.append((direction, (x, y)))
    return out
"""

T_HEXAGONS = """
def concentric_hexagons(radius, start=(0, 0)):
    x, y = start
    yield (x, y)
    for r in range(HOLE_first, radius + 1):
        y -= HOLE_step
        for dx, dy in HOLE_dirs:
            for _ in range(r):
                yield (x, y)
                x += dx
                y += dy
"""


def int_literal(e, what):
    try:
        v = ast.literal_eval(e)
    except Exception:
        raise SystemExit("Unsupported: %s is not a literal" % what)
    return v


def shapes():
    """Unit GenGeometryShapes.  Each hand-modelled function of Model/Geometry.v is matched against the
    skeleton the model follows (loops, generator, the min / sorted calls with their key functions); the
    arithmetic and the constants inside the skeleton are holes, translated from the current source text
    by py2v (expressions and statement groups) or read as literals.  The model is built from these
    definitions, so a change inside a hole changes the definitions the theorems are about; a change of the
    skeleton is Unsupported (fail closed)."""
    import importlib
    import rig.geometry
    utils = importlib.import_module("rig.place_and_route.route.utils")
    out = ["(* GENERATED by tools/dump_c11.py shapes from the current /repo sources -- do not edit. *)",
           "From Coq Require Import ZArith Bool List.", "Import ListNotations.", "Open Scope Z_scope.", ""]

    # ---- shortest_mesh_path
    h = match_function(rig.geometry, "shortest_mesh_path", T_MESH_PATH)
    f = expr_Z(h["component"], {"s": "Z", "d": "Z"})
    out += ["(* rig/geometry.py : shortest_mesh_path, the component expression of its generator *)",
            "Definition mesh_path_component (s : Z) (d : Z) : Z :=\n  %s.\n" % f.as_Z(h["component"])]

    # ---- shortest_torus_path
    h = match_function(rig.geometry, "shortest_torus_path", T_TORUS_PATH)
    out += ["(* rig/geometry.py : shortest_torus_path, the five statements before `approaches = ...` *)",
            synth("torus_head", {"source": "Z3", "destination": "Z3", "width": "Z", "height": "Z"},
                  [h["h%d" % i] for i in range(5)], ["w", "h", "dx", "dy"], "Z4")]
    items = []
    for i in range(4):
        types = {"w": "Z", "h": "Z", "dx": "Z", "dy": "Z"}
        fd = expr_Z(h["d%d" % i], types)
        fv = expr_Z(h["v%d" % i], types)
        v, t = fv.expr(h["v%d" % i])
        if t != "Z3":
            raise SystemExit("Unsupported: approach %d does not carry a 3-vector" % i)
        items.append("(%s, %s)" % (fd.as_Z(h["d%d" % i]), v))
    out += ["(* rig/geometry.py : shortest_torus_path, the list `approaches` *)",
            "Definition torus_approaches_src (w : Z) (h : Z) (dx : Z) (dy : Z) : list (Z * (Z * Z * Z)) :=\n  [%s].\n"
            % ";\n   ".join(items)]
    # max_spirals and d are assigned in two of the three branches only; initialising them (they are dead
    # after the if) lets the translator merge the branches
    out += ["(* rig/geometry.py : shortest_torus_path, the statement after `x, y, z = minimise_xyz(vector)` *)",
            synth("torus_spiral", {"x": "Z", "y": "Z", "z": "Z", "width": "Z", "height": "Z"}, [h["spiral"]],
                  ["x", "y", "z"], "Z3", pre="max_spirals = 0\nd = 0",
                  calls={"randint": ("rint", ["Z", "Z"], "Z")}, extra_binder="(rint : Z -> Z -> Z)")]

    # ---- longest_dimension_first
    h = match_function(utils, "longest_dimension_first", T_LDF)
    f = expr_Z(h["sign"], {"magnitude": "Z"})
    v, t = f.expr(h["sign"])
    if t != "Z":
        raise SystemExit("Unsupported: sign is not an integer expression")
    out += ["(* route/utils.py : longest_dimension_first, `sign = ...` *)",
            "Definition ldf_sign (magnitude : Z) : Z :=\n  %s.\n" % v]
    f = expr_Z(h["count"], {"magnitude": "Z"})
    out += ["(* route/utils.py : longest_dimension_first, `for _ in range(...)` *)",
            "Definition ldf_count (magnitude : Z) : Z :=\n  %s.\n" % f.as_Z(h["count"])]
    out += ["(* route/utils.py : longest_dimension_first, the statement choosing (dx, dy) *)",
            synth("ldf_delta_src", {"dimension": "Z", "sign": "Z"}, [h["delta"]], ["dx", "dy"], "Z2",
                  pre="dx = 0\ndy = 0")]
    out += ["(* route/utils.py : longest_dimension_first, the four statements advancing and wrapping (x, y);",
            "   `width is not None` / `height is not None` are the boolean parameters *)",
            synth("ldf_advance", {"x": "Z", "y": "Z", "dx": "Z", "dy": "Z", "has_width": "bool", "width": "Z",
                                  "has_height": "bool", "height": "Z"},
                  [h["a%d" % i] for i in range(4)], ["x", "y"], "Z2")]

    # ---- concentric_hexagons
    h = match_function(rig.geometry, "concentric_hexagons", T_HEXAGONS)
    first = int_literal(h["first"], "first ring")
    step = int_literal(h["step"], "layer step")
    dirs = int_literal(h["dirs"], "direction list")
    if type(first) is not int or type(step) is not int or not isinstance(dirs, list) or not all(
            isinstance(d, tuple) and len(d) == 2 and all(type(c) is int for c in d) for d in dirs):
        raise SystemExit("Unsupported: concentric_hexagons constants")
    out += ["(* rig/geometry.py : concentric_hexagons, `range(<first>, radius + 1)`, `y -= <step>`, the list of",
            "   directions walked round a ring *)",
            D.definition("hexagon_first_ring", "Z", D.z(first)),
            D.definition("hexagon_layer_step", "Z", D.z(step)),
            D.definition("hexagon_dirs", "list (Z * Z)", D.lst(D.pair(D.z(a), D.z(b)) for a, b in dirs))]
    sys.stdout.write("\n".join(out) + "\n")


if len(sys.argv) > 1 and sys.argv[1] == "shapes":
    shapes()
    sys.exit(0)

out = [D.HEADER % "dump_c11.py"]
out.append("(* rig/links.py: members of Links in iteration order, with their integer values *)\n")
out.append(D.enum("Links", L.Links))
out.append(D.definition("links_members", "list Z", D.zlist(int(l) for l in L.Links)))
out.append("(* rig/links.py: _link_direction_lookup, in dict order (including the two 2xN special cases) *)\n")
out.append(D.definition(
    "link_direction_table", "list ((Z * Z) * Z)",
    D.lst(D.pair(D.pair(D.z(k[0]), D.z(k[1])), D.z(int(v))) for k, v in L._link_direction_lookup.items())))
out.append("(* rig/links.py: _direction_link_lookup, in dict order *)\n")
out.append(D.definition(
    "direction_link_table", "list (Z * (Z * Z))",
    D.lst(D.pair(D.z(int(k)), D.pair(D.z(v[0]), D.z(v[1]))) for k, v in L._direction_link_lookup.items())))
for k in L._link_direction_lookup:
    assert isinstance(k, tuple) and len(k) == 2 and all(type(c) is int for c in k), k
for v in L._direction_link_lookup.values():
    assert isinstance(v, tuple) and len(v) == 2 and all(type(c) is int for c in v), v
out.append("""(* dict subscript: None models KeyError *)
Fixpoint link_direction_lookup_in (t : list ((Z * Z) * Z)) (k : Z * Z) : option Z :=
  match t with
  | [] => None
  | ((a, b), v) :: t' => if andb (Z.eqb a (fst k)) (Z.eqb b (snd k)) then Some v
                         else link_direction_lookup_in t' k
  end.
Definition link_direction_lookup (k : Z * Z) : option Z :=
  link_direction_lookup_in link_direction_table k.
Fixpoint direction_link_lookup_in (t : list (Z * (Z * Z))) (k : Z) : option (Z * Z) :=
  match t with
  | [] => None
  | (a, v) :: t' => if Z.eqb a k then Some v else direction_link_lookup_in t' k
  end.
Definition direction_link_lookup (k : Z) : option (Z * Z) :=
  direction_link_lookup_in direction_link_table k.
""")
sys.stdout.write("\n".join(out))
