"""Dumper of the translation units GenBoot / GenBootImage (property C20).

Run under /venv/bin/python with PYTHONPATH=<repo>; prints the text of a .v file.
  consts : constants of rig.machine_control.boot, the formats and the protocol version used by boot_packet
           (read from its source text), the fixed fields boot() writes after the options (read from the
           source text of boot), BootCommand, the spinN presets, boot()'s signature and the current content of
           its shared default dictionary, and the `sv` struct as parsed by rig's own read_struct_file from
           the bundled sark.struct (field name, python pack chars, offset, default, array length, in dict order).
  image  : the bundled scamp.boot as a list of bytes.
"""
import ast
import inspect
import os
import sys
import textwrap
import warnings

warnings.simplefilter("ignore")       # stderr is captured together with stdout

import dumplib as D  # noqa: E402

import rig
from rig.machine_control import boot as B, consts, struct_file

BOOTDIR = os.path.join(os.path.dirname(os.path.abspath(rig.__file__)), "boot")


def ascii_name(b):
    s = b.decode("latin-1") if isinstance(b, bytes) else b
    if not all(32 <= ord(ch) < 127 for ch in s):
        raise ValueError("non-ASCII name %r" % (b,))
    return s


def dict_lit(d):
    items = []
    for k, v in d.items():
        if not isinstance(v, int) or isinstance(v, bool):
            raise ValueError("non-integer option value %r" % (v,))
        items.append(D.pair(D.string(ascii_name(k)), D.z(v)))
    return D.lst(items)


def fn_ast(fn):
    return ast.parse(textwrap.dedent(inspect.getsource(fn))).body[0]


def is_attr_call(node, obj, attr):
    return (isinstance(node, ast.Call) and isinstance(node.func, ast.Attribute) and node.func.attr == attr
            and isinstance(node.func.value, ast.Name) and node.func.value.id == obj)


def const_str(node):
    if isinstance(node, ast.Constant) and isinstance(node.value, (str, bytes)):
        return node.value if isinstance(node.value, str) else node.value.decode("ascii")
    raise ValueError("format is not a literal: " + ast.dump(node))


def packet_facts():
    """PROTOCOL_VERSION and the struct formats of boot_packet, from its source text."""
    f = fn_ast(B.boot_packet)
    version = None
    packs, unpacks = [], []
    for node in ast.walk(f):
        if isinstance(node, ast.Assign) and len(node.targets) == 1 and isinstance(node.targets[0], ast.Name) \
                and node.targets[0].id == "PROTOCOL_VERSION":
            if version is not None or not isinstance(node.value, ast.Constant):
                raise ValueError("PROTOCOL_VERSION is not one literal")
            version = node.value.value
        if is_attr_call(node, "struct", "pack"):
            packs.append((const_str(node.args[0]), [ast.unparse(a) for a in node.args[1:]]))
        if is_attr_call(node, "struct", "unpack"):
            unpacks.append(const_str(node.args[0]))
    if version is None or len(packs) != 2 or len(unpacks) != 1:
        raise ValueError("boot_packet no longer has one header pack, one word pack and one word unpack")
    header = [p for p in packs if len(p[1]) == 5]
    word = [p for p in packs if len(p[1]) == 1]
    if len(header) != 1 or len(word) != 1:
        raise ValueError("boot_packet: cannot tell the header pack from the word pack")
    if header[0][1] != ["PROTOCOL_VERSION", "cmd", "arg1", "arg2", "arg3"]:
        raise ValueError("header fields changed: %r" % (header[0][1],))
    return version, header[0][0], word[0][0], unpacks[0]


def fixed_fields():
    """The keyword arguments of the update_default_values call that follows the options in boot():
    (name, None) for int(time.time()), (name, literal) for a literal."""
    f = fn_ast(B.boot)
    calls = [n for n in ast.walk(f) if is_attr_call(n, "sv", "update_default_values")]
    opts = [c for c in calls if any(k.arg is None for k in c.keywords)]
    fixed = [c for c in calls if all(k.arg is not None for k in c.keywords)]
    if len(opts) != 1 or len(fixed) != 1 or opts[0].lineno >= fixed[0].lineno or opts[0].args or fixed[0].args:
        raise ValueError("boot(): expected update_default_values(**options) followed by one call with fixed fields")
    if ast.unparse(opts[0].keywords[0].value) != "sv_overrides":
        raise ValueError("boot(): options applied are not sv_overrides")
    out = []
    for k in fixed[0].keywords:
        src = ast.unparse(k.value)
        if src == "int(time.time())":
            out.append((k.arg, None))
        elif isinstance(k.value, ast.Constant) and isinstance(k.value.value, int):
            out.append((k.arg, k.value.value))
        else:
            raise ValueError("boot(): fixed field %s = %s not understood" % (k.arg, src))
    return out


def overrides_handling():
    """How boot() treats the dictionary it is given (ast, fail closed): every statement of boot() that mentions
    sv_overrides must be one of
        sv_overrides = dict(sv_overrides)          (optional: work on a copy)
        sv_overrides.update(kwargs)
        sv.update_default_values(**sv_overrides)
    in this order.  -> True when the copy is made before the update, False when the update is in place."""
    f = fn_ast(B.boot)
    body = f.body[1:] if isinstance(f.body[0], ast.Expr) and isinstance(f.body[0].value, ast.Constant) else f.body
    hits = [st for st in body if any(isinstance(x, ast.Name) and x.id == "sv_overrides" for x in ast.walk(st))]
    nested = [st for st in ast.walk(f) if isinstance(st, ast.stmt) and st not in body and st is not f
              and any(isinstance(x, ast.Name) and x.id == "sv_overrides" for x in ast.walk(st))]
    if nested:
        raise ValueError("boot(): sv_overrides is used inside a nested statement")
    src = [ast.unparse(st) for st in hits]
    copy, upd, use = "sv_overrides = dict(sv_overrides)", "sv_overrides.update(kwargs)", \
        "sv.update_default_values(**sv_overrides)"
    if src == [copy, upd, use]:
        return True
    if src == [upd, use]:
        return False
    raise ValueError("boot(): unexpected handling of sv_overrides: %r" % (src,))


def consts_unit():
    out = [D.HEADER % "dump_c20.py"]
    for name in ("DTCM_SIZE", "BOOT_BYTE_SIZE", "BOOT_WORD_SIZE", "BOOT_MAX_BLOCKS", "BOOT_DATA_OFFSET",
                 "BOOT_DATA_LENGTH"):
        out.append(D.definition(name, "Z", D.z(getattr(B, name))))
    out.append(D.definition("BOOT_PORT", "Z", D.z(consts.BOOT_PORT)))
    out.append(D.enum("BootCommand", B.BootCommand))
    version, hfmt, wout, win = packet_facts()
    out.append(D.definition("PROTOCOL_VERSION", "Z", D.z(version)))
    out.append(D.definition("boot_header_format", "string", D.string(hfmt)))
    out.append(D.definition("boot_word_out_format", "string", D.string(wout)))
    out.append(D.definition("boot_word_in_format", "string", D.string(win)))
    out.append(D.definition("boot_fixed_fields", "list (string * option Z)", D.lst(
        D.pair(D.string(n), "None" if v is None else "Some %s" % D.z(v)) for n, v in fixed_fields())))
    # signature of boot and the default dictionary as it is now
    sig = inspect.signature(B.boot)
    out.append(D.definition("boot_param_names", "list string", D.lst(
        D.string(p.name) for p in sig.parameters.values() if p.kind == p.POSITIONAL_OR_KEYWORD)))
    var = [p.name for p in sig.parameters.values() if p.kind == p.VAR_KEYWORD]
    if var != ["kwargs"]:
        raise ValueError("boot() no longer takes **kwargs")
    dflt = sig.parameters["sv_overrides"].default
    if not isinstance(dflt, dict):
        raise ValueError("default of sv_overrides is not a dict")
    out.append(D.definition("boot_default_sv_overrides", "list (string * Z)", dict_lit(dflt)))
    out.append("(* boot() copies the dictionary it is given before updating it with the keywords (false: in place) *)\n")
    out.append(D.definition("boot_copies_overrides", "bool", "true" if overrides_handling() else "false"))
    out.append(D.definition("boot_default_port", "Z", D.z(sig.parameters["boot_port"].default)))
    for i in range(1, 6):
        out.append(D.definition("spin%d_boot_options" % i, "list (string * Z)",
                                dict_lit(getattr(B, "spin%d_boot_options" % i))))
    # the parsed struct file
    with open(os.path.join(BOOTDIR, "sark.struct"), "rb") as f:
        structs = struct_file.read_struct_file(f.read())
    out.append(D.definition("struct_names", "list string", D.lst(D.string(ascii_name(n)) for n in structs)))
    sv = structs[b"sv"]
    out.append(D.definition("sv_size", "Z", D.z(sv.size)))
    out.append(D.definition("sv_base", "Z", D.z(sv.base)))
    rows = []
    for name, fld in sv.fields.items():
        rows.append("(%s, %s, %s, %s, %s)" % (D.string(ascii_name(name)), D.string(ascii_name(fld.pack_chars)),
                                             D.z(fld.offset), D.z(fld.default), D.z(fld.length)))
    out.append("(* (name, python pack chars, offset, default, array length), in the order of Struct.fields *)\n")
    out.append(D.definition("sv_fields", "list (string * string * Z * Z * Z)", "[" + ";\n   ".join(rows) + "]"))
    return "".join(out)


def image_unit():
    with open(os.path.join(BOOTDIR, "scamp.boot"), "rb") as f:
        data = f.read()
    lines = []
    for i in range(0, len(data), 32):
        lines.append("; ".join(str(b) for b in data[i:i + 32]))
    return (D.HEADER % "dump_c20.py" + "(* rig/boot/scamp.boot, %d bytes *)\n" % len(data)
            + "Definition scamp_boot : list Z :=\n  [" + ";\n   ".join(lines) + "].\n")


if __name__ == "__main__":
    sys.stdout.write(consts_unit() if sys.argv[1] == "consts" else image_unit())
