(* C13 -- executable model of rig.machine_control.machine_controller.SlicedMemoryIO / MemoryIO
   (file-like views of an allocated block of memory), as the code is NOW, i.e. after the repairs
   "fix: MemoryIO transfers could leave the view when the cursor was outside it" (read/write) and
   "fix: slicing a closed or freed MemoryIO handed out a usable view" (__getitem__ guarded), plus a
   model [*_orig] of the code AS FOUND, before both repairs (for the refutation theorems).
   Definitions only, no proofs.

   The cursor and clamping arithmetic is NOT written here: it is Generated/GenMemIO.v, re-translated on
   every run from the text of machine_controller.py by tools/dump_c13.py (gen_address, gen_len,
   gen_init_end, gen_seek, gen_read_plan, gen_write_plan, gen_slice_start, gen_slice_stop, gen_filelike_end), which also
   checks literally the statements around it (transfer, THEN advance the offset; guards; close/__exit__;
   MemoryIO.__init__/free/_perform_read/_perform_write).  The model of the code as found (the definitions named ..._orig) is hand-written.

   A view is (start address, end address, offset, closed).  All views of one allocation share the
   owner's [freed] flag (the root MemoryIO is its own parent; every slice keeps a reference to the
   root as `_parent`).  The machine controller is a byte memory (address -> byte); every method
   returns the list of controller calls it issues, and the memory changes only through these calls.

   Outcomes: [Ok v] normal return, [Failed 0] = OSError (closed view / freed allocation),
   [Failed 1] = ValueError (bad `from_what`, non-contiguous slice), [Failed 2] = the exception the
   machine controller raised during a transfer (transport fault, propagated unchanged),
   [Failed 3] = TruncationWarning raised as an exception (warnings filter "error"),
   [OtherError] = a view index
   that does not exist (outside the domain of the model; never produced by the harness). *)
From Coq Require Import ZArith List Bool.
Require Import Rig.Model.Base Rig.Generated.GenMemIO.
Import ListNotations.
Open Scope Z_scope.

Record view := mkView { v_start : Z; v_end : Z; v_off : Z; v_closed : bool }.

(* SlicedMemoryIO.__init__: end address clipped to max(start, end), offset 0, open *)
Definition new_view (s e : Z) : view := mkView s (gen_init_end s e) 0 false.

Definition set_off (v : view) (o : Z) : view := mkView (v_start v) (v_end v) o (v_closed v).
Definition set_closed (v : view) : view := mkView (v_start v) (v_end v) (v_off v) true.

(* the `address` property *)
Definition address (v : view) : Z := gen_address (v_start v) (v_off v).
(* __len__ *)
Definition vlen (v : view) : Z := gen_len (v_start v) (v_end v).

(* calls made on the machine controller (x, y, p arguments are constants of the view: omitted) *)
Inductive call :=
| CRead (a n : Z)               (* machine_controller.read(a, n, x, y, 0) *)
| CWrite (a : Z) (bs : list Z)  (* machine_controller.write(a, bs, x, y, 0) *)
| CFree (a : Z).                (* machine_controller.sdram_free(a, x, y) *)

Inductive value :=
| VNone
| VInt (z : Z)                  (* tell, len, write *)
| VAddr (a : Z)                 (* address *)
| VBytes (bs : list Z)          (* read *)
| VView (s e : Z).              (* a new view, by its start and end address *)

Record output := mkOut { o_res : result value; o_warns : Z; o_calls : list call }.

Definition ok (v : value) : output := mkOut (Ok v) 0 [].
Definition err (k : Z) : output := mkOut (Failed k) 0 [].

(* ---------------------------------------------------------------------------------------- *)
(* memory behind the controller                                                               *)
(* ---------------------------------------------------------------------------------------- *)
Definition mem := Z -> Z.

Definition zlen {A} (l : list A) : Z := Z.of_nat (length l).

Definition mem_read (m : mem) (a n : Z) : list Z :=
  map (fun i => m (a + Z.of_nat i)) (seq 0 (Z.to_nat n)).

Definition mem_write (m : mem) (a : Z) (bs : list Z) : mem :=
  fun x => if (a <=? x) && (x <? a + zlen bs) then nth (Z.to_nat (x - a)) bs 0 else m x.

Definition mem_of_list (lo : Z) (bs : list Z) : mem :=
  fun x => if (lo <=? x) && (x <? lo + zlen bs) then nth (Z.to_nat (x - lo)) bs 0 else 0.

Definition apply_call (m : mem) (c : call) : mem :=
  match c with
  | CWrite a bs => mem_write m a bs
  | _ => m
  end.

Definition apply_calls (m : mem) (cs : list call) : mem := fold_left apply_call cs m.

(* Python's bytes[:n] for any integer n *)
Definition py_prefix (n : Z) (bs : list Z) : list Z :=
  if n <? 0 then firstn (Z.to_nat (Z.max 0 (zlen bs + n))) bs else firstn (Z.to_nat n) bs.

(* ---------------------------------------------------------------------------------------- *)
(* methods of a view, given that the closed/freed guard has passed                            *)
(* ---------------------------------------------------------------------------------------- *)

(* seek(n_bytes, from_what): gen_seek yields (1, new offset), or (0, _) where the code raises ValueError *)
Definition seek (v : view) (n wh : Z) : view * output :=
  let '(valid, o) := gen_seek (v_start v) (v_end v) (v_off v) n wh in
  if valid =? 1 then (set_off v o, ok VNone) else (v, err 1).

(* read(n_bytes): the number of warnings and the number of bytes finally requested of the controller
   (the statements of read() before `if n_bytes <= 0: return b''`) *)
Definition read_plan (v : view) (n : Z) : Z * Z := gen_read_plan (v_start v) (v_end v) (v_off v) n.

Definition read (m : mem) (v : view) (n : Z) : view * output :=
  let '(w, k) := read_plan v n in
  if k <=? 0 then (v, mkOut (Ok (VBytes [])) w [])
  else (set_off v (v_off v + k),
        mkOut (Ok (VBytes (mem_read m (address v) k))) w [CRead (address v) k]).

(* write(bytes): the number of warnings and the bytes finally handed to the controller (the statements
   of write() before `if len(bytes) == 0: return 0`): `bytes` is only ever replaced by b'' or by a
   prefix of itself (checked by the dumper), so it is the prefix of the length gen_write_plan computes *)
Definition write_plan (v : view) (bs : list Z) : Z * list Z :=
  let '(w, k) := gen_write_plan (v_start v) (v_end v) (v_off v) (zlen bs) in
  (w, firstn (Z.to_nat k) bs).

Definition write (v : view) (bs : list Z) : view * output :=
  let '(w, b) := write_plan v bs in
  if zlen b =? 0 then (v, mkOut (Ok (VInt 0)) w [])
  else (set_off v (v_off v + zlen b), mkOut (Ok (VInt (zlen b))) w [CWrite (address v) b]).

(* ---- the code as found, before the repair ---- *)
Definition read_plan_orig (v : view) (n : Z) : Z * Z :=
  let n1 := if n <? 0 then v_end v - address v else n in
  let w1 := if address v + n1 >? v_end v then 1 else 0 in
  let n2 := if address v + n1 >? v_end v then v_end v - address v else n1 in
  (w1, n2).

Definition read_orig (m : mem) (v : view) (n : Z) : view * output :=
  let '(w, k) := read_plan_orig v n in
  if k <=? 0 then (v, mkOut (Ok (VBytes [])) w [])
  else (set_off v (v_off v + k),
        mkOut (Ok (VBytes (mem_read m (address v) k))) w [CRead (address v) k]).

Definition write_plan_orig (v : view) (bs : list Z) : Z * list Z :=
  let over := address v + zlen bs >? v_end v in
  let w := if over then 1 else 0 in
  let b := if over then py_prefix (v_end v - address v) bs else bs in
  (w, b).

Definition write_orig (v : view) (bs : list Z) : view * output :=
  let '(w, b) := write_plan_orig v bs in
  if zlen b =? 0 then (v, mkOut (Ok (VInt 0)) w [])
  else (set_off v (v_off v + zlen b), mkOut (Ok (VInt (zlen b))) w [CWrite (address v) b]).

(* __getitem__(slice(a, b, step)): bounds of the new view, before __init__ clips the end *)
Definition slice_start (v : view) (a : option Z) : Z :=
  match a with
  | None => gen_slice_start_none (v_start v) (v_end v)
  | Some x => gen_slice_start (v_start v) (v_end v) x
  end.

Definition slice_stop (v : view) (s : Z) (b : option Z) : Z :=
  match b with
  | None => gen_slice_stop_none (v_start v) (v_end v) s
  | Some x => gen_slice_stop (v_start v) (v_end v) s x
  end.

Definition contiguous (step : option Z) : bool :=
  match step with None => true | Some k => k =? 1 end.

Definition slice_view (v : view) (a b : option Z) : view :=
  let s := slice_start v a in new_view s (slice_stop v s b).

(* ---------------------------------------------------------------------------------------- *)
(* operations                                                                                 *)
(* ---------------------------------------------------------------------------------------- *)
Inductive vop :=
| Seek (n wh : Z)
| Read (n : Z)                       (* read() is Read (-1) *)
| Write (bs : list Z)
| Slice (a b step : option Z)        (* view[a:b:step] *)
| Tell
| Len
| Address
| Flush
| Close
(* the environment: the same read/write when the controller raises during the transfer (if the call
   gets as far as a transfer), and when TruncationWarning has been turned into an exception *)
| FaultRead (n : Z)
| FaultWrite (bs : list Z)
| StrictRead (n : Z)
| StrictWrite (bs : list Z)
(* `with view:` -- __enter__ returns self (no guard); __exit__ calls close() whatever the exception *)
| Enter
| Exit.

Inductive op :=
| OView (i : nat) (o : vop)          (* a method of the i-th view created (0 = the MemoryIO) *)
| OFree                              (* MemoryIO.free() *)
| OFreeFault.                        (* MemoryIO.free() during which the controller's sdram_free raises *)

(* _if_not_closed: `self.closed or self._parent._freed` *)
Definition dead (fr : bool) (v : view) : bool := v_closed v || fr.

(* close(): `if not self.closed: self.flush(); self.closed = True` -- flush() is guarded *)
Definition close_step (fr : bool) (v : view) : view * option view * output :=
  if v_closed v then (v, None, ok VNone)
  else if fr then (v, None, err 0)
  else (set_closed v, None, ok VNone).

(* the controller raises during the transfer: the exception propagates out of read()/write() before
   `self._offset += ...`; warnings given before the transfer have been given *)
Definition faulted (v : view) (r : view * output) : view * option view * output :=
  match o_calls (snd r) with
  | [] => (fst r, None, snd r)
  | _ :: _ => (v, None, mkOut (Failed 2) (o_warns (snd r)) [])
  end.

(* TruncationWarning is an error: the first warnings.warn raises, before anything else happens *)
Definition strict (v : view) (r : view * output) : view * option view * output :=
  if 0 <? o_warns (snd r) then (v, None, mkOut (Failed 3) 0 []) else (fst r, None, snd r).

(* one method call on view v: the view afterwards, the view created (if any), what the caller sees.
   __len__ and close carry no guard decorator in the code; __getitem__ checks the guard first, then
   the kind of slice. *)
Definition vstep (fr : bool) (m : mem) (v : view) (o : vop) : view * option view * output :=
  match o with
  | Len => (v, None, ok (VInt (vlen v)))
  | Slice a b step =>
      if dead fr v then (v, None, err 0)
      else if contiguous step
      then let w := slice_view v a b in (v, Some w, ok (VView (v_start w) (v_end w)))
      else (v, None, err 1)
  | Close => close_step fr v
  | Exit => close_step fr v
  | Enter => (v, None, ok VNone)
  | FaultRead n => if dead fr v then (v, None, err 0) else faulted v (read m v n)
  | FaultWrite bs => if dead fr v then (v, None, err 0) else faulted v (write v bs)
  | StrictRead n => if dead fr v then (v, None, err 0) else strict v (read m v n)
  | StrictWrite bs => if dead fr v then (v, None, err 0) else strict v (write v bs)
  | Seek n wh => if dead fr v then (v, None, err 0) else let '(v', r) := seek v n wh in (v', None, r)
  | Read n => if dead fr v then (v, None, err 0) else let '(v', r) := read m v n in (v', None, r)
  | Write bs => if dead fr v then (v, None, err 0) else let '(v', r) := write v bs in (v', None, r)
  | Tell => if dead fr v then (v, None, err 0) else (v, None, ok (VInt (v_off v)))
  | Address => if dead fr v then (v, None, err 0) else (v, None, ok (VAddr (address v)))
  | Flush => if dead fr v then (v, None, err 0) else (v, None, ok VNone)
  end.

(* the code as found: read/write before the repair, __getitem__ without the guard *)
Definition vstep_orig (fr : bool) (m : mem) (v : view) (o : vop) : view * option view * output :=
  match o with
  | Read n => if dead fr v then (v, None, err 0) else let '(v', r) := read_orig m v n in (v', None, r)
  | Write bs => if dead fr v then (v, None, err 0) else let '(v', r) := write_orig v bs in (v', None, r)
  | Slice a b step =>
      if contiguous step
      then let w := slice_view v a b in (v, Some w, ok (VView (v_start w) (v_end w)))
      else (v, None, err 1)
  | _ => vstep fr m v o
  end.

Record state := mkState { st_views : list view; st_freed : bool; st_mem : mem }.

Fixpoint set_nth {A} (i : nat) (x : A) (l : list A) : list A :=
  match l, i with
  | [], _ => []
  | _ :: t, O => x :: t
  | h :: t, S j => h :: set_nth j x t
  end.

Definition opt_list {A} (o : option A) : list A := match o with Some x => [x] | None => [] end.

Definition step_with (vs : bool -> mem -> view -> vop -> view * option view * output)
           (st : state) (o : op) : state * output :=
  match o with
  | OView i vo =>
      match nth_error (st_views st) i with
      | None => (st, mkOut OtherError 0 [])
      | Some v =>
          let '(v', nw, out) := vs (st_freed st) (st_mem st) v vo in
          (mkState (set_nth i v' (st_views st) ++ opt_list nw) (st_freed st)
                   (apply_calls (st_mem st) (o_calls out)), out)
      end
  | OFree =>
      match st_views st with
      | [] => (st, mkOut OtherError 0 [])
      | root :: _ =>
          if st_freed st then (st, err 0)
          else (mkState (st_views st) true (st_mem st), mkOut (Ok VNone) 0 [CFree (v_start root)])
      end
  | OFreeFault =>
      (* sdram_free raises before `self._freed = True`: the exception comes out, nothing is freed *)
      match st_views st with
      | [] => (st, mkOut OtherError 0 [])
      | _ :: _ => if st_freed st then (st, err 0) else (st, mkOut (Failed 2) 0 [])
      end
  end.

Definition step := step_with vstep.
Definition step_orig := step_with vstep_orig.

(* the history with, for every operation, the state it ran in and what it produced *)
Fixpoint trace_with (stp : state -> op -> state * output) (st : state) (ops : list op)
  : list (state * op * output) :=
  match ops with
  | [] => []
  | o :: rest => let '(st', out) := stp st o in (st, o, out) :: trace_with stp st' rest
  end.

Fixpoint run_with (stp : state -> op -> state * output) (st : state) (ops : list op) : state :=
  match ops with
  | [] => st
  | o :: rest => run_with stp (fst (stp st o)) rest
  end.

Definition trace := trace_with step.
Definition run := run_with step.
Definition trace_orig := trace_with step_orig.

(* MemoryIO(mc, x, y, s, e) over memory m *)
Definition init (s e : Z) (m : mem) : state := mkState [new_view s e] false m.

(* MachineController.sdram_alloc_as_filelike(size, ...): the block sdram_alloc returned, as a MemoryIO *)
Definition alloc_as_filelike (start size : Z) (m : mem) : state := init start (gen_filelike_end start size) m.

(* ---------------------------------------------------------------------------------------- *)
(* what the correspondence harness prints                                                     *)
(* ---------------------------------------------------------------------------------------- *)
(* position reported by tell() of the view an operation addressed, probed after the operation *)
Definition probe (st : state) (o : op) : option Z :=
  match o with
  | OView i _ =>
      match nth_error (st_views st) i with
      | Some v => if dead (st_freed st) v then None else Some (v_off v)
      | None => None
      end
  | OFree => None
  | OFreeFault => None
  end.

(* the access a faulted operation was attempting when the controller raised *)
Definition attempted (st : state) (o : op) (out : output) : list call :=
  match o_res out, o with
  | Failed 2, OView i (FaultRead n) => o_calls (snd (step st (OView i (Read n))))
  | Failed 2, OView i (FaultWrite bs) => o_calls (snd (step st (OView i (Write bs))))
  | Failed 2, OFreeFault => o_calls (snd (step st OFree))
  | _, _ => []
  end.

Fixpoint observe (st : state) (ops : list op)
  : list (result value * Z * list call * option Z * list call) * state :=
  match ops with
  | [] => ([], st)
  | o :: rest =>
      let '(st', out) := step st o in
      let '(l, fin) := observe st' rest in
      ((o_res out, o_warns out, o_calls out, probe st' o, attempted st o out) :: l, fin)
  end.

(* whole history on MemoryIO(s, e) over the memory window [lo, lo + |bs|) holding bs (0 elsewhere):
   per-operation observations and the window afterwards *)
Definition observe_case (s e lo : Z) (bs : list Z) (ops : list op) :=
  let '(l, fin) := observe (init s e (mem_of_list lo bs)) ops in
  (l, mem_read (st_mem fin) lo (zlen bs)).

(* the same for the view MachineController.sdram_alloc_as_filelike(size) makes of a block at address s *)
Definition observe_filelike (s size lo : Z) (bs : list Z) (ops : list op) :=
  let '(l, fin) := observe (alloc_as_filelike s size (mem_of_list lo bs)) ops in
  (l, mem_read (st_mem fin) lo (zlen bs)).
