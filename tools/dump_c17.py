"""Inventory of every carrier of cross-call state in rig/ (ast scan of the source text; nothing is
imported): module-level names bound to mutable objects, mutable default arguments, mutable class
attributes -- each with the number of syntactic WRITE SITES found for it:
  * module-level NAME: NAME[...] = / del NAME[...] / NAME op= / NAME.<mutator>(...) in its module, and
    <anything>.NAME... of the same forms in any other module of rig/;
  * default argument P of function F: the same forms on P inside F *before* P is rebound by a top-level
    assignment of F's body (`P = dict(P)` makes later writes go to the copy); a mutable default that is
    stored (self.x = P, returned, or passed on) without a copy counts as one "escape";
  * class attribute C.A: the same forms on self.A / cls.A / C.A anywhere in the module.
Emits Coq: carriers : list (string * string * string * Z * Z)  (file, kind, name, writes, escapes)."""
import ast
import os
import sys

sys.path.insert(0, os.path.dirname(os.path.abspath(__file__)))
import dumplib as D  # noqa: E402

REPO = os.environ.get("PYTHONPATH", "/repo").split(os.pathsep)[0]
MUT_CALLS = {'dict', 'list', 'set', 'defaultdict', 'OrderedDict', 'deque', 'bytearray', 'array', 'Counter'}
MUTATORS = {'append', 'extend', 'insert', 'pop', 'popitem', 'remove', 'clear', 'update', 'add', 'discard',
            'setdefault', 'sort', 'reverse', 'appendleft', 'popleft', '__setitem__', '__delitem__',
            'difference_update', 'intersection_update', 'symmetric_difference_update'}
COPIERS = {'dict', 'list', 'set', 'frozenset', 'tuple', 'sorted', 'copy', 'deepcopy', 'OrderedDict', 'iter',
           'len', 'isinstance', 'enumerate', 'zip', 'iteritems', 'itervalues', 'iterkeys', 'any', 'all', 'sum',
           'min', 'max', 'Context', 'frozenset'}


def is_mut(n):
    if isinstance(n, (ast.Dict, ast.List, ast.Set, ast.ListComp, ast.DictComp, ast.SetComp)):
        return True
    if isinstance(n, ast.Call):
        f = n.func
        name = f.id if isinstance(f, ast.Name) else (f.attr if isinstance(f, ast.Attribute) else None)
        return name in MUT_CALLS
    return False


def refers(node, name, attr_ok):
    """does expression `node` denote the carrier: Name(name), or X.name when attr_ok"""
    if isinstance(node, ast.Name) and node.id == name:
        return True
    return attr_ok and isinstance(node, ast.Attribute) and node.attr == name


def count_writes(tree, name, attr_ok, own_module):
    n = 0
    for x in ast.walk(tree):
        if isinstance(x, (ast.Assign, ast.AugAssign, ast.Delete)):
            tgts = x.targets if isinstance(x, (ast.Assign, ast.Delete)) else [x.target]
            for t in tgts:
                if isinstance(t, ast.Subscript) and refers(t.value, name, attr_ok):
                    n += 1
                if isinstance(x, ast.AugAssign) and refers(t, name, attr_ok):
                    n += 1
        if isinstance(x, ast.Call) and isinstance(x.func, ast.Attribute) and x.func.attr in MUTATORS \
                and refers(x.func.value, name, attr_ok):
            n += 1
    return n


def default_usage(fn, pname):
    """(writes before rebinding, escapes without copy) of a mutable default parameter"""
    writes = escapes = 0
    rebound = False
    for st in fn.body:
        if rebound:
            break
        sub = ast.Module(body=[st], type_ignores=[])
        writes += count_writes(sub, pname, False, True)
        for x in ast.walk(st):
            # stored / returned / passed on as is
            if isinstance(x, ast.Assign) and isinstance(x.value, ast.Name) and x.value.id == pname \
                    and not (len(x.targets) == 1 and isinstance(x.targets[0], ast.Name)
                             and x.targets[0].id == pname):
                escapes += 1
            if isinstance(x, ast.Return) and isinstance(x.value, ast.Name) and x.value.id == pname:
                escapes += 1
            if isinstance(x, ast.Call):
                f = x.func
                fname = f.id if isinstance(f, ast.Name) else (f.attr if isinstance(f, ast.Attribute) else None)
                for a in list(x.args) + [k.value for k in x.keywords if k.arg is not None]:   # **P copies
                    if isinstance(a, ast.Name) and a.id == pname and fname not in COPIERS \
                            and not (isinstance(f, ast.Attribute) and f.attr in ("get", "update", "issubset",
                                                                                 "union", "format")):
                        escapes += 1
                    if isinstance(a, ast.Starred) and isinstance(a.value, ast.Name) and a.value.id == pname:
                        pass
        if isinstance(st, ast.Assign) and any(isinstance(t, ast.Name) and t.id == pname for t in st.targets):
            rebound = True
    return writes, escapes


def main():
    trees = {}
    for root, _, files in os.walk(os.path.join(REPO, "rig")):
        for fn in sorted(files):
            if fn.endswith(".py"):
                p = os.path.join(root, fn)
                trees[os.path.relpath(p, REPO)] = ast.parse(open(p).read())
    rows = []
    for rel in sorted(trees):
        t = trees[rel]
        for n in t.body:
            if isinstance(n, ast.Assign) and is_mut(n.value):
                for tg in n.targets:
                    if isinstance(tg, ast.Name):
                        w = count_writes(t, tg.id, False, True)
                        for rel2, t2 in trees.items():
                            if rel2 != rel:
                                w += count_writes(t2, tg.id, True, False) if len(tg.id) > 6 else 0
                        rows.append((rel, "module", tg.id, w, 0))
        for n in ast.walk(t):
            if isinstance(n, ast.FunctionDef):
                a = n.args
                names = [x.arg for x in a.args][len(a.args) - len(a.defaults):]
                for nm, d in zip(names, a.defaults):
                    if is_mut(d):
                        w, e = default_usage(n, nm)
                        rows.append((rel, "default", n.name + "." + nm, w, e))
                for x, d in zip(a.kwonlyargs, a.kw_defaults):
                    if d is not None and is_mut(d):
                        w, e = default_usage(n, x.arg)
                        rows.append((rel, "default", n.name + "." + x.arg, w, e))
            if isinstance(n, ast.ClassDef):
                for m in n.body:
                    if isinstance(m, ast.Assign) and is_mut(m.value):
                        for tg in m.targets:
                            if isinstance(tg, ast.Name) and tg.id != "__slots__":
                                rows.append((rel, "classattr", n.name + "." + tg.id,
                                             count_writes(t, tg.id, True, True), 0))
    out = [D.HEADER % "dump_c17.py", "Open Scope string_scope.",
           "(* (file, kind, name, write sites, unprotected escapes) *)",
           D.definition("carriers", "list (string * string * string * Z * Z)",
                        D.lst("(%s, %s, %s, %s, %s)" % (D.string(f)[:-7], D.string(k)[:-7], D.string(nm)[:-7],
                                                         D.z(w), D.z(e)) for f, k, nm, w, e in rows))]
    sys.stdout.write("\n".join(out))


main()
