UNITS = {
    # bit-field / stride / slice expressions of the probing functions read with `ast` from
    # rig/machine_control/machine_controller.py, common.py and place_and_route/utils.py (translated by
    # the expression translator of py2v), struct format strings, enum members, SPINNAKER_RTR_P2P, the
    # live sark.struct `sv` / `vcpu` field tables; tools/dump_c14.py fails closed when a probing
    # function no longer has the shape the hand-written model (coq/Model/Probe.v) follows.
    "GenProbe": dict(props=["C14"], dumper="dump_c14.py", args=[]),
}
