(* C03 -- Routing trees are loop-free, connected and use only live hardware.
   Property theorems only; each is closed by `exact` of a lemma of Proofs/Route*.v.

   What is proved for ALL inputs (U) and what is certified per instance (V):
   * V  C03_check_tree_sound / C03_check_connected_sound: the two validators evaluated inside Coq by
        ./check on every real output of route() are sound for the property's sentence (ValidTree) and for
        "all working chips reach each other over working links" (Connected).
   * U  C03_ner_net_tree: on every fault-free w x h torus or mesh (w, h >= 1, so 1 x N and 2 x N too), for
        every source, destination list (duplicates allowed), radius (any integer) and every stream of
        random draws, the model of ner_net returns a tree rooted at the source in which no chip occurs twice,
        every hop follows a working link to the adjacent chip in that direction and every destination is a
        node.  Rests on the theorems of C11 (the vector has as many hops as the graph distance; the
        longest-dimension-first walk has that length) and on the cut-at-the-LAST-intersection lemma.
   * U  C03_route_valid: route() for one net on EVERY machine (any dead chips, any dead links, also in one
        direction only), every placement on working chips, allocation, constraint list, radius, stream of
        draws and every iteration order of the set broken_links: the model returns a tree that satisfies the
        property's whole sentence (ValidTree), or the documented error MachineHasDisconnectedSubregion -- and
        the latter only on a machine whose working chips cannot all reach each other.  It never returns any
        other error and never exhausts its fuel.  C03_route_connected_succeeds: on a connected machine it
        succeeds.  Built from
          - C03_ner_net_tree (above),
          - C03_copy_disconnect_inv: copy_and_disconnect_tree, every machine and tree,
          - C03_a_star_spec: A* terminates, a returned path is a chain of working hops from a source to the sink
            whose interior avoids the sources, and failure means no source reaches the sink (completeness),
          - C03_repair_step_tree: one splice, the detour running over new chips and/or through nodes of the
            orphaned subtree (re-parenting, parent searched among all nodes as since c75fe85),
          - C03_avoid_dead_links_tree: their composition over broken_links in any order.
   * U  C03_route_nets_independent / C03_route_nets_valid: the loop over the nets of one call; C03_run_history_valid:
        a re-used Machine object with in-place edits of its fault sets; T C03_route_shape.
   * U  C03_route_valid_no_repair / C03_route_valid_fault_free: the branch without repair, kept as corollaries.
   * R  C03_repair_duplicate_child_orig_refuted: the repair step of the code as found (before c75fe85)
        attached a chip twice; witness replayed on the real code.
   * U  C03_route_all_working (every chip of the tree is a working chip), C03_leaf_routes_in_range (leaf routes are
        members of Routes), C03_route_nets_valid_at (order hypothesis at the net's own stream position).
   * R  C03_childless_node_not_a_sink_refuted: a node without children need not be a sink's chip after a repair.
   Not covered by a theorem (harness only): the multiplicity of a sink's leaves (ValidTree's leaf clauses are
   set-level; route() appends a sink's leaves once per occurrence of the sink in net.sinks); the bulk random
   streams; model comparison on the 1200-2500-hop routes (validator only).  Definitions used in the statements
   below that live in Proofs/ rather than Spec/: detour_ok, cnt, Hstar, fhops, leafless, order_ok(_route), net_ok,
   nets_ok_from, tree_valid_for, path_good (bookkeeping predicates of the intermediate theorems).
   The validators stay in the check: V certifies every real output of route() independently of the model.
   The model (Model/Route.v) is compared with rig on every run: exact tree equality for ner_net and for the
   final tree of route(), with the random module scripted. *)
From Coq Require Import String.
From Coq Require Import ZArith List Bool.
Require Import Rig.Model.Base Rig.Model.Route Rig.Spec.Route Rig.Proofs.Route Rig.Proofs.RouteMain
        Rig.Proofs.RouteFull Rig.Proofs.RouteCopy Rig.Proofs.RouteRepair Rig.Proofs.RouteAstar
        Rig.Proofs.RouteSever Rig.Proofs.RouteSplice Rig.Proofs.RouteAvoid Rig.Proofs.RouteValid
        Rig.Model.RouteMulti Rig.Generated.GenRouteShape Rig.Proofs.RouteMulti Rig.Proofs.RouteWorking.
Import ListNotations.
Open Scope Z_scope.

(* V: a tree accepted by the validator satisfies the property's sentence, for every machine, source chip,
   sink requirements and tree. *)
Theorem C03_check_tree_sound :
  forall m src sinks t, check_tree m src sinks t = true -> ValidTree m src sinks t.
Proof. exact check_tree_sound. Qed.

(* V: a machine accepted by the connectivity validator has all working chips mutually reachable over
   working links (so MachineHasDisconnectedSubregion is not a permitted outcome on it). *)
Theorem C03_check_connected_sound :
  forall m, check_connected m = true -> Connected m.
Proof. exact check_connected_sound. Qed.

(* U: ner_net on a fault-free machine.  [wrap] is the wrap_around flag route() passes: with wrap = true the
   machine has no dead link at all (a torus), with wrap = false its only dead links are wrap-around links
   (a mesh: hops never leave the rectangle).  The call never fails (no exception, no exhausted fuel). *)
Theorem C03_ner_net_tree :
  forall m wrap src dests radius s,
    1 <= rm_w m -> 1 <= rm_h m -> fault_free m wrap ->
    in_range (rm_w m) (rm_h m) src -> Forall (in_range (rm_w m) (rm_h m)) dests -> stream_ok s ->
    exists t route,
      ner_net src dests (rm_w m) (rm_h m) wrap radius s = Ok (t, route)
      /\ root_chip t = Some src
      /\ NoDup (chips t)
      /\ (forall p r c, In (p, r, c) (tree_hops t) -> exists l, r = Some l /\ hop_ok m p l c)
      /\ (forall d, In d dests -> In d (chips t))
      /\ (forall x, In x (chips t) <-> In x route).
Proof. exact ner_net_tree. Qed.

(* U: the branch of route() that does not call avoid_dead_links, on any machine ([dests] is the iteration order
   of set(placements[sink]); [order] that of broken_links) *)
Theorem C03_route_valid_no_repair :
  forall m source sinks dests pl cons allocs radius s order src,
    1 <= rm_w m -> 1 <= rm_h m ->
    zassoc source pl = Some src -> in_range (rm_w m) (rm_h m) src ->
    Forall (in_range (rm_w m) (rm_h m)) dests -> stream_ok s ->
    (forall v, In v sinks -> exists c, zassoc v pl = Some c /\ In c dests) ->
    (forall v a b, In v sinks -> zassoc v allocs = Some (a, b) -> 0 <= a /\ b <= 18) ->
    (forall tr, ner_net src dests (rm_w m) (rm_h m) (has_wrap m) radius s = Ok tr ->
                has_dead_links m (fst tr) = false) ->
    exists t, route_net m source sinks dests pl cons allocs radius s order = Ok t /\
              ValidTree m src (sink_reqs sinks pl cons allocs) t.
Proof. exact route_valid_no_repair. Qed.

(* U (corollary): on every fault-free torus or mesh the whole of route() for one net is covered: the call
   succeeds and the tree satisfies the property's whole sentence, for every placement, allocation,
   constraint list, radius and stream of draws. *)
Theorem C03_route_valid_fault_free :
  forall m source sinks dests pl cons allocs radius s order src,
    1 <= rm_w m -> 1 <= rm_h m -> fault_free m (has_wrap m) ->
    zassoc source pl = Some src -> in_range (rm_w m) (rm_h m) src ->
    Forall (in_range (rm_w m) (rm_h m)) dests -> stream_ok s ->
    (forall v, In v sinks -> exists c, zassoc v pl = Some c /\ In c dests) ->
    (forall v a b, In v sinks -> zassoc v allocs = Some (a, b) -> 0 <= a /\ b <= 18) ->
    exists t, route_net m source sinks dests pl cons allocs radius s order = Ok t /\
              ValidTree m src (sink_reqs sinks pl cons allocs) t.
Proof. exact route_valid_fault_free. Qed.

(* U: copy_and_disconnect_tree, for every machine and every tree without a repeated chip: the loop terminates
   within the model's fuel; the copy holds exactly the working chips of the tree, each once; every edge it
   kept is a working link between adjacent chips; each broken pair names a node of the copy and the root of a
   disconnected tree, and the copy consists of the root's tree plus one tree per broken pair (so re-attaching
   every broken child reconnects everything). *)
Theorem C03_copy_disconnect_inv :
  forall m root,
    NoDup (chips root) ->
    copy_and_disconnect root m <> OutOfFuel /\
    forall f br, copy_and_disconnect root m = Ok (f, br) ->
      (forall x, In x (forest_chips f) <-> In x (chips root) /\ working_chip m x)
      /\ NoDup (forest_chips f)
      /\ (forall t p r c, In t f -> In (p, r, c) (tree_hops t) -> exists l, r = Some l /\ hop_ok m p l c)
      /\ (forall p c, In (p, c) br ->
                      In p (forest_chips f) /\ exists t, In t (tl f) /\ root_chip t = Some c)
      /\ length f = S (length br)
      /\ NoDup (map snd br)
      /\ (exists t0 f0, f = t0 :: f0 /\ root_chip t0 = root_chip root).
Proof. exact copy_disconnect_inv. Qed.

(* U: a_star.  For every machine, working sink that is not a source: no error other than the documented one and
   no exhausted fuel; a returned path starts at a source, is a chain of working hops to the sink without a
   repeated chip, its interior avoids the sources and the sink; failure means that no source reaches the sink
   over working links. *)
Theorem C03_a_star_spec :
  forall sink hsrc sources m wrap,
    1 <= rm_w m -> 1 <= rm_h m -> working_chip m sink -> ~ In sink sources ->
    (exists path, a_star sink hsrc sources m wrap = Ok path /\ path_good m sink sources path) \/
    (a_star sink hsrc sources m wrap = Failed 0 /\ forall s, In s sources -> ~ reach m s sink).
Proof. exact a_star_spec. Qed.

(* U: one repair step (the loop `for direction, (x, y) in path[1:]` and the final attachment), the detour
   running over new chips and through nodes of the orphaned subtree alike.  [A] lists the ancestors of the
   chip the detour has reached (Hstar: the reflexive-transitive closure of the parent relation of the forest);
   cnt counts occurrences of a chip among the nodes of the forest. *)
Theorem C03_repair_step_tree :
  forall m child cc path last ld f A,
    (forall x, (cnt x (forest_chips f) <= 1)%nat) ->
    forest_hops_ok m f ->
    (exists ct f', take_root child f = Some (ct, f') /\ root_chip ct = Some child) ->
    In last (forest_chips f) ->
    (forall x, Hstar (fhops f) x last -> In x A) ->
    (forall a, In a A -> a <> child /\ ~ In a (map snd path)) ->
    In child cc ->
    NoDup (map snd path) ->
    (forall q, In q (map snd path) ->
               (~ In q (forest_chips f) /\ ~ In q cc) \/ (In q cc /\ In q (forest_chips f) /\ q <> child)) ->
    (forall t r, In t f -> root_chip t = Some r -> In r cc -> r = child) ->
    detour_ok m last ld path child ->
    exists f2,
      splice_gen sever_now child cc last ld path f = Ok f2
      /\ (forall x, (cnt x (forest_chips f2) <= 1)%nat)
      /\ forest_hops_ok m f2
      /\ (forall x, In x (forest_chips f2) <-> In x (forest_chips f) \/ In x (map snd path))
      /\ S (length f2) = length f
      /\ (forall ct f', take_root child f = Some (ct, f') -> map root_chip f2 = map root_chip f').
Proof. exact splice_ok. Qed.

(* U: avoid_dead_links.  For every machine, every tree of nodes without a repeated chip whose root is a working
   chip, and every duplicate-free enumeration [order] of broken_links: one tree with the same root, no chip
   twice, every edge a working link between adjacent chips, only working chips, containing every working chip
   of the input -- or the documented error, and then the machine is not connected. *)
Theorem C03_avoid_dead_links_tree :
  forall m root wrap order r0,
    1 <= rm_w m -> 1 <= rm_h m ->
    NoDup (chips root) -> leafless root -> root_chip root = Some r0 -> working_chip m r0 ->
    order_ok root m order ->
    (exists t, avoid_dead_links root m wrap order = Ok [t]
               /\ root_chip t = Some r0 /\ NoDup (chips t)
               /\ (forall p r c, In (p, r, c) (tree_hops t) -> exists l, r = Some l /\ hop_ok m p l c)
               /\ (forall x, In x (chips t) -> working_chip m x)
               /\ leafless t
               /\ (forall x, In x (chips root) -> working_chip m x -> In x (chips t))) \/
    (avoid_dead_links root m wrap order = Failed 0 /\ ~ Connected m).
Proof. exact avoid_dead_links_tree. Qed.

(* U: route() for one net -- the property's sentence for all inputs of the model.  Hypotheses = the domain of
   the code: placements of the source and of every sink on working chips ([dests] enumerates the sinks' chips),
   core allocations within 0..18, draws in [0, 2^53), [order] an enumeration of broken_links. *)
Theorem C03_route_valid :
  forall m source sinks dests pl cons allocs radius s order src,
    1 <= rm_w m -> 1 <= rm_h m ->
    zassoc source pl = Some src -> working_chip m src ->
    Forall (working_chip m) dests -> stream_ok s ->
    (forall v, In v sinks -> exists c, zassoc v pl = Some c /\ In c dests) ->
    (forall v a b, In v sinks -> zassoc v allocs = Some (a, b) -> 0 <= a /\ b <= 18) ->
    order_ok_route m src dests radius s order ->
    (exists t, route_net m source sinks dests pl cons allocs radius s order = Ok t /\
               ValidTree m src (sink_reqs sinks pl cons allocs) t) \/
    (route_net m source sinks dests pl cons allocs radius s order = Failed 0 /\ ~ Connected m).
Proof. exact route_valid. Qed.

(* "If all working chips can reach each other over working links the router succeeds" *)
Theorem C03_route_connected_succeeds :
  forall m source sinks dests pl cons allocs radius s order src,
    1 <= rm_w m -> 1 <= rm_h m ->
    zassoc source pl = Some src -> working_chip m src ->
    Forall (working_chip m) dests -> stream_ok s ->
    (forall v, In v sinks -> exists c, zassoc v pl = Some c /\ In c dests) ->
    (forall v a b, In v sinks -> zassoc v allocs = Some (a, b) -> 0 <= a /\ b <= 18) ->
    order_ok_route m src dests radius s order ->
    Connected m ->
    exists t, route_net m source sinks dests pl cons allocs radius s order = Ok t /\
              ValidTree m src (sink_reqs sinks pl cons allocs) t.
Proof. exact route_connected_succeeds. Qed.

(* U: "use only live hardware" in full: EVERY chip of the returned tree is a working chip (ValidTree says so only
   of the chips a hop leaves), under the hypotheses of C03_route_valid. *)
Theorem C03_route_all_working :
  forall m source sinks dests pl cons allocs radius s order src t,
    1 <= rm_w m -> 1 <= rm_h m ->
    zassoc source pl = Some src -> working_chip m src ->
    Forall (working_chip m) dests -> stream_ok s ->
    (forall v, In v sinks -> exists c, zassoc v pl = Some c /\ In c dests) ->
    (forall v a b, In v sinks -> zassoc v allocs = Some (a, b) -> 0 <= a /\ b <= 18) ->
    order_ok_route m src dests radius s order ->
    route_net m source sinks dests pl cons allocs radius s order = Ok t ->
    forall x, In x (chips t) -> working_chip m x.
Proof. exact route_all_working. Qed.

(* U: the routes of the leaves are members of Routes (0..23) when the endpoint constraints name members of Routes
   and the core allocations lie within 0..18 -- for any tree satisfying ValidTree for route()'s sink requirements. *)
Theorem C03_leaf_routes_in_range :
  forall m src sinks pl cons allocs t,
    ValidTree m src (sink_reqs sinks pl cons allocs) t ->
    (forall v r, In (v, r) cons -> 0 <= r < 24) ->
    (forall v a b, In v sinks -> zassoc v allocs = Some (a, b) -> 0 <= a /\ b <= 18) ->
    forall c r v, In (c, Some r, v) (tree_leaves t) -> 0 <= r < 24.
Proof. exact leaf_routes_in_range. Qed.

(* R: "every node without children is some sink's chip" is NOT a consequence: after a repair a node whose only
   child was a dead chip stays in the tree without children (packets sent there are dropped; no sink is missed).
   Witness: 3 x 3 torus, chip (0,0) dead, source (0,2), sink on (1,0); the validator accepts the tree. *)
Theorem C03_childless_node_not_a_sink_refuted :
  route_net ex_childless_machine 0 [1] [(1, 0)] [(0, (0, 2)); (1, (1, 0))] [] [(1, (1, 2))] 20 [0] None
  = Ok (RNode (0, 2) [(Some 5, RNode (0, 1) []); (Some 1, RNode (1, 0) [(Some 7, RLeaf 1)])])
  /\ check_tree ex_childless_machine (0, 2) (sink_reqs [1] [(0, (0, 2)); (1, (1, 0))] [] [(1, (1, 2))])
                (RNode (0, 2) [(Some 5, RNode (0, 1) []); (Some 1, RNode (1, 0) [(Some 7, RLeaf 1)])]) = true.
Proof. exact childless_node_not_a_sink_refuted. Qed.

(* U: the loop of route() over the nets of one call (Model/RouteMulti.v; its shape is re-extracted from the
   source on every run, C03_route_shape).  Independence: the i-th tree is what route_net returns for that net
   alone, started at a stream position that depends on the earlier nets' endpoints only. *)
Theorem C03_route_nets_independent :
  forall m nets pl cons allocs radius s ts,
    route_nets m nets pl cons allocs radius s = Ok ts ->
    Forall2 (fun ns t => route_net m (n_source (fst ns)) (n_sinks (fst ns)) (n_dests (fst ns)) pl cons allocs
                                   radius (snd ns) (n_order (fst ns)) = Ok t)
            (combine nets (net_starts m nets pl radius s)) ts.
Proof. exact route_nets_independent. Qed.

(* U: every tree of a call with any number of nets (shared vertices, repeated nets, twin nets) satisfies the
   property's sentence for ITS OWN net, or the call fails with the documented error on a disconnected machine. *)
Theorem C03_route_nets_valid :
  forall m nets pl cons allocs radius s,
    1 <= rm_w m -> 1 <= rm_h m -> Forall (net_ok m pl allocs radius) nets -> stream_ok s ->
    (exists ts, route_nets m nets pl cons allocs radius s = Ok ts /\
                Forall2 (tree_valid_for m pl cons allocs) nets ts) \/
    (route_nets m nets pl cons allocs radius s = Failed 0 /\ ~ Connected m).
Proof. exact route_nets_valid. Qed.

(* U: the same with the iteration order of each net's broken_links required to be an enumeration of that set only
   at the stream position the net actually starts at (nets_ok_from threads the stream through ner_net_rest; the
   hypothesis of C03_route_nets_valid, which asks it for every stream, implies it: nets_ok_from_of_net_ok), and with
   "every chip of every tree is a working chip". *)
Theorem C03_route_nets_valid_at :
  forall m nets pl cons allocs radius s,
    1 <= rm_w m -> 1 <= rm_h m -> nets_ok_from m pl allocs radius s nets -> stream_ok s ->
    (exists ts, route_nets m nets pl cons allocs radius s = Ok ts /\
                Forall2 (tree_valid_for m pl cons allocs) nets ts /\
                Forall (fun t => forall x, In x (chips t) -> working_chip m x) ts) \/
    (route_nets m nets pl cons allocs radius s = Failed 0 /\ ~ Connected m).
Proof. exact route_nets_valid_at. Qed.

Theorem C03_nets_ok_from_of_net_ok :
  forall m pl allocs radius nets s,
    Forall (net_ok m pl allocs radius) nets -> stream_ok s -> 1 <= rm_w m -> 1 <= rm_h m ->
    nets_ok_from m pl allocs radius s nets.
Proof. exact nets_ok_from_of_net_ok. Qed.

(* U: a Machine object re-used for several calls with in-place edits of dead_links / dead_chips in between: every
   call is valid with respect to the fault sets as they are AT THAT CALL (mk = the edits so far applied to m). *)
Theorem C03_run_history_valid :
  forall ops m source sinks dests pl cons allocs radius mk r src,
    In (mk, r) (run_history m ops source sinks dests pl cons allocs radius) ->
    1 <= rm_w mk -> 1 <= rm_h mk ->
    zassoc source pl = Some src -> working_chip mk src -> Forall (working_chip mk) dests ->
    (forall v, In v sinks -> exists c, zassoc v pl = Some c /\ In c dests) ->
    (forall v a b, In v sinks -> zassoc v allocs = Some (a, b) -> 0 <= a /\ b <= 18) ->
    (forall s o, In (MRoute s o) ops -> stream_ok s /\ order_ok_route mk src dests radius s o) ->
    (exists t, r = Ok t /\ ValidTree mk src (sink_reqs sinks pl cons allocs) t) \/
    (r = Failed 0 /\ ~ Connected mk).
Proof. exact run_history_valid. Qed.

Theorem C03_run_history_entries :
  forall ops m source sinks dests pl cons allocs radius mk r,
    In (mk, r) (run_history m ops source sinks dests pl cons allocs radius) ->
    exists pre s o post, ops = pre ++ MRoute s o :: post /\ mk = fold_left apply_mop pre m /\
                         r = route_net mk source sinks dests pl cons allocs radius s o.
Proof. exact run_history_entries. Qed.

(* T: what the two models above assume of the source text, re-extracted on every run (tools/dump_c03.py, fail
   closed): the loop over the nets has its four statements and writes no name bound before it except `routes`;
   Machine has no attribute hooks and no attribute besides its six. *)
Theorem C03_route_shape :
  route_loop_statements = 4 /\ route_loop_carried = ["routes"%string] /\ machine_attribute_hooks = [] /\
  machine_attributes = ["chip_resource_exceptions"; "chip_resources"; "dead_chips"; "dead_links"; "height"; "width"]%string.
Proof. exact route_shape. Qed.

(* (This input also inhabits the re-parenting branch of C03_repair_step_tree: the detour of the repaired code
   runs through nodes of the orphaned subtree, case `In q cc`, and the result is accepted by the validator.) *)
(* R: the repair of the code as found (model avoid_dead_links_orig) on a connected 3 x 4 mesh with five
   further dead links: the tree of ner_net is repaired into a tree that lists chip (1, 0) twice; the
   repaired code returns a tree the validator accepts. *)
Theorem C03_repair_duplicate_child_orig_refuted :
  exists t route f,
    ner_net (0, 3) [(0, 3); (2, 0)] 3 4 (has_wrap ex_dup_machine) 20 [0] = Ok (t, route)
    /\ check_connected ex_dup_machine = true
    /\ avoid_dead_links_orig t ex_dup_machine (has_wrap ex_dup_machine) ex_dup_order = Ok f
    /\ (2 <= occurrences (1, 0)%Z (forest_chips f))%nat
    /\ exists f', avoid_dead_links t ex_dup_machine (has_wrap ex_dup_machine) ex_dup_order = Ok f'
                  /\ match f' with
                     | t' :: _ => check_tree ex_dup_machine (0, 3) [] t' = true
                     | [] => False
                     end.
Proof. exact repair_duplicate_child_orig_refuted. Qed.

(* ---- the hypotheses are satisfiable, the conclusions not vacuous *)
Example C03_ner_net_instance :
  fault_free (perfect 3 2) true /\ stream_ok [0; 5; 7] /\
  ner_net (0, 0) [(2, 1); (0, 0); (2, 1)] 3 2 true 20 [0; 5; 7]
  = Ok (RNode (0, 0) [(Some 4, RNode (2, 1) [])], [(0, 0); (2, 1)]).
Proof. exact ex_ner_net. Qed.

(* C03_route_valid_partial applies to machines with faults: a dead chip and a dead link off the tree *)
Example C03_route_partial_instance :
  (forall tr, ner_net (0, 0) [(1, 1)] 3 3 (has_wrap ex_faulty) 20 [] = Ok tr ->
              has_dead_links ex_faulty (fst tr) = false)
  /\ route_net ex_faulty 0 [1; 1] [(1, 1)] [(0, (0, 0)); (1, (1, 1))] [] [(1, (1, 3))] 20 [] None
     = Ok (RNode (0, 0) [(Some 1, RNode (1, 1) [(Some 7, RLeaf 1); (Some 8, RLeaf 1);
                                                (Some 7, RLeaf 1); (Some 8, RLeaf 1)])])
  /\ sink_reqs [1; 1] [(0, (0, 0)); (1, (1, 1))] [] [(1, (1, 3))]
     = [(1, (1, 1), [Some 7; Some 8]); (1, (1, 1), [Some 7; Some 8])].
Proof. exact ex_route_no_repair. Qed.

(* C03_route_valid's hypotheses hold on a machine that needs a repair (the machine of the refutation, with
   the logged order of broken_links); the result is accepted by the validator.  And a failure instance. *)
Example C03_route_repair_instance :
  order_ok_route ex_dup_machine (0, 3) [(2, 0)] 20 [0] ex_dup_order /\
  working_chip ex_dup_machine (0, 3) /\ working_chip ex_dup_machine (2, 0) /\
  exists t, route_net ex_dup_machine 0 [1] [(2, 0)] [(0, (0, 3)); (1, (2, 0))] [] [(1, (1, 2))] 20 [0] ex_dup_order = Ok t
            /\ check_tree ex_dup_machine (0, 3) (sink_reqs [1] [(0, (0, 3)); (1, (2, 0))] [] [(1, (1, 2))]) t = true
            /\ has_dead_links ex_dup_machine
                 (RNode (0, 3) [(Some 5, RNode (0, 2) [(Some 5, RNode (0, 1) [(Some 5, RNode (0, 0)
                    [(Some 0, RNode (1, 0) [(Some 0, RNode (2, 0) [])])])])])]) = true.
Proof. exact ex_route_repair. Qed.

Example C03_route_nets_instance :
  exists t1 t2,
    route_nets ex_multi_machine ex_multi_nets ex_multi_pl [] [(1, (1, 2))] 20 [5; 3; 9; 1; 0; 0; 7] = Ok [t1; t2]
    /\ check_tree ex_multi_machine (0, 0) (sink_reqs [1] ex_multi_pl [] [(1, (1, 2))]) t1 = true
    /\ check_tree ex_multi_machine (0, 0) (sink_reqs [1; 3] ex_multi_pl [] [(1, (1, 2))]) t2 = true
    /\ link_alive (apply_mop (perfect 3 3) (MDlAdd (0, 0) 1)) (0, 0) 1 = false.
Proof. exact ex_route_nets. Qed.

Example C03_route_failure_instance :
  route_net ex_cut_machine 0 [1] [(1, 0)] [(0, (0, 0)); (1, (1, 0))] [] [] 20 [] None = Failed 0
  /\ check_connected ex_cut_machine = false.
Proof. exact ex_route_failure. Qed.

Example C03_mesh_instance : fault_free ex_mesh false.
Proof. exact ex_mesh_fault_free. Qed.

(* the validators accept a valid tree / a connected machine and reject a tree with a repeated chip / a
   machine with a chip nothing can leave *)
Example C03_validators_instance :
  check_tree (perfect 3 2) (0, 0) [(7, (2, 1), [Some 6; Some 7])]
             (RNode (0, 0) [(Some 4, RNode (2, 1) [(Some 6, RLeaf 7); (Some 7, RLeaf 7)])]) = true
  /\ check_tree (perfect 3 2) (0, 0) [(7, (2, 1), [Some 6])]
                (RNode (0, 0) [(Some 4, RNode (2, 1) [(Some 6, RLeaf 7)]);
                               (Some 4, RNode (2, 1) [(Some 6, RLeaf 7)])]) = false
  /\ check_connected ex_mesh = true
  /\ check_connected {| rm_w := 2; rm_h := 1; rm_dead_chips := [];
                        rm_dead_links := [((0, 0), 0); ((0, 0), 1); ((0, 0), 3); ((0, 0), 4)] |} = false.
Proof. exact ex_check_tree. Qed.
