(* Executable model of rig.place_and_route.place: utils.py (resource arithmetic, reservations, same-chip
   merging and its expansion), sequential.py (the cyclic first-fit scan that breadth_first.py, hilbert.py
   and rcm.py wrap with their vertex / chip orders), rand.py (random choices given by an explicit oracle),
   the Hilbert chip order, sa/algorithm.py up to and including the initial placement (shuffles given by an
   explicit oracle) and the swap step of sa/python_kernel.py (random choices and the accept decision given
   by an explicit oracle).  Definitions only; proofs are in Proofs/Place*.v.

   Conventions.  Python dictionaries are association lists in dict (insertion) order.  Vertices are
   integers: the caller's vertices are >= 0 and the k-th MergedVertex object created by
   apply_same_chip_constraints (k = 0, 1, ...) is the fresh identifier -(k+1).  Outcomes: [Failed 0] =
   InsufficientResourceError, [Failed 1] = InvalidConstraintError, [OtherError] = any other exception
   (KeyError, IndexError, ValueError, ...), [OutOfFuel] = an explicit oracle stream ran out. *)
From Coq Require Import ZArith List Bool.
Require Import Rig.Generated.GenPlaceShape Rig.Model.Base.
Import ListNotations.
Open Scope Z_scope.

Definition vertex := Z.
Definition res := Z.
Definition resources := list (res * Z).               (* {resource: quantity} *)
Definition vresources := list (vertex * resources).   (* vertices_resources *)
Definition placement := list (vertex * chip).         (* {vertex: (x, y)} *)

Definition E_insufficient : Z := 0.
Definition E_invalid : Z := 1.

(* ---------------------------------------------------------------------------------------------- *)
(* Machine                                                                                          *)
(* ---------------------------------------------------------------------------------------------- *)
Record pmachine := {
  pm_width : Z; pm_height : Z;
  pm_res : resources;                       (* chip_resources *)
  pm_exc : list (chip * resources);         (* chip_resource_exceptions, dict order *)
  pm_dead : list chip }.

(* Machine.__contains__((x, y)): the expression is regenerated from rig/place_and_route/machine.py on every run
   (Generated/GenPlaceShape.v: 0 <= x < width and 0 <= y < height and (x, y) not in dead_chips) *)
Definition live (m : pmachine) (c : chip) : bool :=
  gen_machine_contains (pm_width m) (pm_height m) (fun xy => chip_mem xy (pm_dead m)) (fst c) (snd c).

(* chip_resource_exceptions.get(xy, chip_resources) *)
Definition chip_res (m : pmachine) (c : chip) : resources :=
  match cassoc c (pm_exc m) with Some r => r | None => pm_res m end.

(* Machine.__getitem__: IndexError (None) for a dead / outside chip *)
Definition mget (m : pmachine) (c : chip) : option resources :=
  if live m c then Some (chip_res m c) else None.

Fixpoint cupdate {A} (k : chip) (v : A) (l : list (chip * A)) : list (chip * A) :=
  match l with
  | [] => [(k, v)]
  | (k', v') :: l' => if chip_eqb k k' then (k, v) :: l' else (k', v') :: cupdate k v l'
  end.

Definition with_exc (m : pmachine) (e : list (chip * resources)) : pmachine :=
  {| pm_width := pm_width m; pm_height := pm_height m; pm_res := pm_res m; pm_exc := e;
     pm_dead := pm_dead m |}.
Definition with_res (m : pmachine) (r : resources) : pmachine :=
  {| pm_width := pm_width m; pm_height := pm_height m; pm_res := r; pm_exc := pm_exc m;
     pm_dead := pm_dead m |}.

(* Machine.__setitem__: IndexError (None) for a dead / outside chip *)
Definition mset (m : pmachine) (c : chip) (r : resources) : option pmachine :=
  if live m c then Some (with_exc m (cupdate c r (pm_exc m))) else None.

Definition zrange (n : Z) : list Z := map Z.of_nat (seq 0 (Z.to_nat n)).

(* Machine.__iter__: for x in range(width): for y in range(height): if (x, y) in self *)
Definition raster (m : pmachine) : list chip :=
  filter (live m)
         (flat_map (fun x => map (fun y => (x, y)) (zrange (pm_height m))) (zrange (pm_width m))).

(* ---------------------------------------------------------------------------------------------- *)
(* utils.py: resource arithmetic                                                                    *)
(* ---------------------------------------------------------------------------------------------- *)
(* res_b.get(resource, 0) *)
Definition rget (r : res) (d : resources) : Z :=
  match zassoc r d with Some q => q | None => 0 end.

Definition add_resources (a b : resources) : resources :=
  map (fun rq => (fst rq, snd rq + rget (fst rq) b)) a.
Definition subtract_resources (a b : resources) : resources :=
  map (fun rq => (fst rq, snd rq - rget (fst rq) b)) a.
Definition overallocated (a : resources) : bool := existsb (fun rq => snd rq <? 0) a.

(* resources_after_reservation: res[constraint.resource] -= stop - start  (KeyError -> None) *)
Definition after_reservation (d : resources) (r : res) (size : Z) : option resources :=
  match zassoc r d with
  | None => None
  | Some q => Some (zupdate r (q - size) d)
  end.

(* the loop `for location in machine.chip_resource_exceptions` of apply_reserve_resource_constraint;
   [todo] is the part of the dictionary still to be visited, [m] holds the current dictionary *)
Fixpoint reserve_exceptions (m : pmachine) (r : res) (size : Z) (todo : list (chip * resources))
  : result pmachine :=
  match todo with
  | [] => Ok m
  | (loc, _) :: todo' =>
      match cassoc loc (pm_exc m) with
      | None => OtherError
      | Some d =>
          match after_reservation d r size with
          | None => OtherError                                  (* KeyError *)
          | Some d' =>
              let m' := with_exc m (cupdate loc d' (pm_exc m)) in
              if live m' loc && overallocated (chip_res m' loc) then Failed E_insufficient
              else reserve_exceptions m' r size todo'
          end
      end
  end.

(* apply_reserve_resource_constraint(machine, ReserveResourceConstraint(r, slice(start, stop), loc)) *)
Definition apply_reserve (m : pmachine) (r : res) (size : Z) (loc : option chip) : result pmachine :=
  match loc with
  | None =>
      match after_reservation (pm_res m) r size with
      | None => OtherError                                      (* KeyError *)
      | Some d' =>
          let m' := with_res m d' in
          if overallocated d' then Failed E_insufficient
          else reserve_exceptions m' r size (pm_exc m')
      end
  | Some c =>
      if negb (live m c) then Failed E_invalid
      else match after_reservation (chip_res m c) r size with
           | None => OtherError                                 (* KeyError *)
           | Some d' =>
               match mset m c d' with
               | None => OtherError
               | Some m' => if overallocated (chip_res m' c) then Failed E_insufficient else Ok m'
               end
           end
  end.

(* ---------------------------------------------------------------------------------------------- *)
(* Constraints                                                                                      *)
(* ---------------------------------------------------------------------------------------------- *)
Inductive pconstr :=
| PCLocation (v : vertex) (c : chip)
| PCSameChip (vs : list vertex)
| PCReserve (r : res) (start stop : Z) (loc : option chip)
| PCOther.                         (* AlignResourceConstraint, RouteEndpointConstraint: ignored by placers *)

Definition zmem (x : Z) (l : list Z) : bool := existsb (Z.eqb x) l.

Definition subst_v (mv : vertex) (S : list vertex) (v : vertex) : vertex :=
  if zmem v S then mv else v.

Definition subst_c (f : vertex -> vertex) (c : pconstr) : pconstr :=
  match c with
  | PCLocation v l => PCLocation (f v) l
  | PCSameChip vs => PCSameChip (map f vs)
  | _ => c
  end.

(* set(vertices): the distinct members (order immaterial: it only decides the key order of the merged
   resource dictionary, which nothing observes) *)
Fixpoint dedup (l : list Z) : list Z :=
  match l with
  | [] => []
  | x :: t => if zmem x t then dedup t else x :: dedup t
  end.

(* vertices_resources.pop(vertex)  (KeyError -> None) *)
Fixpoint vr_pop (v : vertex) (vr : vresources) : option (resources * vresources) :=
  match vr with
  | [] => None
  | (v', d) :: t =>
      if v =? v' then Some (d, t)
      else match vr_pop v t with
           | None => None
           | Some (d', t') => Some (d', (v', d) :: t')
           end
  end.

(* total_resources[resource] = total_resources.get(resource, 0) + value *)
Definition accumulate (total d : resources) : resources :=
  fold_left (fun tot rq => zupdate (fst rq) (rget (fst rq) tot + snd rq) tot) d total.

Fixpoint pop_all (S : list vertex) (vr : vresources) (total : resources)
  : option (resources * vresources) :=
  match S with
  | [] => Some (total, vr)
  | v :: S' =>
      match vr_pop v vr with
      | None => None
      | Some (d, vr') => pop_all S' vr' (accumulate total d)
      end
  end.

Definition substitution := (vertex * list vertex)%type.       (* MergedVertex id, .vertices *)

(* apply_same_chip_constraints.  The Python loop iterates over the list [constraints] while replacing its
   elements in place; here [done] is the already visited prefix (kept up to date), [todo] the not yet
   visited suffix as it was originally, and [f] the composition of the substitutions made so far, which is
   applied to an element of [todo] when it is reached (equivalently: to all of them at once). *)
Fixpoint apply_sc (f : vertex -> vertex) (done todo : list pconstr) (vr : vresources)
         (subs : list substitution) : result (vresources * list pconstr * list substitution) :=
  match todo with
  | [] => Ok (vr, done, subs)
  | c0 :: rest =>
      let c := subst_c f c0 in
      match c with
      | PCSameChip vs =>
          if (length vs <=? 1)%nat then apply_sc f (done ++ [c]) rest vr subs
          else
            let mv := - Z.of_nat (S (length subs)) in
            let mset := dedup vs in
            match pop_all mset vr [] with
            | None => OtherError                                (* KeyError *)
            | Some (total, vr') =>
                let g := subst_v mv mset in
                apply_sc (fun v => g (f v)) (map (subst_c g) (done ++ [c])) rest
                         (vr' ++ [(mv, total)]) (subs ++ [(mv, vs)])
            end
      | _ => apply_sc f (done ++ [c]) rest vr subs
      end
  end.

Definition apply_same_chip (vr : vresources) (cs : list pconstr) :=
  apply_sc (fun v => v) [] cs vr [].

(* placements as a dictionary *)
Definition pl_get (v : vertex) (pl : placement) : option chip := zassoc v pl.
Definition pl_mem (v : vertex) (pl : placement) : bool :=
  match zassoc v pl with Some _ => true | None => false end.
Definition pl_set (v : vertex) (c : chip) (pl : placement) : placement := zupdate v c pl.
Fixpoint pl_remove (v : vertex) (pl : placement) : placement :=
  match pl with
  | [] => []
  | (v', c) :: t => if v =? v' then t else (v', c) :: pl_remove v t
  end.

(* finalise_same_chip_constraints, given reversed(substitutions) *)
Fixpoint finalise (rsubs : list substitution) (pl : placement) : result placement :=
  match rsubs with
  | [] => Ok pl
  | (mv, vs) :: t =>
      match zassoc mv pl with
      | None => OtherError                                      (* KeyError: placements.pop *)
      | Some p => finalise t (fold_left (fun pl' v => pl_set v p pl') vs (pl_remove mv pl))
      end
  end.

(* ---------------------------------------------------------------------------------------------- *)
(* The constraint loop shared by sequential.py, rand.py and sa/algorithm.py                         *)
(* ---------------------------------------------------------------------------------------------- *)
Fixpoint handle_cs (vr : vresources) (cs : list pconstr) (m : pmachine) (pl : placement)
  : result (pmachine * placement) :=
  match cs with
  | [] => Ok (m, pl)
  | PCLocation v loc :: t =>
      if negb (live m loc) then Failed E_invalid
      else if (match zassoc v pl with Some l => chip_eqb l loc | None => false end)
      then handle_cs vr t m pl                                   (* repeated identical constraint *)
      else match zassoc v vr with
           | None => OtherError                                  (* KeyError *)
           | Some d =>
               match mget m loc with
               | None => OtherError
               | Some cr =>
                   let cr' := subtract_resources cr d in
                   match mset m loc cr' with
                   | None => OtherError
                   | Some m' =>
                       if overallocated (chip_res m' loc) then Failed E_insufficient
                       else handle_cs vr t m' (pl_set v loc pl)
                   end
               end
           end
  | PCReserve r start stop loc :: t =>
      bind (apply_reserve m r (stop - start) loc) (fun m' => handle_cs vr t m' pl)
  | _ :: t => handle_cs vr t m pl
  end.

(* ---------------------------------------------------------------------------------------------- *)
(* sequential.py                                                                                    *)
(* ---------------------------------------------------------------------------------------------- *)
(* list.index + assignment: replace the first occurrence (ValueError -> None) *)
Fixpoint replace_first (x y : Z) (l : list Z) : option (list Z) :=
  match l with
  | [] => None
  | h :: t => if h =? x then Some (y :: t)
              else match replace_first x y t with None => None | Some t' => Some (h :: t') end
  end.
(* list.remove (ValueError -> None) *)
Fixpoint remove_first (x : Z) (l : list Z) : option (list Z) :=
  match l with
  | [] => None
  | h :: t => if h =? x then Some t
              else match remove_first x t with None => None | Some t' => Some (h :: t') end
  end.

Fixpoint remove_members (vs removed : list Z) (vo : list Z) : option (list Z) :=
  match vs with
  | [] => Some vo
  | v :: vs' =>
      if zmem v removed then remove_members vs' removed vo
      else match remove_first v vo with
           | None => None
           | Some vo' => remove_members vs' (v :: removed) vo'
           end
  end.

(* the rewriting of a caller-supplied vertex_order by the substitutions *)
Fixpoint subst_order (subs : list substitution) (vo : list vertex) : result (list vertex) :=
  match subs with
  | [] => Ok vo
  | (mv, vs) :: t =>
      match vs with
      | [] => OtherError                                         (* cannot happen: len(vertices) > 1 *)
      | v0 :: vs' =>
          match replace_first v0 mv vo with
          | None => OtherError                                   (* ValueError *)
          | Some vo1 =>
              match remove_members vs' [v0] vo1 with
              | None => OtherError                               (* ValueError *)
              | Some vo2 => subst_order t vo2
              end
          end
      end
  end.

(* does the vertex fit on chip c?  Some r' = the chip's resources if placed *)
Definition try_chip (m : pmachine) (d : resources) (c : chip) : result (option resources) :=
  match mget m c with
  | None => OtherError
  | Some cr => let r' := subtract_resources cr d in
               Ok (if overallocated r' then None else Some r')
  end.

(* The inner `while True` after the first candidate failed.  [cands] are the chips that next(chips_iter)
   will deliver before the cycle returns to the position it started from (whose chip is [last]); [passed]
   are the chips already passed over in this scan, starting with [last].  On success the result is the
   chip, its new resources and the continuation of the cycle after it. *)
Fixpoint scan (m : pmachine) (d : resources) (last : chip) (passed cands : list chip)
  : result (option (chip * resources * list chip)) :=
  match cands with
  | [] => Ok None                          (* cur_chip == last_successful_chip (same position) *)
  | c :: cs =>
      if chip_eqb c last then Ok None      (* cur_chip == last_successful_chip (equal chip) *)
      else bind (try_chip m d c) (fun o =>
           match o with
           | Some r' => Ok (Some (c, r', cs ++ passed))
           | None => scan m d last (passed ++ [c]) cs
           end)
  end.

(* `for vertex in movable_vertices`: cur_chip = [cur] = last_successful_chip at the start of every
   vertex; [rest] = what the cyclic iterator delivers after [cur] until it is back at [cur]'s position.
   movable_vertices is a generator, so `v not in placements` is evaluated when v is reached. *)
Fixpoint place_loop (vr : vresources) (vs : list vertex) (m : pmachine) (pl : placement)
         (cur : chip) (rest : list chip) : result placement :=
  match vs with
  | [] => Ok pl
  | v :: vs' =>
      if pl_mem v pl then place_loop vr vs' m pl cur rest
      else match zassoc v vr with
           | None => OtherError                                   (* KeyError *)
           | Some d =>
               bind (try_chip m d cur) (fun o =>
               match o with
               | Some r' =>
                   match mset m cur r' with
                   | None => OtherError
                   | Some m' => place_loop vr vs' m' (pl_set v cur pl) cur rest
                   end
               | None =>
                   bind (scan m d cur [cur] rest) (fun o2 =>
                   match o2 with
                   | None => Failed E_insufficient
                   | Some (c, r', rest') =>
                       match mset m c r' with
                       | None => OtherError
                       | Some m' => place_loop vr vs' m' (pl_set v c pl) c rest'
                       end
                   end)
               end)
      end
  end.

Definition seq_place (vr : vresources) (m : pmachine) (cs : list pconstr)
           (vertex_order : option (list vertex)) (chip_order : option (list chip))
  : result placement :=
  if (length vr =? 0)%nat then Ok []
  else
    bind (apply_same_chip vr cs) (fun a =>
    let '(vr1, cs1, subs) := a in
    bind (handle_cs vr1 cs1 m []) (fun b =>
    let '(m1, pl0) := b in
    bind (match vertex_order with
          | None => Ok (map fst vr1)
          | Some vo => subst_order subs vo
          end) (fun vo =>
    match filter (live m1) (match chip_order with None => raster m1 | Some co => co end) with
    | [] => Failed E_insufficient                               (* No working chips in machine *)
    | c0 :: crest =>
        bind (place_loop vr1 vo m1 pl0 c0 crest) (fun pl1 => finalise (rev subs) pl1)
    end))).

(* ---------------------------------------------------------------------------------------------- *)
(* hilbert.py: the chip order                                                                       *)
(* ---------------------------------------------------------------------------------------------- *)
Record hstate := { hx : Z; hy : Z; hdx : Z; hdy : Z }.

Definition h_turn (a : Z) (s : hstate) : hstate :=      (* s.dx, s.dy = s.dy*-a, s.dx*a *)
  {| hx := hx s; hy := hy s; hdx := hdy s * - a; hdy := hdx s * a |}.
Definition h_fwd (s : hstate) : hstate :=
  {| hx := hx s + hdx s; hy := hy s + hdy s; hdx := hdx s; hdy := hdy s |}.

(* the points yielded by hilbert(level, angle, s) for s not None, and the final state *)
Fixpoint hilbert_rec (level : nat) (angle : Z) (s : hstate) : list chip * hstate :=
  match level with
  | O => ([], s)
  | S l =>
      let s := h_turn angle s in                              (* turn left *)
      let '(p1, s) := hilbert_rec l (- angle) s in
      let s := h_fwd s in let q1 := (hx s, hy s) in
      let s := h_turn (- angle) s in                          (* turn right *)
      let '(p2, s) := hilbert_rec l angle s in
      let s := h_fwd s in let q2 := (hx s, hy s) in
      let '(p3, s) := hilbert_rec l angle s in
      let s := h_turn (- angle) s in                          (* turn right *)
      let s := h_fwd s in let q3 := (hx s, hy s) in
      let '(p4, s) := hilbert_rec l (- angle) s in
      let s := h_turn angle s in                              (* turn left *)
      (p1 ++ [q1] ++ p2 ++ [q2] ++ p3 ++ [q3] ++ p4, s)
  end.

Definition hilbert (level : nat) : list chip :=
  (0, 0) :: fst (hilbert_rec level 1 {| hx := 0; hy := 0; hdx := 1; hdy := 0 |}).

(* int(ceil(log(max_dimen, 2.0))): the least k with 2^k >= n (n >= 1), searched upwards *)
Fixpoint levels_from (fuel : nat) (k : nat) (n : Z) : nat :=
  match fuel with
  | O => k
  | S f => if n <=? 2 ^ Z.of_nat k then k else levels_from f (S k) n
  end.
Definition hilbert_levels (m : pmachine) : nat :=
  let n := Z.max (pm_width m) (pm_height m) in
  if 1 <=? n then levels_from (Z.to_nat n) 0 n else O.

Definition hilbert_chip_order (m : pmachine) : list chip := hilbert (hilbert_levels m).

(* ---------------------------------------------------------------------------------------------- *)
(* rand.py; the random choices are an explicit oracle: the i-th number selects the element           *)
(* (n mod len) of the current candidate set listed in raster order                                  *)
(* ---------------------------------------------------------------------------------------------- *)
Fixpoint remove_chip (c : chip) (l : list chip) : list chip :=
  match l with
  | [] => []
  | h :: t => if chip_eqb h c then t else h :: remove_chip c t
  end.

(* the `while True` loop for one vertex; fuel bounds the number of rejected chips (<= |locations|) *)
Fixpoint rand_vertex (fuel : nat) (m : pmachine) (d : resources) (locs : list chip) (oracle : list nat)
  : result (chip * resources * list chip * list nat) :=
  match locs with
  | [] => Failed E_insufficient
  | l0 :: _ =>
      match fuel with
      | O => OutOfFuel
      | S fuel' =>
          match oracle with
          | [] => OutOfFuel
          | n :: oracle' =>
              let c := nth (Nat.modulo n (length locs)) locs l0 in
              bind (try_chip m d c) (fun o =>
              match o with
              | None => rand_vertex fuel' m d (remove_chip c locs) oracle'
              | Some r' => Ok (c, r', locs, oracle')
              end)
          end
      end
  end.

Fixpoint rand_loop (vr : vresources) (vs : list vertex) (m : pmachine) (pl : placement)
         (locs : list chip) (oracle : list nat) : result placement :=
  match vs with
  | [] => Ok pl
  | v :: vs' =>
      match zassoc v vr with
      | None => OtherError
      | Some d =>
          bind (rand_vertex (S (length locs)) m d locs oracle) (fun a =>
          let '(c, r', locs', oracle') := a in
          match mset m c r' with
          | None => OtherError
          | Some m' => rand_loop vr vs' m' (pl_set v c pl) locs' oracle'
          end)
      end
  end.

Definition rand_place (vr : vresources) (m : pmachine) (cs : list pconstr) (oracle : list nat)
  : result placement :=
  bind (apply_same_chip vr cs) (fun a =>
  let '(vr1, cs1, subs) := a in
  bind (handle_cs vr1 cs1 m []) (fun b =>
  let '(m1, pl0) := b in
  let movable := filter (fun v => negb (pl_mem v pl0)) (map fst vr1) in
  bind (rand_loop vr1 movable m1 pl0 (raster m1) oracle) (fun pl1 => finalise (rev subs) pl1))).

(* ---------------------------------------------------------------------------------------------- *)
(* sa/algorithm.py: constraint handling and _initial_placement.  random.shuffle is modelled by a    *)
(* selection shuffle driven by an oracle: every oracle yields a permutation and every permutation  *)
(* is yielded by some oracle.                                                                       *)
(* ---------------------------------------------------------------------------------------------- *)
Fixpoint take_nth {A} (n : nat) (l : list A) : option (A * list A) :=
  match l with
  | [] => None
  | h :: t => match n with
              | O => Some (h, t)
              | S n' => match take_nth n' t with None => None | Some (x, t') => Some (x, h :: t') end
              end
  end.

Fixpoint shuffle {A} (fuel : nat) (picks : list nat) (l : list A) : list A :=
  match fuel with
  | O => l
  | S f =>
      match l with
      | [] => []
      | _ :: _ =>
          let n := match picks with [] => O | p :: _ => Nat.modulo p (length l) end in
          match take_nth n l with
          | None => l
          | Some (x, l') => x :: shuffle f (tl picks) l'
          end
      end
  end.

(* the non-cyclic first-fit of _initial_placement: [locs] = current location followed by the rest of
   location_iter *)
Fixpoint initial_vertex (m : pmachine) (d : resources) (locs : list chip)
  : result (chip * resources * list chip) :=
  match locs with
  | [] => Failed E_insufficient             (* Ran out of chips *)
  | c :: locs' =>
      bind (try_chip m d c) (fun o =>
      match o with
      | Some r' => Ok (c, r', locs)
      | None => initial_vertex m d locs'
      end)
  end.

Fixpoint initial_loop (vr : vresources) (vs : list vertex) (m : pmachine) (pl : placement)
         (locs : list chip) : result (pmachine * placement) :=
  match vs with
  | [] => Ok (m, pl)
  | v :: vs' =>
      match zassoc v vr with
      | None => OtherError
      | Some d =>
          bind (initial_vertex m d locs) (fun a =>
          let '(c, r', locs') := a in
          match mset m c r' with
          | None => OtherError
          | Some m' => initial_loop vr vs' m' (pl_set v c pl) locs'
          end)
      end
  end.

(* place() of sa/algorithm.py up to the state handed to the kernel: (vertices_resources after merging,
   substitutions, fixed vertices, machine with the free resources, initial placement incl. fixed) *)
Record sa_start := {
  ss_vr : vresources; ss_subs : list substitution; ss_fixed : placement;
  ss_machine : pmachine; ss_placement : placement }.

Definition sa_prepare (vr : vresources) (m : pmachine) (cs : list pconstr)
           (loc_picks vertex_picks : list nat) : result sa_start :=
  bind (apply_same_chip vr cs) (fun a =>
  let '(vr1, cs1, subs) := a in
  bind (handle_cs vr1 cs1 m []) (fun b =>
  let '(m1, fixed) := b in
  let movable := filter (fun v => negb (pl_mem v fixed)) (map fst vr1) in
  let locs := shuffle (length (raster m1)) loc_picks (raster m1) in
  let vs := shuffle (length movable) vertex_picks movable in
  match locs with
  | [] => Failed E_insufficient             (* No working chips in system *)
  | _ :: _ =>
      bind (initial_loop vr1 vs m1 [] locs) (fun c =>
      let '(m2, pl) := c in
      (* initial_placements.update(fixed_vertices) *)
      Ok {| ss_vr := vr1; ss_subs := subs; ss_fixed := fixed; ss_machine := m2;
            ss_placement := fold_left (fun p vc => pl_set (fst vc) (snd vc) p) fixed pl |})
  end)).

(* the result of place() when the problem is "trivial" (effort 0, no nets, one chip, ...): the initial
   placement, expanded *)
Definition sa_place_trivial (vr : vresources) (m : pmachine) (cs : list pconstr)
           (loc_picks vertex_picks : list nat) : result placement :=
  if (length vr =? 0)%nat then Ok []
  else bind (sa_prepare vr m cs loc_picks vertex_picks) (fun s =>
       finalise (rev (ss_subs s)) (ss_placement s)).

(* ---------------------------------------------------------------------------------------------- *)
(* sa/python_kernel.py: one swap attempt.  State = placements, l2v, machine (free resources).       *)
(* ---------------------------------------------------------------------------------------------- *)
Definition l2v := list (chip * list vertex).

Record sa_state := { st_pl : placement; st_l2v : l2v; st_m : pmachine }.

Definition demand_of (vr : vresources) (v : vertex) : option resources := zassoc v vr.

(* _get_candidate_swap: [vs] = l2v[location][i:], [cr] = chip_resources so far *)
Fixpoint candidate_swap (vr : vresources) (fixed : list vertex) (need : resources)
         (cr : resources) (vs : list vertex) (to_move : list vertex) : result (option (list vertex)) :=
  if negb (overallocated (subtract_resources cr need)) then Ok (Some to_move)
  else match vs with
       | [] => Ok None
       | v :: vs' =>
           if zmem v fixed then candidate_swap vr fixed need cr vs' to_move
           else match demand_of vr v with
                | None => OtherError
                | Some d => candidate_swap vr fixed need (add_resources cr d) vs' (to_move ++ [v])
                end
       end.

Definition lv_get (c : chip) (l : l2v) : option (list vertex) := cassoc c l.

Fixpoint list_remove_first (v : vertex) (l : list vertex) : list vertex :=
  match l with
  | [] => []
  | h :: t => if h =? v then t else h :: list_remove_first v t
  end.

(* move the vertices [vs] from chip a to chip b: returns (placements, list at a, list at b, res a, res b) *)
Fixpoint move_all (vr : vresources) (vs : list vertex) (b : chip) (pl : placement)
         (la lb : list vertex) (ra rb : resources)
  : result (placement * list vertex * list vertex * resources * resources) :=
  match vs with
  | [] => Ok (pl, la, lb, ra, rb)
  | v :: vs' =>
      match demand_of vr v with
      | None => OtherError
      | Some d =>
          move_all vr vs' b (pl_set v b pl) (list_remove_first v la) (lb ++ [v])
                   (add_resources ra d) (subtract_resources rb d)
      end
  end.

(* _swap(vas, a, vbs, b, ...) *)
Definition swap (vr : vresources) (vas : list vertex) (a : chip) (vbs : list vertex) (b : chip)
           (s : sa_state) : result sa_state :=
  match lv_get a (st_l2v s), lv_get b (st_l2v s), mget (st_m s) a, mget (st_m s) b with
  | Some la, Some lb, Some ra, Some rb =>
      bind (move_all vr vas b (st_pl s) la lb ra rb) (fun x =>
      let '(pl1, la1, lb1, ra1, rb1) := x in
      bind (move_all vr vbs a pl1 lb1 la1 rb1 ra1) (fun y =>
      let '(pl2, lb2, la2, rb2, ra2) := y in
      match mset (st_m s) a ra2 with
      | None => OtherError
      | Some m1 =>
          match mset m1 b rb2 with
          | None => OtherError
          | Some m2 =>
              Ok {| st_pl := pl2; st_l2v := cupdate b lb2 (cupdate a la2 (st_l2v s)); st_m := m2 |}
          end
      end))
  | _, _, _, _ => OtherError
  end.

(* One call of _step with the random draws made explicit: [src] = random.choice(vertices), [dst] = the
   destination finally drawn (different from the source's chip), [accept] = the outcome of
   `delta <= 0.0 or random.random() < exp(-delta/temperature)`.  Returns the new state and whether the
   swap was kept. *)
Definition sa_step (vr : vresources) (fixed : list vertex) (s : sa_state)
           (src : vertex) (dst : chip) (accept : bool) : result (sa_state * bool) :=
  match zassoc src (st_pl s), demand_of vr src with
  | Some src_loc, Some src_res =>
      (* the code draws src among the movable vertices and redraws dst until it differs from src's chip:
         any other draw is not a draw of the code (reported as an invalid oracle, not as an outcome) *)
      if zmem src fixed || chip_eqb dst src_loc then OutOfFuel
      else if negb (live (st_m s) dst) then Ok (s, false)
      else
        match mget (st_m s) dst, lv_get dst (st_l2v s), mget (st_m s) src_loc with
        | Some dst_cr, Some dst_vs, Some src_cr =>
            bind (candidate_swap vr fixed src_res dst_cr dst_vs []) (fun o =>
            match o with
            | None => Ok (s, false)
            | Some dst_vertices =>
                let back := fold_left (fun r v => match demand_of vr v with
                                                  | Some d => subtract_resources r d
                                                  | None => r end)
                                      dst_vertices (add_resources src_cr src_res) in
                if overallocated back then Ok (s, false)
                else
                  bind (swap vr [src] src_loc dst_vertices dst s) (fun s1 =>
                  if accept then Ok (s1, true)
                  else bind (swap vr [src] dst dst_vertices src_loc s1) (fun s2 => Ok (s2, false)))
            end)
        | _, _, _ => OtherError
        end
  | _, _ => OtherError
  end.

Fixpoint sa_steps (vr : vresources) (fixed : list vertex) (s : sa_state)
         (draws : list (vertex * chip * bool)) : result sa_state :=
  match draws with
  | [] => Ok s
  | (src, dst, acc) :: t =>
      bind (sa_step vr fixed s src dst acc) (fun x => sa_steps vr fixed (fst x) t)
  end.

(* PythonKernel.__init__: l2v = {xy: [] for xy in machine}; for vertex, location in placements: append *)
Definition init_l2v (m : pmachine) (pl : placement) : l2v :=
  fold_left (fun l vc => match cassoc (snd vc) l with
                         | Some vs => cupdate (snd vc) (vs ++ [fst vc]) l
                         | None => l end)
            pl (map (fun c => (c, @nil vertex)) (raster m)).

(* ---------------------------------------------------------------------------------------------- *)
(* The other entry points (their forwarding to sequential.place is shape-checked from the source on *)
(* every run, Generated/GenPlaceShape.v).  The vertex orders of breadth_first / rcm and the RCM chip *)
(* order come out of set iteration in CPython: they are inputs here.                                *)
(* ---------------------------------------------------------------------------------------------- *)
Definition bf_place (vr : vresources) (m : pmachine) (cs : list pconstr)
           (bf_vertex_order : list vertex) (chip_order : option (list chip)) : result placement :=
  seq_place vr m cs (Some bf_vertex_order) chip_order.

(* breadth_first=True: Some (breadth_first_vertex_order ...); breadth_first=False: None *)
Definition hilbert_place (vr : vresources) (m : pmachine) (cs : list pconstr)
           (bf_vertex_order : option (list vertex)) : result placement :=
  seq_place vr m cs bf_vertex_order (Some (hilbert_chip_order m)).

Definition rcm_place (vr : vresources) (m : pmachine) (cs : list pconstr)
           (rcm_vertex_order : list vertex) (rcm_chip_order : list chip) : result placement :=
  seq_place vr m cs (Some rcm_vertex_order) (Some rcm_chip_order).
