(* Proofs about the SpiNN-5 board geometry model (property C19).
   The finite facts about the dumped tables are closed by vm_compute over the 12 x 12 cell / the 8 x 8
   bounding box of the board (the bound is part of the statement) and lifted to all integers by the
   mod-12 lemmas proved here. *)
From Coq Require Import ZArith List Bool Lia FinFun.
Require Import Rig.Generated.GenBoardTables Rig.Generated.GenBoard Rig.Model.Base Rig.Model.Board Rig.Spec.Board.
Import ListNotations.
Open Scope Z_scope.
Ltac Zify.zify_post_hook ::= Z.to_euclidean_division_equations.


Lemma eth_table_is_12x12 :
  length SPINN5_ETH_OFFSET = 12%nat /\ Forall (fun r => length r = 12%nat) SPINN5_ETH_OFFSET.
Proof. split; [reflexivity | repeat constructor]. Qed.

(* ------------------------------------------------------------------ enumeration helpers *)
Lemma In_zseq : forall n u, 0 <= u < n -> In u (zseq n).
Proof.
  intros n u Hu. unfold zseq. apply in_map_iff. exists (Z.to_nat u). split; [lia|].
  apply in_seq. lia.
Qed.

Lemma board_shapeb_spec : forall dx dy, board_shapeb dx dy = true <-> board_shape dx dy.
Proof.
  intros dx dy. unfold board_shapeb, board_shape. rewrite !andb_true_iff, !Z.leb_le. lia.
Qed.

Lemma In_eth_offsets : forall d, In d eth_offsets -> d = (0, 0) \/ d = (4, 8) \/ d = (8, 4).
Proof. intros d H. unfold eth_offsets in H. simpl in H. intuition. Qed.

(* ------------------------------------------------------------------ the tiling is a partition *)
Lemma board_eth_unique : forall root c e1 e2, board_eth root c e1 -> board_eth root c e2 -> e1 = e2.
Proof.
  intros [rx ry] [x y] [a1 b1] [a2 b2] [He1 Hb1] [He2 Hb2].
  destruct He1 as (i1 & j1 & d1 & Hd1 & Hx1 & Hy1).
  destruct He2 as (i2 & j2 & d2 & Hd2 & Hx2 & Hy2).
  unfold on_board, board_shape in Hb1, Hb2. cbn [fst snd] in *.
  apply In_eth_offsets in Hd1. apply In_eth_offsets in Hd2.
  destruct Hd1 as [-> | [-> | ->]]; destruct Hd2 as [-> | [-> | ->]]; cbn [fst snd] in *;
    f_equal; lia.
Qed.

(* the finite fact about the dumped table: for each cell (u, v) of the 12 x 12 array the stored offset
   leads, within the board's shape, to a point congruent mod 12 to one of the three Ethernet positions *)
Definition cell_okb (u v : Z) : bool :=
  let '(ox, oy) := SPINN5_ETH_OFFSET_at v u in
  board_shapeb (- ox) (- oy) &&
  existsb (fun d => ((u + ox - fst d) mod 12 =? 0) && ((v + oy - snd d) mod 12 =? 0)) eth_offsets.

Lemma cell_all_ok : forallb (fun u => forallb (fun v => cell_okb u v) (zseq 12)) (zseq 12) = true.
Proof. vm_compute. reflexivity. Qed.

Lemma cell_ok : forall u v, 0 <= u < 12 -> 0 <= v < 12 -> cell_okb u v = true.
Proof.
  intros u v Hu Hv. pose proof cell_all_ok as H. rewrite forallb_forall in H.
  specialize (H u (In_zseq _ _ Hu)). rewrite forallb_forall in H. exact (H v (In_zseq _ _ Hv)).
Qed.

(* the table offset for chip (x, y) with the root at (rx, ry), as both kernels compute it *)
Definition eth_off (x y rx ry : Z) : Z * Z :=
  SPINN5_ETH_OFFSET_at ((y - ry) mod 12) ((x - rx) mod 12).

Definition plane_eth (root c : chip) : chip :=
  (fst c + fst (eth_off (fst c) (snd c) (fst root) (snd root)),
   snd c + snd (eth_off (fst c) (snd c) (fst root) (snd root))).

Lemma plane_eth_is_board_eth : forall root c, board_eth root c (plane_eth root c).
Proof.
  intros [rx ry] [x y]. unfold plane_eth, eth_off. cbn [fst snd].
  assert (Hu : 0 <= (x - rx) mod 12 < 12) by (apply Z.mod_pos_bound; lia).
  assert (Hv : 0 <= (y - ry) mod 12 < 12) by (apply Z.mod_pos_bound; lia).
  pose proof (cell_ok _ _ Hu Hv) as Hc. unfold cell_okb in Hc.
  destruct (SPINN5_ETH_OFFSET_at ((y - ry) mod 12) ((x - rx) mod 12)) as [ox oy].
  apply andb_true_iff in Hc. destruct Hc as [Hs He].
  apply board_shapeb_spec in Hs. apply existsb_exists in He.
  destruct He as (d & Hd & Hm). apply andb_true_iff in Hm. destruct Hm as [Hmx Hmy].
  apply Z.eqb_eq in Hmx. apply Z.eqb_eq in Hmy. cbn [fst snd].
  split.
  - exists ((x + ox - rx - fst d) / 12), ((y + oy - ry - snd d) / 12), d.
    split; [exact Hd|]. cbn [fst snd].
    apply In_eth_offsets in Hd. destruct Hd as [-> | [-> | ->]]; cbn [fst snd] in *; lia.
  - unfold on_board. cbn [fst snd].
    replace (x - (x + ox)) with (- ox) by lia. replace (y - (y + oy)) with (- oy) by lia. exact Hs.
Qed.

Theorem tiling_partition : forall root c, exists! e, board_eth root c e.
Proof.
  intros root c. exists (plane_eth root c). split.
  - apply plane_eth_is_board_eth.
  - intros e' He'. eapply board_eth_unique; [apply plane_eth_is_board_eth | exact He'].
Qed.

Lemma board_eth_is_plane_eth : forall root c e, board_eth root c e -> e = plane_eth root c.
Proof. intros root c e H. eapply board_eth_unique; [exact H | apply plane_eth_is_board_eth]. Qed.

(* ------------------------------------------------------------------ the two kernels *)
Lemma local_eth_model : forall x y w h rx ry, w <> 0 -> h <> 0 ->
  spinn5_local_eth_coord x y w h rx ry = Ok (wrap w h (plane_eth (rx, ry) (x, y))).
Proof.
  intros x y w h rx ry Hw Hh. unfold spinn5_local_eth_coord.
  destruct (w =? 0) eqn:Ew; [apply Z.eqb_eq in Ew; contradiction|].
  destruct (h =? 0) eqn:Eh; [apply Z.eqb_eq in Eh; contradiction|].
  cbn [orb]. unfold spinn5_local_eth_coord_k, plane_eth, eth_off, wrap. cbn [fst snd].
  destruct (SPINN5_ETH_OFFSET_at ((y - ry) mod 12) ((x - rx) mod 12)) as [ox oy]. reflexivity.
Qed.

Lemma local_eth_zero_dim : forall x y w h rx ry, w = 0 \/ h = 0 ->
  spinn5_local_eth_coord x y w h rx ry = OtherError.
Proof.
  intros x y w h rx ry H. unfold spinn5_local_eth_coord.
  destruct H as [-> | ->]; [reflexivity|]. rewrite orb_true_r. reflexivity.
Qed.

Lemma chip_coord_model : forall x y rx ry,
  spinn5_chip_coord x y rx ry =
  Ok (x - fst (plane_eth (rx, ry) (x, y)), y - snd (plane_eth (rx, ry) (x, y))).
Proof.
  intros x y rx ry. unfold spinn5_chip_coord, spinn5_chip_coord_k, plane_eth, eth_off. cbn [fst snd].
  destruct (SPINN5_ETH_OFFSET_at ((y - ry) mod 12) ((x - rx) mod 12)) as [ox oy]. cbn [fst snd].
  f_equal. f_equal; lia.
Qed.

Theorem local_eth_is_wrapped_board_eth : forall x y w h rx ry e, w <> 0 -> h <> 0 ->
  board_eth (rx, ry) (x, y) e -> spinn5_local_eth_coord x y w h rx ry = Ok (wrap w h e).
Proof.
  intros x y w h rx ry e Hw Hh He. rewrite (board_eth_is_plane_eth _ _ _ He).
  apply local_eth_model; assumption.
Qed.

Theorem local_eth_ragged : forall x y w h rx ry e,
  board_eth (rx, ry) (x, y) e -> in_machine w h e -> spinn5_local_eth_coord x y w h rx ry = Ok e.
Proof.
  intros x y w h rx ry [ex ey] He [Hx Hy]. cbn [fst snd] in Hx, Hy.
  rewrite (local_eth_is_wrapped_board_eth x y w h rx ry (ex, ey)); [|lia|lia|exact He].
  unfold wrap. cbn [fst snd]. rewrite !Z.mod_small by lia. reflexivity.
Qed.

Theorem chip_coord_is_offset : forall x y rx ry e, board_eth (rx, ry) (x, y) e ->
  spinn5_chip_coord x y rx ry = Ok (x - fst e, y - snd e).
Proof.
  intros x y rx ry e He. rewrite (board_eth_is_plane_eth _ _ _ He). apply chip_coord_model.
Qed.

Theorem chip_coord_on_board : forall x y rx ry, exists bx by_,
  spinn5_chip_coord x y rx ry = Ok (bx, by_) /\ board_shape bx by_.
Proof.
  intros x y rx ry. eexists _, _. split; [apply chip_coord_model|].
  destruct (plane_eth_is_board_eth (rx, ry) (x, y)) as [_ Hb]. exact Hb.
Qed.


(* ------------------------------------------------------------------ the torus *)
Lemma multiple_of_12 : forall w, w mod 12 = 0 -> exists b, w = 12 * b.
Proof. intros w H. exists (w / 12). lia. Qed.

(* Ethernet positions are invariant under shifts by whole machine widths / heights *)
Lemma is_eth_shift : forall root e w h k l, w mod 12 = 0 -> h mod 12 = 0 ->
  is_eth root e -> is_eth root (fst e + w * k, snd e + h * l).
Proof.
  intros [rx ry] [ex ey] w h k l Hw Hh (i & j & d & Hd & Hx & Hy). cbn [fst snd] in *.
  destruct (multiple_of_12 _ Hw) as [bw ->]. destruct (multiple_of_12 _ Hh) as [bh ->].
  exists (i + bw * k), (j + bh * l), d. split; [exact Hd|]. cbn [fst snd]. split; lia.
Qed.

Lemma is_eth_wrap : forall root e w h, w mod 12 = 0 -> h mod 12 = 0 ->
  is_eth root e -> is_eth root (wrap w h e).
Proof.
  intros root [ex ey] w h Hw Hh He. unfold wrap. cbn [fst snd].
  pose proof (is_eth_shift root (ex, ey) w h (- (ex / w)) (- (ey / h)) Hw Hh He) as H.
  cbn [fst snd] in H.
  replace (ex mod w) with (ex + w * - (ex / w)) by (pose proof (Z_div_mod_eq_full ex w); nia).
  replace (ey mod h) with (ey + h * - (ey / h)) by (pose proof (Z_div_mod_eq_full ey h); nia).
  exact H.
Qed.

Lemma board_shape_bound : forall dx dy, board_shape dx dy -> 0 <= dx <= 7 /\ 0 <= dy <= 7.
Proof. unfold board_shape. intros; lia. Qed.

(* on a torus at least 12 wide and high, the wrapped offset from the wrapped Ethernet chip is the plane offset *)
Lemma on_board_wrap : forall w h e c, 12 <= w -> 12 <= h ->
  on_board e c -> on_board_torus w h (wrap w h e) c.
Proof.
  intros w h [ex ey] [x y] Hw Hh Hb. unfold on_board in Hb. unfold on_board_torus, wrap. cbn [fst snd] in *.
  destruct (board_shape_bound _ _ Hb) as [Hx Hy].
  rewrite (Zminus_mod_idemp_r x ex w), (Zminus_mod_idemp_r y ey h).
  rewrite (Z.mod_small (x - ex) w) by lia. rewrite (Z.mod_small (y - ey) h) by lia. exact Hb.
Qed.

Lemma full_torus_ge_12 : forall w h, full_torus w h -> 12 <= w /\ 12 <= h.
Proof. unfold full_torus. intros w h H. lia. Qed.

Theorem local_eth_is_board_eth_torus : forall w h rx ry x y,
  full_torus w h -> in_machine w h (x, y) ->
  exists e, spinn5_local_eth_coord x y w h rx ry = Ok e /\
            in_machine w h e /\ is_eth (rx, ry) e /\ on_board_torus w h e (x, y) /\
            (forall e', in_machine w h e' -> is_eth (rx, ry) e' -> on_board_torus w h e' (x, y) -> e' = e).
Proof.
  intros w h rx ry x y Ht Hc.
  destruct (full_torus_ge_12 _ _ Ht) as [Hw12 Hh12].
  destruct Ht as (Hw & Hh & Hwm & Hhm).
  pose proof (plane_eth_is_board_eth (rx, ry) (x, y)) as Hp.
  set (p := plane_eth (rx, ry) (x, y)) in *.
  exists (wrap w h p). split; [apply local_eth_model; lia|].
  destruct Hp as [Hpe Hpb].
  split; [|split; [|split]].
  - unfold in_machine, wrap. cbn [fst snd]. split; apply Z.mod_pos_bound; lia.
  - apply is_eth_wrap; assumption.
  - apply on_board_wrap; assumption.
  - intros [ex' ey'] [Hx' Hy'] He' Hb'. cbn [fst snd] in Hx', Hy'.
    unfold on_board_torus in Hb'. cbn [fst snd] in Hb'.
    (* lift e' to the plane: the chip at the wrapped offset below c *)
    set (dx := (x - ex') mod w) in *. set (dy := (y - ey') mod h) in *.
    assert (Hlift : board_eth (rx, ry) (x, y) (ex' + w * ((x - ex') / w), ey' + h * ((y - ey') / h))).
    { split.
      - exact (is_eth_shift (rx, ry) (ex', ey') w h _ _ Hwm Hhm He').
      - unfold on_board. cbn [fst snd].
        replace (x - (ex' + w * ((x - ex') / w))) with dx.
        2:{ unfold dx. rewrite Z.mod_eq; [ring | lia]. }
        replace (y - (ey' + h * ((y - ey') / h))) with dy
          by (unfold dy; rewrite Z.mod_eq; [ring | lia]).
        exact Hb'. }
    apply board_eth_is_plane_eth in Hlift. fold p in Hlift. rewrite <- Hlift.
    unfold wrap. cbn [fst snd]. f_equal.
    + rewrite Z.mul_comm, Z_mod_plus_full. symmetry. apply Z.mod_small. lia.
    + rewrite Z.mul_comm, Z_mod_plus_full. symmetry. apply Z.mod_small. lia.
Qed.


(* ------------------------------------------------------------------ list lemmas *)
Lemma NoDup_app_intro : forall {A} (l1 l2 : list A),
  NoDup l1 -> NoDup l2 -> (forall x, In x l1 -> ~ In x l2) -> NoDup (l1 ++ l2).
Proof.
  intros A l1. induction l1 as [|a l1 IH]; intros l2 H1 H2 Hd; [exact H2|].
  simpl. inversion H1 as [|? ? Hna Hnd]; subst. constructor.
  - rewrite in_app_iff. intros [H|H]; [contradiction | exact (Hd a (or_introl eq_refl) H)].
  - apply IH; auto. intros x Hx. apply Hd. right; exact Hx.
Qed.

Lemma NoDup_flat_map : forall {A B} (f : A -> list B) (l : list A),
  NoDup l -> (forall a, In a l -> NoDup (f a)) ->
  (forall a1 a2 b, In a1 l -> In a2 l -> In b (f a1) -> In b (f a2) -> a1 = a2) ->
  NoDup (flat_map f l).
Proof.
  intros A B f l. induction l as [|a l IH]; intros Hl Hf Hd; simpl; [constructor|].
  inversion Hl as [|? ? Hna Hnd]; subst. apply NoDup_app_intro.
  - apply Hf; left; reflexivity.
  - apply IH; auto.
    + intros; apply Hf; right; auto.
    + intros a1 a2 b Ha1 Ha2. apply Hd; right; auto.
  - intros b Hb Hb2. apply in_flat_map in Hb2. destruct Hb2 as (a' & Ha' & Hb').
    assert (a = a') by (eapply Hd; [left; reflexivity | right; exact Ha' | exact Hb | exact Hb']).
    subst. contradiction.
Qed.

(* ------------------------------------------------------------------ range(0, stop, 12) *)
Lemma In_range12 : forall stop X, In X (range12 stop) <-> 0 <= X < stop /\ X mod 12 = 0.
Proof.
  intros stop X. unfold range12. rewrite in_map_iff. split.
  - intros (i & <- & Hi). apply in_seq in Hi. lia.
  - intros [Hr Hm]. exists (Z.to_nat (X / 12)). split; [lia|]. apply in_seq. lia.
Qed.

Lemma NoDup_range12 : forall stop, NoDup (range12 stop).
Proof.
  intros stop. unfold range12. apply FinFun.Injective_map_NoDup; [intros a b H; lia | apply seq_NoDup].
Qed.

Definition up12 (n : Z) : Z := (n + 11) / 12 * 12.

Lemma up12_spec : forall n, up12 n mod 12 = 0 /\ n <= up12 n < n + 12.
Proof. intros n. unfold up12. lia. Qed.

(* ------------------------------------------------------------------ arithmetic of one coordinate *)
Lemma mod12_of_mod : forall a b, 0 < b -> b mod 12 = 0 -> a mod 12 = 0 -> (a mod b) mod 12 = 0.
Proof.
  intros a b Hb Hbm Ham.
  destruct (multiple_of_12 _ Hbm) as [b' ->]. destruct (multiple_of_12 _ Ham) as [a' ->].
  rewrite Z.mul_mod_distr_l by lia. rewrite Z.mul_comm. apply Z.mod_mul. lia.
Qed.

Lemma wrap_coord_eth : forall W X d r rx,
  0 < W -> W mod 12 = 0 -> X mod 12 = 0 -> (r - rx) mod 12 = 0 ->
  exists i, (X + d + r) mod W = rx + 12 * i + d.
Proof.
  intros W X d r rx HW HWm HXm Hr.
  destruct (multiple_of_12 _ HWm) as [b ->]. destruct (multiple_of_12 _ HXm) as [a ->].
  destruct (multiple_of_12 _ Hr) as [c Hc].
  rewrite Z.mod_eq by lia. set (q := (12 * a + d + r) / (12 * b)).
  exists (a + c - b * q). replace r with (rx + 12 * c) by lia. ring.
Qed.

Lemma eth_coord_preimage : forall W d r ex,
  0 < W -> W mod 12 = 0 -> 0 <= ex < W -> (ex - d - r) mod 12 = 0 ->
  0 <= (ex - d - r) mod W < W /\ ((ex - d - r) mod W) mod 12 = 0 /\
  ((ex - d - r) mod W + d + r) mod W = ex.
Proof.
  intros W d r ex HW HWm Hex Hm. split; [apply Z.mod_pos_bound; lia|]. split.
  - apply mod12_of_mod; assumption.
  - replace ((ex - d - r) mod W + d + r) with ((ex - d - r) mod W + (d + r)) by ring.
    rewrite Zplus_mod_idemp_l. replace (ex - d - r + (d + r)) with ex by ring.
    apply Z.mod_small. exact Hex.
Qed.

Lemma eth_coord_inj : forall W X1 X2 d1 d2 r,
  0 < W -> W mod 12 = 0 -> 0 <= X1 < W -> X1 mod 12 = 0 -> 0 <= X2 < W -> X2 mod 12 = 0 ->
  (d1 = 0 \/ d1 = 4 \/ d1 = 8) -> (d2 = 0 \/ d2 = 4 \/ d2 = 8) ->
  (X1 + d1 + r) mod W = (X2 + d2 + r) mod W -> X1 = X2 /\ d1 = d2.
Proof.
  intros W X1 X2 d1 d2 r HW HWm HX1 HX1m HX2 HX2m Hd1 Hd2 Heq.
  destruct (multiple_of_12 _ HWm) as [b ->].
  destruct (multiple_of_12 _ HX1m) as [a1 ->]. destruct (multiple_of_12 _ HX2m) as [a2 ->].
  rewrite !Z.mod_eq in Heq by lia.
  set (q1 := (12 * a1 + d1 + r) / (12 * b)) in *. set (q2 := (12 * a2 + d2 + r) / (12 * b)) in *.
  clearbody q1 q2.
  assert (Hd : d1 = d2) by lia.
  split; [|exact Hd]. subst d2.
  assert (Hq : a1 - a2 = b * (q1 - q2)) by lia.
  assert (Hz : q1 - q2 = 0) by nia.
  nia.
Qed.


(* the body of the innermost loop of spinn5_eth_coords *)
Definition eth_cell (width height W H r ry X Y : Z) (d : Z * Z) : list (Z * Z) :=
  if ((X + fst d + r) mod W <? width) && ((Y + snd d + ry) mod H <? height)
  then [((X + fst d + r) mod W, (Y + snd d + ry) mod H)] else [].

Lemma eth_coords_unfold : forall width height rx ry,
  spinn5_eth_coords width height rx ry =
  flat_map (fun X => flat_map (fun Y =>
      flat_map (eth_cell width height (up12 width) (up12 height) (rx mod 12 mod 12) ry X Y) eth_loop_offsets)
    (range12 (up12 height))) (range12 (up12 width)).
Proof. reflexivity. Qed.

Lemma In_eth_cell : forall width height W H r ry X Y d e,
  In e (eth_cell width height W H r ry X Y d) <->
  e = ((X + fst d + r) mod W, (Y + snd d + ry) mod H) /\ fst e < width /\ snd e < height.
Proof.
  intros width height W H r ry X Y d e. unfold eth_cell.
  destruct ((X + fst d + r) mod W <? width) eqn:E1; destruct ((Y + snd d + ry) mod H <? height) eqn:E2;
    cbn [andb In]; try apply Z.ltb_lt in E1; try apply Z.ltb_lt in E2;
    try apply Z.ltb_ge in E1; try apply Z.ltb_ge in E2.
  - split.
    + intros [<- | []]. cbn [fst snd]. auto.
    + intros (-> & _). left; reflexivity.
  - split; [intros [] | intros (-> & _ & H2); cbn [snd] in H2; lia].
  - split; [intros [] | intros (-> & H1 & _); cbn [fst] in H1; lia].
  - split; [intros [] | intros (-> & H1 & _); cbn [fst] in H1; lia].
Qed.

Lemma NoDup_eth_cell : forall width height W H r ry X Y d, NoDup (eth_cell width height W H r ry X Y d).
Proof.
  intros. unfold eth_cell. destruct (_ && _); [|constructor].
  constructor; [intros []|constructor].
Qed.

Lemma In_loop_offsets : forall d, In d eth_loop_offsets ->
  (d = (0, 0) \/ d = (4, 8) \/ d = (8, 4)) /\ In d eth_offsets.
Proof. intros d H. split; [|exact H]. unfold eth_loop_offsets in H. simpl in H. intuition. Qed.

Lemma NoDup_loop_offsets : NoDup eth_loop_offsets.
Proof.
  unfold eth_loop_offsets. repeat constructor; simpl; intuition congruence.
Qed.

Lemma root_reduced_twice : forall rx, (rx mod 12 mod 12 - rx) mod 12 = 0.
Proof. intros rx. lia. Qed.

Lemma loop_offset_components : forall d, In d eth_loop_offsets ->
  (fst d = 0 \/ fst d = 4 \/ fst d = 8) /\ (snd d = 0 \/ snd d = 4 \/ snd d = 8).
Proof. intros d H. apply In_loop_offsets in H. destruct H as [[-> | [-> | ->]] _]; cbn [fst snd]; lia. Qed.

Lemma loop_offset_by_fst : forall d1 d2, In d1 eth_loop_offsets -> In d2 eth_loop_offsets ->
  fst d1 = fst d2 -> d1 = d2.
Proof.
  intros d1 d2 H1 H2 Hf. apply In_loop_offsets in H1. apply In_loop_offsets in H2.
  destruct H1 as [[-> | [-> | ->]] _]; destruct H2 as [[-> | [-> | ->]] _]; cbn [fst] in Hf;
    try reflexivity; discriminate Hf.
Qed.

Lemma eth_coord_inj_fst : forall W X1 X2 d1 d2 r,
  W mod 12 = 0 -> 0 <= X1 < W /\ X1 mod 12 = 0 -> 0 <= X2 < W /\ X2 mod 12 = 0 ->
  In d1 eth_loop_offsets -> In d2 eth_loop_offsets ->
  (X1 + fst d1 + r) mod W = (X2 + fst d2 + r) mod W -> X1 = X2 /\ fst d1 = fst d2.
Proof.
  intros W X1 X2 d1 d2 r HWm [HX1 HX1m] [HX2 HX2m] Hd1 Hd2 Heq.
  apply (eth_coord_inj W X1 X2 (fst d1) (fst d2) r); try assumption; try lia.
  - apply loop_offset_components; assumption.
  - apply loop_offset_components; assumption.
Qed.

Lemma eth_coord_inj_snd : forall W X1 X2 d1 d2 r,
  W mod 12 = 0 -> 0 <= X1 < W /\ X1 mod 12 = 0 -> 0 <= X2 < W /\ X2 mod 12 = 0 ->
  In d1 eth_loop_offsets -> In d2 eth_loop_offsets ->
  (X1 + snd d1 + r) mod W = (X2 + snd d2 + r) mod W -> X1 = X2 /\ snd d1 = snd d2.
Proof.
  intros W X1 X2 d1 d2 r HWm [HX1 HX1m] [HX2 HX2m] Hd1 Hd2 Heq.
  apply (eth_coord_inj W X1 X2 (snd d1) (snd d2) r); try assumption; try lia.
  - apply loop_offset_components; assumption.
  - apply loop_offset_components; assumption.
Qed.

Theorem eth_coords_exact : forall width height rx ry,
  NoDup (spinn5_eth_coords width height rx ry) /\
  forall e, In e (spinn5_eth_coords width height rx ry) <->
            (in_machine width height e /\ is_eth (rx, ry) e).
Proof.
  intros width height rx ry. rewrite eth_coords_unfold.
  destruct (up12_spec width) as [HWm HWb]. destruct (up12_spec height) as [HHm HHb].
  set (W := up12 width) in *. set (H := up12 height) in *. set (r := rx mod 12 mod 12).
  pose proof (root_reduced_twice rx) as Hr. fold r in Hr.
  assert (Hry : (ry - ry) mod 12 = 0) by (rewrite Z.sub_diag; reflexivity).
  split.
  - (* each Ethernet chip once *)
    apply NoDup_flat_map; [apply NoDup_range12 | |].
    + intros X HX. apply NoDup_flat_map; [apply NoDup_range12 | |].
      * intros Y HY. apply NoDup_flat_map; [apply NoDup_loop_offsets | intros; apply NoDup_eth_cell |].
        intros d1 d2 b Hd1 Hd2 Hb1 Hb2.
        apply In_eth_cell in Hb1. apply In_eth_cell in Hb2.
        destruct Hb1 as (-> & _). destruct Hb2 as (Hb2 & _).
        apply In_range12 in HX. apply In_range12 in HY.
        injection Hb2 as Hbx Hby.
        apply loop_offset_by_fst; [assumption | assumption |].
        exact (proj2 (eth_coord_inj_fst W X X d1 d2 r HWm HX HX Hd1 Hd2 Hbx)).
      * intros Y1 Y2 b HY1 HY2 Hb1 Hb2.
        apply in_flat_map in Hb1. destruct Hb1 as (d1 & Hd1 & Hb1).
        apply in_flat_map in Hb2. destruct Hb2 as (d2 & Hd2 & Hb2).
        apply In_eth_cell in Hb1. apply In_eth_cell in Hb2.
        destruct Hb1 as (-> & _). destruct Hb2 as (Hb2 & _).
        apply In_range12 in HY1. apply In_range12 in HY2.
        injection Hb2 as _ Hby.
        exact (proj1 (eth_coord_inj_snd H Y1 Y2 d1 d2 ry HHm HY1 HY2 Hd1 Hd2 Hby)).
    + intros X1 X2 b HX1 HX2 Hb1 Hb2.
      apply in_flat_map in Hb1. destruct Hb1 as (Y1 & HY1 & Hb1).
      apply in_flat_map in Hb2. destruct Hb2 as (Y2 & HY2 & Hb2).
      apply in_flat_map in Hb1. destruct Hb1 as (d1 & Hd1 & Hb1).
      apply in_flat_map in Hb2. destruct Hb2 as (d2 & Hd2 & Hb2).
      apply In_eth_cell in Hb1. apply In_eth_cell in Hb2.
      destruct Hb1 as (-> & _). destruct Hb2 as (Hb2 & _).
      apply In_range12 in HX1. apply In_range12 in HX2.
      injection Hb2 as Hbx _.
      exact (proj1 (eth_coord_inj_fst W X1 X2 d1 d2 r HWm HX1 HX2 Hd1 Hd2 Hbx)).
  - (* exactly the Ethernet chips inside the machine *)
    intros [ex ey]. split.
    + intros Hin.
      apply in_flat_map in Hin. destruct Hin as (X & HX & Hin).
      apply in_flat_map in Hin. destruct Hin as (Y & HY & Hin).
      apply in_flat_map in Hin. destruct Hin as (d & Hd & Hin).
      apply In_eth_cell in Hin. destruct Hin as (He & Hlx & Hly). cbn [fst snd] in Hlx, Hly.
      apply In_range12 in HX. apply In_range12 in HY.
      injection He as Hex Hey.
      destruct (wrap_coord_eth W X (fst d) r rx) as [i Hi]; try lia.
      destruct (wrap_coord_eth H Y (snd d) ry ry) as [j Hj]; try lia.
      split.
      * unfold in_machine. cbn [fst snd].
        pose proof (Z.mod_pos_bound (X + fst d + r) W). pose proof (Z.mod_pos_bound (Y + snd d + ry) H). lia.
      * exists i, j, d. split; [apply In_loop_offsets in Hd; apply Hd|]. cbn [fst snd]. split; congruence.
    + intros [[Hx Hy] (i & j & d & Hd & Hex & Hey)]. cbn [fst snd] in *.
      assert (Hmx : (ex - fst d - r) mod 12 = 0) by (subst ex; unfold r; lia).
      assert (Hmy : (ey - snd d - ry) mod 12 = 0) by (subst ey; lia).
      destruct (eth_coord_preimage W (fst d) r ex) as (HXr & HXm & HXe); try lia.
      destruct (eth_coord_preimage H (snd d) ry ey) as (HYr & HYm & HYe); try lia.
      apply in_flat_map. exists ((ex - fst d - r) mod W). split; [apply In_range12; split; assumption|].
      apply in_flat_map. exists ((ey - snd d - ry) mod H). split; [apply In_range12; split; assumption|].
      apply in_flat_map. exists d. split; [exact Hd|].
      apply In_eth_cell. rewrite HXe, HYe. cbn [fst snd]. split; [reflexivity | lia].
Qed.


(* ------------------------------------------------------------------ FPGA links *)
Lemma key3_eqb_eq : forall a b, key3_eqb a b = true <-> a = b.
Proof.
  intros [[a1 a2] a3] [[b1 b2] b3]. unfold key3_eqb. rewrite !andb_true_iff, !Z.eqb_eq.
  split; [intros [[-> ->] ->]; reflexivity | intros H; injection H; auto].
Qed.

Lemma fpga_get_Some_In : forall k v l, fpga_get k l = Some v -> In (k, v) l.
Proof.
  intros k v l. induction l as [|[k' v'] l IH]; cbn [fpga_get]; [discriminate|].
  destruct (key3_eqb k k') eqn:E.
  - intros H. injection H as <-. apply key3_eqb_eq in E. subst. left; reflexivity.
  - intros H. right. apply IH. exact H.
Qed.

Definition is_some {A} (o : option A) : bool := match o with Some _ => true | None => false end.

(* per board position (bx, by) inside the shape and link l in 0..5: an entry exists iff the neighbour
   across the link is outside the shape *)
Definition fpga_cellb (bx by_ l : Z) : bool :=
  match link_vector l with
  | Some (vx, vy) => Bool.eqb (is_some (fpga_get (bx, by_, l) SPINN5_FPGA_LINKS))
                              (negb (board_shapeb (bx + vx) (by_ + vy)))
  | None => false
  end.

Lemma fpga_cells_ok :
  forallb (fun bx => forallb (fun by_ =>
      implb (board_shapeb bx by_) (forallb (fpga_cellb bx by_) (zseq 6))) (zseq 8)) (zseq 8) = true.
Proof. vm_compute. reflexivity. Qed.

(* every key of the dictionary is a real link number *)
Lemma fpga_keys_are_links :
  forallb (fun p => let '(_, _, l) := fst p in (0 <=? l) && (l <=? 5)) SPINN5_FPGA_LINKS = true.
Proof. vm_compute. reflexivity. Qed.

Definition pair_eqb (a b : Z * Z) : bool := (fst a =? fst b) && (snd a =? snd b).

Lemma fpga_values_distinct :
  forallb (fun p => forallb (fun q => implb (pair_eqb (snd p) (snd q)) (key3_eqb (fst p) (fst q)))
                            SPINN5_FPGA_LINKS) SPINN5_FPGA_LINKS = true.
Proof. vm_compute. reflexivity. Qed.

Lemma link_vector_Some : forall l v, link_vector l = Some v -> 0 <= l <= 5.
Proof.
  intros l v. unfold link_vector.
  destruct (l =? 0) eqn:E0; [lia|]. destruct (l =? 1) eqn:E1; [lia|].
  destruct (l =? 2) eqn:E2; [lia|]. destruct (l =? 3) eqn:E3; [lia|].
  destruct (l =? 4) eqn:E4; [lia|]. destruct (l =? 5) eqn:E5; [lia|]. discriminate.
Qed.

Lemma fpga_link_model : forall x y l rx ry,
  spinn5_fpga_link x y l rx ry =
  Ok (fpga_get (x - fst (plane_eth (rx, ry) (x, y)), y - snd (plane_eth (rx, ry) (x, y)), l)
               SPINN5_FPGA_LINKS).
Proof.
  intros x y l rx ry. unfold spinn5_fpga_link. rewrite chip_coord_model. reflexivity.
Qed.

Lemma fpga_get_outside_links : forall bx by_ l, ~ (0 <= l <= 5) ->
  fpga_get (bx, by_, l) SPINN5_FPGA_LINKS = None.
Proof.
  intros bx by_ l Hl. destruct (fpga_get (bx, by_, l) SPINN5_FPGA_LINKS) as [v|] eqn:E; [|reflexivity].
  apply fpga_get_Some_In in E. pose proof fpga_keys_are_links as H. rewrite forallb_forall in H.
  specialize (H _ E). cbn [fst] in H. apply andb_true_iff in H. destruct H as [H1 H2].
  apply Z.leb_le in H1. apply Z.leb_le in H2. lia.
Qed.

Theorem fpga_link_iff_leaves_board : forall x y l rx ry e,
  board_eth (rx, ry) (x, y) e ->
  exists r, spinn5_fpga_link x y l rx ry = Ok r /\
            (r <> None <-> link_leaves_board e (x, y) l).
Proof.
  intros x y l rx ry e He. rewrite fpga_link_model.
  pose proof (board_eth_is_plane_eth _ _ _ He) as Hp. rewrite <- Hp.
  destruct He as [_ Hb]. destruct e as [ex ey]. unfold on_board in Hb. cbn [fst snd] in *.
  eexists; split; [reflexivity|].
  set (bx := x - ex) in *. set (by_ := y - ey) in *.
  destruct (board_shape_bound _ _ Hb) as [Hbx Hby].
  unfold link_leaves_board. cbn [fst snd].
  destruct (link_vector l) as [[vx vy]|] eqn:Ev.
  - (* a real link: read the finite table fact *)
    pose proof (link_vector_Some _ _ Ev) as Hl.
    pose proof fpga_cells_ok as H. rewrite forallb_forall in H.
    assert (Hix : In bx (zseq 8)) by (apply In_zseq; lia). specialize (H bx Hix).
    rewrite forallb_forall in H.
    assert (Hiy : In by_ (zseq 8)) by (apply In_zseq; lia). specialize (H by_ Hiy).
    apply board_shapeb_spec in Hb. rewrite Hb in H. cbn [implb] in H.
    rewrite forallb_forall in H.
    assert (Hil : In l (zseq 6)) by (apply In_zseq; lia). specialize (H l Hil).
    unfold fpga_cellb in H. rewrite Ev in H. apply Bool.eqb_prop in H.
    assert (Hshape : board_shapeb (bx + vx) (by_ + vy) = true <->
                     board_shape (x + vx - ex) (y + vy - ey)).
    { rewrite board_shapeb_spec. unfold bx, by_.
      replace (x - ex + vx) with (x + vx - ex) by ring. replace (y - ey + vy) with (y + vy - ey) by ring.
      tauto. }
    split.
    + intros Hr. exists (vx, vy). split; [reflexivity|]. cbn [fst snd]. unfold on_board. cbn [fst snd].
      intros Hon. apply Hshape in Hon. rewrite Hon in H. cbn [negb] in H.
      destruct (fpga_get (bx, by_, l) SPINN5_FPGA_LINKS); [discriminate H | apply Hr; reflexivity].
    + intros (v & Hv & Hn). injection Hv as <-. cbn [fst snd] in Hn. unfold on_board in Hn. cbn [fst snd] in Hn.
      intros Hr. rewrite Hr in H. cbn [is_some] in H.
      destruct (board_shapeb (bx + vx) (by_ + vy)) eqn:Es; [|discriminate H].
      apply Hn. apply Hshape. reflexivity.
  - (* not a link number: no entry, and nothing leaves *)
    assert (Hl : ~ (0 <= l <= 5)).
    { intros Hl. unfold link_vector in Ev.
      destruct (l =? 0) eqn:E0; [discriminate|]. destruct (l =? 1) eqn:E1; [discriminate|].
      destruct (l =? 2) eqn:E2; [discriminate|]. destruct (l =? 3) eqn:E3; [discriminate|].
      destruct (l =? 4) eqn:E4; [discriminate|]. destruct (l =? 5) eqn:E5; [discriminate|]. lia. }
    rewrite (fpga_get_outside_links _ _ _ Hl). split; [intros H; contradiction|].
    intros (v & Hv & _). discriminate Hv.
Qed.

Lemma Ok_inj : forall {A} (a b : A), Ok a = Ok b -> a = b.
Proof. intros A a b H. injection H. auto. Qed.

Lemma fpga_table_injective : forall k1 k2 v, In (k1, v) SPINN5_FPGA_LINKS -> In (k2, v) SPINN5_FPGA_LINKS -> k1 = k2.
Proof.
  intros k1 k2 v H1 H2. pose proof fpga_values_distinct as H. rewrite forallb_forall in H.
  specialize (H _ H1). rewrite forallb_forall in H. specialize (H _ H2). cbn [fst snd] in H.
  assert (Hv : pair_eqb v v = true) by (unfold pair_eqb; rewrite !Z.eqb_refl; reflexivity).
  rewrite Hv in H. cbn [implb] in H. apply key3_eqb_eq. exact H.
Qed.

Theorem fpga_link_injective : forall x1 y1 l1 x2 y2 l2 rx ry f,
  spinn5_fpga_link x1 y1 l1 rx ry = Ok (Some f) -> spinn5_fpga_link x2 y2 l2 rx ry = Ok (Some f) ->
  spinn5_chip_coord x1 y1 rx ry = spinn5_chip_coord x2 y2 rx ry /\ l1 = l2.
Proof.
  intros x1 y1 l1 x2 y2 l2 rx ry f H1 H2. rewrite fpga_link_model in H1, H2.
  apply Ok_inj in H1. apply Ok_inj in H2.
  apply fpga_get_Some_In in H1. apply fpga_get_Some_In in H2.
  pose proof (fpga_table_injective _ _ _ H1 H2) as Hk.
  pose proof (f_equal (fun k : Z * Z * Z => fst (fst k)) Hk) as Hx.
  pose proof (f_equal (fun k : Z * Z * Z => snd (fst k)) Hk) as Hy.
  pose proof (f_equal (fun k : Z * Z * Z => snd k) Hk) as Hl. cbn [fst snd] in Hx, Hy, Hl.
  split; [|exact Hl]. rewrite !chip_coord_model. rewrite Hx, Hy. reflexivity.
Qed.

Theorem fpga_link_distinct_on_board : forall x1 y1 l1 x2 y2 l2 rx ry e f,
  board_eth (rx, ry) (x1, y1) e -> board_eth (rx, ry) (x2, y2) e ->
  spinn5_fpga_link x1 y1 l1 rx ry = Ok (Some f) -> spinn5_fpga_link x2 y2 l2 rx ry = Ok (Some f) ->
  (x1, y1, l1) = (x2, y2, l2).
Proof.
  intros x1 y1 l1 x2 y2 l2 rx ry e f He1 He2 H1 H2.
  destruct (fpga_link_injective _ _ _ _ _ _ _ _ _ H1 H2) as [Hc ->].
  rewrite (chip_coord_is_offset _ _ _ _ _ He1), (chip_coord_is_offset _ _ _ _ _ He2) in Hc.
  injection Hc as Hx Hy. f_equal. f_equal; lia.
Qed.

(* rig's own Links enumeration and Links.to_vector agree with the hardware numbering of the Spec *)
Lemma links_agree :
  Links_all = [0; 1; 2; 3; 4; 5] /\
  map (fun p => (fst p, Some (snd p))) Links_to_vector = map (fun l => (l, link_vector l)) Links_all.
Proof. split; reflexivity. Qed.


(* ------------------------------------------------------------------ standard_system_dimensions *)
(* the downward loop finds the largest divisor of k not above s *)
Lemma first_factor_down_spec : forall k s, (1 <= s)%nat ->
  exists hh, first_factor_down k s = Some hh /\ 1 <= hh <= Z.of_nat s /\ k mod hh = 0 /\
             forall j, hh < j <= Z.of_nat s -> k mod j <> 0.
Proof.
  intros k s. induction s as [|s IH]; intros Hs; [lia|].
  cbn [first_factor_down].
  destruct (k mod Z.of_nat (S s) =? 0) eqn:E.
  - apply Z.eqb_eq in E. exists (Z.of_nat (S s)). split; [reflexivity|]. split; [lia|]. split; [exact E|].
    intros j Hj. lia.
  - apply Z.eqb_neq in E. destruct s as [|s'].
    + (* s = 0: the last candidate is 1, which divides everything *)
      exfalso. apply E. change (Z.of_nat 1) with 1. apply Z.mod_1_r.
    + destruct IH as (hh & Hf & Hr & Hm & Hmax); [lia|].
      exists hh. split; [exact Hf|]. split; [lia|]. split; [exact Hm|].
      intros j Hj. destruct (Z.eq_dec j (Z.of_nat (S (S s')))) as [-> | Hne]; [exact E|].
      apply Hmax. lia.
Qed.

Theorem standard_dims_squarest : forall n k, 1 <= k -> n = 3 * k ->
  exists a b, standard_system_dimensions n = Ok (a * 12, b * 12) /\ squarest k a b.
Proof.
  intros n k Hk ->. unfold standard_system_dimensions.
  destruct (3 * k =? 0) eqn:E0; [apply Z.eqb_eq in E0; lia|].
  destruct (3 * k =? 1) eqn:E1; [apply Z.eqb_eq in E1; lia|].
  replace (3 * k) with (k * 3) by ring. rewrite Z.mod_mul by lia. rewrite Z.div_mul by lia.
  cbn [Z.eqb negb].
  destruct (k <? 0) eqn:Ek; [apply Z.ltb_lt in Ek; lia|].
  unfold float_isqrt.
  pose proof (Z.sqrt_spec k ltac:(lia)) as Hsq. cbv zeta in Hsq.
  set (s := Z.sqrt k) in *.
  assert (Hs1 : 1 <= s) by (assert (0 < s) by (apply Z.sqrt_pos; lia); lia).
  destruct (first_factor_down_spec k (Z.to_nat s)) as (b & Hf & Hb & Hm & Hmax); [lia|].
  rewrite Z2Nat.id in Hb, Hmax by lia.
  rewrite Hf. exists (k / b), b. split; [reflexivity|].
  assert (Hab : k / b * b = k).
  { pose proof (Z_div_mod_eq_full k b) as Hd. rewrite Hm in Hd. lia. }
  set (a := k / b) in *.
  assert (Hba : b <= a) by nia.
  unfold squarest. split; [exact Hab|]. split; [lia|].
  intros a' b' Hk' Hb'.
  assert (Hb's : b' <= s) by nia.
  assert (Hdiv : k mod b' = 0) by (rewrite <- Hk'; apply Z.mod_mul; lia).
  assert (Hb'b : b' <= b).
  { destruct (Z_le_gt_dec b' b) as [Hle | Hgt]; [exact Hle|].
    exfalso. apply (Hmax b'); [lia | exact Hdiv]. }
  assert (Ha'a : a <= a') by nia.
  lia.
Qed.

Theorem standard_dims_special : 
  standard_system_dimensions 0 = Ok (0, 0) /\ standard_system_dimensions 1 = Ok (8, 8).
Proof. split; reflexivity. Qed.

Theorem standard_dims_error : forall n, n <> 0 -> n <> 1 -> n mod 3 <> 0 \/ n < 0 ->
  standard_system_dimensions n = Failed 0.
Proof.
  intros n H0 H1 H. unfold standard_system_dimensions.
  destruct (n =? 0) eqn:E0; [apply Z.eqb_eq in E0; contradiction|].
  destruct (n =? 1) eqn:E1; [apply Z.eqb_eq in E1; contradiction|].
  destruct (n mod 3 =? 0) eqn:E3; [|reflexivity]. cbn [negb].
  apply Z.eqb_eq in E3. destruct H as [H | H]; [contradiction|].
  assert (Hk : n / 3 < 0) by (apply Z.div_lt_upper_bound; lia).
  apply Z.ltb_lt in Hk. rewrite Hk. reflexivity.
Qed.

(* ------------------------------------------------------------------ instances (non-vacuity) *)
Lemma ex_board_eth : board_eth (3, 5) (10, 9) (3, 5).
Proof.
  split.
  - exists 0, 0, (0, 0). split; [left; reflexivity|]. cbn [fst snd]. lia.
  - unfold on_board, board_shape. cbn [fst snd]. lia.
Qed.

Lemma ex_torus :
  full_torus 24 12 /\ in_machine 24 12 (4, 2) /\ board_eth (3, 5) (4, 2) (-1, -3) /\
  spinn5_local_eth_coord 4 2 24 12 3 5 = Ok (23, 9) /\ spinn5_chip_coord 4 2 3 5 = Ok (5, 5).
Proof.
  split; [unfold full_torus; repeat split; reflexivity|].
  split; [unfold in_machine; cbn [fst snd]; lia|].
  split; [|split; reflexivity].
  split.
  - exists (-1), (-1), (8, 4). split; [right; right; left; reflexivity|]. cbn [fst snd]. lia.
  - unfold on_board, board_shape. cbn [fst snd]. lia.
Qed.

Lemma ex_links :
  link_leaves_board (0, 0) (0, 0) 3 /\ spinn5_fpga_link 0 0 3 0 0 = Ok (Some (1, 1)) /\
  ~ link_leaves_board (0, 0) (0, 0) 0 /\ spinn5_fpga_link 0 0 0 0 0 = Ok None.
Proof.
  split; [|split; [reflexivity|split; [|reflexivity]]].
  - exists (-1, 0). split; [reflexivity|]. unfold on_board, board_shape. cbn [fst snd]. lia.
  - intros (v & Hv & Hn). injection Hv as <-. apply Hn. unfold on_board, board_shape. cbn [fst snd]. lia.
Qed.

Lemma ex_dims : standard_system_dimensions 18 = Ok (36, 24) /\ squarest 6 3 2.
Proof.
  split; [reflexivity|]. unfold squarest. split; [reflexivity|]. split; [lia|].
  intros a' b' Hk Hb.
  assert (Hb2 : b' <= 2) by nia.
  assert (Hc : b' = 1 \/ b' = 2) by lia.
  destruct Hc as [-> | ->]; lia.
Qed.

(* ------------------------------------------------------------------ the budgeted loop *)
Lemma first_factor_down_gas_correct : forall gas k s r, 0 <= s ->
  first_factor_down_gas k s gas = Some r -> first_factor_down k (Z.to_nat s) = r.
Proof.
  induction gas as [|g IH]; intros k s r Hs H; cbn [first_factor_down_gas] in H; [discriminate|].
  destruct (s <=? 0) eqn:E0.
  - apply Z.leb_le in E0. assert (s = 0) by lia. subst s. injection H as <-. reflexivity.
  - apply Z.leb_gt in E0.
    replace (Z.to_nat s) with (S (Z.to_nat (s - 1))) by lia.
    cbn [first_factor_down]. replace (Z.of_nat (S (Z.to_nat (s - 1)))) with s by lia.
    destruct (k mod s =? 0) eqn:Em.
    + injection H as <-. reflexivity.
    + apply IH; [lia | exact H].
Qed.

Theorem standard_dims_gas_correct : forall gas n,
  standard_system_dimensions_gas gas n <> OutOfFuel ->
  standard_system_dimensions_gas gas n = standard_system_dimensions n.
Proof.
  intros gas n. unfold standard_system_dimensions_gas, standard_system_dimensions.
  destruct (n =? 0); [reflexivity|]. destruct (n =? 1); [reflexivity|].
  destruct (negb (n mod 3 =? 0)); [reflexivity|]. cbv zeta.
  destruct (n / 3 <? 0); [reflexivity|].
  destruct (first_factor_down_gas (n / 3) (float_isqrt (n / 3)) gas) as [r|] eqn:E; [|intros H; contradiction H; reflexivity].
  intros _. unfold float_isqrt in *.
  rewrite (first_factor_down_gas_correct _ _ _ _ (Z.sqrt_nonneg _) E).
  destruct r; reflexivity.
Qed.

(* ------------------------------------------------------------------ partially consumed generators *)
Lemma NoDup_app_left : forall {A} (l1 l2 : list A), NoDup (l1 ++ l2) -> NoDup l1.
Proof.
  intros A l1. induction l1 as [|a l1 IH]; intros l2 H; [constructor|].
  simpl in H. inversion H as [|? ? Hna Hnd]; subst. constructor.
  - intros Hin. apply Hna. apply in_or_app. left. exact Hin.
  - exact (IH _ Hnd).
Qed.

Theorem eth_coords_take_spec : forall n width height rx ry,
  NoDup (eth_coords_take n width height rx ry) /\
  (forall e, In e (eth_coords_take n width height rx ry) -> in_machine width height e /\ is_eth (rx, ry) e) /\
  length (eth_coords_take n width height rx ry) = Nat.min n (length (spinn5_eth_coords width height rx ry)).
Proof.
  intros n width height rx ry. unfold eth_coords_take.
  destruct (eth_coords_exact width height rx ry) as [Hnd Hin].
  split; [|split].
  - rewrite <- (firstn_skipn n) in Hnd. apply NoDup_app_left in Hnd. exact Hnd.
  - intros e He. apply Hin. rewrite <- (firstn_skipn n). apply in_or_app. left. exact He.
  - apply firstn_length.
Qed.

Lemma chip_eqb_eq : forall a b : chip, chip_eqb a b = true <-> a = b.
Proof.
  intros [a1 a2] [b1 b2]. unfold chip_eqb. cbn [fst snd]. rewrite andb_true_iff, !Z.eqb_eq.
  split; [intros [-> ->]; reflexivity | intros H; injection H; auto].
Qed.

Theorem eth_coords_contains_spec : forall c width height rx ry,
  eth_coords_contains c width height rx ry = true <-> (in_machine width height c /\ is_eth (rx, ry) c).
Proof.
  intros c width height rx ry. unfold eth_coords_contains, chip_mem.
  rewrite <- (proj2 (eth_coords_exact width height rx ry) c). rewrite existsb_exists. split.
  - intros (e & He & Heq). apply chip_eqb_eq in Heq. subst. exact He.
  - intros H. exists c. split; [exact H | apply chip_eqb_eq; reflexivity].
Qed.

(* ------------------------------------------------------------------ ragged machines: always a chip of the machine *)
Theorem local_eth_in_machine : forall x y w h rx ry, 0 < w -> 0 < h ->
  exists e, spinn5_local_eth_coord x y w h rx ry = Ok e /\ in_machine w h e.
Proof.
  intros x y w h rx ry Hw Hh. eexists. split; [apply local_eth_model; lia|].
  unfold in_machine, wrap. cbn [fst snd]. split; apply Z.mod_pos_bound; assumption.
Qed.

(* ------------------------------------------------------------------ numpy signed integer scalars as arguments *)
(* Every value that takes part in fixed-width arithmetic inside the two kernels (Generated: extracted from
   the source) fits the dtype as soon as the arguments do and are not negative; numpy's wrapping arithmetic
   therefore computes what the integer model computes. *)
Lemma table_offset_bounds : forall u v, 0 <= u < 12 -> 0 <= v < 12 ->
  -7 <= fst (SPINN5_ETH_OFFSET_at v u) <= 0 /\ -7 <= snd (SPINN5_ETH_OFFSET_at v u) <= 0.
Proof.
  intros u v Hu Hv. pose proof (cell_ok u v Hu Hv) as Hc. unfold cell_okb in Hc.
  destruct (SPINN5_ETH_OFFSET_at v u) as [ox oy]. apply andb_true_iff in Hc. destruct Hc as [Hs _].
  apply board_shapeb_spec in Hs. unfold board_shape in Hs. cbn [fst snd]. lia.
Qed.

Lemma pow_ge_128 : forall N, 8 <= N -> 128 <= 2 ^ (N - 1).
Proof. intros N HN. change 128 with (2 ^ 7). apply Z.pow_le_mono_r; lia. Qed.

Theorem chip_coord_steps_fit : forall N x y rx ry, 8 <= N ->
  0 <= x < 2 ^ (N - 1) -> 0 <= y < 2 ^ (N - 1) -> 0 <= rx < 2 ^ (N - 1) -> 0 <= ry < 2 ^ (N - 1) ->
  Forall (fits N) (spinn5_chip_coord_steps x y rx ry).
Proof.
  intros N x y rx ry HN Hx Hy Hrx Hry. pose proof (pow_ge_128 N HN) as HP.
  unfold spinn5_chip_coord_steps.
  destruct (SPINN5_ETH_OFFSET_at ((y - ry) mod 12) ((x - rx) mod 12)) as [ox oy].
  set (P := 2 ^ (N - 1)) in *.
  assert (Hu : 0 <= (x - rx) mod 12 < 12) by (apply Z.mod_pos_bound; lia).
  assert (Hv : 0 <= (y - ry) mod 12 < 12) by (apply Z.mod_pos_bound; lia).
  repeat constructor; unfold fits; fold P; lia.
Qed.

Theorem local_eth_steps_fit : forall N x y w h rx ry, 8 <= N ->
  0 <= x < 2 ^ (N - 1) -> 0 <= y < 2 ^ (N - 1) -> 0 < w < 2 ^ (N - 1) -> 0 < h < 2 ^ (N - 1) ->
  0 <= rx < 2 ^ (N - 1) -> 0 <= ry < 2 ^ (N - 1) ->
  Forall (fits N) (spinn5_local_eth_coord_steps x y w h rx ry).
Proof.
  intros N x y w h rx ry HN Hx Hy Hw Hh Hrx Hry. pose proof (pow_ge_128 N HN) as HP.
  unfold spinn5_local_eth_coord_steps.
  assert (Hu : 0 <= (x - rx) mod 12 < 12) by (apply Z.mod_pos_bound; lia).
  assert (Hv : 0 <= (y - ry) mod 12 < 12) by (apply Z.mod_pos_bound; lia).
  pose proof (table_offset_bounds _ _ Hu Hv) as Hb.
  destruct (SPINN5_ETH_OFFSET_at ((y - ry) mod 12) ((x - rx) mod 12)) as [ox oy]. cbn [fst snd] in Hb.
  set (P := 2 ^ (N - 1)) in *.
  assert (Hmx : 0 <= (x + ox) mod w < w) by (apply Z.mod_pos_bound; lia).
  assert (Hmy : 0 <= (y + oy) mod h < h) by (apply Z.mod_pos_bound; lia).
  repeat constructor; unfold fits; fold P; lia.
Qed.

(* ------------------------------------------------------------------ audit follow-up: the functions tied together *)
Theorem local_eth_in_eth_coords : forall x y w h rx ry e,
  board_eth (rx, ry) (x, y) e -> in_machine w h e ->
  spinn5_local_eth_coord x y w h rx ry = Ok e /\ In e (spinn5_eth_coords w h rx ry).
Proof.
  intros x y w h rx ry e He Hm. split; [apply local_eth_ragged; assumption|].
  apply (proj2 (eth_coords_exact w h rx ry)). split; [exact Hm | exact (proj1 He)].
Qed.

Theorem local_eth_in_eth_coords_torus : forall w h rx ry x y,
  full_torus w h -> in_machine w h (x, y) ->
  exists e, spinn5_local_eth_coord x y w h rx ry = Ok e /\ In e (spinn5_eth_coords w h rx ry).
Proof.
  intros w h rx ry x y Ht Hc.
  destruct (local_eth_is_board_eth_torus w h rx ry x y Ht Hc) as (e & He & Hm & Heth & _).
  exists e. split; [exact He|]. apply (proj2 (eth_coords_exact w h rx ry)). split; assumption.
Qed.

Lemma ex_eth_lists :
  spinn5_eth_coords 24 12 3 5 = [(3, 5); (7, 1); (11, 9); (15, 5); (19, 1); (23, 9)] /\
  spinn5_eth_coords 16 20 0 0 = [(0, 0); (4, 8); (8, 4); (0, 12); (8, 16); (12, 0); (12, 12)].
Proof. split; vm_compute; reflexivity. Qed.

(* a single board as an 8 x 8 machine: chip (5, 0) of the bounding box belongs to the board at (4, -4),
   which is not in the machine; the function answers wrap = (4, 4), which is not an Ethernet chip *)
Lemma ex_ragged_outside :
  in_machine 8 8 (5, 0) /\ board_eth (0, 0) (5, 0) (4, -4) /\ ~ in_machine 8 8 (4, -4) /\
  spinn5_local_eth_coord 5 0 8 8 0 0 = Ok (4, 4) /\ ~ is_eth (0, 0) (4, 4) /\
  ~ In (4, 4) (spinn5_eth_coords 8 8 0 0).
Proof.
  split; [unfold in_machine; cbn [fst snd]; lia|].
  split; [split; [exists 0, (-1), (4, 8); split; [right; left; reflexivity | cbn [fst snd]; lia]
                 | unfold on_board, board_shape; cbn [fst snd]; lia]|].
  split; [unfold in_machine; cbn [fst snd]; lia|].
  split; [reflexivity|].
  assert (Hne : ~ is_eth (0, 0) (4, 4)).
  { intros (i & j & d & Hd & Hx & Hy). apply In_eth_offsets in Hd. cbn [fst snd] in Hx, Hy.
    destruct Hd as [-> | [-> | ->]]; cbn [fst snd] in Hx, Hy; lia. }
  split; [exact Hne|]. intros Hin. apply (proj2 (eth_coords_exact 8 8 0 0)) in Hin. exact (Hne (proj2 Hin)).
Qed.
