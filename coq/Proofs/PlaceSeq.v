(* Soundness of the placers of the sequential family (sequential / breadth-first / Hilbert / RCM differ
   only in the vertex and chip orders handed to seq_place), of the random placer and of the annealer's
   initial placement: whatever they return is Feasible, for every vertex order that lists each vertex
   (at least) once, every chip order and every oracle. *)
From Coq Require Import ZArith List Bool Lia.
Require Import Rig.Model.Base Rig.Model.Place Rig.Spec.Place Rig.Proofs.Place Rig.Proofs.PlaceCore
        Rig.Proofs.PlaceMerge.
Import ListNotations.
Open Scope Z_scope.

Lemma wf_problem_machine : forall vr m cs, wf_problem vr m cs -> wf_machine m.
Proof.
  intros vr m cs W. destruct (wf_caps_nonneg _ _ _ W) as [C1 C2].
  constructor; [exact (wf_exc_nodup _ _ _ W) | exact C1 | exact C2].
Qed.

Lemma wf_problem_pwf : forall vr m cs, wf_problem vr m cs -> consistent cs -> pwf m vr cs.
Proof.
  intros vr m cs W Hc. constructor.
  - exact (wf_vr_nodup _ _ _ W).
  - exact (wf_demand_nodup _ _ _ W).
  - exact (wf_demand_nonneg _ _ _ W).
  - exact (wf_demand_known _ _ _ W).
  - exact (wf_constr_vertices _ _ _ W).
  - exact Hc.
Qed.

Lemma pwf_core : forall m vr cs, pwf m vr cs -> wf_core vr m.
Proof. intros m vr cs [P1 P2 P3 P4 P5 P6]. constructor; assumption. Qed.

Lemma consistent_agree : forall cs, consistent cs -> locs_agree cs.
Proof.
  intros cs [f [F1 _]] v c c' H1 H2. rewrite <- (F1 v c H1), <- (F1 v c' H2). reflexivity.
Qed.

(* what the merging phase guarantees to the rest of every placer *)
Lemma merged_problem : forall vr m cs vr1 cs1 subs,
  wf_problem vr m cs -> consistent cs ->
  apply_same_chip vr cs = Ok (vr1, cs1, subs) ->
  pwf m vr1 cs1 /\ Forall degenerate cs1
  /\ (forall vo vo', (forall v, In v (map fst vr) -> In v vo) -> subst_order subs vo = Ok vo' ->
                     forall v, In v (map fst vr1) -> In v vo')
  /\ (forall pl1, Feasible vr1 m cs1 pl1 ->
        exists pl, finalise (rev subs) pl1 = Ok pl /\ Feasible vr m cs pl).
Proof.
  intros vr m cs vr1 cs1 subs W Hc H. unfold apply_same_chip in H.
  assert (Hcur : [] ++ map (subst_c (fun v => v)) cs = cs) by (cbn [app]; apply subst_c_id).
  destruct (apply_sc_sound m cs (fun v => v) [] vr [] vr1 cs1 subs H) as [new [N1 [N2 [N3 [N4 N5]]]]].
  - rewrite Hcur. apply wf_problem_pwf; assumption.
  - rewrite Hcur. cbn [length]. split.
    + intros v Hv. apply (wf_vr_ids _ _ _ W) in Hv. lia.
    + intros k v Hk Hv. apply (wf_constr_vertices _ _ _ W k v Hk) in Hv. apply (wf_vr_ids _ _ _ W) in Hv. lia.
  - constructor.
  - cbn [app] in N1. subst new. rewrite Hcur in N5.
    split; [exact N2|]. split; [exact N3|]. split; [exact N4 | exact N5].
Qed.

Lemma feasible_empty : forall m cs,
  (forall k v, In k cs -> In v (constr_vertices k) -> False) -> Feasible [] m cs [].
Proof.
  intros m cs H. constructor.
  - constructor.
  - intros v. tauto.
  - intros v c Hz. discriminate.
  - intros c r _. rewrite load_nil. lia.
  - intros v c Hin. exfalso. apply (H (PCLocation v c) v Hin). left. reflexivity.
  - intros vs Hin. exists (0, 0). intros v Hv. exfalso. apply (H (PCSameChip vs) v Hin Hv).
Qed.

(* ---------------------------------------------------------------------------------------------- *)
(* sequential / breadth-first / Hilbert / RCM                                                       *)
(* ---------------------------------------------------------------------------------------------- *)
Theorem seq_place_sound : forall vr m cs vorder corder pl,
  wf_problem vr m cs -> consistent cs ->
  (forall vo, vorder = Some vo -> forall v, In v (map fst vr) -> In v vo) ->
  seq_place vr m cs vorder corder = Ok pl ->
  Feasible vr m cs pl.
Proof.
  intros vr m cs vorder corder pl W Hc Hvo H. unfold seq_place in H.
  destruct (length vr =? 0)%nat eqn:Elen.
  - apply Nat.eqb_eq in Elen. destruct vr; [|discriminate]. inversion H. subst pl.
    apply feasible_empty. intros k v Hk Hv. apply (wf_constr_vertices _ _ _ W k v Hk Hv).
  - destruct (apply_same_chip vr cs) as [[[vr1 cs1] subs]| | |] eqn:Ea; cbn [bind] in H; try discriminate.
    destruct (merged_problem vr m cs vr1 cs1 subs W Hc Ea) as [Hp [Hdeg [Hord Hfin]]].
    destruct (handle_cs vr1 cs1 m []) as [[m1 pl0]| | |] eqn:Eh; cbn [bind] in H; try discriminate.
    destruct (match vorder with Some vo => subst_order subs vo | None => Ok (map fst vr1) end)
      as [vo1| | |] eqn:Eo; cbn [bind] in H; try discriminate.
    destruct (filter (live m1) (match corder with Some co => co | None => raster m1 end))
      as [|c0 crest] eqn:Ef; [discriminate|].
    destruct (place_loop vr1 vo1 m1 pl0 c0 crest) as [pl1| | |] eqn:El; cbn [bind] in H; try discriminate.
    assert (Hlive : forall c, In c (c0 :: crest) -> live m1 c = true).
    { intros c Hin. rewrite <- Ef in Hin. apply filter_In in Hin. tauto. }
    assert (Hf1 : Feasible vr1 m cs1 pl1).
    { apply (seq_core_sound vr1 m cs1 vo1 m1 pl0 c0 crest pl1).
      - exact (pwf_core _ _ _ Hp).
      - exact (wf_problem_machine _ _ _ W).
      - exact (pwf_cv _ _ _ Hp).
      - apply consistent_agree. exact (pwf_consistent _ _ _ Hp).
      - exact Hdeg.
      - destruct vorder as [vo|].
        + apply (Hord vo vo1); [apply (Hvo vo eq_refl) | exact Eo].
        + inversion Eo. subst vo1. intros v Hv. exact Hv.
      - exact Eh.
      - apply Hlive. left. reflexivity.
      - intros c Hin. apply Hlive. right. exact Hin.
      - exact El. }
    destruct (Hfin pl1 Hf1) as [pl' [Hfe Hf]]. rewrite Hfe in H. inversion H. subst pl'. exact Hf.
Qed.
