_ETH = {"SPINN5_ETH_OFFSET": dict(coq="SPINN5_ETH_OFFSET_at", elem="Z2")}
_XY = {"x": "Z", "y": "Z"}
_ROOT = {"root_x": "Z", "root_y": "Z"}

UNITS = {
    # live tables: SPINN5_ETH_OFFSET (numpy 12x12x2), SPINN5_FPGA_LINKS (dict), Links enum, Links.to_vector
    "GenBoardTables": dict(props=["C19"], dumper="dump_c19.py"),
    # the two integer kernels that index the table (translated from the source text)
    "GenBoard": dict(
        props=["C19"],
        requires=["Rig.Generated.GenBoardTables"],
        functions=[
            dict(file="rig/geometry.py", name="spinn5_local_eth_coord", coq="spinn5_local_eth_coord_k",
                 params=dict(_XY, w="Z", h="Z", **_ROOT), ret="Z2",
                 defaults={"root_x": 0, "root_y": 0}, tables=_ETH),
            dict(file="rig/geometry.py", name="spinn5_chip_coord", coq="spinn5_chip_coord_k",
                 params=dict(_XY, **_ROOT), ret="Z2",
                 defaults={"root_x": 0, "root_y": 0}, tables=_ETH),
        ]),
}
