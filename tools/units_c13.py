UNITS = {
    # the cursor / clamping arithmetic of SlicedMemoryIO.read / write / seek / __getitem__ / __init__ / address /
    # __len__ and of MachineController.sdram_alloc_as_filelike, translated from the source text (ast, nothing
    # imported) through py2v's expression translator; the statement shapes around it (transfer THEN advance, the guard
    # decorators, close / __exit__, MemoryIO.__init__ / free / _perform_*) are checked literally; fails closed.
    # coq/Model/MemIO.v calls these definitions.
    "GenMemIO": dict(props=["C13"], dumper="dump_c13.py", args=[]),
}
