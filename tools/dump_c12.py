#!/usr/bin/env python3
"""GenRegions: the integer kernels of rig/machine_control/regions.py, translated from the SOURCE TEXT
(the module is never imported or run) with the expression translator of tools/py2v.py.

Emitted (every name below is used by Model/Regions.v, so the theorems are about the current text):
  get_region_for_chip x y level           the whole function (its default `level=3` is emitted as
                                          get_region_for_chip_default_level)
  tree_scale level, tree_shift level      RegionCoreTree.__init__ : self.scale, self.shift
  add_core_out_of_range x y p base_x base_y scale
                                          the test of the first `if` of add_core (raise ValueError)
  subregion_index x y shift               add_core : `subregion = int(...)` (the expression inside int())
  add_core_not_selected selected_p subregion
                                          add_core : the `elif not self.locally_selected[p] & (1 << subregion)`
  add_core_select selected_p subregion    add_core : `self.locally_selected[p] |= 1 << subregion`
  add_core_is_full selected_p level       add_core : `self.locally_selected[p] == 0xffff and self.level != 0`
  region_code base_x base_y level         get_regions_and_coremasks : `region_code = ...`
  child_order                             get_regions_and_coremasks : the generator expression giving
                                          the order in which the sixteen children are visited
  n_cores, n_children                     __init__ : range(18), [None] * 16

`self.<attr>` is read as the variable <attr>, `self.locally_selected[p]` as the variable selected_p.
Anything that does not have exactly the expected shape raises (fail closed): the unit is then
reported as a broken translation obligation.
"""
import ast
import os
import sys

sys.path.insert(0, os.path.dirname(os.path.abspath(__file__)))
import py2v  # noqa: E402

REPO = os.environ.get("RIG_REPO", "/repo")
FILE = "rig/machine_control/regions.py"


class Fn(py2v.Fn):
    """py2v's expression translator + `a ** b` (Z.pow; same meaning for b >= 0, which is the only case
    in which Python yields an int; the model only uses it with 4 - level >= 0)."""

    def expr(self, e):
        if isinstance(e, ast.BinOp) and isinstance(e.op, ast.Pow):
            return ("(Z.pow %s %s)" % (self.as_Z(e.left), self.as_Z(e.right)), "Z")
        return py2v.Fn.expr(self, e)


class SelfToNames(ast.NodeTransformer):
    ATTRS = {"base_x", "base_y", "scale", "shift", "level"}

    def visit_Subscript(self, node):
        if (isinstance(node.value, ast.Attribute) and isinstance(node.value.value, ast.Name)
                and node.value.value.id == "self" and node.value.attr == "locally_selected"
                and isinstance(node.slice, ast.Name) and node.slice.id == "p"):
            return ast.copy_location(ast.Name(id="selected_p", ctx=ast.Load()), node)
        return self.generic_visit(node)

    def visit_Attribute(self, node):
        if isinstance(node.value, ast.Name) and node.value.id == "self":
            if node.attr not in self.ATTRS:
                raise py2v.Unsupported("self.%s is not an integer attribute known to the model" % node.attr)
            return ast.copy_location(ast.Name(id=node.attr, ctx=ast.Load()), node)
        return self.generic_visit(node)


def names_of(e):
    return sorted({n.id for n in ast.walk(e) if isinstance(n, ast.Name)})


def emit_expr(coq, params, e, want_type, where):
    e = SelfToNames().visit(e)
    ast.fix_missing_locations(e)
    used = names_of(e)
    extra = [n for n in used if n not in params]
    if extra:
        raise py2v.Unsupported("%s: expression mentions %r, the model expects only %r" % (where, extra, params))
    missing = [n for n in params if n not in used]
    if missing:
        raise py2v.Unsupported("%s: expression no longer mentions %r" % (where, missing))
    f = Fn(None, dict(name=where), {})
    text, typ = f.expr(e)
    if typ != want_type:
        raise py2v.Unsupported("%s: expression has type %s, the model expects %s" % (where, typ, want_type))
    binders = " ".join("(%s : Z)" % py2v.ident(n) for n in params)
    return "(* %s : %s, line %d *)\nDefinition %s %s : %s :=\n  %s.\n" % (
        FILE, where, e.lineno, coq, binders, "Z" if typ == "Z" else "bool", text)


def only(items, what):
    items = list(items)
    if len(items) != 1:
        raise py2v.Unsupported("expected exactly one %s, found %d" % (what, len(items)))
    return items[0]


def is_self_attr(t, attr):
    return (isinstance(t, ast.Attribute) and isinstance(t.value, ast.Name) and t.value.id == "self"
            and t.attr == attr)


def is_doc(n):
    return isinstance(n, ast.Expr) and isinstance(n.value, ast.Constant) and isinstance(n.value.value, str)


def check_structure(tree):
    """The hand-written part of the model (control flow, the objects a call creates) assumes the structure
    checked here; in particular that nothing survives a call: no module-level or class-level state, no
    attribute of a node beyond the ones modelled, compress_flood_fill_regions builds a fresh tree."""
    for n in tree.body:
        if is_doc(n) or isinstance(n, (ast.Import, ast.ImportFrom, ast.FunctionDef)):
            continue
        if isinstance(n, ast.ClassDef) and n.name == "RegionCoreTree":
            continue
        raise py2v.Unsupported("module level: statement at line %d (`%s`) -- module-level state or a new class is "
                               "not part of the model" % (n.lineno, ast.unparse(n)[:60]))
    funcs = [n.name for n in tree.body if isinstance(n, ast.FunctionDef)]
    if funcs != ["get_region_for_chip", "compress_flood_fill_regions"]:
        raise py2v.Unsupported("module-level functions are %r" % funcs)
    cls = [n for n in tree.body if isinstance(n, ast.ClassDef)][0]
    if cls.decorator_list or [ast.unparse(b) for b in cls.bases] != ["object"] or cls.keywords:
        raise py2v.Unsupported("RegionCoreTree: bases/decorators changed")
    for n in cls.body:
        if not (is_doc(n) or isinstance(n, ast.FunctionDef)):
            raise py2v.Unsupported("RegionCoreTree: class-level statement at line %d (shared between instances)" % n.lineno)
    methods = [n.name for n in cls.body if isinstance(n, ast.FunctionDef)]
    if methods != ["__init__", "get_regions_and_coremasks", "add_core"]:
        raise py2v.Unsupported("RegionCoreTree: methods are %r, the model knows __init__, "
                               "get_regions_and_coremasks, add_core" % methods)
    known = {"base_x", "base_y", "scale", "shift", "level", "locally_selected", "subregions"}
    for f in cls.body:
        if not isinstance(f, ast.FunctionDef):
            continue
        if f.decorator_list:
            raise py2v.Unsupported("RegionCoreTree.%s is decorated" % f.name)
        for n in ast.walk(f):
            if isinstance(n, (ast.Global, ast.Nonlocal)):
                raise py2v.Unsupported("RegionCoreTree.%s: global/nonlocal" % f.name)
            if isinstance(n, ast.Attribute) and isinstance(n.value, ast.Name) and n.value.id == "self":
                if n.attr not in known | set(methods):
                    raise py2v.Unsupported("RegionCoreTree.%s: attribute self.%s is not modelled (line %d)"
                                           % (f.name, n.attr, n.lineno))
                if isinstance(n.ctx, ast.Store) and (f.name != "__init__" or n.attr not in known):
                    raise py2v.Unsupported("RegionCoreTree.%s: assigns self.%s (line %d)" % (f.name, n.attr, n.lineno))
    # compress_flood_fill_regions: a fresh tree per call, the two loops, sorted traversal
    comp = py2v.find_function(tree, "compress_flood_fill_regions")
    body = "\n".join(ast.unparse(n) for n in comp.body if not is_doc(n))
    want = ("t = RegionCoreTree()\n"
            "for ((x, y), cores) in iteritems(targets):\n"
            "    for p in cores:\n"
            "        t.add_core(x, y, p)\n"
            "return sorted(t.get_regions_and_coremasks())")
    if body.replace("for (x, y), cores in", "for ((x, y), cores) in") != want or [a.arg for a in comp.args.args] != ["targets"]:
        raise py2v.Unsupported("compress_flood_fill_regions: body is no longer\n%s\nbut\n%s" % (want, body))
    # add_core: the lazily created child (hand-modelled: float arithmetic) and the recursion
    add = py2v.find_function(tree, "RegionCoreTree.add_core")
    texts = {ast.unparse(n) for n in ast.walk(add) if isinstance(n, (ast.Assign, ast.If, ast.AugAssign, ast.Return, ast.Raise))}
    for t in ("base_x = int(self.base_x + self.scale / 4 * (subregion % 4))",
              "base_y = int(self.base_y + self.scale / 4 * (subregion // 4))",
              "self.subregions[subregion] = RegionCoreTree(base_x, base_y, self.level + 1)",
              "self.locally_selected[p] = 0",
              "if self.subregions[subregion].add_core(x, y, p):\n    self.locally_selected[p] |= 1 << subregion",
              "if self.subregions[subregion] is None:\n    base_x = int(self.base_x + self.scale / 4 * (subregion % 4))\n"
              "    base_y = int(self.base_y + self.scale / 4 * (subregion // 4))\n"
              "    self.subregions[subregion] = RegionCoreTree(base_x, base_y, self.level + 1)"):
        if t not in texts:
            raise py2v.Unsupported("add_core: statement no longer present:\n" + t)
    n_stmts = sum(1 for n in ast.walk(add) if isinstance(n, ast.stmt)) - 1
    if n_stmts != 17:
        raise py2v.Unsupported("add_core has %d statements, the model was written for 17" % n_stmts)
    get = py2v.find_function(tree, "RegionCoreTree.get_regions_and_coremasks")
    n_stmts = sum(1 for n in ast.walk(get) if isinstance(n, ast.stmt)) - 1
    if n_stmts != 14:
        raise py2v.Unsupported("get_regions_and_coremasks has %d statements, the model was written for 14" % n_stmts)


def main():
    with open(os.path.join(REPO, FILE)) as f:
        tree = ast.parse(f.read())
    out = ["(* GENERATED by tools/dump_c12.py (expression translator of tools/py2v.py) from the current "
           "source text of %s -- do not edit. *)" % FILE,
           "From Coq Require Import ZArith Bool List.", "Import ListNotations.", "Open Scope Z_scope.", ""]

    check_structure(tree)

    # ---- get_region_for_chip (whole function; the default of `level` is emitted separately)
    node = py2v.find_function(tree, "get_region_for_chip")
    if [a.arg for a in node.args.args] != ["x", "y", "level"] or len(node.args.defaults) != 1:
        raise py2v.Unsupported("get_region_for_chip: signature changed")
    d = node.args.defaults[0]
    if not (isinstance(d, ast.Constant) and isinstance(d.value, int) and not isinstance(d.value, bool)):
        raise py2v.Unsupported("get_region_for_chip: default of level is not an integer literal")
    node.args.defaults = []
    spec = dict(name="get_region_for_chip", coq="get_region_for_chip",
                params={"x": "Z", "y": "Z", "level": "Z"}, ret="Z")
    out.append("(* %s : get_region_for_chip, line %d *)" % (FILE, node.lineno))
    out.append(py2v.Fn(node, spec, {}).translate())
    out.append("Definition get_region_for_chip_default_level : Z := (%d).\n" % d.value)

    # ---- RegionCoreTree.__init__
    init = py2v.find_function(tree, "RegionCoreTree.__init__")
    if [a.arg for a in init.args.args] != ["self", "base_x", "base_y", "level"]:
        raise py2v.Unsupported("RegionCoreTree.__init__: signature changed")
    if [ast.dump(x) for x in init.args.defaults] != [ast.dump(ast.Constant(value=0))] * 3:
        raise py2v.Unsupported("RegionCoreTree.__init__: defaults are no longer base_x=0, base_y=0, level=0")
    assigns = [s for s in ast.walk(init) if isinstance(s, ast.Assign) and len(s.targets) == 1]
    for attr in ("base_x", "base_y", "level"):
        a = only([s for s in assigns if is_self_attr(s.targets[0], attr)], "assignment to self." + attr)
        if not (isinstance(a.value, ast.Name) and a.value.id == attr):
            raise py2v.Unsupported("__init__: self.%s is no longer the parameter %s" % (attr, attr))
    for attr, coq in (("scale", "tree_scale"), ("shift", "tree_shift")):
        a = only([s for s in assigns if is_self_attr(s.targets[0], attr)], "assignment to self." + attr)
        out.append(emit_expr(coq, ["level"], a.value, "Z", "RegionCoreTree.__init__ self." + attr))
    # array.array('H', (0x0 for _ in range(18)))  and  [None] * 16
    a = only([s for s in assigns if is_self_attr(s.targets[0], "locally_selected")],
             "assignment to self.locally_selected")
    want = "array.array('H', (0 for _ in range(N)))"
    v = a.value
    ok = (isinstance(v, ast.Call) and ast.unparse(v.func) == "array.array" and len(v.args) == 2
          and isinstance(v.args[0], ast.Constant) and v.args[0].value == "H"
          and isinstance(v.args[1], ast.GeneratorExp) and isinstance(v.args[1].elt, ast.Constant)
          and v.args[1].elt.value == 0 and len(v.args[1].generators) == 1
          and not v.args[1].generators[0].ifs
          and isinstance(v.args[1].generators[0].iter, ast.Call)
          and ast.unparse(v.args[1].generators[0].iter.func) == "range"
          and len(v.args[1].generators[0].iter.args) == 1
          and isinstance(v.args[1].generators[0].iter.args[0], ast.Constant)
          and isinstance(v.args[1].generators[0].iter.args[0].value, int))
    if not ok:
        raise py2v.Unsupported("__init__: self.locally_selected is no longer " + want)
    out.append("(* %s : RegionCoreTree.__init__ self.locally_selected, line %d *)" % (FILE, a.lineno))
    out.append("Definition n_cores : Z := (%d).\n" % v.args[1].generators[0].iter.args[0].value)
    a = only([s for s in assigns if is_self_attr(s.targets[0], "subregions")], "assignment to self.subregions")
    v = a.value
    ok = (isinstance(v, ast.BinOp) and isinstance(v.op, ast.Mult) and isinstance(v.left, ast.List)
          and len(v.left.elts) == 1 and isinstance(v.left.elts[0], ast.Constant)
          and v.left.elts[0].value is None and isinstance(v.right, ast.Constant)
          and isinstance(v.right.value, int))
    if not ok:
        raise py2v.Unsupported("__init__: self.subregions is no longer [None] * N")
    out.append("(* %s : RegionCoreTree.__init__ self.subregions, line %d *)" % (FILE, a.lineno))
    out.append("Definition n_children : Z := (%d).\n" % v.right.value)

    # ---- RegionCoreTree.add_core
    add = py2v.find_function(tree, "RegionCoreTree.add_core")
    if [a.arg for a in add.args.args] != ["self", "x", "y", "p"] or add.args.defaults:
        raise py2v.Unsupported("RegionCoreTree.add_core: signature changed")
    body = [s for s in add.body if not (isinstance(s, ast.Expr) and isinstance(s.value, ast.Constant))]
    first = body[0]
    if not (isinstance(first, ast.If) and len(first.body) == 1 and isinstance(first.body[0], ast.Raise)
            and not first.orelse and "ValueError" in ast.unparse(first.body[0])):
        raise py2v.Unsupported("add_core: the first statement is no longer `if <range check>: raise ValueError`")
    out.append(emit_expr("add_core_out_of_range", ["x", "y", "p", "base_x", "base_y", "scale"],
                         first.test, "bool", "RegionCoreTree.add_core range check"))
    sub = only([s for s in ast.walk(add) if isinstance(s, ast.Assign) and len(s.targets) == 1
                and isinstance(s.targets[0], ast.Name) and s.targets[0].id == "subregion"],
               "assignment to subregion")
    # `subregion = int(<integer expression>)` (fix 2baef63: the coordinates may be fixed-width numpy scalars; the
    # index is made a Python int before `1 << subregion`).  int() of an integer is the identity: the expression
    # inside is what is translated; without the wrapper the narrow-dtype defect is back, so it is required.
    v = sub.value
    if not (isinstance(v, ast.Call) and isinstance(v.func, ast.Name) and v.func.id == "int" and len(v.args) == 1
            and not v.keywords and not isinstance(v.args[0], ast.Starred)):
        raise py2v.Unsupported("add_core: `subregion = int(...)` expected, found `%s`" % ast.unparse(sub))
    out.append(emit_expr("subregion_index", ["x", "y", "shift"], v.args[0], "Z",
                         "RegionCoreTree.add_core subregion"))
    # if self.level == 3: ... elif not self.locally_selected[p] & (1 << subregion): ...
    branch = only([s for s in body if isinstance(s, ast.If) and ast.unparse(s.test) == "self.level == 3"],
                  "`if self.level == 3` in add_core")
    if not (len(branch.orelse) == 1 and isinstance(branch.orelse[0], ast.If) and not branch.orelse[0].orelse):
        raise py2v.Unsupported("add_core: `if self.level == 3` no longer has exactly one elif and no else")
    out.append(emit_expr("add_core_not_selected", ["selected_p", "subregion"], branch.orelse[0].test, "bool",
                         "RegionCoreTree.add_core elif"))
    augs = [s for s in ast.walk(add) if isinstance(s, ast.AugAssign)]
    if len(augs) != 2 or len({ast.dump(s.target) + ast.dump(s.op) + ast.dump(s.value) for s in augs}) != 1 \
            or ast.unparse(augs[0].target) != "self.locally_selected[p]":
        raise py2v.Unsupported("add_core: expected two identical `self.locally_selected[p] |= ...` statements")
    if not (len(branch.body) == 1 and branch.body[0] is augs[0]):
        raise py2v.Unsupported("add_core: the level-3 branch is no longer the single `|=` statement")
    fake = ast.BinOp(left=ast.Subscript(value=augs[0].target.value, slice=augs[0].target.slice, ctx=ast.Load()),
                     op=augs[0].op, right=augs[0].value)
    ast.copy_location(fake, augs[0])
    ast.fix_missing_locations(fake)
    out.append(emit_expr("add_core_select", ["selected_p", "subregion"], fake, "Z",
                         "RegionCoreTree.add_core |="))
    last = body[-1]
    if not (isinstance(last, ast.If) and len(last.orelse) == 1
            and ast.unparse(last.body[-1]) == "return True" and ast.unparse(last.orelse[0]) == "return False"
            and len(last.body) == 2 and ast.unparse(last.body[0]) == "self.locally_selected[p] = 0"):
        raise py2v.Unsupported("add_core: the final if/else no longer clears the selection and returns True/False")
    out.append(emit_expr("add_core_is_full", ["selected_p", "level"], last.test, "bool",
                         "RegionCoreTree.add_core final test"))

    # ---- RegionCoreTree.get_regions_and_coremasks
    get = py2v.find_function(tree, "RegionCoreTree.get_regions_and_coremasks")
    rc = only([s for s in ast.walk(get) if isinstance(s, ast.Assign) and len(s.targets) == 1
               and isinstance(s.targets[0], ast.Name) and s.targets[0].id == "region_code"],
              "assignment to region_code")
    out.append(emit_expr("region_code", ["base_x", "base_y", "level"], rc.value, "Z",
                         "RegionCoreTree.get_regions_and_coremasks region_code"))
    loop = only([s for s in ast.walk(get) if isinstance(s, ast.For) and isinstance(s.iter, ast.GeneratorExp)],
                "`for i in (<generator expression>)` in get_regions_and_coremasks")
    g = loop.iter
    for n in ast.walk(g):
        if isinstance(n, ast.Name) and n.id not in ("x", "y", "range"):
            raise py2v.Unsupported("child order: unexpected name %s" % n.id)
        if isinstance(n, ast.Call) and not (isinstance(n.func, ast.Name) and n.func.id == "range"):
            raise py2v.Unsupported("child order: unexpected call")
        if isinstance(n, (ast.Attribute, ast.Lambda, ast.Subscript, ast.Await, ast.Yield, ast.NamedExpr)):
            raise py2v.Unsupported("child order: unexpected construct")
        if isinstance(n, ast.Constant) and not (isinstance(n.value, int) and not isinstance(n.value, bool)):
            raise py2v.Unsupported("child order: unexpected constant")
    order = list(eval(compile(ast.Expression(body=g), "<child order>", "eval"), {"__builtins__": {}, "range": range}))
    if not all(isinstance(i, int) for i in order):
        raise py2v.Unsupported("child order: not a sequence of integers")
    out.append("(* %s : RegionCoreTree.get_regions_and_coremasks child order `%s`, line %d *)"
               % (FILE, ast.unparse(g), loop.lineno))
    out.append("Definition child_order : list Z :=\n  [%s].\n" % "; ".join("(%d)" % i for i in order))
    sys.stdout.write("\n".join(out))


if __name__ == "__main__":
    try:
        main()
    except py2v.Unsupported as e:
        sys.stderr.write("Unsupported: %s\n" % e)
        sys.stdout.write("Unsupported: %s\n" % e)
        sys.exit(2)
