(* C03 -- ner_net on a fault-free torus or mesh returns a valid tree (no sinks attached yet). *)
From Coq Require Import ZArith List Bool Lia.
Require Import Rig.Model.Base Rig.Model.Route Rig.Spec.Route Rig.Proofs.Route Rig.Proofs.RouteTree
        Rig.Proofs.RouteNer Rig.Proofs.RouteGeom.
Import ListNotations.
Open Scope Z_scope.

Lemma hops_parent_in_chips : forall t p r c, In (p, r, c) (tree_hops t) -> In p (chips t).
Proof.
  induction t as [v|c0 kids IH] using rtree_ind2; intros p r c H.
  - destruct H.
  - apply in_hops_node in H. destruct H as [k [Hk He]]. rewrite Forall_forall in IH.
    unfold hops_kid in He. destruct k as [rk sk]. cbn [fst snd] in He.
    destruct sk as [c1 ks1|v1]; [|destruct He].
    destruct He as [He|He].
    + inversion He; subst. simpl. left. reflexivity.
    + simpl. right. apply in_flat_map. exists (rk, RNode c1 ks1). split; [exact Hk|].
      apply (IH _ Hk p r c). exact He.
Qed.

Theorem ner_net_tree : forall m wrap src dests radius s,
    1 <= rm_w m -> 1 <= rm_h m -> fault_free m wrap ->
    in_range (rm_w m) (rm_h m) src -> Forall (in_range (rm_w m) (rm_h m)) dests -> stream_ok s ->
    exists t route,
      ner_net src dests (rm_w m) (rm_h m) wrap radius s = Ok (t, route)
      /\ root_chip t = Some src
      /\ NoDup (chips t)
      /\ (forall p r c, In (p, r, c) (tree_hops t) -> exists l, r = Some l /\ hop_ok m p l c)
      /\ (forall d, In d dests -> In d (chips t))
      /\ (forall x, In x (chips t) <-> In x route).
Proof.
  intros m wrap src dests radius s Hw Hh [Hdc Hdl] Hsrc Hd Hs. apply sok_stream_ok in Hs.
  set (w := rm_w m) in *. set (h := rm_h m) in *.
  destruct wrap.
  - destruct (ner_net_tree_gen (adjacent (perfect w h)) src dests w h true radius s sok
                               (geom_torus w h Hw Hh) Hsrc Hd Hs)
      as [t [route [E [Hroot [Hnd [Hhops [Hdest [Hroute [Hrange Hnl]]]]]]]]].
    exists t, route. split; [exact E|]. split; [exact Hroot|]. split; [exact Hnd|].
    split; [|split; [exact Hdest | exact Hroute]].
    intros p r c Hin. destruct (Hhops p r c Hin) as [l [Hr Hadj]]. exists l. split; [exact Hr|].
    pose proof (Hrange p (hops_parent_in_chips t p r c Hin)) as [Hpx Hpy].
    split.
    + split.
      * unfold working_chip. fold w h. rewrite Hdc. split; [exact Hpx|]. split; [exact Hpy|]. intros [].
      * rewrite Hdl. intros [].
    + destruct Hadj as [dx [dy [Hv Hc]]]. exists dx, dy. split; [exact Hv|]. exact Hc.
  - destruct (ner_net_tree_gen (mesh_adjacent w h) src dests w h false radius s sok
                               (geom_mesh w h Hw Hh) Hsrc Hd Hs)
      as [t [route [E [Hroot [Hnd [Hhops [Hdest [Hroute [Hrange Hnl]]]]]]]]].
    exists t, route. split; [exact E|]. split; [exact Hroot|]. split; [exact Hnd|].
    split; [|split; [exact Hdest | exact Hroute]].
    intros p r c Hin. destruct (Hhops p r c Hin) as [l [Hr [dx [dy [Hv [Hc Hcr]]]]]]. exists l.
    split; [exact Hr|].
    pose proof (Hrange p (hops_parent_in_chips t p r c Hin)) as [Hpx Hpy].
    split.
    + split.
      * unfold working_chip. fold w h. rewrite Hdc. split; [exact Hpx|]. split; [exact Hpy|]. intros [].
      * intros Hdead. destruct (Hdl p l Hdead) as [dx' [dy' [Hv' Hout]]].
        rewrite Hv in Hv'. inversion Hv'; subst dx' dy'. apply Hout. fold w h. rewrite <- Hc. exact Hcr.
    + exists dx, dy. split; [exact Hv|]. fold w h. rewrite Hc.
      destruct Hcr as [Hx Hy]. rewrite Hc in Hx, Hy. cbn [fst snd] in Hx, Hy.
      rewrite !Z.mod_small by lia. reflexivity.
Qed.

(* ---- the hypotheses are satisfiable and the conclusion is not vacuous *)
Definition ex_mesh : rmachine :=
  {| rm_w := 2; rm_h := 1; rm_dead_chips := [];
     rm_dead_links := [((0, 0), 1); ((0, 0), 2); ((0, 0), 3); ((0, 0), 4); ((0, 0), 5);
                       ((1, 0), 0); ((1, 0), 1); ((1, 0), 2); ((1, 0), 4); ((1, 0), 5)] |}.

Lemma ex_mesh_fault_free : fault_free ex_mesh false.
Proof.
  split; [reflexivity|]. intros p l H. simpl in H.
  repeat (destruct H as [H|H]; [inversion H; subst; unfold dir_vec; simpl;
                                eexists; eexists; (split; [reflexivity|]); unfold in_range; simpl; lia|]).
  destruct H.
Qed.

Lemma ex_ner_net :
  fault_free (perfect 3 2) true /\ stream_ok [0; 5; 7] /\
  ner_net (0, 0) [(2, 1); (0, 0); (2, 1)] 3 2 true 20 [0; 5; 7]
  = Ok (RNode (0, 0) [(Some 4, RNode (2, 1) [])], [(0, 0); (2, 1)]).
Proof.
  split; [split; reflexivity|]. split.
  - repeat constructor; lia.
  - vm_compute. reflexivity.
Qed.

Lemma ex_check_tree :
  check_tree (perfect 3 2) (0, 0) [(7, (2, 1), [Some 6; Some 7])]
             (RNode (0, 0) [(Some 4, RNode (2, 1) [(Some 6, RLeaf 7); (Some 7, RLeaf 7)])]) = true
  /\ check_tree (perfect 3 2) (0, 0) [(7, (2, 1), [Some 6])]
                (RNode (0, 0) [(Some 4, RNode (2, 1) [(Some 6, RLeaf 7)]);
                               (Some 4, RNode (2, 1) [(Some 6, RLeaf 7)])]) = false
  /\ check_connected ex_mesh = true
  /\ check_connected {| rm_w := 2; rm_h := 1; rm_dead_chips := [];
                        rm_dead_links := [((0, 0), 0); ((0, 0), 1); ((0, 0), 3); ((0, 0), 4)] |} = false.
Proof. repeat split; vm_compute; reflexivity. Qed.

(* ------------------------------------------------------------------------------------------------
   History (repaired in /repo by commit c75fe85): avoid_dead_links as found looked for the parent of a
   node crossed by the A* detour only among the nodes still below the orphaned root.  When the detour had
   already severed an ancestor of that node, the node kept its old parent and was attached a second time.
   Witness: 3 x 4 mesh with five further dead links, source (0, 3), sink (2, 0). *)
Definition ex_dup_machine : rmachine :=
  {| rm_w := 3; rm_h := 4; rm_dead_chips := [];
     rm_dead_links :=
       [((0, 0), 0); ((0, 0), 3); ((0, 0), 4); ((0, 0), 5); ((0, 1), 3); ((0, 1), 4); ((0, 1), 5);
        ((0, 2), 3); ((0, 2), 4); ((0, 3), 1); ((0, 3), 2); ((0, 3), 3); ((0, 3), 4); ((1, 0), 4);
        ((1, 0), 5); ((1, 1), 4); ((1, 3), 1); ((1, 3), 2); ((2, 0), 0); ((2, 0), 1); ((2, 0), 4);
        ((2, 0), 5); ((2, 1), 0); ((2, 1), 1); ((2, 2), 0); ((2, 2), 1); ((2, 3), 0); ((2, 3), 1);
        ((2, 3), 2)] |}.

Definition ex_dup_order : option (list (chip * chip)) :=
  Some [((0, 0), (1, 0)); ((0, 1), (0, 0))].

Definition occurrences (c : chip) (l : list chip) : nat := length (filter (chip_eqb c) l).

Lemma repair_duplicate_child_orig_refuted :
  exists t route f,
    (* the tree ner_net builds for this net: valid on the fault-free mesh *)
    ner_net (0, 3) [(0, 3); (2, 0)] 3 4 (has_wrap ex_dup_machine) 20 [0] = Ok (t, route)
    /\ check_connected ex_dup_machine = true
    (* the repair of the code as found returns a forest whose first tree lists chip (1, 0) twice *)
    /\ avoid_dead_links_orig t ex_dup_machine (has_wrap ex_dup_machine) ex_dup_order = Ok f
    /\ (2 <= occurrences (1, 0)%Z (forest_chips f))%nat
    (* the repaired code (c75fe85) returns a tree accepted by the validator *)
    /\ exists f', avoid_dead_links t ex_dup_machine (has_wrap ex_dup_machine) ex_dup_order = Ok f'
                  /\ match f' with
                     | t' :: _ => check_tree ex_dup_machine (0, 3) [] t' = true
                     | [] => False
                     end.
Proof.
  eexists. eexists. eexists. split; [vm_compute; reflexivity|].
  split; [vm_compute; reflexivity|].
  split; [vm_compute; reflexivity|].
  split; [vm_compute; lia|].
  eexists. split; [vm_compute; reflexivity|]. vm_compute. reflexivity.
Qed.
