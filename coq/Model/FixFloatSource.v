(* C16, tie T: the functions of rig/type_casts.py as extracted from the source text
   (Generated/GenFixFloat.v), run by the evaluator of Model/FixFloatSyntax.v.  Definitions only.
   Proofs/FixFloatSource.v shows each equal to the hand-written model function of Model/FixFloat.v. *)
From Coq Require Import ZArith List Bool String.
Require Import Rig.Model.Base Rig.Model.FixFloat Rig.Model.FixFloatSyntax Rig.Generated.GenFixFloat.
Import ListNotations.
Open Scope string_scope.
Open Scope Z_scope.

Definition fmt_env (signed : bool) (n_bits n_frac : Z) : env :=
  [("n_frac", VInt n_frac); ("n_bits", VInt n_bits); ("signed", VBool signed)].

(* validate_fp_params(signed, n_bits, n_frac), as called from the deprecated pair *)
Definition src_validate (a b c : value) : result value :=
  run_returning no_ext src_validate_fp_params [("n_frac", c); ("n_bits", b); ("signed", a)].

Definition src_float_to_fp (signed : bool) (n_bits n_frac : Z) (x : b64) : result Z :=
  bind (run_setup no_ext src_float_to_fp_setup (fmt_env signed n_bits n_frac)) (fun en =>
  as_int (run_returning no_ext src_float_to_fp_call (("value", VFlt x) :: en))).

Definition src_fp_to_float (n_frac : Z) (v : Z) : result b64 :=
  bind (run_setup no_ext src_fp_to_float_setup [("n_frac", VInt n_frac)]) (fun en =>
  as_float (run_returning no_ext src_fp_to_float_call (("value", VInt v) :: en))).

Definition src_float_to_fix (signed : bool) (n_bits n_frac : Z) (x : b64) : result Z :=
  bind (run_setup src_validate src_float_to_fix_setup (fmt_env signed n_bits n_frac)) (fun en =>
  as_int (run_returning src_validate src_float_to_fix_call (("value", VFlt x) :: en))).

Definition src_fix_to_float (signed : bool) (n_bits n_frac : Z) (w : Z) : result b64 :=
  bind (run_setup src_validate src_fix_to_float_setup (fmt_env signed n_bits n_frac)) (fun en =>
  as_float (run_returning src_validate src_fix_to_float_call (("value", VInt w) :: en))).

(* NumpyFloatToFixConverter(signed, n_bits, n_frac)(values), one element *)
Definition src_np_float_to_fix (signed : bool) (n_bits n_frac : Z) (x : b64) : result Z :=
  bind (run_setup no_ext src_np_float_to_fix_setup (fmt_env signed n_bits n_frac)) (fun en =>
  as_int (run_returning no_ext src_np_float_to_fix_call (("values", VFlt x) :: en))).

(* NumpyFixToFloatConverter(n_frac)(values), one element of an integer array *)
Definition src_np_fix_to_float (n_frac : Z) (v : Z) : result b64 :=
  bind (run_setup no_ext src_np_fix_to_float_setup [("n_frac", VInt n_frac)]) (fun en =>
  as_float (run_returning no_ext src_np_fix_to_float_call (("values", VInt v) :: en))).
