(* C17 -- library calls neither modify their arguments nor remember earlier calls.
   Part (a) of DESIGN 4 C17: explicit library state.  In Gallina a function cannot mutate its argument, so
   the property is made non-vacuous by modelling the state that DOES survive between calls of the Python
   library: the inventory of its carriers is regenerated from the source on every run
   (Generated/GenSharedState.v, tools/dump_c17.py) and must coincide with what the model accounts for.

   WHAT IS AND IS NOT A THEOREM HERE (C17 is partial by nature, see DESIGN 8.7):
   * theorems: the inventory of carriers equals the accounted list and every class is consistent with its write /
     escape counts; the one written carrier (the router's memo) is transparent for every history, instantiated with
     the function the router model calls; defaults used under the copying discipline are history-independent, and
     the aliasing discipline is refuted (the as-found boot() defect);
   * NOT theorems, decided by the differential runs of harness/c17.py only: that placement / allocation / routing /
     table generation / minimisation leave their ARGUMENTS unchanged (deep snapshots before / after every call); that
     a call after any history equals the same call made first in a fresh interpreter with the same seeded generator
     (random, family, reuse, wrapper, table, boot and controller histories); independence of bit-field definitions
     and of controllers created one after another; state carried on instances, identity-ordered sets and anything
     else the syntactic inventory cannot see.  The C02-C05, C08 models are pure functions of their inputs, so inside
     the models both clauses hold by construction -- which is exactly why they are not restated as theorems. *)
From Coq Require Import ZArith List String Bool.
Require Import Rig.Generated.GenSharedState Rig.Model.Base Rig.Model.Geometry Rig.Model.LibState Rig.Proofs.LibState.
Import ListNotations.
Open Scope Z_scope.

(* Every carrier of cross-call state present in rig/ today -- with its number of write sites and of
   unprotected escapes -- is one the model accounts for, and nothing else is.  A new module-level mutable,
   a new mutable default, a new write to a table or a default that starts to be written before being
   copied changes the generated list and breaks this theorem. *)
Theorem C17_inventory_accounted : carriers_eqb (map fst accounted) carriers = true.
Proof. vm_compute. reflexivity. Qed.

(* Each accounted carrier's class is consistent with its write/escape counts: only the memo and tables
   filled at import time are ever written, only forwarded defaults escape -- each exactly once, never written here
   (that their receivers copy is checked by the differential run, not by a theorem). *)
Theorem C17_classes_consistent : forallb class_consistent accounted = true.
Proof. exact accounted_consistent. Qed.

(* The memo (rig.place_and_route.route.ner._concentric_hexagons) never changes a result: after ANY history
   of earlier calls the memoised function returns what it returns from the initial (empty) state, for any
   underlying function f (in particular geometry.concentric_hexagons). *)
Theorem C17_memo_result_independent_of_history :
  forall (A : Type) (f : Z -> A) (history : list Z) (r : Z),
    fst (memo_call f (memo_after f history) r) = fst (memo_call f (memo_after f []) r).
Proof. exact @memo_transparent. Qed.

(* ... and what it returns is f r itself (the cache is invisible). *)
Theorem C17_memo_returns_f :
  forall (A : Type) (f : Z -> A) (history : list Z) (r : Z),
    fst (memo_call f (memo_after f history) r) = f r.
Proof. exact @memo_returns_f. Qed.

(* The memo as the router uses it: whatever radii were asked for before, radius r yields exactly
   geometry.concentric_hexagons r (0,0) -- the expression Model/Route.v evaluates directly, which is why the router
   model (C03) needs no memo state. *)
Theorem C17_ner_memo_transparent :
  forall (history : list Z) (r : Z),
    fst (ner_memo_call (memo_after (fun r => Rig.Model.Geometry.concentric_hexagons r (0, 0)) history) r)
    = Rig.Model.Geometry.concentric_hexagons r (0, 0).
Proof. exact ner_memo_transparent. Qed.

(* Mutable default arguments as heap cells.  A default with no write site and no escape in the inventory is used
   under the COPYING discipline: then no history of earlier calls (each with its own write and its own explicit or
   defaulted argument) changes the default object or the outcome of a later call ... *)
Theorem C17_copying_defaults_history_independent :
  forall (S : Type) (history : list ((S -> S) * option S)) (cell0 : S) (w : S -> S) (arg : option S),
    default_call Copies w (default_after Copies history cell0) arg = default_call Copies w cell0 arg
    /\ default_after Copies history cell0 = cell0.
Proof. intros; split; [apply copies_history_independent | apply default_after_copies]. Qed.

(* ... whereas a body that writes through the parameter (one write site: boot() as found, repaired by 0f4c024)
   makes a later call depend on an earlier one.  The inventory theorem above is what pins every default of the
   current source to the first discipline. *)
Theorem C17_aliasing_default_refuted :
  exists (history : list ((Z -> Z) * option Z)) (cell0 : Z) (w : Z -> Z),
    fst (default_call Aliases w (default_after Aliases history cell0) None)
    <> fst (default_call Aliases w cell0 None)
    /\ default_after Aliases history cell0 <> cell0.
Proof. exact aliases_history_dependent. Qed.

Theorem C17_explicit_argument_never_touches_default :
  forall (S : Type) (d : discipline) (w : S -> S) (cell a : S),
    snd (default_call d w cell (Some a)) = cell.
Proof. exact @explicit_argument_never_touches_default. Qed.

(* Non-vacuity: a non-empty history really populates the memo, and the inventory is not empty. *)
Example C17_memo_nonvacuous :
  memo_after (fun r => r * r) [3; 5; 3] = [(3, 9); (5, 25)] /\ carriers <> [].
Proof. split; [vm_compute; reflexivity | discriminate]. Qed.
