(* C09 -- Application loading returns only when every requested core is loaded.
   Property theorems only; each is closed by `exact` of a lemma of Proofs/Load*.v.

   The controller model (Model/Load.v, part 2: load_application, flood_fill_aplx = a fold of fill_one,
   send_signal, count_cores_in_state, the struct reads) calls the integer expressions of
   Generated/GenLoad.v, which are re-translated from the text of machine_controller.py on every run (the
   control flow the model mirrors by hand -- order of the packets of a fill, the retry loop, the count / per-core
   switch, the error's constructor and message -- is compared with the source, fail closed, by
   Generated/GenLoadShape.v, from which the model takes wait=True of the inner flood fill, the counted and the
   "loaded" state and the start signal), and
   the region model of C12 (Model/Regions.v) for the core select list; so these theorems are re-checked
   against the current packet fields, loop tests and counters of the code.  The machine (Model/Load.v,
   part 1) is the documented semantics of the commands; a chip that misses a flood fill ignores every
   packet of it, and WHICH chips miss the k-th fill is the k-th element of [m_sched], over which every
   theorem below is universally quantified, like over the initial state of every core.

   Notation: [named am] = the (binary, core) pairs of an application map; [holds bins m app st b c] =
   core c holds the complete binary b under app id app in state st; [core_at m c] = state of core c.

   NOT covered by a theorem (judged by the harness only: correspondence model = code, oracle on the code):
     * binaries whose length is not a multiple of 4 or that need more than 255 blocks (excluded by [binary_ok]):
       there the code's word count `len // 4 - 1` and 8-bit count / block fields overflow -- a trailing block
       shorter than a word cannot even be packed (struct.error; only the fact that such a packet is unpackable is
       proved, Proofs/LoadFuel.v ffd_empty_unpackable) -- and "holds the complete binary" is neither proved nor
       refuted for them;
     * buffer sizes that are not a multiple of 4 (the word count then drops up to 3 bytes per block);
     * the fidelity of the machine of Model/Load.v part 1 to SC&MP rests on the comparison with the Python
       simulator (trace validator), not on a theorem;
     * context resolution of app_id / wait (C18), sequence numbers and retransmission (C06), aliasing of the map
       objects and the kind of iterable holding the cores (the model is a function of the map's content). *)
From Coq Require Import ZArith List Bool Sorted.
Require Import Rig.Generated.GenLoad Rig.Model.Base Rig.Model.Regions Rig.Spec.Regions Rig.Model.Load Rig.Spec.Load.
Require Import Rig.Proofs.LoadMachine Rig.Proofs.LoadCtrl Rig.Proofs.LoadFill Rig.Proofs.LoadLoop
               Rig.Proofs.LoadWitness Rig.Proofs.LoadFuel Rig.Proofs.LoadTotal Rig.Proofs.Load Rig.Proofs.LoadTrace.
Import ListNotations.
Open Scope Z_scope.

(* ------------------------------------------------------------------------------------------------ *)
(* Each flood fill is well formed.  The guards are exactly those under which the packet fields of the
   code do not overflow: the binary is whole words and needs at most 255 blocks (the announced count
   `n_blocks << 8` and the block number are 8-bit fields; `size = len // 4 - 1` drops a trailing partial
   word and is negative, hence unpackable, for a block shorter than a word), the buffer size reported by
   the machine is a multiple of 4 in 4 .. 1024 (the word count is an 8-bit field), the controller's fill
   id is in 0 .. 126 (machine_wf, binary_ok, ctrl_wf of Spec/Load.v).

   The packets of one fill are: the start packet, the core select packets, the read of the load address,
   the data packets, the end packet ([ff_parts]: announced count = number of data packets; blocks numbered
   0, 1, 2, ..; each holds the words it announces, at most a buffer-full, at consecutive addresses from
   the load address; their concatenation is the binary; the end packet carries the start packet's id; the
   core select packets lie between start and end and their keys (region << 18) | mask increase
   strictly); the core select packets select exactly the requested cores; the id is the next one. *)
Theorem C09_ff_wellformed :
  forall c w aid flags data ts c' w',
    ctrl_wf c (w_m w) -> machine_wf (w_m w) -> binary_ok (m_buffer (w_m w)) data ->
    fill_one c w aid flags data ts = Ok (c', w') ->
    exists ffs sels rd ds ffe,
      sent w' = sent w ++ pre_of c ++ ([ffs] ++ sels ++ [rd] ++ ds ++ [ffe])
      /\ ff_parts (m_buffer (w_m w)) (m_base (w_m w)) data ffs sels rd ds ffe
      /\ (forall x y p, sels_select sels (x, y, p) = requested (cores_of_targets ts) x y p)
      /\ field (q_a1 ffs) 16 8 = nn_id_wire (next_nn_id (c_nn c)).
Proof. exact fill_one_wellformed. Qed.

(* flood_fill_aplx of a whole map (what every attempt of load_application sends): one such fill per
   entry, in map order, each selecting exactly the cores of its entry. *)
Theorem C09_flood_fill_map :
  forall bins am aid wait c w c' w',
    ctrl_wf c (w_m w) -> machine_wf (w_m w) -> bins_ok (m_buffer (w_m w)) bins -> 0 <= aid < 256 ->
    flood_fill_aplx bins c w am aid wait = Ok (c', w') ->
    exists ps, sent w' = sent w ++ ps /\ fills_ok (m_buffer (w_m w)) (m_base (w_m w)) bins am ps.
Proof. exact flood_fill_aplx_fills. Qed.

(* What a well formed fill means for the machine -- for ANY packet list of that shape, not only the
   controller's: on every chip that does not miss the fill exactly the selected cores receive the
   reassembled image under the end packet's app id (waiting iff the wait flag is set); no other core
   changes; one element of the schedule is consumed. *)
Theorem C09_wellformed_fill_loads_selected :
  forall m data ps ffs sels rd ds ffe,
    ps = [ffs] ++ sels ++ [rd] ++ ds ++ [ffe] ->
    Forall bcast ps ->
    is_nn NN_FFS ffs -> Forall (is_nn NN_FFCS) sels -> is_read rd -> is_nn NN_FFE ffe ->
    field (q_a1 ffs) 8 8 = zlen ds ->
    blocks_ok (m_buffer m) (field (q_a1 ffs) 16 8) 0 (m_base m) ds ->
    concat (map q_data ds) = data ->
    field (q_a1 ffe) 0 8 = field (q_a1 ffs) 16 8 ->
    hd_error (m_chips m) <> None ->
    let m' := fst (replay m ps) in
    m_sched m' = tl (m_sched m) /\ m_buffer m' = m_buffer m /\ m_base m' = m_base m /\ m_vcpu m' = m_vcpu m
    /\ map fst (m_chips m') = map fst (m_chips m)
    /\ forall x y p,
         core_at m' (x, y, p) =
         option_map (fun old => if negb (chip_mem (x, y) (hd [] (m_sched m))) && sels_select sels (x, y, p)
                                then fill_core ffe data else old)
                    (core_at m (x, y, p)).
Proof. exact replay_fill. Qed.

(* The fill id: 1 .. 126 in turn (sent doubled: an even byte 2 .. 252), the same id again only after 126
   fills, never twice in a row; a new controller's first fill has id 1; flood-filling a map advances it
   once per binary. *)
Theorem C09_nn_id_cycle :
  forall v, 1 <= v <= 126 ->
    (forall k, 1 <= nn_iter k v <= 126 /\ 2 <= nn_id_wire (nn_iter k v) <= 252
               /\ nn_id_wire (nn_iter k v) mod 2 = 0)
    /\ (forall k, nn_iter k v = v <-> (Z.of_nat k) mod 126 = 0)
    /\ next_nn_id v <> v
    /\ next_nn_id nn_id_init = 1.
Proof. exact nn_id_cycle. Qed.

Theorem C09_nn_id_per_binary :
  forall bins am aid wait c w c' w',
    ctrl_wf c (w_m w) -> machine_wf (w_m w) -> bins_ok (m_buffer (w_m w)) bins -> 0 <= aid < 256 ->
    flood_fill_aplx bins c w am aid wait = Ok (c', w') ->
    c_nn c' = nn_iter (length am) (c_nn c).
Proof. exact flood_fill_aplx_nn. Qed.

(* ------------------------------------------------------------------------------------------------ *)
(* load_application, both verification modes, whichever chips miss whichever fills (m_sched arbitrary),
   whatever the cores hold before -- except for the two refuted regions, which these guards exclude (they are
   sufficient, not the weakest possible: no_requested_waiting also excludes a requested core that waits under
   ANOTHER app id or whose chip does hear the fill, cases in which the code may still behave correctly; the
   refutation theorems below show that neither guard can simply be dropped):
     no_requested_waiting   no requested core is in `wait` before the call (both modes: the per-core
                            check reads cpu_state only);
     no_other_waiting       count mode only: no core that is not requested waits under the app id.
   The other guards say that the call is in the code's domain (machine_wf, ctrl_wf, bins_ok as above;
   map_wf: every core is named for at most one binary, lies in the 256 x 256 x 18 space and not on the
   broadcast address (255, 255); the app id is a byte).

   Normal return  =>  every requested core holds the complete binary named for it under the app id, in
   `wait` when wait was asked, else started (`run`); every core that was not requested holds what it held
   (image, app id), its state changed only by the start signal (wait -> run under this app id).
   Otherwise SpiNNakerLoadingError whose map names exactly the requested cores that do not hold their
   binary, nothing else having changed; there were at most n_tries + 1 attempts; each attempt (in
   particular each retry) was addressed to exactly the requested cores that did not hold their binary at
   that moment ([att_ok], Spec/Load.v; C09_load_packets_per_attempt ties these attempts to the packets sent). *)
Theorem C09_load_returns_iff_loaded :
  forall bins c w am a c' w' out atts,
    machine_wf (w_m w) -> ctrl_wf c (w_m w) -> map_wf am -> bins_ok (m_buffer (w_m w)) bins ->
    0 <= a_app a < 256 ->
    no_requested_waiting (w_m w) am ->
    (a_count a = true -> no_other_waiting (w_m w) am (a_app a)) ->
    load_application bins c w am a = Ok (c', w', out, atts) ->
    match out with
    | Returned =>
        (forall b c0, In (b, c0) (named am) ->
           holds bins (w_m w') (a_app a) (if a_wait a then STATE_WAIT else STATE_RUN) b c0)
        /\ (forall c0, ~ In c0 (map snd (named am)) ->
              core_at (w_m w') c0 =
              option_map (fun s => if a_wait a then s else start_core 255 (a_app a) s) (core_at (w_m w) c0))
    | LoadingError unl =>
        incl (named unl) (named am)
        /\ (forall b c0, In (b, c0) (named am) ->
              (In (b, c0) (named unl) <-> ~ holds bins (w_m w') (a_app a) STATE_WAIT b c0))
        /\ (forall c0, ~ In c0 (map snd (named am)) -> core_at (w_m w') c0 = core_at (w_m w) c0)
    end
    /\ Z.of_nat (length atts) <= Z.max 0 (a_tries a + 1)
    /\ Forall (att_ok bins (a_app a) am) atts.
Proof. exact load_application_spec. Qed.

(* "... a bounded number of attempts that re-send only to the cores still missing": the packets the call sends
   are, attempt by attempt of [atts] (which the theorem above characterises as addressed to exactly the cores
   missing at that moment), one flood fill of the attempt's map -- [fills_ok]: one well formed fill per entry,
   selecting exactly the entry's cores -- followed only by packets that are not flood-fill packets (count,
   per-core reads); after the last attempt only the start signal ([attempts_ok], Spec/Load.v). *)
Theorem C09_load_packets_per_attempt :
  forall bins c w am a c' w' out atts,
    machine_wf (w_m w) -> ctrl_wf c (w_m w) -> map_wf am -> bins_ok (m_buffer (w_m w)) bins ->
    0 <= a_app a < 256 ->
    no_requested_waiting (w_m w) am ->
    (a_count a = true -> no_other_waiting (w_m w) am (a_app a)) ->
    load_application bins c w am a = Ok (c', w', out, atts) ->
    exists ps, sent w' = sent w ++ ps
               /\ attempts_ok (m_buffer (w_m w)) (m_base (w_m w)) bins atts ps.
Proof. exact load_application_packets. Qed.

(* The content of the error.  SpiNNakerLoadingError(unloaded) keeps the map as .app_map and its message lists
   "(x, y, p)" for every core of every chip of every binary of that map ([error_cores]; the shape of __init__ /
   __str__ is re-read from the source on every run, Generated/GenLoadShape.v): the cores the message lists
   are exactly the requested cores that do not hold their binary, each listed once. *)
Theorem C09_error_names_exactly_unloaded :
  forall bins c w am a c' w' unl atts,
    machine_wf (w_m w) -> ctrl_wf c (w_m w) -> map_wf am -> bins_ok (m_buffer (w_m w)) bins ->
    0 <= a_app a < 256 ->
    no_requested_waiting (w_m w) am ->
    (a_count a = true -> no_other_waiting (w_m w) am (a_app a)) ->
    load_application bins c w am a = Ok (c', w', LoadingError unl, atts) ->
    NoDup (error_cores unl)
    /\ forall c0, In c0 (error_cores unl) <->
                  exists b, In (b, c0) (named am) /\ ~ holds bins (w_m w') (a_app a) STATE_WAIT b c0.
Proof. exact load_error_names_unloaded. Qed.

(* The bare entry point flood_fill_aplx(map, app_id, wait) ("unreliable" loading, no verification): besides
   sending one well formed fill per entry that selects exactly the entry's cores (C09_flood_fill_map, composed
   from C12's exactness theorem for compress_flood_fill_regions), its effect on the machine is: every named
   core is as before (its chip missed the fill of its binary) or holds its binary under the app id, waiting
   iff wait was asked, else running; no other core changes. *)
Theorem C09_flood_fill_effect :
  forall bins aid wait am c w c' w',
    ctrl_wf c (w_m w) -> machine_wf (w_m w) -> bins_ok (m_buffer (w_m w)) bins -> 0 <= aid < 256 ->
    NoDup (map snd (named am)) ->
    flood_fill_aplx bins c w am aid wait = Ok (c', w') ->
    (forall b c0, In (b, c0) (named am) ->
       core_at (w_m w') c0 = core_at (w_m w) c0 \/
       (core_at (w_m w) c0 <> None /\
        holds bins (w_m w') aid (if wait then STATE_WAIT else STATE_RUN) b c0))
    /\ (forall c0, ~ In c0 (map snd (named am)) -> core_at (w_m w') c0 = core_at (w_m w) c0).
Proof. exact flood_fill_aplx_effect. Qed.

(* use_count = False: the guard about other cores is not needed. *)
Theorem C09_load_state_mode :
  forall bins c w am a c' w' out atts,
    machine_wf (w_m w) -> ctrl_wf c (w_m w) -> map_wf am -> bins_ok (m_buffer (w_m w)) bins ->
    0 <= a_app a < 256 -> no_requested_waiting (w_m w) am -> a_count a = false ->
    load_application bins c w am a = Ok (c', w', out, atts) ->
    match out with
    | Returned =>
        (forall b c0, In (b, c0) (named am) ->
           holds bins (w_m w') (a_app a) (if a_wait a then STATE_WAIT else STATE_RUN) b c0)
        /\ (forall c0, ~ In c0 (map snd (named am)) ->
              core_at (w_m w') c0 =
              option_map (fun s => if a_wait a then s else start_core 255 (a_app a) s) (core_at (w_m w) c0))
    | LoadingError unl =>
        incl (named unl) (named am)
        /\ (forall b c0, In (b, c0) (named am) ->
              (In (b, c0) (named unl) <-> ~ holds bins (w_m w') (a_app a) STATE_WAIT b c0))
        /\ (forall c0, ~ In c0 (map snd (named am)) -> core_at (w_m w') c0 = core_at (w_m w) c0)
    end
    /\ Z.of_nat (length atts) <= Z.max 0 (a_tries a + 1)
    /\ Forall (att_ok bins (a_app a) am) atts.
Proof. exact load_state_mode. Qed.

(* The count that the fast path compares: if no other core waits under the app id and every named core
   either holds its binary or is not waiting at all, "as many cores wait under the app id as are named"
   means that every named core is loaded. *)
Theorem C09_count_means_all_loaded :
  forall bins m am aid,
    machine_wf m -> 0 <= aid < 256 -> NoDup (map snd (named am)) ->
    (forall b c, In (b, c) (named am) -> ~ in_wait m c \/ holds bins m aid STATE_WAIT b c) ->
    (forall c s, ~ In c (map snd (named am)) -> core_at m c = Some s ->
                 ~ (cs_state s = STATE_WAIT /\ cs_app s = aid)) ->
    core_count am = count_state STATE_WAIT 255 aid (m_chips m) ->
    forall b c, In (b, c) (named am) -> holds bins m aid STATE_WAIT b c.
Proof. exact Rig.Proofs.LoadCount.count_means_all_loaded. Qed.

(* R: without no_other_waiting the clause is false in count mode (the default): one core waiting under the
   same app id from an earlier load + one requested core whose chip misses the fill => the call returns
   normally although that core is not loaded (every other guard holds).  Replayed on the real code by
   the check on every run (known finding count-mode-stale-waiting-core). *)
Theorem C09_load_count_mode_refuted :
  exists bins c w am a c' w' atts b core,
    machine_wf (w_m w) /\ ctrl_wf c (w_m w) /\ map_wf am /\ bins_ok (m_buffer (w_m w)) bins
    /\ 0 <= a_app a < 256 /\ no_requested_waiting (w_m w) am /\ a_count a = true
    /\ load_application bins c w am a = Ok (c', w', Returned, atts)
    /\ In (b, core) (named am)
    /\ ~ holds bins (w_m w') (a_app a) (if a_wait a then STATE_WAIT else STATE_RUN) b core.
Proof. exact load_count_mode_refuted. Qed.

(* R: without no_requested_waiting the clause is false also with use_count = False: a requested core that
   still waits from an earlier load and whose chip misses every fill is taken for loaded (known finding
   requested-core-already-waiting; replayed on the real code on every run). *)
Theorem C09_load_requested_waiting_refuted :
  exists bins c w am a c' w' atts b core,
    machine_wf (w_m w) /\ ctrl_wf c (w_m w) /\ map_wf am /\ bins_ok (m_buffer (w_m w)) bins
    /\ 0 <= a_app a < 256 /\ a_count a = false
    /\ load_application bins c w am a = Ok (c', w', Returned, atts)
    /\ In (b, core) (named am)
    /\ ~ holds bins (w_m w') (a_app a) (if a_wait a then STATE_WAIT else STATE_RUN) b core.
Proof. exact load_requested_waiting_refuted. Qed.

(* "... otherwise it raises the loading error": under the guards the call raises nothing else -- the model
   answers Ok (Returned or LoadingError), never OtherError -- provided the machine can be talked to
   (machine_answers: it has a chip, the vcpu blocks lie in the 32-bit address space, every core is in a
   state that rig's AppState knows) and the map can be served (map_present: the files exist and fit the
   address space at the load address, the requested chips exist).  Together with
   C09_load_returns_iff_loaded this is the property at full strength outside the two refuted regions. *)
Theorem C09_load_raises_only_loading_error :
  forall bins c w am a,
    machine_wf (w_m w) -> ctrl_wf c (w_m w) -> map_wf am -> bins_ok (m_buffer (w_m w)) bins ->
    0 <= a_app a < 256 -> machine_answers (w_m w) -> map_present bins (w_m w) am ->
    exists c' w' out atts, load_application bins c w am a = Ok (c', w', out, atts).
Proof. exact load_application_total. Qed.

(* The model's loop bounds are never reached, for any input: the fuel is not a hidden restriction and
   the three loops of the code terminate. *)
Theorem C09_load_never_out_of_fuel :
  forall bins c w am a, load_application bins c w am a <> OutOfFuel.
Proof. exact load_application_fuel. Qed.

(* ------------------------------------------------------------------------------------------------ *)
(* Non-vacuity.  A fresh two-chip machine on which chip (1, 0) misses the first fill satisfies every
   hypothesis of C09_load_returns_iff_loaded in count mode; the call retries once and returns with core
   (1, 0, 3) running its binary. *)
Example C09_hypotheses_satisfiable :
  machine_wf fresh_machine /\ ctrl_wf ctrl_init fresh_machine /\ map_wf k3_map
  /\ bins_ok (m_buffer fresh_machine) ex_bins /\ 0 <= 30 < 256
  /\ no_requested_waiting fresh_machine k3_map
  /\ no_other_waiting fresh_machine k3_map 30
  /\ exists c' w' atts,
       load_application ex_bins ctrl_init (mkWorld fresh_machine []) k3_map (default_args 30)
       = Ok (c', w', Returned, atts)
       /\ length atts = 2%nat
       /\ core_at (w_m w') (1, 0, 3) = Some (mkCore STATE_RUN 30 ex_bin1).
Proof. exact fresh_example. Qed.

(* Several binaries, several blocks: a 40-byte binary (two full 16-byte blocks and a short last block of 8 bytes)
   on two chips and a one-block binary on two cores of chip (1, 0), which misses the first fill of the second
   binary: every guard holds, 3 blocks are announced for the first binary, the second attempt is addressed to the
   second binary's cores only, five data packets are sent in all, and both binaries end up running. *)
Example C09_two_binaries_multi_block :
  machine_wf two_machine /\ ctrl_wf ctrl_init two_machine /\ map_wf two_map
  /\ bins_ok (m_buffer two_machine) two_bins /\ no_requested_waiting two_machine two_map
  /\ ff_n_blocks (zlen ex_bin40) (m_buffer two_machine) = 3
  /\ exists c' w' atts,
       load_application two_bins ctrl_init (mkWorld two_machine []) two_map (state_args 30)
       = Ok (c', w', Returned, atts)
       /\ map fst atts = [two_map; [(1, [((1, 0), [2; 3])])]]
       /\ core_at (w_m w') (1, 0, 5) = Some (mkCore STATE_RUN 30 ex_bin40)
       /\ core_at (w_m w') (1, 0, 3) = Some (mkCore STATE_RUN 30 ex_bin1)
       /\ length (filter (fun q => q_cmd q =? CMD_FFD) (sent w')) = 5%nat.
Proof. exact two_binaries_example. Qed.

Example C09_total_guards_satisfiable :
  machine_answers fresh_machine /\ map_present ex_bins fresh_machine k3_map.
Proof. exact fresh_answers. Qed.

(* The error branch is reachable: chip (1, 0) misses every fill; after n_tries + 1 = 3 attempts the error
   names exactly core (1, 0, 3). *)
Example C09_error_branch_reachable :
  machine_wf deaf_machine /\ no_requested_waiting deaf_machine k3_map
  /\ exists c' w' atts,
       load_application ex_bins ctrl_init (mkWorld deaf_machine []) k3_map (state_args 30)
       = Ok (c', w', LoadingError [(1, [((1, 0), [3])])], atts)
       /\ length atts = 3%nat.
Proof. exact deaf_example. Qed.
