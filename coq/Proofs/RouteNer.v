(* C03 -- the loop of ner_net preserves "tree rooted at the source, no chip twice, every edge follows its
   label, node set = dict keys", given that every longest-dimension-first path it is handed is a
   self-avoiding labelled walk to the destination (the geometric part, Proofs/RouteGeom.v). *)
From Coq Require Import ZArith List Bool Lia.
Require Import Rig.Model.Base Rig.Generated.GenGeometryLinks Rig.Generated.GenGeometry Rig.Model.Geometry
        Rig.Model.Route Rig.Spec.Route Rig.Proofs.Route Rig.Proofs.RouteTree.
Import ListNotations.
Open Scope Z_scope.

(* a labelled walk: every step goes from the previous chip over the labelled link *)
Definition step_rel := chip -> Z -> chip -> Prop.

Fixpoint walk (R : step_rel) (p : chip) (path : list (Z * chip)) : Prop :=
  match path with
  | [] => True
  | (d, c) :: rest => R p d c /\ walk R c rest
  end.

Definition good_path (R : step_rel) (w h : Z) (nb dest : chip) (path : list (Z * chip)) : Prop :=
  walk R nb path /\ NoDup (map snd path) /\ (forall q, In q (map snd path) -> in_range w h q)
  /\ last (map snd path) nb = dest.

Record inv (R : step_rel) (src : chip) (w h : Z) (route : list chip) (t : rtree) : Prop := {
  inv_root : root_chip t = Some src;
  inv_nodup : NoDup (chips t);
  inv_route : forall x, In x (chips t) <-> In x route;
  inv_hops : forall p r c, In (p, r, c) (tree_hops t) -> exists l, r = Some l /\ R p l c;
  inv_range : forall x, In x route -> in_range w h x;
  inv_noleaves : forall e, ~ In e (tree_leaves t) }.

Lemma occ_single : forall x c, occ x (RNode c []) = if chip_eq_dec c x then 1%nat else 0%nat.
Proof. intros x c. rewrite occ_node. simpl. lia. Qed.

Lemma inv_attach : forall (R : step_rel) src w h route t last d c,
    inv R src w h route t -> In last route -> ~ In c route -> in_range w h c ->
    R last d c ->
    inv R src w h (dict_add c route) (attach last (Some d, RNode c []) t).
Proof.
  intros R src w h route t last d c I Hlast Hc Hr Hadj.
  destruct I as [Iroot Ind Iroute Ihops Irange Inl].
  assert (Hocc : forall x, occ x (attach last (Some d, RNode c []) t) =
                           (occ x t + (if chip_eq_dec c x then 1 else 0))%nat).
  { intros x. rewrite occ_attach. simpl snd. rewrite occ_single.
    assert (H1 : occ last t = 1%nat).
    { pose proof (proj1 (nodup_occ t) Ind last). pose proof (proj1 (occ_in last t) (proj2 (Iroute last) Hlast)). lia. }
    rewrite H1. lia. }
  assert (Hc0 : occ c t = 0%nat).
  { destruct (occ c t) eqn:E; [reflexivity|]. exfalso. apply Hc. apply Iroute. apply occ_in. lia. }
  constructor.
  - rewrite root_chip_attach. exact Iroot.
  - apply nodup_occ. intros x. rewrite Hocc. destruct (chip_eq_dec c x) as [E|E].
    + subst x. rewrite Hc0. lia.
    + pose proof (proj1 (nodup_occ t) Ind x). lia.
  - intros x. rewrite dict_add_in, occ_in, Hocc, <- Iroute, occ_in.
    destruct (chip_eq_dec c x) as [E|E]; split; intros H.
    + right. symmetry. exact E.
    + lia.
    + left. lia.
    + destruct H as [H|H]; [lia | congruence].
  - intros p r c1 Hin. apply hops_attach_leafnode in Hin. destruct Hin as [Hin|Hin].
    + apply Ihops. exact Hin.
    + inversion Hin; subst. exists d. split; [reflexivity | exact Hadj].
  - intros x Hx. apply dict_add_in in Hx. destruct Hx as [Hx|Hx]; [apply Irange; exact Hx | subst; exact Hr].
  - intros e He. apply leaves_attach_node in He. exact (Inl e He).
Qed.

Lemma attach_chain_inv : forall (R : step_rel) src w h path last route t,
    inv R src w h route t -> In last route -> NoDup (map snd path) ->
    (forall q, In q (map snd path) -> ~ In q route) ->
    (forall q, In q (map snd path) -> in_range w h q) ->
    walk R last path ->
    inv R src w h (fst (attach_chain last path route t)) (snd (attach_chain last path route t)) /\
    (forall x, In x (fst (attach_chain last path route t)) <-> In x route \/ In x (map snd path)).
Proof.
  intros R src w h path. induction path as [|[d c] path IH]; intros last route t I Hlast Hnd Hdis Hrng Hw.
  - simpl. split; [exact I|]. intros x. tauto.
  - simpl attach_chain. simpl in Hnd, Hw. destruct Hw as [Hadj Hw]. inversion Hnd as [|? ? Hnc Hnd']; subst.
    assert (I' : inv R src w h (dict_add c route) (attach last (Some d, RNode c []) t)).
    { apply inv_attach; auto.
      - apply Hdis. simpl. left. reflexivity.
      - apply Hrng. simpl. left. reflexivity. }
    destruct (IH c (dict_add c route) (attach last (Some d, RNode c []) t) I') as [I2 H2]; auto.
    + apply dict_add_in. right. reflexivity.
    + intros q Hq Hin. apply dict_add_in in Hin. destruct Hin as [Hin|Hin].
      * apply (Hdis q); [simpl; right; exact Hq | exact Hin].
      * subst. contradiction.
    + intros q Hq. apply Hrng. simpl. right. exact Hq.
    + split; [exact I2|]. intros x. rewrite H2, dict_add_in. simpl. intuition.
Qed.

Lemma nodup_app_r : forall (l1 l2 : list chip), NoDup (l1 ++ l2) -> NoDup l2.
Proof.
  induction l1 as [|a l1 IH]; intros l2 H; simpl in H; [exact H|].
  inversion H; subst. apply IH. assumption.
Qed.

Lemma walk_suffix : forall (R : step_rel) pre p d c rest,
    walk R p (pre ++ (d, c) :: rest) -> walk R c rest.
Proof.
  intros R pre. induction pre as [|[d0 c0] pre IH]; intros p d c rest H; simpl in H.
  - destruct H as [_ H]. exact H.
  - destruct H as [_ H]. eapply IH. exact H.
Qed.

Lemma last_app_cons : forall (pre rest : list chip) c nb, last (pre ++ c :: rest) nb = last rest c.
Proof.
  intros pre. induction pre as [|a pre IH]; intros rest c nb; simpl.
  - destruct rest as [|b rest]; [reflexivity|]. revert b c. induction rest as [|b' rest IHr]; intros b c; simpl; [reflexivity|].
    apply IHr.
  - destruct (pre ++ c :: rest) eqn:E; [destruct pre; discriminate|]. rewrite <- E. apply IH.
Qed.

Lemma last_in : forall (l : list chip) d, l <> [] -> In (last l d) l.
Proof.
  induction l as [|a l IH]; intros d H; [congruence|]. destruct l as [|b l]; simpl; [left; reflexivity|].
  right. apply IH. discriminate.
Qed.

(* one destination: the truncated path is attached; the destination becomes a node *)
Lemma ner_connect : forall (R : step_rel) src w h route t nb dest path,
    inv R src w h route t -> In nb route -> good_path R w h nb dest path ->
    let r := match truncate route path with Some r => r | None => (nb, path) end in
    let st := attach_chain (fst r) (snd r) route t in
    inv R src w h (fst st) (snd st) /\ (forall x, In x route -> In x (fst st)) /\ In dest (fst st).
Proof.
  intros R src w h route t nb dest path I Hnb [Hw [Hnd [Hrng Hlast]]].
  destruct (truncate route path) as [[nb' rest]|] eqn:E; simpl.
  - destruct (truncate_some _ _ _ _ E) as [Hnb' [Hdis [pre [d Hp]]]]. subst path.
    rewrite map_app in Hnd, Hrng, Hlast. simpl in Hnd, Hrng, Hlast.
    apply nodup_app_r in Hnd. apply NoDup_cons_iff in Hnd. destruct Hnd as [Hnc Hnd'].
    destruct (attach_chain_inv R src w h rest nb' route t I Hnb' Hnd' Hdis) as [I2 H2].
    + intros q Hq. apply Hrng. apply in_or_app. right. right. exact Hq.
    + eapply walk_suffix. exact Hw.
    + split; [exact I2|]. split; [intros x Hx; apply H2; left; exact Hx|].
      rewrite last_app_cons in Hlast. apply H2.
      destruct rest as [|[d1 c1] rest]; simpl in Hlast.
      * left. subst. exact Hnb'.
      * right. rewrite <- Hlast. apply (last_in (map snd ((d1, c1) :: rest))). simpl. discriminate.
  - pose proof (truncate_none _ _ E) as Hdis.
    destruct (attach_chain_inv R src w h path nb route t I Hnb Hnd Hdis Hrng Hw) as [I2 H2].
    split; [exact I2|]. split; [intros x Hx; apply H2; left; exact Hx|].
    apply H2. destruct path as [|[d1 c1] path]; simpl in Hlast.
    + left. subst. exact Hnb.
    + right. rewrite <- Hlast. apply (last_in (map snd ((d1, c1) :: path))). simpl. discriminate.
Qed.

(* the neighbour searches return route nodes *)
Lemma find_hex_in : forall hexes dest wrap w h route n,
    find_hex hexes dest wrap w h route = Some n -> In n route.
Proof.
  intros hexes dest wrap w h route n H. unfold find_hex in H. apply find_some in H.
  destruct H as [_ H]. apply rt_chip_mem_In. exact H.
Qed.

Lemma find_scan_in : forall route dest wrap w h radius n,
    find_scan route dest wrap w h radius = Some n -> In n route.
Proof.
  intros route dest wrap w h radius n H. unfold find_scan in H.
  assert (G : forall l best,
             (forall b, best = Some b -> In (fst b) (route)) -> (forall x, In x l -> In x route) ->
             forall b, fold_left (fun (best : option (chip * Z)) cand =>
                                    let d := rdist wrap w h cand dest in
                                    if (d <=? radius) && (match best with None => true | Some (_, bd) => d <? bd end)
                                    then Some (cand, d) else best) l best = Some b -> In (fst b) route).
  { induction l as [|x l IH]; intros best Hb Hl b Hf; simpl in Hf.
    - apply Hb. exact Hf.
    - eapply IH; [| |exact Hf].
      + intros b0 Hb0. destruct ((rdist wrap w h x dest <=? radius) &&
                                  match best with None => true | Some (_, bd) => rdist wrap w h x dest <? bd end).
        * inversion Hb0; subst. simpl. apply Hl. left. reflexivity.
        * apply Hb. exact Hb0.
      + intros y Hy. apply Hl. right. exact Hy. }
  destruct (fold_left _ route None) as [b|] eqn:E; simpl in H; [|discriminate].
  inversion H; subst. eapply (G route None); [discriminate | auto | exact E].
Qed.

Lemma inv_src_in : forall (R : step_rel) src w h route t, inv R src w h route t -> In src route.
Proof.
  intros R src w h route t I. apply (inv_route _ _ _ _ _ _ I). pose proof (inv_root _ _ _ _ _ _ I) as H.
  destruct t as [c kids|v]; simpl in H; [|discriminate]. inversion H; subst. simpl. left. reflexivity.
Qed.

(* what the geometric part provides for one (neighbour, destination) pair and a stream: the vector and the
   longest-dimension-first computations succeed and yield a good path *)
Definition geom_ok (R : step_rel) (w h : Z) (wrap : bool) (SOK : stream -> Prop) : Prop :=
  forall nb dest s, in_range w h nb -> in_range w h dest -> SOK s ->
    exists v s1 path s2,
      (if wrap then torus_vector nb dest w h s else (Ok (shortest_mesh_path (to_xyz nb) (to_xyz dest)), s))
      = (Ok v, s1)
      /\ ldf_stream v nb w h s1 = (Ok path, s2) /\ good_path R w h nb dest path /\ SOK s2.

Lemma ner_dest_ok : forall (R : step_rel) src w h wrap radius hexes SOK dest route t s,
    geom_ok R w h wrap SOK -> inv R src w h route t -> in_range w h dest -> SOK s ->
    exists route' t' s',
      ner_dest src w h wrap radius hexes dest (route, t, s) = Ok (route', t', s')
      /\ inv R src w h route' t' /\ (forall x, In x route -> In x route') /\ In dest route' /\ SOK s'.
Proof.
  intros R src w h wrap radius hexes SOK dest route t s G I Hd Hs. unfold ner_dest.
  set (found := if 3 * Z.of_nat (length hexes) <? Z.of_nat (length route)
                then find_hex hexes dest wrap w h route else find_scan route dest wrap w h radius).
  set (nb := match found with Some n => n | None => src end).
  assert (Hnb : In nb route).
  { subst nb. destruct found as [n|] eqn:E.
    - subst found. destruct (3 * Z.of_nat (length hexes) <? Z.of_nat (length route)).
      + eapply find_hex_in. exact E.
      + eapply find_scan_in. exact E.
    - eapply inv_src_in. exact I. }
  destruct (G nb dest s (inv_range _ _ _ _ _ _ I nb Hnb) Hd Hs) as [v [s1 [path [s2 [Hv [Hp [Hg Hs2]]]]]]].
  rewrite Hv, Hp.
  pose proof (ner_connect R src w h route t nb dest path I Hnb Hg) as Hc. simpl in Hc.
  destruct (match truncate route path with Some r => r | None => (nb, path) end) as [nb' path'] eqn:Et.
  simpl in Hc. destruct (attach_chain nb' path' route t) as [route' t'] eqn:Ea. simpl in Hc.
  exists route', t', s2. split; [reflexivity|]. destruct Hc as [H1 [H2 H3]]. auto.
Qed.

Lemma ner_dests_ok : forall (R : step_rel) src w h wrap radius hexes SOK dests route t s,
    geom_ok R w h wrap SOK -> inv R src w h route t -> Forall (in_range w h) dests -> SOK s ->
    exists route' t' s',
      ner_dests src w h wrap radius hexes dests (route, t, s) = Ok (route', t', s')
      /\ inv R src w h route' t' /\ (forall x, In x route -> In x route')
      /\ (forall d, In d dests -> In d route').
Proof.
  intros R src w h wrap radius hexes SOK dests. induction dests as [|d ds IH]; intros route t s G I Hd Hs.
  - exists route, t, s. simpl. split; [reflexivity|]. split; [exact I|]. split; [auto|]. intros d [].
  - inversion Hd as [|? ? Hd1 Hd2]; subst.
    destruct (ner_dest_ok R src w h wrap radius hexes SOK d route t s G I Hd1 Hs)
      as [r1 [t1 [s1 [E1 [I1 [Hsub1 [Hin1 Hs1]]]]]]].
    destruct (IH r1 t1 s1 G I1 Hd2 Hs1) as [r2 [t2 [s2 [E2 [I2 [Hsub2 Hin2]]]]]].
    exists r2, t2, s2. cbn [ner_dests]. rewrite E1. cbn [bind]. split; [exact E2|]. split; [exact I2|].
    split; [intros x Hx; apply Hsub2; apply Hsub1; exact Hx|].
    intros d0 [Hd0|Hd0]; [subst; apply Hsub2; exact Hin1 | apply Hin2; exact Hd0].
Qed.

Lemma sort_dests_in : forall wrap w h src dests x, In x (sort_dests wrap w h src dests) <-> In x dests.
Proof.
  intros wrap w h src dests x. unfold sort_dests.
  assert (Hins : forall k c l y, In y (map snd (insert_asc k c l)) <-> y = c \/ In y (map snd l)).
  { intros k c l. induction l as [|[k' c'] l IH]; intros y; simpl.
    - intuition.
    - destruct (k <=? k'); simpl; [intuition|]. rewrite IH. intuition. }
  induction dests as [|d ds IH]; simpl; [reflexivity|]. rewrite Hins, IH. intuition.
Qed.

(* ner_net, given the geometric part *)
Theorem ner_net_tree_gen : forall (R : step_rel) src dests w h wrap radius s SOK,
    geom_ok R w h wrap SOK -> in_range w h src -> Forall (in_range w h) dests -> SOK s ->
    exists t route,
      ner_net src dests w h wrap radius s = Ok (t, route)
      /\ root_chip t = Some src
      /\ NoDup (chips t)
      /\ (forall p r c, In (p, r, c) (tree_hops t) -> exists l, r = Some l /\ R p l c)
      /\ (forall d, In d dests -> In d (chips t))
      /\ (forall x, In x (chips t) <-> In x route)
      /\ (forall x, In x (chips t) -> in_range w h x)
      /\ (forall e, ~ In e (tree_leaves t)).
Proof.
  intros R src dests w h wrap radius s SOK G Hsrc Hd Hs. unfold ner_net.
  assert (I0 : inv R src w h [src] (RNode src [])).
  { constructor; simpl.
    - reflexivity.
    - constructor; [intros []|constructor].
    - intros x. tauto.
    - intros p r c [].
    - intros x [Hx|[]]. subst. exact Hsrc.
    - intros e []. }
  assert (Hd' : Forall (in_range w h) (sort_dests wrap w h src dests)).
  { apply Forall_forall. intros x Hx. apply sort_dests_in in Hx. rewrite Forall_forall in Hd. apply Hd. exact Hx. }
  destruct (ner_dests_ok R src w h wrap radius (concentric_hexagons radius (0, 0)) SOK
                         (sort_dests wrap w h src dests) [src] (RNode src []) s G I0 Hd' Hs)
    as [route [t [s' [E [I [_ Hin]]]]]].
  exists t, route. rewrite E. cbn [bind]. split; [reflexivity|].
  destruct I as [Iroot Ind Iroute Ihops Irange Inl].
  split; [exact Iroot|]. split; [exact Ind|]. split; [exact Ihops|].
  split; [intros d Hd0; apply Iroute; apply Hin; apply sort_dests_in; exact Hd0|].
  split; [exact Iroute|].
  split; [intros x Hx; apply Irange; apply Iroute; exact Hx | exact Inl].
Qed.
