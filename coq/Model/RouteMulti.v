(* C03 -- route() as a whole: the loop over the nets of one call, and a Machine object that is re-used for
   several calls with in-place edits of its fault sets in between.  Definitions only.

   The only thing route() carries from one net to the next is the position in the random stream (the module
   `random`); the per-net work is route_net of Model/Route.v.  A Machine object holds no derived state:
   `(x, y, link) in machine` reads dead_chips / dead_links at the time of the test. *)
From Coq Require Import ZArith List Bool.
Require Import Rig.Model.Base Rig.Model.Geometry Rig.Model.Route.
Import ListNotations.
Open Scope Z_scope.

(* what ner_net leaves of the stream *)
Definition ner_net_rest (src : chip) (dests : list chip) (w h : Z) (wrap : bool) (radius : Z) (s : stream)
  : result stream :=
  let hexes := concentric_hexagons radius (0, 0) in
  bind (ner_dests src w h wrap radius hexes (sort_dests wrap w h src dests) ([src], RNode src [], s))
       (fun st => let '(_, _, s') := st in Ok s').

(* one net of the call: its vertices, the iteration order of the set of its sinks' chips, and the iteration order
   of its broken_links set *)
Record netspec := { n_source : vertex; n_sinks : list vertex; n_dests : list chip;
                    n_order : option (list (chip * chip)) }.

(* for net in nets: ...; the first exception ends the call *)
Fixpoint route_nets (m : rmachine) (nets : list netspec) (pl : list (vertex * chip)) (cons : list (vertex * Z))
         (allocs : list (vertex * (Z * Z))) (radius : Z) (s : stream) : result (list rtree) :=
  match nets with
  | [] => Ok []
  | n :: rest =>
      bind (route_net m (n_source n) (n_sinks n) (n_dests n) pl cons allocs radius s (n_order n)) (fun t =>
      match zassoc (n_source n) pl with
      | None => OtherError
      | Some src =>
          bind (ner_net_rest src (n_dests n) (rm_w m) (rm_h m) (has_wrap m) radius s) (fun s' =>
          bind (route_nets m rest pl cons allocs radius s') (fun ts => Ok (t :: ts)))
      end)
  end.

(* ---- a re-used Machine object *)
Inductive mop :=
| MRoute (s : stream) (order : option (list (chip * chip)))   (* route() with this call's draws *)
| MDlAdd (c : chip) (l : Z) | MDlDiscard (c : chip) (l : Z) | MDlUpdate (ls : list (chip * Z)) | MDlClear
| MDcAdd (c : chip) | MDcDiscard (c : chip).

Definition set_links (m : rmachine) (dl : list (chip * Z)) : rmachine :=
  {| rm_w := rm_w m; rm_h := rm_h m; rm_dead_chips := rm_dead_chips m; rm_dead_links := dl |}.
Definition set_chips (m : rmachine) (dc : list chip) : rmachine :=
  {| rm_w := rm_w m; rm_h := rm_h m; rm_dead_chips := dc; rm_dead_links := rm_dead_links m |}.

Definition link_is (c : chip) (l : Z) (e : chip * Z) : bool := chip_eqb c (fst e) && (l =? snd e).

(* the sets are lists read through membership only *)
Definition apply_mop (m : rmachine) (op : mop) : rmachine :=
  match op with
  | MRoute _ _ => m
  | MDlAdd c l => set_links m ((c, l) :: rm_dead_links m)
  | MDlDiscard c l => set_links m (filter (fun e => negb (link_is c l e)) (rm_dead_links m))
  | MDlUpdate ls => set_links m (ls ++ rm_dead_links m)
  | MDlClear => set_links m []
  | MDcAdd c => set_chips m (c :: rm_dead_chips m)
  | MDcDiscard c => set_chips m (filter (fun e => negb (chip_eqb c e)) (rm_dead_chips m))
  end.

(* the results of the route() calls of a history, one net per call *)
Fixpoint run_history (m : rmachine) (ops : list mop) (source : vertex) (sinks : list vertex) (dests : list chip)
         (pl : list (vertex * chip)) (cons : list (vertex * Z)) (allocs : list (vertex * (Z * Z))) (radius : Z)
  : list (rmachine * result rtree) :=
  match ops with
  | [] => []
  | op :: rest =>
      let m' := apply_mop m op in
      match op with
      | MRoute s order => (m, route_net m source sinks dests pl cons allocs radius s order)
                          :: run_history m' rest source sinks dests pl cons allocs radius
      | _ => run_history m' rest source sinks dests pl cons allocs radius
      end
  end.
