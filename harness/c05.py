"""C05 -- allocator: theorems (Props/C05.v) + correspondence model vs rig...allocate + independent oracle."""
import json
import lib
from lib import zlit, vlist

LEVEL = "proof"
UNITS = ["GenAlloc", "GenWrapper"]


# ------------------------------------------------------------------ generator
def gen_case(rng, malformed=False):
    w, h = rng.choice([(1, 1), (2, 1), (2, 2), (3, 2), (1, 3)])
    nres = rng.randint(1, 3)
    res = list(range(nres))
    caps = [[r, rng.choice([0, 8, 16, 20, 33, 64, 64])] for r in res]
    chips = [(x, y) for x in range(w) for y in range(h)]
    dead = [list(c) for c in chips if rng.random() < 0.1 and len(chips) > 1]
    live = [c for c in chips if list(c) not in dead] or [chips[0]]
    dead = [d for d in dead if tuple(d) in set(chips) - set(live)]
    exc = []
    for c in live:
        if rng.random() < 0.3:
            exc.append([list(c), [[r, rng.choice([0, 5, 24, 40, 70])] for r in res]])
    style = rng.choice(["ends", "interleaved", "adjacent", "none", "mixed"])
    cons = []
    for r in res:
        cap = dict(caps)[r]
        if rng.random() < 0.5 and style != "ends":
            cons.append(["align", r, rng.choice([1, 2, 3, 4, 8])])
        locs = [None] + [list(c) for c in live]
        n = rng.randint(0, 5) if style != "none" else 0
        for _ in range(n):
            loc = rng.choice(locs) if rng.random() < 0.6 else None
            if style == "ends":
                if rng.random() < 0.5:
                    a = rng.randint(0, 3)
                    cons.append(["reserve", r, 0, a, loc])
                    if a > 1 and rng.random() < 0.5:       # cover the prefix in two pieces
                        cons.append(["reserve", r, a - 1, a + rng.randint(0, 2), loc])
                else:
                    cons.append(["reserve", r, max(0, cap - rng.randint(0, 3)), cap, loc])
            elif style == "adjacent":
                s = rng.randint(0, max(0, cap))
                cons.append(["reserve", r, s, s + rng.randint(0, 3), loc])
                cons.append(["reserve", r, s + 3, s + 3 + rng.randint(0, 2), loc])
            else:
                s = rng.randint(0, max(0, cap + 2))
                cons.append(["reserve", r, s, s + rng.randint(0, 4), loc])
        if rng.random() < 0.15:
            cons.append(["other"])
    rng.shuffle(cons)
    nv = rng.randint(0, 8)
    vres, pl = [], []
    for v in range(nv):
        rq = [[r, rng.choice([0, 0, 1, 1, 1, 2, 2, 3, 5, 9])] for r in res if rng.random() < 0.85]
        rng.shuffle(rq)
        vres.append([v * 7 + 1, rq])
        pl.append([v * 7 + 1, list(rng.choice(live))])
    rng.shuffle(pl)
    kind = "valid"
    if malformed:
        kind = rng.choice(["dead", "nores", "align0", "novertex", "outside"])
        if kind == "dead" and pl:
            pl[0][1] = list(rng.choice([tuple(d) for d in dead] or [(w, h)]))
        elif kind == "outside" and pl:
            pl[-1][1] = [w, 0]
        elif kind == "nores" and vres:
            vres[0][1].append([99, 1])
        elif kind == "align0":
            cons.append(["align", 0, 0])
        elif kind == "novertex" and pl:
            pl.append([5000, list(live[0])])
    return dict(machine=dict(w=w, h=h, res=caps, exc=exc, dead=dead), vres=vres,
                constraints=cons, placements=pl, kind=kind, style=style)


def gen_tight(rng):
    """Completeness stream: no alignment, reservations only at the two ends of each chip's range (global
    prefix shared by all chips, per-chip prefixes/suffixes differing between chips), vertices filling the
    free middle exactly or almost."""
    w, h = rng.choice([(2, 1), (2, 2), (3, 1), (3, 2)])
    chips = [(x, y) for x in range(w) for y in range(h)]
    nres = rng.randint(1, 2)
    caps = [[r, rng.choice([8, 12, 16, 20])] for r in range(nres)]
    exc = [[list(c), [[r, rng.choice([6, 10, 24])] for r in range(nres)]] for c in chips if rng.random() < 0.3]
    capf = lambda c, r: dict(dict((tuple(k), v) for k, v in exc).get(c, caps))[r]
    cons, vres, pl = [], [], []
    vid = 0
    gpre = {r: rng.choice([0, 0, 1, 2]) for r in range(nres)}
    for r in range(nres):
        if gpre[r]:
            cons.append(["reserve", r, 0, gpre[r], None])
    free = {}
    for c in chips:
        for r in range(nres):
            cap = capf(c, r)
            a = gpre[r]
            if rng.random() < 0.5:
                a2 = min(cap, a + rng.randint(1, 3))
                cons.append(["reserve", r, rng.randint(0, a), a2, list(c)])
                a = a2
            b = cap
            if rng.random() < 0.6:
                b = max(a, cap - rng.randint(1, 4))
                cons.append(["reserve", r, b, cap, list(c)])
            free[c, r] = max(0, b - max(a, 0)) if a <= cap else 0
    rng.shuffle(cons)
    for c in chips:
        left = {r: free[c, r] for r in range(nres)}
        for _ in range(rng.randint(0, 3)):
            rq = []
            for r in range(nres):
                q = rng.randint(0, left[r]) if rng.random() < 0.7 else left[r]
                left[r] -= q
                rq.append([r, q])
            vid += 1
            vres.append([vid, rq])
            pl.append([vid, list(c)])
    rng.shuffle(pl)
    return dict(machine=dict(w=w, h=h, res=caps, exc=exc, dead=[]), vres=vres, constraints=cons,
                placements=pl, kind="valid", style="tight-ends")


def gen_brim(rng):
    """Chips filled into their last partial alignment block, then zero-size (and small) requests: the
    boundary where an aligned start can fall beyond the end of the chip's range."""
    a = rng.choice([2, 3, 4, 8])
    cap = rng.choice([a * k + r for k in (1, 2, 3, 5) for r in range(1, a)])
    chips = [(0, 0), (1, 0)][:rng.randint(1, 2)]
    cons = [["align", 0, a]]
    if rng.random() < 0.4:
        s0 = rng.randint(0, cap)
        cons.append(["reserve", 0, s0, min(cap, s0 + rng.randint(0, 2)), rng.choice([None, [0, 0]])])
    vres, pl, vid = [], [], 0
    for c in chips:
        last_block = (cap // a) * a
        fill = rng.randint(max(0, last_block - a), cap)         # ends at or inside the last partial block
        sizes = []
        while fill > 0:
            q = min(fill, rng.randint(1, a + 1))
            sizes.append(q)
            fill -= q
        sizes += [rng.choice([0, 0, 1]) for _ in range(rng.randint(1, 3))]
        for q in sizes:
            vid += 1
            vres.append([vid, [[0, q]]])
            pl.append([vid, list(c)])
    return dict(machine=dict(w=2, h=1, res=[[0, cap]], exc=[], dead=[]), vres=vres, constraints=cons,
                placements=pl, kind="valid", style="brim")


def gen_nullres(rng):
    """Reservation lists containing EMPTY reservations (slice(k, k)) placed just before, inside and just
    after real ones, in shuffled order, with requests long enough to reach across them: an empty
    reservation overlaps nothing and must not stop the scan from seeing the real one behind it."""
    cap = rng.choice([8, 10, 12, 16])
    cons = []
    if rng.random() < 0.4:
        cons.append(["align", 0, rng.choice([1, 2, 4])])
    real = []
    for _ in range(rng.randint(1, 3)):
        s0 = rng.randint(1, cap - 1)
        real.append([s0, min(cap, s0 + rng.randint(1, 3))])
    for s0, e0 in real:
        loc = rng.choice([None, None, [0, 0]])
        cons.append(["reserve", 0, s0, e0, loc])
        for k in {max(0, s0 - 1), s0, rng.randint(0, cap)}:
            if rng.random() < 0.7:
                cons.append(["reserve", 0, k, k, rng.choice([None, [0, 0]])])
    rng.shuffle(cons)
    vres, pl = [], []
    for v in range(rng.randint(1, 4)):
        vres.append([v + 1, [[0, rng.choice([0, 1, 2, 3, 4, 5])]]])
        pl.append([v + 1, [0, 0]])
    return dict(machine=dict(w=1, h=1, res=[[0, cap]], exc=[], dead=[]), vres=vres, constraints=cons,
                placements=pl, kind="valid", style="nullres")


def gen_big(rng):
    """Quantities beyond 2^53 (SDRAM byte counts are large; a float anywhere in the arithmetic shows here)."""
    a = rng.choice([2, 4, 8, 3])
    base = rng.choice([2 ** 53, 2 ** 53 + 1, 2 ** 60, 2 ** 64 - 3, 3 * 2 ** 52 + 1])
    first = base + rng.randint(0, 9)
    cap = first + rng.randint(20, 60)
    cons = [["align", 0, a]]
    if rng.random() < 0.5:
        cons.append(["reserve", 0, first + 3, first + 3 + rng.randint(0, 4), rng.choice([None, [0, 0]])])
    vres = [[1, [[0, first]]]] + [[v + 2, [[0, rng.randint(0, 6)]]] for v in range(rng.randint(1, 3))]
    pl = [[v, [0, 0]] for v, _ in vres]
    return dict(machine=dict(w=1, h=1, res=[[0, cap]], exc=[], dead=[]), vres=vres, constraints=cons,
                placements=pl, kind="valid", style="big")


def gen_long(rng):
    """One request that has to step over more than a thousand interleaved reservations (every other unit of a
    long range is reserved), some global, some per-chip, listed in a shuffled order: the retry loop runs once per
    reservation it has to skip."""
    n = rng.choice([1050, 1200])
    cons = [["reserve", 0, 2 * i + 1, 2 * i + 2, rng.choice([None, [0, 0]])] for i in range(n)]
    if rng.random() < 0.5:
        rng.shuffle(cons)
    cap = 2 * n + rng.choice([1, 2, 3, 6])
    vres = [[1, [[0, 1]]], [2, [[0, 2]]], [3, [[0, rng.choice([0, 1, 2])]]]]
    return dict(machine=dict(w=1, h=1, res=[[0, cap]], exc=[], dead=[]), vres=vres, constraints=cons,
                placements=[[v, [0, 0]] for v, _ in vres], kind="valid", style="long-scan")


def gen_entry(rng):
    """The same allocator reached another way: a Machine whose per-chip resources were set by a history of
    `machine[xy] = resources` assignments, the deprecated wrapper() (which appends the monitor reservation and
    the SDRAM alignment to the caller's constraints) and place_and_route_wrapper() (which derives the machine
    and the reservations of busy cores from a SystemInfo).  The case describes the EFFECTIVE problem -- what the
    documentation of those entry points says the allocator is asked -- and `entry` tells the driver how to ask."""
    how = rng.choice(["setitem", "wrapper", "pnr_wrapper"])
    if how == "setitem":
        if rng.random() < 0.5:
            c = gen_tight(rng)              # inside the completeness guarantee: a refusal is a violation
        else:
            c = gen_case(rng)
            while c["kind"] != "valid":
                c = gen_case(rng)
        m = c["machine"]
        live = [[x, y] for x in range(m["w"]) for y in range(m["h"]) if [x, y] not in m["dead"]]
        final = {tuple(xy): rs for xy, rs in m["exc"]}
        per_chip = []
        for xy in live:
            seq = []
            earlier = [[xy, [[r, max(0, q + rng.choice([-3, -1, 2, 5]))] for r, q in m["res"]]]
                       for _ in range(rng.choice([0, 1, 1, 2]))]
            if tuple(xy) in final:                  # earlier assignments, then the final exception
                seq = earlier + [[xy, final[tuple(xy)]]]
            elif earlier and rng.random() < 0.7:    # an exception, then set back to what every chip has
                seq = earlier + [[xy, [list(rq) for rq in m["res"]]]]
            if seq:
                per_chip.append(seq)
        hist = []                                   # interleave the chips' sequences, keeping each chip's order
        while per_chip:
            seq = rng.choice(per_chip)
            hist.append(seq.pop(0))
            if not seq:
                per_chip.remove(seq)
        # a chip that was dead (and already had its exception) when the Machine was built -- or copied -- and is
        # brought back by discarding it from dead_chips before the allocation
        revive = [list(xy) for xy in final if rng.random() < 0.6]
        c["entry"] = dict(how="setitem", history=hist, revive=revive, copy_between=rng.random() < 0.5)
        c["style"] = "entry-setitem"
        return c
    if how == "wrapper":
        c = gen_case(rng)
        while c["kind"] != "valid" or len(c["machine"]["res"]) < 2:
            c = gen_case(rng)
        rc, rs = 0, 1
        reserve_monitor, align_sdram = rng.random() < 0.7, rng.random() < 0.8
        user = [k for k in c["constraints"] if not (k[0] == "align" and k[1] == rs and align_sdram)]
        if align_sdram and len(c["machine"]["res"]) > 2 and rng.random() < 0.6:
            user.append(["align", 2, rng.choice([2, 8])])           # the caller aligns ANOTHER resource
        if align_sdram:                                             # sizes that are not multiples of 4
            for v, rq in c["vres"]:
                for q in rq:
                    if q[0] == rs and rng.random() < 0.6:
                        q[1] = rng.choice([1, 2, 3, 5, 6])
        c["entry"] = dict(how="wrapper", reserve_monitor=reserve_monitor, align_sdram=align_sdram,
                          core_resource=rc, sdram_resource=rs, user=user)
        c["constraints"] = user + ([["reserve", rc, 0, 1, None]] if reserve_monitor else []) \
            + ([["align", rs, 4]] if align_sdram else [])
        c["style"] = "entry-wrapper"
        return c
    # place_and_route_wrapper: resources 0 (cores), 1 (sdram), 2 (sram) or a custom core resource 7
    w, h = rng.choice([(1, 1), (2, 1), (2, 2), (3, 1)])
    rc = rng.choice([0, 0, 7])
    chips = [[x, y] for x in range(w) for y in range(h)]
    dead = [c for c in chips[1:] if rng.random() < 0.15]
    info, exc, cons = [], [], []
    for xy in chips:
        if xy in dead:
            continue
        n = rng.choice([18, 18, 17, 5])
        states = ["run"] + [rng.choice(["idle", "idle", "idle", "run", "sync0"]) for _ in range(n - 1)]
        if rng.random() < 0.3:
            states[0] = "idle"
        sd, sr = rng.choice([64, 100, 37]), rng.choice([16, 32])
        info.append([xy, n, states, sd, sr])
        exc.append([xy, [[rc, n], [1, sd], [2, sr]]])
        cons += [["reserve", rc, i, i + 1, xy] for i, st in enumerate(states) if st != "idle"]
    live = [i[0] for i in info]
    user = []
    if rng.random() < 0.4:
        user.append(["reserve", 1, 0, rng.choice([4, 8]), None])
    if rng.random() < 0.3:
        user.append(["align", 1, 4])
    vres, pl = [], []
    for v in range(rng.randint(1, 7)):
        vres.append([v + 1, [[rc, rng.choice([0, 1, 1, 2])], [1, rng.choice([0, 3, 8, 10])]] + ([[2, rng.choice([0, 4])]] if rng.random() < 0.5 else [])])
        pl.append([v + 1, rng.choice(live)])
    return dict(machine=dict(w=w, h=h, res=[[rc, 18], [1, 100], [2, 32]], exc=exc, dead=dead), vres=vres,
                constraints=user + cons, placements=pl, kind="valid", style="entry-pnr_wrapper", no_model=True,
                entry=dict(how="pnr_wrapper", core_resource=rc, info=info, user=user))


# ------------------------------------------------------------------ Coq literals
def coq_case(c):
    m = c["machine"]
    pairs = lambda l: vlist("(%s, %s)" % (zlit(a), zlit(b)) for a, b in l)
    chipl = lambda xy: "(%s, %s)" % (zlit(xy[0]), zlit(xy[1]))
    mach = "{| m_width := %s; m_height := %s; m_res := %s; m_exc := %s; m_dead := %s |}" % (
        zlit(m["w"]), zlit(m["h"]), pairs(m["res"]),
        vlist("(%s, %s)" % (chipl(xy), pairs(rs)) for xy, rs in m["exc"]),
        vlist(chipl(d) for d in m["dead"]))
    def conslist(spec):
        cs = []
        for k in spec:
            if k[0] == "reserve":
                cs.append("CReserve %s (%s, %s) %s" % (zlit(k[1]), zlit(k[2]), zlit(k[3]),
                                                      "None" if k[4] is None else "(Some %s)" % chipl(k[4])))
            elif k[0] == "align":
                cs.append("CAlign %s %s" % (zlit(k[1]), zlit(k[2])))
            else:
                cs.append("COther")
        return vlist(cs)
    vres = vlist("(%s, %s)" % (zlit(v), pairs(rq)) for v, rq in c["vres"])
    pl = vlist("(%s, %s)" % (zlit(v), chipl(xy)) for v, xy in c["placements"])
    e = c.get("entry")
    if e and e["how"] == "wrapper":
        # the model assembles the constraint list itself (Model/AllocWrapper.v over Generated/GenWrapper.v)
        return "wrapper_allocate %s %s %s %s %s %s %s %s" % (
            vres, mach, conslist(e["user"]), "true" if e["reserve_monitor"] else "false",
            "true" if e["align_sdram"] else "false", zlit(e["core_resource"]), zlit(e["sdram_resource"]), pl)
    return "allocate %s %s %s %s" % (vres, mach, conslist(c["constraints"]), pl)


def canon_model(v):
    if v[0] == "Ok":
        return ["ok", sorted([a, sorted([r, s, e] for r, (s, e) in ra)] for a, ra in v[1])]
    if v[0] == "Failed":
        return ["fail", v[1]]
    if v[0] == "OtherError":
        return ["other"]
    return ["outoffuel"]


def canon_impl(o):
    if o[0] == "ok":
        return ["ok", sorted([a, sorted(ra)] for a, ra in o[1])]
    if o[0] == "other":
        return ["other"]
    return list(o)


# ------------------------------------------------------------------ independent oracle
def overlap(a, b):
    return max(a[0], b[0]) < min(a[1], b[1])


def oracle(c, out):
    """Decide the sentences of C05 on the implementation's output, from the inputs alone."""
    m = c["machine"]
    exc = {tuple(xy): dict(rs) for xy, rs in m["exc"]}
    base = dict(m["res"])
    capf = lambda xy: exc.get(tuple(xy), base)
    vres = {v: dict(rq) for v, rq in c["vres"]}
    pl = {v: tuple(xy) for v, xy in c["placements"]}
    align = {}
    for k in c["constraints"]:
        if k[0] == "align":
            align[k[1]] = k[2]

    def reserved(r, xy):
        return [(k[2], k[3]) for k in c["constraints"] if k[0] == "reserve" and k[1] == r
                and (k[4] is None or tuple(k[4]) == tuple(xy))]
    wellformed = c["kind"] == "valid"
    if out[0] == "hang":
        return "allocate does not terminate (no result within the per-case time limit)"
    if out[0] == "other":
        return "raised %s, which is not the documented InsufficientResourceError" % out[1] \
            if wellformed else None
    if out[0] == "fail":
        if not wellformed:
            return None
        # completeness: no alignment, reservations at the ends only, feasible => must succeed
        if align and any(a != 1 for a in align.values()):
            return None
        for xy in set(pl.values()):
            for r, cap in capf(xy).items():
                rs = reserved(r, xy)
                covered = [False] * (cap + 1)
                for s, e in rs:
                    if s > e or s < 0 or e > cap:
                        return None
                    for x in range(s, e):
                        covered[x] = True
                a = 0
                while a < cap and covered[a]:
                    a += 1
                b = cap
                while b > a and covered[b - 1]:
                    b -= 1
                if any(covered[a:b]):
                    return None            # a reservation in the middle: outside the guarantee
                tot = sum(vres[v].get(r, 0) for v in pl if pl[v] == tuple(xy))
                if tot > b - a:
                    return None
        return "InsufficientResourceError on a feasible placement with end-only reservations and no alignment"
    alloc = {v: {r: (s, e) for r, s, e in ra} for v, ra in out[1]}
    if set(alloc) != set(pl):
        return "allocated vertices %r differ from placed vertices %r" % (sorted(alloc), sorted(pl))
    for v, ra in alloc.items():
        xy = pl[v]
        if set(ra) != set(vres[v]):
            return "vertex %r: resources allocated %r, requested %r" % (v, sorted(ra), sorted(vres[v]))
        for r, (s, e) in ra.items():
            if e - s != vres[v][r]:
                return "vertex %r resource %r: size %d, requested %d" % (v, r, e - s, vres[v][r])
            if s < 0 or e > capf(xy)[r]:
                return "vertex %r resource %r: range [%d,%d) outside chip range [0,%d)" % (v, r, s, e, capf(xy)[r])
            if s % align.get(r, 1) != 0:
                return "vertex %r resource %r: start %d not aligned to %d" % (v, r, s, align[r])
            for rs in reserved(r, xy):
                if overlap((s, e), rs):
                    return "vertex %r resource %r: range [%d,%d) overlaps reservation %r" % (v, r, s, e, rs)
            for v2, ra2 in alloc.items():
                if v2 != v and pl[v2] == xy and r in ra2 and overlap((s, e), ra2[r]):
                    return "vertices %r and %r overlap on chip %r resource %r" % (v, v2, xy, r)
    return None


def nontrivial(c, out):
    return out[0] != "other" and len(c["placements"]) >= 2 and any(k[0] == "reserve" for k in c["constraints"])


# ------------------------------------------------------------------ the check
def run(chk, args):
    chk.trusted += ["CPython dict iteration order (insertion order) is mirrored by association lists"]
    chk.assumptions += ["resources, vertices are integers; requests, capacities, reservations are Python ints",
                        "alignment constraints are positive (a negative alignment can make the code loop; out of domain)"]
    chk.regenerate(UNITS)
    built = chk.prove()
    if args.replay:
        cases = [f["replay"]["case"] for f in json.load(open(args.replay)).get("failures", []) if "case" in f.get("replay", {})]
        cases += [b["replay"]["case"] for b in json.load(open(args.replay)).get("no_longer_checks", []) if "case" in b.get("replay", {})]
    else:
        n = 600 if chk.tier == "quick" else 20000
        cases = [gen_tight(chk.rng) if i % 4 == 1 else gen_brim(chk.rng) if i % 8 == 2
                 else gen_nullres(chk.rng) if i % 8 == 4
                 else gen_big(chk.rng) if i % 16 == 6
                 else gen_entry(chk.rng) if i % 8 == 3
                 else gen_long(chk.rng) if i % 256 == 0
                 else gen_case(chk.rng, malformed=(i % 8 == 7)) for i in range(n)]
    for i, c in enumerate(cases):
        if i % 3 == 0 and "subclass" not in c:
            c["subclass"] = True          # constraints handed over as instances of user-defined subclasses
        if i % 5 in (1, 2) and "reskind" not in c and "entry" not in c:
            # resource identifiers that are EQUAL but not IDENTICAL at every mention (run-time built strings, tuples,
            # integers beyond the small-int cache): the allocator must compare them by equality
            c["reskind"] = ["str", "tuple", "bigint"][(i // 5) % 3]
    corpus = lib.os.path.join(lib.VERIF, "corpus", "C05.json")
    if lib.os.path.exists(corpus):
        cases = json.load(open(corpus)) + cases
    # implementation
    chunks = [cases[i:i + 500] for i in range(0, len(cases), 500)]
    outs = [o for part in chk.impl_parallel("impl_c05.py", chunks) for o in part]
    keep = [i for i, o in enumerate(outs) if o[0] != "skipped"]
    cases, outs = [cases[i] for i in keep], [outs[i] for i in keep]
    for c, o in zip(cases, outs):
        chk.count("kind:" + c["kind"])
        chk.count("style:" + c.get("style", "?"))
        chk.count("constraint-subclass-instances:" + str(bool(c.get("subclass"))))
        chk.count("resource-identifiers:" + str(c.get("reskind", "small-int")))
        chk.count("outcome:" + o[0])
        chk.note_case(c, nontrivial(c, o))
        why = oracle(c, o)
        if why:
            chk.fail_input("alloc:" + why.split(":")[0][:40].replace(" ", "_"), why, dict(case=c, observed=o))
    chk.sample(dict(case=cases[len(cases) // 2], implementation=outs[len(cases) // 2]))
    # model
    if chk.model_ok:
        try:
            header = ("From Coq Require Import ZArith List. Import ListNotations. Open Scope Z_scope.\n"
                      "Require Import Rig.Model.Base Rig.Model.Alloc Rig.Model.AllocWrapper.\n")
            vals = chk.coq_eval(header, [coq_case(c) for c in cases])
            for c, o, v in zip(cases, outs, vals):
                if c.get("no_model"):       # the entry point chooses the representation of the reservations: oracle only
                    continue
                chk.traces_validated += 1
                if canon_model(v) != canon_impl(o):
                    chk.disagree("allocate: model %r, implementation %r" % (canon_model(v), canon_impl(o)),
                                 dict(case=c, observed=o))
                    break
            else:
                chk.oblige("correspondence:allocate (%d cases, exact equality of every range / error class)" % len(cases), True)
        except RuntimeError as e:
            chk.oblige("correspondence:model-evaluates", False, str(e))
    chk.coverage["rule"] = ("random structured allocation problems (machines <= 3x2 with exceptions and dead chips, "
                            "<= 3 resources, <= 8 vertices, reservation styles ends/interleaved/adjacent/mixed, "
                            "alignment in {1,2,3,4,8}; every 8th case malformed; every 8th case reaches the allocator through "
                            "another entry point: Machine.__setitem__ histories, wrapper(), place_and_route_wrapper()); non-trivial = >= 2 placed vertices, "
                            ">= 1 reservation, outcome Ok or InsufficientResource; distinct by hash of the whole input")
