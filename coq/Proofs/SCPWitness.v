(* Proofs about the SCP burst model, part 7: concrete runs.
   - the refutation of reply_matches without the freshness hypothesis (known finding K2): window 1,
     65 537 commands, the reply to the first transmission duplicated and its copy delivered when sequence
     number 0 has come round: the callback of command 65536 receives the reply to command 0;
   - small runs showing that the hypotheses of the theorems are satisfiable. *)
From Coq Require Import ZArith List Bool Lia Arith.
Require Import Rig.Generated.GenSCP Rig.Model.Base Rig.Model.SCP Rig.Spec.SCP Rig.Proofs.SCP.
Import ListNotations.
Open Scope Z_scope.

(* ---------------------------------------------------------------------------------------------- *)
(* executable checkers for Causal and Fresh, with their soundness                                    *)
(* ---------------------------------------------------------------------------------------------- *)

Fixpoint find_sent (tx s : Z) (sent : list (Z * Z)) : bool :=
  match sent with
  | [] => false
  | p :: r => if (fst p =? tx) && (snd p =? s) then true else find_sent tx s r
  end.

(* [sent]: (transmission number, sequence number) of the sends seen so far, most recent first *)
Fixpoint causalb_from (sent : list (Z * Z)) (tr : list output) : bool :=
  match tr with
  | [] => true
  | OSend tx c s t :: tr' => causalb_from ((tx, s) :: sent) tr'
  | ORecv d :: tr' => if find_sent (d_src d) (d_seq d) sent then causalb_from sent tr' else false
  | _ :: tr' => causalb_from sent tr'
  end.

Lemma find_sent_In : forall tx s sent, find_sent tx s sent = true -> In (tx, s) sent.
Proof.
  intros tx s sent. induction sent as [|[a b] r IH]; intros H; cbn [find_sent fst snd] in H.
  - discriminate H.
  - destruct ((a =? tx) && (b =? s)) eqn:E.
    + apply andb_prop in E. destruct E as [E1 E2]. apply Z.eqb_eq in E1, E2. subst. left. reflexivity.
    + right. apply IH. exact H.
Qed.

Lemma causalb_sound : forall tr sent h,
  (forall tx s, In (tx, s) sent -> exists c t, In (OSend tx c s t) h) ->
  causalb_from sent tr = true ->
  forall pre d post, tr = pre ++ ORecv d :: post ->
    exists c t, In (OSend (d_src d) c (d_seq d) t) (h ++ pre).
Proof.
  intros tr. induction tr as [|o tr IH]; intros sent h Hsent Hb pre d post Heq.
  - destruct pre; discriminate Heq.
  - destruct pre as [|o' pre].
    + cbn [app] in Heq. inversion Heq; subst o tr. cbn [causalb_from] in Hb.
      destruct (find_sent (d_src d) (d_seq d) sent) eqn:Ef; [|discriminate Hb].
      rewrite app_nil_r. apply Hsent. apply find_sent_In. exact Ef.
    + cbn [app] in Heq. inversion Heq; subst o' tr.
      assert (Hgoal : forall sent', (forall tx s, In (tx, s) sent' -> exists c t, In (OSend tx c s t) (h ++ [o])) ->
                causalb_from sent' (pre ++ ORecv d :: post) = true ->
                exists c t, In (OSend (d_src d) c (d_seq d) t) (h ++ o :: pre)).
      { intros sent' Hs' Hb'. destruct (IH sent' (h ++ [o]) Hs' Hb' pre d post eq_refl) as (c & t & Hin).
        exists c, t. rewrite <- app_assoc in Hin. exact Hin. }
      assert (Hweak : forall tx s, In (tx, s) sent -> exists c t, In (OSend tx c s t) (h ++ [o])).
      { intros tx s Hin. destruct (Hsent tx s Hin) as (c & t & H). exists c, t. apply in_or_app. left. exact H. }
      destruct o as [tx c s t|tm|d'|c d']; cbn [causalb_from] in Hb.
      * apply (Hgoal ((tx, s) :: sent)); [|exact Hb]. intros tx0 s0 [Hin|Hin].
        -- inversion Hin; subst. exists c, t. apply in_or_app. right. left. reflexivity.
        -- apply Hweak. exact Hin.
      * apply (Hgoal sent Hweak Hb).
      * destruct (find_sent (d_src d') (d_seq d') sent); [|discriminate Hb]. apply (Hgoal sent Hweak Hb).
      * apply (Hgoal sent Hweak Hb).
Qed.

Lemma causalb_causal : forall tr, causalb_from [] tr = true -> causal tr.
Proof.
  intros tr Hb pre d post Heq.
  destruct (causalb_sound tr [] [] (fun tx s (H : In (tx, s) []) => match H with end) Hb pre d post Heq)
    as (c & t & Hin).
  exists c, t. exact Hin.
Qed.

Definition fresh_ok_at (pre : list output) (d : dgram) : bool :=
  forallb (fun o1 => forallb (fun o2 =>
    match o1, o2 with
    | OSend tx1 c1 s1 _, OSend tx2 c2 s2 _ =>
        implb ((tx1 =? d_src d) && (s1 =? d_seq d) && (s2 =? d_seq d) && (d_src d <? tx2)) (c2 =? c1)
    | _, _ => true
    end) pre) pre.

Fixpoint freshb_from (pre : list output) (tr : list output) : bool :=
  match tr with
  | [] => true
  | o :: tr' => (match o with ORecv d => fresh_ok_at pre d | _ => true end) && freshb_from (pre ++ [o]) tr'
  end.

Lemma freshb_sound : forall tr pre0,
  freshb_from pre0 tr = true ->
  forall pre d post, tr = pre ++ ORecv d :: post ->
  forall c t tx' c' t',
    In (OSend (d_src d) c (d_seq d) t) (pre0 ++ pre) -> In (OSend tx' c' (d_seq d) t') (pre0 ++ pre) ->
    d_src d < tx' -> c' = c.
Proof.
  intros tr. induction tr as [|o tr IH]; intros pre0 Hb pre d post Heq c t tx' c' t' H1 H2 Hlt.
  - destruct pre; discriminate Heq.
  - cbn [freshb_from] in Hb. apply andb_prop in Hb. destruct Hb as [Hb1 Hb2].
    destruct pre as [|o' pre].
    + cbn [app] in Heq. inversion Heq; subst o tr. rewrite app_nil_r in H1, H2.
      unfold fresh_ok_at in Hb1. rewrite forallb_forall in Hb1. specialize (Hb1 _ H1).
      rewrite forallb_forall in Hb1. specialize (Hb1 _ H2). cbn in Hb1.
      rewrite !Z.eqb_refl in Hb1. apply Z.ltb_lt in Hlt. rewrite Hlt in Hb1. cbn in Hb1.
      apply Z.eqb_eq in Hb1. exact Hb1.
    + cbn [app] in Heq. inversion Heq; subst o' tr.
      apply (IH (pre0 ++ [o]) Hb2 pre d post eq_refl c t tx' c' t'); try exact Hlt;
        rewrite <- app_assoc; assumption.
Qed.

Lemma freshb_fresh : forall tr, freshb_from [] tr = true -> fresh tr.
Proof.
  intros tr Hb pre d post Heq c t tx' c' t' H1 H2 Hlt.
  apply (freshb_sound tr [] Hb pre d post Heq c t tx' c' t' H1 H2 Hlt).
Qed.

Lemma output_eqb_eq : forall a b, output_eqb a b = true -> a = b.
Proof.
  intros a b H. destruct a as [t c s n|t|d|c d]; destruct b as [t' c' s' n'|t'|d'|c' d']; cbn in H;
    try discriminate H.
  - repeat (apply andb_prop in H; destruct H as [H ?]). repeat match goal with E : (_ =? _) = true |- _ => apply Z.eqb_eq in E end.
    subst. reflexivity.
  - apply Z.eqb_eq in H. subst. reflexivity.
  - unfold dgram_eqb in H. repeat (apply andb_prop in H; destruct H as [H ?]).
    repeat match goal with E : (_ =? _) = true |- _ => apply Z.eqb_eq in E end.
    destruct d, d'; cbn in *; subst; reflexivity.
  - apply andb_prop in H. destruct H as [H1 H]. unfold dgram_eqb in H.
    repeat (apply andb_prop in H; destruct H as [H ?]).
    repeat match goal with E : (_ =? _) = true |- _ => apply Z.eqb_eq in E end.
    destruct d, d'; cbn in *; subst; reflexivity.
Qed.

Lemma run_cmds_ids : forall n i e,
  NoDup (ids (run_cmds n i e)) /\ forall x, In x (ids (run_cmds n i e)) -> i <= x.
Proof.
  intros n. induction n as [|n IH]; intros i e; cbn [run_cmds ids map c_id].
  - split; [constructor|intros x []].
  - destruct (IH (i + 1) e) as [H1 H2]. fold (ids (run_cmds n (i + 1) e)). split.
    + constructor; [|exact H1]. intros Hin. specialize (H2 i Hin). lia.
    + intros x [Hx|Hx]; [lia|]. specialize (H2 x Hx). lia.
Qed.

(* ---------------------------------------------------------------------------------------------- *)
(* K2: the witness                                                                                  *)
(* ---------------------------------------------------------------------------------------------- *)

Definition k2_cf : config := Cf 1 2 10 [] [].
Definition k2_cmds : list cmd := run_cmds (N.to_nat 65537) 0 0.
(* command i (sequence number i mod 2^16) is answered at once by transmission i's reply; the reply to
   transmission 0 arrives a second time just before the reply to transmission 65536 *)
Definition k2_events : list event :=
  run_events (N.to_nat 65536) rc_ok 0 0 1 ++ [Ev [Dg rc_ok 0 0; Dg rc_ok 0 65536] 65537; Ev [] 65538].
Definition k2_result := burst k2_cf k2_cmds k2_events conn0.
Definition k2_trace : list output := fst (fst (fst k2_result)).
Definition k2_stale : dgram := Dg rc_ok 0 0.

Definition no_send_of (tx c : Z) (tr : list output) : bool :=
  forallb (fun o => match o with OSend tx' c' _ _ => negb ((tx' =? tx) && (c' =? c)) | _ => true end) tr.

Definition k2_check : bool :=
  let tr := k2_trace in
  causalb_from [] tr
  && outcome_eqb (snd (fst (fst k2_result))) Returned
  && existsb (output_eqb (OCallback 65536 k2_stale)) tr
  && existsb (output_eqb (OSend 0 0 0 0)) tr
  && no_send_of 0 65536 tr.

Lemma k2_check_true : k2_check = true.
Proof. vm_compute. reflexivity. Qed.

Lemma k2_run_eq :
  burst k2_cf k2_cmds k2_events conn0
  = (k2_trace, snd (fst (fst k2_result)), snd (fst k2_result), snd k2_result).
Proof.
  unfold k2_trace, k2_result. destruct (burst k2_cf k2_cmds k2_events conn0) as [[[a b] c] d]. reflexivity.
Qed.

(* from here on the 65 537-step run is never unfolded by the tactics: only k2_check_true speaks about it *)
Global Opaque k2_trace k2_result.

Theorem reply_matches_without_fresh_refuted :
  exists cf cmds evs k past tr k' rest c d,
    config_ok cf /\ NoDup (ids cmds) /\ history_ok past k cmds /\
    burst cf cmds evs k = (tr, Returned, k', rest) /\
    causal (past ++ tr) /\
    In (OCallback c d) tr /\ ~ reply_to (past ++ tr) c d /\
    (* the reply it was given is the reply to the first transmission, which was of command 0 *)
    c = 65536 /\ d_src d = 0 /\ In (OSend 0 0 0 0) tr.
Proof.
  pose proof k2_check_true as Hk. unfold k2_check in Hk. cbn zeta in Hk.
  apply andb_prop in Hk. destruct Hk as [Hk Hnosend].
  apply andb_prop in Hk. destruct Hk as [Hk Hsend0].
  apply andb_prop in Hk. destruct Hk as [Hk Hcb].
  apply andb_prop in Hk. destruct Hk as [Hcausal Hoc].
  exists k2_cf, k2_cmds, k2_events, conn0, [], k2_trace,
         (snd (fst k2_result)), (snd k2_result), 65536, k2_stale.
  split; [unfold config_ok, k2_cf; cbn; lia|].
  split; [apply (run_cmds_ids (N.to_nat 65537) 0 0)|].
  split; [intros tx c s t []|].
  split.
  { rewrite k2_run_eq. remember (snd (fst (fst k2_result))) as oc eqn:Eoc in *.
    destruct oc as [|c|rc [c|]|rc| |]; try discriminate Hoc. reflexivity. }
  cbn [app].
  split; [apply causalb_causal; exact Hcausal|].
  split.
  { apply existsb_exists in Hcb. destruct Hcb as (o & Hin & Ho). apply output_eqb_eq in Ho. subst o. exact Hin. }
  split.
  { intros [_ [t Hin]]. unfold no_send_of in Hnosend. rewrite forallb_forall in Hnosend.
    specialize (Hnosend _ Hin). cbn beta iota in Hnosend. unfold k2_stale in Hnosend.
    cbn [d_src] in Hnosend. rewrite !Z.eqb_refl in Hnosend. discriminate Hnosend. }
  split; [reflexivity|]. split; [reflexivity|].
  apply existsb_exists in Hsend0. destruct Hsend0 as (o & Hin & Ho). apply output_eqb_eq in Ho. subst o. exact Hin.
Qed.

(* ---------------------------------------------------------------------------------------------- *)
(* the hypotheses of the theorems are satisfiable                                                    *)
(* ---------------------------------------------------------------------------------------------- *)

(* window 2, 3 tries, timeout 10; command 1 has an extra timeout of 5.  Request 0 is answered late (its
   retransmission is answered too: a duplicate), command 1 first gets a busy (retryable) answer and is
   retransmitted; 6 further events are supplied and not needed *)
Definition ex_cf : config := Cf 2 3 10 [] [].
Definition ex_cmds : list cmd := [Cmd 0 0; Cmd 1 5; Cmd 2 0].
Definition ex_events : list event :=
  [Ev [] 11; Ev [Dg 128 0 0; Dg 128 0 2] 12; Ev [Dg 130 1 1] 13; Ev [] 16;
   Ev [Dg 128 2 3; Dg 128 1 4] 17; Ev [] 18] ++ repeat (Ev [] 100) 6.

Lemma ex_satisfiable :
  config_ok ex_cf /\ NoDup (ids ex_cmds) /\ history_ok [] conn0 ex_cmds /\ 0 <= k_seq conn0 < 65536 /\
  select_honest ex_cf ex_events conn0 (bstate0 ex_cmds) /\
  Z.of_nat (datagrams conn0 ex_events) + Z.of_nat (length ex_cmds) * (cf_tries ex_cf - 1) + 1
    <= Z.of_nat (length ex_events) /\
  exists tr k' rest,
    burst ex_cf ex_cmds ex_events conn0 = (tr, Returned, k', rest) /\ causal ([] ++ tr) /\ fresh ([] ++ tr) /\
    n_sends 0 tr = 2%nat /\ n_sends 1 tr = 2%nat /\ length rest = 6%nat.
Proof.
  split; [unfold config_ok; cbn; lia|].
  split; [cbn; repeat constructor; cbn; intuition lia|].
  split; [intros tx c s t []|].
  split; [cbn; lia|].
  split; [cbv; repeat split; try (right; reflexivity); try (left; discriminate)|].
  split; [vm_compute; discriminate|].
  remember (burst ex_cf ex_cmds ex_events conn0) as r eqn:Er.
  assert (Hr : r = burst ex_cf ex_cmds ex_events conn0) by exact Er.
  vm_compute in Er. subst r.
  eexists. eexists. eexists. split; [symmetry; exact Hr|]. cbn [app].
  split; [apply causalb_causal; vm_compute; reflexivity|].
  split; [apply freshb_fresh; vm_compute; reflexivity|].
  repeat split; reflexivity.
Qed.

Lemma ex_timeout :
  exists tr k' rest, burst (Cf 1 2 10 [] []) [Cmd 7 0] [Ev [] 11; Ev [] 22] conn0 = (tr, RaisedTimeout 7, k', rest).
Proof. eexists. eexists. eexists. vm_compute. reflexivity. Qed.

Lemma ex_fatal :
  exists tr k' rest,
    burst (Cf 1 2 10 [] []) [Cmd 7 0] [Ev [Dg rc_cpu 0 0] 1] conn0 = (tr, RaisedFatal rc_cpu (Some 7), k', rest).
Proof. eexists. eexists. eexists. vm_compute. reflexivity. Qed.

(* two calls on one connection: the first command's request is answered late; the command is retransmitted and
   completed by the reply to the retransmission; the late reply to the FIRST transmission arrives during the
   second call (whose commands use the following sequence numbers) and is ignored there.  The history handed to
   the second call is the non-empty trace of the first. *)
Definition ex2_cf1 : config := Cf 1 2 10 [] [].
Definition ex2_cf2 : config := Cf 2 2 10 [] [].
Definition ex2_cmds1 : list cmd := [Cmd 0 0].
Definition ex2_cmds2 : list cmd := [Cmd 1 0; Cmd 2 0].
Definition ex2_events1 : list event := [Ev [] 11; Ev [Dg 128 0 1] 12; Ev [] 13].
Definition ex2_events2 : list event := [Ev [Dg 128 0 0; Dg 128 1 2] 14; Ev [Dg 128 2 3] 15; Ev [] 16].

Lemma ex_two_calls :
  exists tr1 k1 rest1 tr2 k2 rest2,
    burst ex2_cf1 ex2_cmds1 ex2_events1 conn0 = (tr1, Returned, k1, rest1) /\
    burst ex2_cf2 ex2_cmds2 ex2_events2 k1 = (tr2, Returned, k2, rest2) /\
    config_ok ex2_cf2 /\ NoDup (ids ex2_cmds2) /\
    history_ok tr1 k1 ex2_cmds2 /\ In (OSend 0 0 0 0) tr1 /\ In (OSend 1 0 0 11) tr1 /\
    causal (tr1 ++ tr2) /\ fresh (tr1 ++ tr2) /\
    (* the reply to transmission 0 (first call) is received in the second call *)
    In (ORecv (Dg 128 0 0)) tr2 /\ ~ In (ORecv (Dg 128 0 0)) tr1.
Proof.
  eexists. eexists. eexists. eexists. eexists. eexists.
  split; [vm_compute; reflexivity|].
  split; [vm_compute; reflexivity|].
  split; [unfold config_ok; cbn; lia|].
  split; [cbn; repeat constructor; cbn; intuition lia|].
  split.
  { intros tx c s t Hin. cbn in Hin.
    repeat (destruct Hin as [Hin|Hin];
            [first [discriminate Hin
                   |inversion Hin; subst; split; [cbn; lia|unfold ids, ex2_cmds2; cbn; intros [H|[H|[]]]; discriminate H]]|]).
    contradiction. }
  split; [cbn; tauto|]. split; [cbn; tauto|].
  split; [apply causalb_causal; vm_compute; reflexivity|].
  split; [apply freshb_fresh; vm_compute; reflexivity|].
  split; [cbn; tauto|].
  intros Hin. cbn in Hin. repeat (destruct Hin as [Hin|Hin]; [discriminate Hin|]). contradiction.
Qed.
