(* C13 -- File-like memory views behave as bounded files and stay in their region.
   Property theorems only; each is closed by `exact` of a lemma of Proofs/MemIO.v or
   Proofs/MemIORefine.v.  The model (Model/MemIO.v) is SlicedMemoryIO/MemoryIO as the code is now,
   i.e. after the repairs 78ea6ba (read/write with the cursor outside the view), 7cc6906
   (__getitem__ guarded by _if_not_closed) and f46cca6 (no TruncationWarning unless bytes are cut);
   `*_orig` is the code as found.  Tie T: the model CALLS Generated/GenMemIO.v, the cursor and clamping
   arithmetic of address/__len__/__init__/seek/read/write/__getitem__/sdram_alloc_as_filelike
   re-translated from the source text on every run by tools/dump_c13.py (which also checks the
   surrounding statements literally), so these theorems are re-proved against the current text.  Tie C:
   the correspondence run of harness/c13.py (every return value, warning count, exception class,
   controller access, tell() after each operation, final memory).

   Quantification: every theorem is over ALL histories (lists of operations of any length: seek
   with any offset and any `from_what`, read with any count, write of any bytes, slices with any
   bounds of any view created so far -- slices of slices to any depth --, tell, len, address,
   flush, close, free, `with` blocks entered and left, reads/writes during which the controller
   raises or with TruncationWarning turned into an exception), over every base address and
   length, over every memory content. *)
(* Openly, what these theorems do NOT say (harness-only or assumed):
   * "every operation fails" after close/free is proved for the guarded methods; len(), close()/__exit__ on a
     closed view and __enter__ still answer (C13_len_close_enter_answer_when_dead_refuted) -- as in the abstract file.
   * seek(n, 2) refines the file's seek_end(-n), not seek(n, 2) (C13_seek_end_sign_refuted; known finding).
   * A transport fault is ATOMIC in the model: the controller's read/write/sdram_free either happens or raises
     having done nothing.  C13_failed_transfer_leaves_state therefore includes the memory; for the real,
     chunked MachineController.write a fault can leave a prefix written (C07's subject).  What C13 itself
     contributes is the view's part: cursor, flags and list of views unchanged.
   * Not modelled: the caller dropping its reference to a view (garbage collection; harness op `drop`), which
     exception a with block is left by (__exit__ ignores it: checked literally by tools/dump_c13.py), read(None)
     and non-integer arguments (TypeError, outside the domain), resolution of x/y/app_id from a context (C18).
     A non-slice index `view[3]` takes the same branch as a non-contiguous slice (the else of the contiguity
     test): it is the model's `Slice _ _ (Some k)`, k <> 1, and is run by the harness as op "index". *)
From Coq Require Import ZArith List Bool.
Require Import Rig.Generated.GenMemIO Rig.Model.Base Rig.Model.MemIO Rig.Spec.MemIO Rig.Proofs.MemIO Rig.Proofs.MemIORefine.
Import ListNotations.
Open Scope Z_scope.

(* ---- No operation on a view ever reads or writes an address outside that view's range ------- *)

(* From any state whose views lie inside the allocation (in particular a fresh MemoryIO), in every
   history: every controller access [a, a+n) issued by a method of view i satisfies
   start_i <= a /\ a+n <= end_i /\ n > 0 (confined_event); every successful slice of view i yields
   a range inside view i's (nested_event); and every view's range stays inside the allocation. *)
Theorem C13_confined :
  forall ops st, views_inside st ->
    Forall (fun e => views_inside (fst (fst e)) /\ confined_event e /\ nested_event e) (trace st ops)
    /\ views_inside (run st ops).
Proof. exact history_confined. Qed.

(* Consequence for MemoryIO(s, e) over any memory: whatever the history, whichever view (of any
   depth) an operation is called on, every read and write lies in [s, max(s, e)) and is not empty,
   and the only other controller call is sdram_free(s). *)
Theorem C13_confined_to_allocation :
  forall s e m ops st o out c,
    In (st, o, out) (trace (init s e m) ops) -> In c (o_calls out) ->
    match c with
    | CFree a => a = s
    | _ => call_within s (Z.max s e) c
    end.
Proof. exact allocation_confined. Qed.

(* The memory outside the allocation is never changed, whatever the history. *)
Theorem C13_memory_outside_untouched :
  forall s e m ops x, ~ (s <= x < Z.max s e) -> st_mem (run (init s e m) ops) x = m x.
Proof. exact memory_outside_untouched. Qed.

(* The entry point MachineController.sdram_alloc_as_filelike(size, ...) returns
   MemoryIO(self, x, y, start, start + size) for the block sdram_alloc gave it (shape and the
   expression start + size re-extracted by the dumper): one open view of exactly `size` bytes at cursor 0,
   and whatever is done with it and its slices stays inside [start, start + size). *)
Theorem C13_filelike_confined :
  forall start size m ops st o out c, 0 <= size ->
    In (st, o, out) (trace (alloc_as_filelike start size m) ops) -> In c (o_calls out) ->
    match c with
    | CFree a => a = start
    | _ => call_within start (start + size) c
    end.
Proof. exact filelike_confined. Qed.

Theorem C13_filelike_view :
  forall start size m, 0 <= size ->
    exists v, st_views (alloc_as_filelike start size m) = [v]
              /\ v_start v = start /\ vlen v = size /\ v_off v = 0 /\ dead false v = false.
Proof. exact filelike_len. Qed.

(* ---- The views behave like one fixed-length file --------------------------------------------- *)

(* Any state that represents a fixed-length file f placed at address base (views = windows of f with
   the same cursors and flags, memory = contents of f), and any history: what every method call shows
   (value or error class, and whether a TruncationWarning was given) equals what the file operation
   shows, and the final state represents the final file -- so reads return the bytes last written at
   those positions, through whichever view they were written.
   The abstraction abs_op maps seek(n, 2) to the file's seek_end(-n): see C13_seek_end_sign_refuted. *)
Theorem C13_refines_file :
  forall ops base st f, represents base st f ->
    Forall2 (output_is base) (map snd (trace st ops)) (atrace f (map abs_op ops))
    /\ represents base (run st ops) (arun f (map abs_op ops)).
Proof. exact refines_file. Qed.

(* the two composed: MemoryIO(s, e) over any memory m IS the file holding m's bytes of [s, max(s,e)), for every
   history; likewise the view sdram_alloc_as_filelike(size) makes of a block at `start` *)
Theorem C13_refines_file_init :
  forall s e m ops,
    let f := afile_init (mem_read m s (Z.max s e - s)) in
    Forall2 (output_is s) (map snd (trace (init s e m) ops)) (atrace f (map abs_op ops))
    /\ represents s (run (init s e m) ops) (arun f (map abs_op ops)).
Proof. exact refines_file_init. Qed.

Theorem C13_refines_file_filelike :
  forall start size m ops, 0 <= size ->
    let f := afile_init (mem_read m start size) in
    Forall2 (output_is start) (map snd (trace (alloc_as_filelike start size m) ops)) (atrace f (map abs_op ops))
    /\ represents start (run (alloc_as_filelike start size m) ops) (arun f (map abs_op ops)).
Proof. exact refines_file_filelike. Qed.

(* "bytes last written", through ANOTHER view: all windows of the file share its bytes, so what a write stores at
   file positions [p, p+|bs|) -- through a slice of a slice, say -- is what a read of those positions returns
   through the root or any other window (the file operations are `splice` and `sub` at lo + cursor) *)
Theorem C13_file_positions_shared :
  forall d p bs, 0 <= p -> p + zlen bs <= zlen d -> sub (splice d p bs) p (zlen bs) = bs.
Proof. exact sub_splice. Qed.

(* the hypothesis is met by every fresh MemoryIO(s, e) over every memory *)
Theorem C13_init_represents :
  forall s e m, represents s (init s e m) (afile_init (mem_read m s (Z.max s e - s))).
Proof. exact init_represents. Qed.

(* reads return the bytes last written (directly on the model): after write(bs) fits at the cursor,
   seek back and read(len bs) returns bs, without warnings *)
Theorem C13_read_after_write :
  forall m v bs, 0 <= v_off v -> v_off v + zlen bs <= vlen v -> 0 < zlen bs ->
    let '(v1, o1) := write v bs in
    let m1 := apply_calls m (o_calls o1) in
    let '(v2, o2) := read m1 (set_off v1 (v_off v)) (zlen bs) in
    o_res o1 = Ok (VInt (zlen bs)) /\ o_warns o1 = 0
    /\ o_res o2 = Ok (VBytes bs) /\ o_warns o2 = 0 /\ v_off v2 = v_off v + zlen bs.
Proof. exact read_after_write. Qed.

(* ---- Reads and writes are truncated at the end of the view with a truncation warning, positions
        advance by the bytes transferred ------------------------------------------------------- *)

(* read(n), n >= 0, on a live view: k bytes are returned (those at the cursor), 0 <= k <= n, the cursor
   advances by k; with the cursor at or after 0, k = max(0, min(n, len - cursor)); before 0, k = 0;
   a warning is given if AND ONLY IF fewer than n bytes are returned (so read(0) never warns). *)
Theorem C13_truncation_warned_read :
  forall m v n v' out, 0 <= n -> read m v n = (v', out) ->
    exists k, o_res out = Ok (VBytes (mem_read m (address v) k)) /\ zlen (mem_read m (address v) k) = k
      /\ 0 <= k <= n
      /\ v_off v' = v_off v + k
      /\ (0 <= v_off v -> k = Z.max 0 (Z.min n (vlen v - v_off v)))
      /\ (v_off v < 0 -> k = 0)
      /\ (k < n <-> 0 < o_warns out).
Proof. exact read_truncation. Qed.

(* read() / read(n < 0): everything from the cursor to the end when the cursor is inside [0, len],
   nothing otherwise; no warning unless the cursor is before position 0 *)
Theorem C13_read_default :
  forall m v n v' out, n < 0 -> read m v n = (v', out) ->
    let k := if (0 <=? v_off v) && (v_off v <=? vlen v) then vlen v - v_off v else 0 in
    o_res out = Ok (VBytes (mem_read m (address v) k)) /\ v_off v' = v_off v + k
    /\ (0 <= v_off v -> o_warns out <= 0).
Proof. exact read_default. Qed.

(* write(bs): k bytes (the first k of bs) are written at the cursor in one controller call (none if
   k = 0), k is returned and the cursor advances by k; k as for read; a warning is given if AND ONLY IF
   fewer than len(bs) bytes are written (so write(b'') never warns, nor raises under the `error` filter). *)
Theorem C13_truncation_warned_write :
  forall v bs v' out, write v bs = (v', out) ->
    exists k, o_res out = Ok (VInt k)
      /\ 0 <= k <= zlen bs
      /\ v_off v' = v_off v + k
      /\ o_calls out = (if 0 <? k then [CWrite (address v) (firstn (Z.to_nat k) bs)] else [])
      /\ (0 <= v_off v -> k = Z.max 0 (Z.min (zlen bs) (vlen v - v_off v)))
      /\ (v_off v < 0 -> k = 0)
      /\ (k < zlen bs <-> 0 < o_warns out).
Proof. exact write_truncation. Qed.

(* ---- A transfer that fails transfers nothing: the position does not move ----------------------- *)

(* read/write during which the machine controller raises (FaultRead/FaultWrite: the exception comes
   out as Failed 2), or with TruncationWarning raised as an exception (StrictRead/StrictWrite: Failed 3),
   or on a dead view (Failed 0): whenever such a call fails, the WHOLE state is as before -- the
   position of the view, the views, the memory -- and nothing was recorded as transferred.
   ASSUMPTION carried by the memory part: the model's controller fails atomically (see the header); the view's
   own part (cursor, flags, views) does not depend on it. *)
Theorem C13_failed_transfer_leaves_state :
  forall st i vo st' out k,
    disturbed vo = true -> step st (OView i vo) = (st', out) -> o_res out = Failed k ->
    st' = st /\ o_calls out = [].
Proof. exact failed_transfer_leaves_state. Qed.

(* ... and the faulted call fails exactly when the plain call would have reached the controller;
   otherwise it is the plain call (the warnings given before the transfer have been given) *)
Theorem C13_fault_outcome :
  forall fr m v, dead fr v = false ->
    (forall n, let plain := vstep fr m v (Read n) in
       vstep fr m v (FaultRead n) =
         match o_calls (snd plain) with
         | [] => plain
         | _ :: _ => (v, None, mkOut (Failed 2) (o_warns (snd plain)) [])
         end)
    /\ (forall bs, let plain := vstep fr m v (Write bs) in
       vstep fr m v (FaultWrite bs) =
         match o_calls (snd plain) with
         | [] => plain
         | _ :: _ => (v, None, mkOut (Failed 2) (o_warns (snd plain)) [])
         end).
Proof. exact fault_outcome. Qed.

(* free() during which the controller's sdram_free raises: the block is still allocated, so nothing
   changes -- the views stay usable (no view becomes dead), free() can be retried -- and the exception
   comes out (Failed 2; Failed 0 if the allocation had been freed before). *)
Theorem C13_failed_free_leaves_state :
  forall st st' out,
    step st OFreeFault = (st', out) ->
    st' = st /\ o_calls out = []
    /\ (o_res out = Failed 2 \/ o_res out = Failed 0 \/ o_res out = OtherError).
Proof. exact free_fault_step. Qed.

(* ---- A slice covers exactly the clipped sub-range it names ------------------------------------ *)

(* view[a:b] (a, b absent, negative, beyond the end or reversed) of a view of n bytes: a new open view
   at cursor 0 whose range is inside the view's and contains address x iff position x - start is one
   of 0..n-1 and lies in [a', b') where a', b' are the indices the bounds name (negative: from the end;
   absent: 0 / n).  Reversed bounds name nothing: the view is empty. *)
Theorem C13_slice_range :
  forall v a b, v_start v <= v_end v ->
    let w := slice_view v a b in
    v_start v <= v_start w /\ v_start w <= v_end w /\ v_end w <= v_end v
    /\ v_off w = 0 /\ v_closed w = false
    /\ (forall x, v_start w <= x < v_end w <-> in_slice (vlen v) a b (x - v_start v)).
Proof. exact slice_range. Qed.

(* ---- After the view is closed, or its allocation freed, every operation fails ----------------- *)

(* Once view i is closed or the allocation freed, in every continuation every seek, read, write,
   slice, tell, address, flush on view i raises OSError, with no controller call and no warning
   (out = err 0) -- also when the environment misbehaves (FaultRead/FaultWrite/StrictRead/StrictWrite).
   [guarded] excludes len(), which still answers, close() / __exit__, which are a no-op on a closed
   view and raise OSError on an open view of a freed allocation (C13_close_kills, C13_exit_closes), and
   __enter__, which returns the object. *)
Theorem C13_dead_after_close_or_free :
  forall ops st i v,
    nth_error (st_views st) i = Some v -> dead (st_freed st) v = true ->
    Forall (fun e => let '(st1, o, out) := e in
                     forall vo, o = OView i vo -> guarded vo = true -> out = err 0)
           (trace st ops).
Proof. exact dead_forever. Qed.

(* The literal clause "every operation fails" is FALSE for the unguarded methods, on every dead view: len()
   answers, __enter__ returns the object, and on a closed view close() and __exit__ return None.  (The abstract
   file of Spec/MemIO.v makes the same exemptions; the harness does not judge them.) *)
Theorem C13_len_close_enter_answer_when_dead_refuted :
  forall st i v,
    nth_error (st_views st) i = Some v -> dead (st_freed st) v = true ->
    step st (OView i Len) = (st, ok (VInt (vlen v)))
    /\ step st (OView i Enter) = (st, ok VNone)
    /\ (v_closed v = true ->
          step st (OView i Close) = (st, ok VNone) /\ step st (OView i Exit) = (st, ok VNone)).
Proof. exact unguarded_answer_when_dead. Qed.

Example C13_dead_view_instance :
  forall m,
    let st := run (init 100 110 m) [OView 0 Close] in
    (exists v, nth_error (st_views st) 0 = Some v /\ dead (st_freed st) v = true /\ v_closed v = true)
    /\ snd (step st (OView 0 Len)) = ok (VInt 10) /\ snd (step st (OView 0 Close)) = ok VNone
    /\ snd (step st (OView 0 (Read 1))) = err 0.
Proof. exact unguarded_answer_example. Qed.

(* close() of view i, whatever it returns, leaves view i dead and issues no controller call *)
Theorem C13_close_kills :
  forall st i v st' out,
    nth_error (st_views st) i = Some v -> step st (OView i Close) = (st', out) ->
    exists v', nth_error (st_views st') i = Some v' /\ dead (st_freed st') v' = true
               /\ o_calls out = [] /\ (o_res out = Ok VNone \/ o_res out = Failed 0).
Proof. exact close_kills. Qed.

(* Leaving a `with view:` block closes the view however the block is left: __exit__ ignores the
   exception it is given (the model's Exit has no exception argument because the code never looks at
   it) and calls close().  So after a with block -- left normally, by an exception of the body, by a
   failed transfer, by a TruncationWarning raised as an error -- view i is dead, and by
   C13_dead_after_close_or_free every later operation on it fails. *)
Theorem C13_exit_closes :
  forall st i v st' out,
    nth_error (st_views st) i = Some v -> step st (OView i Exit) = (st', out) ->
    exists v', nth_error (st_views st') i = Some v' /\ dead (st_freed st') v' = true
               /\ o_calls out = [] /\ (o_res out = Ok VNone \/ o_res out = Failed 0).
Proof. exact exit_kills. Qed.

(* free() leaves the allocation freed -- hence every view of it, of any depth, dead -- and its only
   controller call is sdram_free *)
Theorem C13_free_kills :
  forall st st' out,
    st_views st <> [] -> step st OFree = (st', out) ->
    st_freed st' = true /\ st_views st' = st_views st
    /\ (forall c, In c (o_calls out) -> exists a, c = CFree a).
Proof. exact free_kills. Qed.

(* ---- Refutations: the code as found, and the SEEK_END sign ------------------------------------ *)

(* Code as found (before 78ea6ba).  MemoryIO of 4 bytes at 100: seek(6); write(8 bytes) slices the
   data with bytes[:-2] and writes 6 bytes at 106..111, past the end of the view.  (Repaired: the
   same history issues no access, Proofs/MemIO.write_escape_repaired.) *)
Theorem C13_write_escapes_refuted :
  forall m,
    (exists st o out a bs,
       In (st, o, out) (trace_orig (init 100 104 m) hist_write_escape)
       /\ In (CWrite a bs) (o_calls out) /\ 104 < a + zlen bs)
    /\ ~ Forall confined_event (trace_orig (init 100 104 m) hist_write_escape).
Proof. exact (fun m => conj (write_escapes_orig m) (write_escapes_orig_not_confined m)). Qed.

(* Code as found.  MemoryIO of 4 bytes at 100: seek(-4); read(4) reads 96..99, below the view. *)
Theorem C13_negative_seek_escapes_refuted :
  forall m,
    exists st o out a n,
      In (st, o, out) (trace_orig (init 100 104 m) hist_negative_seek)
      /\ In (CRead a n) (o_calls out) /\ a < 100 /\ 0 < n.
Proof. exact negative_seek_escapes_orig. Qed.

(* Code as found (before 7cc6906).  MemoryIO of 10 bytes at 10: close(); then f[2:6] succeeds and is
   a live view whose read(4) reaches the controller. *)
Theorem C13_slice_after_close_refuted :
  forall m,
    let st := run_with step_orig (init 10 20 m) [OView 0 Close] in
    (exists v, nth_error (st_views st) 0 = Some v /\ v_closed v = true)
    /\ let st' := fst (step_orig st (OView 0 (Slice (Some 2) (Some 6) None))) in
       o_res (snd (step_orig st (OView 0 (Slice (Some 2) (Some 6) None)))) = Ok (VView 12 16)
       /\ (exists w, nth_error (st_views st') 1 = Some w /\ dead (st_freed st') w = false)
       /\ o_calls (snd (step_orig st' (OView 1 (Read 4)))) = [CRead 12 4].
Proof. exact slice_after_close_orig. Qed.

(* The code as it is.  seek(n, 2) is len - n, a file's is len + n: MemoryIO of 10 bytes, seek(-1, 2);
   tell() gives 11 where the file gives 9, so under the literal reading of seek(n, 2) the views do NOT
   refine the file (known finding `seek-end-sign`; the project's own test pins len - n). *)
Theorem C13_seek_end_sign_refuted :
  forall m,
    map (fun e => o_res (snd e)) (trace (init 100 110 m) hist_seek_end) = [Ok VNone; Ok (VInt 11)]
    /\ map fst (atrace (afile_init (mem_read m 100 10)) (map abs_op_literal hist_seek_end))
       = [Ok VNone; Ok (VInt 9)]
    /\ ~ Forall2 (output_is 100) (map snd (trace (init 100 110 m) hist_seek_end))
                  (atrace (afile_init (mem_read m 100 10)) (map abs_op_literal hist_seek_end)).
Proof. exact seek_end_literal_fails. Qed.

(* ---- Non-vacuity ------------------------------------------------------------------------------ *)

(* a fresh MemoryIO meets the hypothesis of C13_confined, and histories do transfer bytes: writes
   through the root and through a slice of a slice (negative bounds), read back through the root *)
Example C13_hypotheses_satisfiable :
  views_inside (init 100 110 (fun _ => 0))
  /\ map (fun e => (o_res (snd e), o_calls (snd e))) (trace (init 100 110 (fun _ => 0)) ex_history)
     = [(Ok (VInt 3), [CWrite 100 [1; 2; 3]]); (Ok (VView 101 104), []);
        (Ok (VBytes [2; 3; 0]), [CRead 101 3]); (Ok (VView 103 104), []);
        (Ok (VInt 1), [CWrite 103 [9]]); (Ok VNone, []); (Ok (VBytes [1; 2; 3; 9]), [CRead 100 4])].
Proof. exact ex_history_runs. Qed.
