(* Proofs about the SCP burst model, part 5 (see Proofs/SCP.v for parts 1-4). *)
From Coq Require Import ZArith List Bool Lia Arith.
Require Import Rig.Generated.GenSCP Rig.Model.Base Rig.Model.SCP Rig.Spec.SCP Rig.Proofs.SCP.
Import ListNotations.
Open Scope Z_scope.

(* ------------------------------------------------------------------------------------------------ *)
(* Part 5: the reply handed to a callback is the reply to that very command (under Causal and Fresh)   *)
(* ------------------------------------------------------------------------------------------------ *)

(* the outstanding entry e holds its sequence number since the transmission that split the history:
   every earlier transmission is older and of another command, every later one with e's number is e's *)
Definition owns (hist : list output) (e : entry) : Prop :=
  exists pre tx t post,
    hist = pre ++ OSend tx (e_cmd e) (e_seq e) t :: post /\
    (forall tx' c' s' t', In (OSend tx' c' s' t') pre -> tx' < tx /\ c' <> e_cmd e) /\
    (forall tx' c' s' t', In (OSend tx' c' s' t') post -> s' = e_seq e -> c' = e_cmd e).

Record Prov (past : list output) (m : mstate) : Prop := {
  P_tx : forall tx c s t, In (OSend tx c s t) (past ++ m_tr m) -> tx < k_ntx (m_k m);
  P_owns : forall e, In e (b_out (m_b m)) -> owns (past ++ m_tr m) e;
  P_unsent : forall c, In c (ids (b_queue (m_b m))) ->
               forall tx s t, ~ In (OSend tx c s t) (past ++ m_tr m);
  P_cbs : forall c d, In (c, d) (b_cbs (m_b m)) -> reply_to (past ++ m_tr m) c d;
  P_called : forall c d, In (OCallback c d) (m_tr m) -> reply_to (past ++ m_tr m) c d }.

Lemma reply_to_mono : forall h x c d, reply_to h c d -> reply_to (h ++ x) c d.
Proof.
  intros h x c d [Hok [t Hin]]. split; [exact Hok|]. exists t. apply in_or_app. left. exact Hin.
Qed.

Lemma owns_snoc : forall h o e,
  owns h e -> (forall tx c s t, o = OSend tx c s t -> s = e_seq e -> c = e_cmd e) -> owns (h ++ [o]) e.
Proof.
  intros h o e (pre & tx & t & post & Heq & Hpre & Hpost) Ho.
  exists pre, tx, t, (post ++ [o]). split; [|split].
  - rewrite Heq, <- app_assoc. reflexivity.
  - exact Hpre.
  - intros tx' c' s' t' Hin Hs. apply in_app_or in Hin. destruct Hin as [Hin|[Hin|[]]].
    + apply (Hpost tx' c' s' t' Hin Hs).
    + apply (Ho tx' c' s' t' Hin Hs).
Qed.

Lemma in_snoc : forall {A} (l : list A) o x, In x (l ++ [o]) -> In x l \/ x = o.
Proof. intros A l o x H. apply in_app_or in H. destruct H as [H|[H|[]]]; [left; exact H|right; symmetry; exact H]. Qed.

Lemma star_trace_prefix : forall cf m m', star cf m m' -> exists x, m_tr m' = m_tr m ++ x.
Proof.
  intros cf m m' H. induction H as [m|m1 m2 m3 H12 H23 [x IH]].
  - exists []. rewrite app_nil_r. reflexivity.
  - assert (H : exists y, m_tr m2 = m_tr m1 ++ y).
    { inversion H12; subst; cbn [m_tr]; try (eexists; reflexivity); exists []; rewrite app_nil_r; reflexivity. }
    destruct H as [y Hy]. exists (y ++ x). rewrite IH, Hy, app_assoc. reflexivity.
Qed.

Lemma astep_prov : forall cf cmds past H m m',
  NoDup (ids cmds) -> Inv cf cmds m -> Prov past m -> astep cf m m' ->
  (exists suf, H = past ++ m_tr m' ++ suf) -> causal H -> fresh H ->
  Prov past m'.
Proof.
  intros cf cmds past H m m' Hnd HI HP Hst [suf HH] Hca Hfr.
  inversion Hst; subst.
  - (* first transmission *)
    rename H0 into Hwin, H1 into Hfs.
    pose proof (D_queue_nodup cf cmds _ Hnd HI) as F2. cbn [m_b b_queue BS ids map] in F2.
    inversion F2 as [|x l F2a F2b]; subst x l. fold (ids q) in F2a.
    destruct (free_seq_spec _ _ _ _ _ Hfs) as [F4 _].
    destruct HP as [Ptx Pow Pun Pcb Pca]. cbn [m_tr m_k m_b b_out b_queue b_cbs BS k_ntx] in *.
    rewrite !app_assoc in *.
    constructor; cbn [m_tr m_k m_b b_out b_queue b_cbs BS k_ntx]; rewrite ?app_assoc.
    + intros tx c0 s0 t0 Hin. apply in_snoc in Hin. destruct Hin as [Hin|Hin].
      * pose proof (Ptx _ _ _ _ Hin). lia.
      * inversion Hin; subst. lia.
    + intros e He. apply in_app_or in He. destruct He as [He|[He|[]]].
      * apply owns_snoc; [apply Pow; exact He|]. intros tx c0 s0 t0 Ho Hs.
        inversion Ho as [[E1 E2 E3 E4]].
        exfalso. apply (find_entry_none _ _ F4 e He). rewrite E3. symmetry. exact Hs.
      * subst e. exists (past ++ tr), (k_ntx k), (k_now k + dur (cf_iter cf) (c_id c)), []. cbn [new_entry e_cmd e_seq].
        split; [reflexivity|]. split.
        -- intros tx2 c2 s2 t2 Hin. split; [apply (Ptx _ _ _ _ Hin)|].
           intros Heq. subst c2. apply (Pun (c_id c) (or_introl eq_refl) tx2 s2 t2 Hin).
        -- intros tx2 c2 s2 t2 [].
    + intros c0 Hc0 tx s0 t0 Hin. apply in_snoc in Hin. destruct Hin as [Hin|Hin].
      * apply (Pun c0 (or_intror Hc0) tx s0 t0 Hin).
      * inversion Hin; subst. apply F2a. exact Hc0.
    + intros c0 d Hin. apply reply_to_mono. apply Pcb. exact Hin.
    + intros c0 d Hin. apply in_snoc in Hin. destruct Hin as [Hin|Hin]; [|discriminate Hin].
      apply reply_to_mono. apply Pca. exact Hin.
  - (* iterator exhausted *)
    destruct HP as [Ptx Pow Pun Pcb Pca]. cbn [m_tr m_k m_b b_out b_queue b_cbs BS] in *.
    constructor; cbn [m_tr m_k m_b b_out b_queue b_cbs BS]; assumption.
  - (* callback *)
    destruct HP as [Ptx Pow Pun Pcb Pca]. cbn [m_tr m_k m_b b_out b_queue b_cbs BS] in *.
    rewrite !app_assoc in *.
    constructor; cbn [m_tr m_k m_b b_out b_queue b_cbs BS]; rewrite ?app_assoc.
    + intros tx c0 s0 t0 Hin. apply in_snoc in Hin. destruct Hin as [Hin|Hin]; [|discriminate Hin].
      apply (Ptx _ _ _ _ Hin).
    + intros e He. apply owns_snoc; [apply Pow; exact He|]. intros tx c0 s0 t0 Ho. discriminate Ho.
    + intros c0 Hc0 tx s0 t0 Hin. apply in_snoc in Hin. destruct Hin as [Hin|Hin]; [|discriminate Hin].
      apply (Pun c0 Hc0 tx s0 t0 Hin).
    + intros c0 d0 Hin. apply reply_to_mono. apply Pcb. right. exact Hin.
    + intros c0 d0 Hin. apply in_snoc in Hin. destruct Hin as [Hin|Hin].
      * apply reply_to_mono. apply Pca. exact Hin.
      * inversion Hin; subst. apply reply_to_mono. apply Pcb. left. reflexivity.
  - (* select *)
    destruct HP as [Ptx Pow Pun Pcb Pca]. cbn [m_tr m_k m_b] in *.
    rewrite !app_assoc in *.
    constructor; cbn [m_tr m_k m_b]; rewrite ?app_assoc.
    + intros tx c0 s0 t0 Hin. apply in_snoc in Hin. destruct Hin as [Hin|Hin]; [|discriminate Hin].
      apply (Ptx _ _ _ _ Hin).
    + intros e He. apply owns_snoc; [apply Pow; exact He|]. intros tx c0 s0 t0 Ho. discriminate Ho.
    + intros c0 Hc0 tx s0 t0 Hin. apply in_snoc in Hin. destruct Hin as [Hin|Hin]; [|discriminate Hin].
      apply (Pun c0 Hc0 tx s0 t0 Hin).
    + intros c0 d0 Hin. apply reply_to_mono. apply Pcb. exact Hin.
    + intros c0 d0 Hin. apply in_snoc in Hin. destruct Hin as [Hin|Hin]; [|discriminate Hin].
      apply reply_to_mono. apply Pca. exact Hin.
  - (* event *)
    destruct HP as [Ptx Pow Pun Pcb Pca]. cbn [m_tr m_k m_b k_ntx] in *.
    constructor; cbn [m_tr m_k m_b k_ntx]; assumption.
  - (* reply accepted: here Causal and Fresh are used *)
    rename H0 into Hbuf, H1 into Hok, H2 into Hfe.
    destruct (find_entry_some _ _ _ Hfe) as [Hine Hseq].
    pose proof (I_seqs _ _ _ HI) as Isq. cbn [m_b b_out BS] in Isq.
    destruct HP as [Ptx Pow Pun Pcb Pca]. cbn [m_tr m_k m_b b_out b_queue b_cbs BS k_ntx set_buf] in *.
    assert (Hreply : reply_to (past ++ tr) (e_cmd e) d).
    { split; [exact Hok|].
      assert (HH' : past ++ (tr ++ [ORecv d]) ++ suf = (past ++ tr) ++ ORecv d :: suf).
      { rewrite <- !app_assoc. reflexivity. }
      destruct (Hca (past ++ tr) d suf HH') as (c0 & t0 & Hin0).
      destruct (Pow e Hine) as (pre & tx1 & t1 & post & Heq & Hpre & Hpost).
      assert (Hin1 : In (OSend tx1 (e_cmd e) (d_seq d) t1) (past ++ tr)).
      { rewrite Heq, <- Hseq. apply in_or_app. right. left. reflexivity. }
      assert (Hc0 : c0 = e_cmd e).
      { rewrite Heq in Hin0. apply in_app_or in Hin0. destruct Hin0 as [Hin0|[Hin0|Hin0]].
        - destruct (Hpre _ _ _ _ Hin0) as [Hlt Hne].
          symmetry. apply (Hfr (past ++ tr) d suf HH' c0 t0 tx1 (e_cmd e) t1); [|exact Hin1|exact Hlt].
          rewrite Heq. apply in_or_app. left. exact Hin0.
        - inversion Hin0; subst. reflexivity.
        - apply (Hpost _ _ _ _ Hin0). symmetry. exact Hseq. }
      subst c0. exists t0. exact Hin0. }
    rewrite !app_assoc in *.
    constructor; cbn [m_tr m_k m_b b_out b_queue b_cbs BS k_ntx set_buf]; rewrite ?app_assoc.
    + intros tx c0 s0 t0 Hin. apply in_snoc in Hin. destruct Hin as [Hin|Hin]; [|discriminate Hin].
      apply (Ptx _ _ _ _ Hin).
    + intros e0 He. apply owns_snoc; [apply Pow; apply (remove_entry_In _ _ _ He)|].
      intros tx c0 s0 t0 Ho. discriminate Ho.
    + intros c0 Hc0 tx s0 t0 Hin. apply in_snoc in Hin. destruct Hin as [Hin|Hin]; [|discriminate Hin].
      apply (Pun c0 Hc0 tx s0 t0 Hin).
    + intros c0 d0 Hin. apply in_app_or in Hin. destruct Hin as [Hin|[Hin|[]]].
      * apply reply_to_mono. apply Pcb. exact Hin.
      * inversion Hin; subst. apply reply_to_mono. exact Hreply.
    + intros c0 d0 Hin. apply in_snoc in Hin. destruct Hin as [Hin|Hin]; [|discriminate Hin].
      apply reply_to_mono. apply Pca. exact Hin.
  - (* datagram ignored *)
    destruct HP as [Ptx Pow Pun Pcb Pca]. cbn [m_tr m_k m_b k_ntx set_buf] in *.
    rewrite !app_assoc in *.
    constructor; cbn [m_tr m_k m_b k_ntx set_buf]; rewrite ?app_assoc.
    + intros tx c0 s0 t0 Hin. apply in_snoc in Hin. destruct Hin as [Hin|Hin]; [|discriminate Hin].
      apply (Ptx _ _ _ _ Hin).
    + intros e He. apply owns_snoc; [apply Pow; exact He|]. intros tx c0 s0 t0 Ho. discriminate Ho.
    + intros c0 Hc0 tx s0 t0 Hin. apply in_snoc in Hin. destruct Hin as [Hin|Hin]; [|discriminate Hin].
      apply (Pun c0 Hc0 tx s0 t0 Hin).
    + intros c0 d0 Hin. apply reply_to_mono. apply Pcb. exact Hin.
    + intros c0 d0 Hin. apply in_snoc in Hin. destruct Hin as [Hin|Hin]; [|discriminate Hin].
      apply reply_to_mono. apply Pca. exact Hin.
  - (* retransmission *)
    rename H0 into Hdl, H1 into Htr.
    pose proof (I_seqs _ _ _ HI) as Isq. cbn [m_b b_out BS] in Isq.
    assert (Fe : In e (pre ++ e :: post)) by (apply in_or_app; right; left; reflexivity).
    assert (Fq : forall c0, In c0 (ids q) -> c0 <> e_cmd e).
    { intros c0 Hc Heq. apply (D_queue_out cf cmds _ c0 Hnd HI Hc). cbn [m_b b_out BS].
      rewrite Heq. apply in_map. exact Fe. }
    destruct HP as [Ptx Pow Pun Pcb Pca]. cbn [m_tr m_k m_b b_out b_queue b_cbs BS k_ntx bump_ntx] in *.
    rewrite !app_assoc in *.
    constructor; cbn [m_tr m_k m_b b_out b_queue b_cbs BS k_ntx bump_ntx]; rewrite ?app_assoc.
    + intros tx c0 s0 t0 Hin. apply in_snoc in Hin. destruct Hin as [Hin|Hin].
      * pose proof (Ptx _ _ _ _ Hin). lia.
      * inversion Hin; subst. lia.
    + intros x Hx. apply in_bump2 in Hx. destruct Hx as [Hx|Hx].
      * subst x. assert (Ho : owns (past ++ tr) e) by (apply Pow; exact Fe).
        destruct Ho as (p1 & tx1 & t1 & p2 & H1 & H2 & H3).
        exists p1, tx1, t1, (p2 ++ [OSend (k_ntx k) (e_cmd e) (e_seq e) (k_now k)]).
        cbn [bump e_cmd e_seq]. split; [rewrite H1, <- app_assoc; reflexivity|]. split; [exact H2|].
        intros tx' c' s' t' Hin Hs. apply in_snoc in Hin. destruct Hin as [Hin|Hin].
        -- apply (H3 _ _ _ _ Hin Hs).
        -- inversion Hin; subst. reflexivity.
      * apply owns_snoc; [apply Pow; apply in_mid_weaken; exact Hx|].
        intros tx c0 s0 t0 Ho Hs. inversion Ho as [[E1 E2 E3 E4]]. exfalso.
        apply (nodup_mid_neq e_seq pre e post x Isq Hx). rewrite E3. symmetry. exact Hs.
    + intros c0 Hc0 tx s0 t0 Hin. apply in_snoc in Hin. destruct Hin as [Hin|Hin].
      * apply (Pun c0 Hc0 tx s0 t0 Hin).
      * inversion Hin; subst. apply (Fq _ Hc0). reflexivity.
    + intros c0 d0 Hin. apply reply_to_mono. apply Pcb. exact Hin.
    + intros c0 d0 Hin. apply in_snoc in Hin. destruct Hin as [Hin|Hin]; [|discriminate Hin].
      apply reply_to_mono. apply Pca. exact Hin.
Qed.

Lemma star_prov : forall cf cmds past H m m',
  config_ok cf -> NoDup (ids cmds) -> star cf m m' ->
  (exists suf, H = past ++ m_tr m' ++ suf) -> causal H -> fresh H ->
  Inv cf cmds m -> Prov past m -> Prov past m'.
Proof.
  intros cf cmds past H m m' Hcf Hnd Hst. induction Hst as [m|m1 m2 m3 H12 H23 IH]; intros Hsuf Hca Hfr HI HP.
  - exact HP.
  - apply IH; try assumption.
    + apply (astep_inv cf cmds m1 m2 Hcf Hnd HI H12).
    + apply (astep_prov cf cmds past H m1 m2 Hnd HI HP H12); try assumption.
      destruct Hsuf as [suf Hsuf]. destruct (star_trace_prefix cf m2 m3 H23) as [x Hx].
      exists (x ++ suf). rewrite Hsuf, Hx, <- app_assoc. reflexivity.
Qed.

Lemma prov_init : forall past k cmds, history_ok past k cmds -> Prov past (MS [] k (bstate0 cmds)).
Proof.
  intros past k cmds Hh. constructor; cbn [m_tr m_k m_b bstate0 b_out b_queue b_cbs]; rewrite ?app_nil_r.
  - intros tx c s t Hin. apply (Hh tx c s t Hin).
  - intros e [].
  - intros c Hc tx s t Hin. destruct (Hh tx c s t Hin) as [_ Hn]. apply Hn. exact Hc.
  - intros c d [].
  - intros c d [].
Qed.

(* the reply handed to a callback is the reply to that very command *)
Theorem reply_matches : forall cf cmds evs k past tr oc k' rest,
  config_ok cf -> NoDup (ids cmds) -> history_ok past k cmds ->
  burst cf cmds evs k = (tr, oc, k', rest) ->
  causal (past ++ tr) -> fresh (past ++ tr) ->
  forall c d, In (OCallback c d) tr -> reply_to (past ++ tr) c d.
Proof.
  intros cf cmds evs k past tr oc k' rest Hcf Hnd Hh Hb Hca Hfr c d Hin. unfold burst in Hb.
  destruct (run_refines cf evs k (bstate0 cmds) [] tr oc k' rest Hb) as (m & Hst & Hend).
  cbn [app] in Hend.
  assert (Hsuf : exists suf, tr = m_tr m ++ suf /\ (In (OCallback c d) tr -> In (OCallback c d) (m_tr m))).
  { destruct (ends_trace cf oc tr m Hend) as [E|[d' E]]; subst tr.
    - exists []. rewrite app_nil_r. split; [reflexivity|intros H; exact H].
    - exists [ORecv d']. split; [reflexivity|]. intros H. apply in_snoc in H.
      destruct H as [H|H]; [exact H|discriminate H]. }
  destruct Hsuf as (suf & Htr & Hin').
  assert (HP : Prov past m).
  { apply (star_prov cf cmds past (past ++ tr) _ m Hcf Hnd Hst); try assumption.
    - exists suf. rewrite Htr. reflexivity.
    - apply inv_init. exact Hcf.
    - apply prov_init. exact Hh. }
  rewrite Htr, app_assoc. apply reply_to_mono. apply (P_called _ _ HP). apply Hin'. exact Hin.
Qed.
