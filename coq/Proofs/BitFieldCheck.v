(* Soundness of the boolean checker that the harness evaluates on the real object's layout. *)
From Coq Require Import ZArith List Bool Lia.
Require Import Rig.Model.Base Rig.Model.BitField Rig.Spec.BitField.
Require Import Rig.Proofs.BitFieldBits Rig.Proofs.BitFieldTree Rig.Proofs.BitFieldAssign Rig.Proofs.BitFieldKeys.
Import ListNotations.
Open Scope Z_scope.

Lemma nodupb_NoDup l : nodupb l = true -> NoDup l.
Proof.
  induction l as [|x l IH]; simpl; intros H; constructor.
  - apply andb_true_iff in H. destruct H as [H _]. apply negb_true_iff in H.
    intros Hin. assert (existsb (Nat.eqb x) l = true).
    { apply existsb_exists. exists x. split; [exact Hin|apply Nat.eqb_refl]. }
    congruence.
  - apply IH. apply andb_true_iff in H. tauto.
Qed.

Lemma subsetb_incl a b : subsetb a b = true -> forall x, In x a -> In x b.
Proof.
  unfold subsetb. rewrite forallb_forall. intros H x Hx. specialize (H _ Hx).
  apply existsb_exists in H. destruct H as [y [Hy E]]. apply Z.eqb_eq in E. now subst.
Qed.

Lemma placedb_spec L s fid :
  placedb L s fid = true ->
  exists st l, frange s fid = Some (st, l) /\ 0 <= st /\ 0 < l /\ st + l <= L
               /\ 0 <= f_max (sget s fid) < 2 ^ l.
Proof.
  unfold placedb. destruct (frange s fid) as [[st l]|]; [|discriminate]. intros H.
  repeat (apply andb_true_iff in H; destruct H as [H ?]).
  apply Z.leb_le in H. apply Z.ltb_lt in H3, H0. apply Z.leb_le in H2, H1.
  exists st, l. repeat split; auto.
Qed.

Lemma disjointb_spec s f1 f2 st1 l1 st2 l2 :
  disjointb s f1 f2 = true -> frange s f1 = Some (st1, l1) -> frange s f2 = Some (st2, l2) ->
  st1 + l1 <= st2 \/ st2 + l2 <= st1.
Proof.
  unfold disjointb. intros H R1 R2. rewrite R1, R2 in H. apply orb_true_iff in H. destruct H as [H|H]; apply Z.leb_le in H; auto.
Qed.

Theorem check_bitfield_sound L t s :
  check_bitfield L t s = true ->
  sound_layout L t s /\ keys_local t = true /\ wide_enough t s /\ tags_closed t s.
Proof.
  unfold check_bitfield. intros H.
  repeat (apply andb_true_iff in H; destruct H as [H ?]).
  rename H into Hnd, H3 into Hk, H2 into Hpl, H1 into Hdj, H0 into Htg.
  rewrite forallb_forall in Hpl, Hdj, Htg.
  assert (Hplaced : forall e, In e (flat t []) ->
             exists st l, frange s (e_fid e) = Some (st, l) /\ 0 <= st /\ 0 < l /\ st + l <= L
                          /\ 0 <= f_max (sget s (e_fid e)) < 2 ^ l).
  { intros e He. specialize (Hpl _ He). apply andb_true_iff in Hpl. destruct Hpl as [_ Hp].
    now apply placedb_spec. }
  split; [|split; [exact Hk|split]].
  - constructor.
    + now apply nodupb_NoDup.
    + intros i f Hin. apply all_fields_flat in Hin. destruct Hin as [p Hin].
      destruct (Hplaced _ Hin) as [st [l [Hr [A [B [C _]]]]]]. exists st, l. auto.
    + intros fv i1 f1 i2 f2 H1 H2 Hne st1 l1 st2 l2 R1 R2.
      apply enabled_flat0 in H1, H2. destruct H1 as [p1 [H1 E1]], H2 as [p2 [H2 E2]].
      specialize (Hdj _ H1). rewrite forallb_forall in Hdj. specialize (Hdj _ H2).
      unfold e_fid, e_path in Hdj. simpl in Hdj.
      apply orb_true_iff in Hdj. destruct Hdj as [Hdj|Hdj].
      * apply orb_true_iff in Hdj. destruct Hdj as [Hdj|Hdj].
        -- apply Nat.eqb_eq in Hdj. congruence.
        -- apply negb_true_iff in Hdj.
           assert (compatb p1 p2 = true).
           { apply compatb_spec. eapply enabled_both_compat; eauto. }
           congruence.
      * eapply disjointb_spec; eauto.
  - intros i f l Hin Hl. apply all_fields_flat in Hin. destruct Hin as [p Hin].
    destruct (Hplaced _ Hin) as [st [l' [Hr [_ [_ [_ Hm]]]]]].
    unfold frange, e_fid in Hr. simpl in Hr.
    destruct (f_start (sget s f)); [|discriminate]. rewrite Hl in Hr. inversion Hr; subst l'.
    exact Hm.
  - intros e e' tg He He' Hd Hin.
    specialize (Htg _ He). rewrite forallb_forall in Htg. specialize (Htg _ He').
    rewrite Hd in Htg. simpl in Htg. eapply subsetb_incl; eauto.
Qed.
