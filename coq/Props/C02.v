(* C02 -- Every placer returns a feasible, constraint-respecting placement or fails.
   Property theorems only; each is closed by `exact` of a lemma of Proofs/Place*.v.
   Model: Model/Place.v (outcomes: Ok placement | Failed 0 = InsufficientResourceError | Failed 1 =
   InvalidConstraintError | OtherError = any other exception | OutOfFuel = oracle stream exhausted).
   Spec: Spec/Place.v ([Feasible], [wf_problem] = the documented domain, [consistent], [unit_premise], and the
   invariants [Inv] / [PlInv] / [SAInv] that the SA statements mention).

   READ THIS FIRST -- what the theorems below do NOT say:
   * The completeness premise [unit_premise] is STRONGER than the property's last sentence: besides "one resource,
     demands 0/1, no groups, constrained vertices fit, total free capacity suffices" it asks that reservations are
     ranges on working chips leaving no working chip (nor the default chip) with negative capacity
     ([up_reserve_range], [up_reservations_fit] -- without it the "total free capacity" would sum negative terms and
     the code raises InsufficientResourceError), one chip per location-constrained vertex ([up_locations_once]), a
     working chip when there are vertices ([up_some_chip]) and dictionaries without repeated keys.  [wf_problem]
     excludes vertices needing a resource the machine does not list (rig ignores such keys: documented domain).
   * [feas_capacity] counts a capacity left negative by reservations as 0 (the empty placement is feasible).
   * The vertex order of RCM and the RCM chip order come out of set iteration in CPython and are NOT modelled: they are
     INPUTS of the model; that they list every vertex / working chip exactly once, terminate and raise nothing is
     checked per instance by the harness only.  The Hilbert order is modelled and proved; the breadth-first vertex
     order is modelled with the set choices as oracles and proved for every oracle (end of this file).
   * Simulated annealing: proved are soundness (initial placement, every kernel step, any number of steps), and for the
     part of place() before the kernel (constraints, shuffles, initial placement; also the trivial exit) documented
     errors and completeness.  NOT proved for the annealing loop itself: termination of the float temperature
     schedule, "no other exception" of kernel steps, and hence completeness of a full SA run -- these are observed by
     the harness only (alarm, oracle).  The C kernel is validated per output only.
   * C02_seq_place_terminates is true BY CONSTRUCTION of the model (see there). *)
From Coq Require Import ZArith List Bool.
Require Import Rig.Model.Base Rig.Model.Place Rig.Spec.Place Rig.Proofs.Place Rig.Proofs.PlaceCore
        Rig.Proofs.PlaceMerge Rig.Proofs.PlaceSeq Rig.Proofs.PlaceComplete Rig.Proofs.PlaceSA Rig.Proofs.PlaceErrors Rig.Proofs.PlaceHilbert Rig.Proofs.PlaceEntry
        Rig.Model.BFOrder Rig.Proofs.BFOrder.
Import ListNotations.
Open Scope Z_scope.

(* V -- verified validator.  The check evaluates [check_placement] inside Coq on the real output of all
   seven placer configurations (SA with the C kernel, SA with the Python kernel, Hilbert, RCM, breadth-first,
   sequential, random); each `true` is a proof that that output is feasible.  For the C kernel (rig_c_sa,
   compiled third-party code outside /repo) this per-output validation is all that applies. *)
Theorem C02_check_placement_sound :
  forall vr m cs pl, check_placement vr m cs pl = true -> Feasible vr m cs pl.
Proof. exact check_placement_sound. Qed.

(* U -- sequential placer, for ANY chip order and ANY vertex order listing every vertex (None = the default
   orders).  sequential.place, breadth_first.place, hilbert.place and rcm.place are this function applied to
   their respective orders, so the one theorem covers the four: whatever is returned is feasible (every
   vertex on exactly one working chip, no chip's resources exceeded after reservations, every location and
   same-chip constraint honoured -- chained and duplicated group members included). *)
Theorem C02_seq_place_sound :
  forall vr m cs vertex_order chip_order pl,
    wf_problem vr m cs -> consistent cs ->
    (forall vo, vertex_order = Some vo -> forall v, In v (map fst vr) -> In v vo) ->
    seq_place vr m cs vertex_order chip_order = Ok pl ->
    Feasible vr m cs pl.
Proof. exact seq_place_sound. Qed.

(* U -- random placer, for every stream of random choices. *)
Theorem C02_rand_place_sound :
  forall vr m cs oracle pl,
    wf_problem vr m cs -> consistent cs ->
    rand_place vr m cs oracle = Ok pl -> Feasible vr m cs pl.
Proof. exact rand_place_sound. Qed.

(* Termination of the sequential family -- BY CONSTRUCTION of the model, not a theorem about a loop.  The model has
   no fuel: the `while True` / cycle() scan of sequential.place is written as the structural recursion [scan] over the
   chips the cyclic iterator delivers before it is back at the position it started from, where (or at an equal chip)
   the code's test `cur_chip == last_successful_chip` raises.  That this recursion IS the code's loop (same chips
   tried in the same order, same exit) is established by the exact model/implementation correspondence on every
   case and by the per-run alarm, not by this statement, which only records that no branch of the model reports an
   exhausted bound.  (The random placer's termination theorem, by contrast, is about a fuelled loop.) *)
Theorem C02_seq_place_terminates :
  forall vr m cs vertex_order chip_order, seq_place vr m cs vertex_order chip_order <> OutOfFuel.
Proof. exact seq_place_terminates. Qed.

(* U -- completeness clause.  Under the premise of the property's last sentence (every vertex needs at most
   one unit of the single resource r0, no same-chip groups, reservations fit, location-constrained vertices
   fit on their working chips, the total free capacity suffices) the sequential family succeeds, for every
   vertex order listing exactly the vertices and every chip order listing each working chip exactly once
   (None = the default orders, which do). *)
Theorem C02_seq_place_complete :
  forall vr m cs r0 vertex_order chip_order,
    wf_problem vr m cs -> unit_premise vr m cs r0 ->
    (forall vo, vertex_order = Some vo -> vertex_order_ok vr vo) ->
    (forall co, chip_order = Some co -> chip_order_ok m co) ->
    exists pl, seq_place vr m cs vertex_order chip_order = Ok pl.
Proof. exact seq_place_complete. Qed.

(* The Hilbert chip order (model of hilbert.hilbert / hilbert_chip_order, compared with the code's on every
   case; the level formula int(ceil(log(max(w, h), 2.0))) is compared with the model's integer search
   exhaustively for max(w, h) <= 4096 on every run) meets the side condition of the completeness theorem --
   every working chip exactly once -- for EVERY machine size (in particular up to the 256 x 256 addressing limit).
   Proved by structural induction on the level of the L-system: started at p with an axis heading d and
   angle a = +-1 the curve of level k has 4^k points, contains every p + i*d + j*L (0 <= i, j < 2^k, L = d
   turned by a) and ends at p + (2^k - 1)*d with heading d; so it enumerates the 2^k x 2^k square without
   repetition, and the level chosen satisfies 2^level >= max(w, h).  Hence hilbert.place is complete.
   For breadth_first.place / rcm.place the orders come from set iteration in CPython, which is not modelled:
   the check records them and evaluates the side conditions per instance. *)
Theorem C02_hilbert_curve_enumerates_square :
  forall k, NoDup (hilbert k)
            /\ length (hilbert k) = (4 ^ k)%nat
            /\ forall x y, 0 <= x < 2 ^ Z.of_nat k -> 0 <= y < 2 ^ Z.of_nat k -> In (x, y) (hilbert k).
Proof. exact (fun k => conj (hilbert_NoDup k) (hilbert_spec k)). Qed.

Theorem C02_hilbert_levels_cover :
  forall m, Z.max (pm_width m) (pm_height m) <= 2 ^ Z.of_nat (hilbert_levels m).
Proof. exact hilbert_levels_cover. Qed.

Theorem C02_hilbert_chip_order_ok_all_sizes :
  forall m, chip_order_ok m (hilbert_chip_order m).
Proof. exact hilbert_chip_order_ok. Qed.

Theorem C02_hilbert_place_complete_all_sizes :
  forall vr m cs r0 vertex_order,
    wf_problem vr m cs -> unit_premise vr m cs r0 ->
    (forall vo, vertex_order = Some vo -> vertex_order_ok vr vo) ->
    exists pl, seq_place vr m cs vertex_order (Some (hilbert_chip_order m)) = Ok pl.
Proof. exact hilbert_place_complete. Qed.

(* U -- random placer: completeness under the same premise and termination, for every stream of random
   choices of length >= |vertices| + |working chips| (a rejected chip leaves the candidate set, so no run of
   rand.place draws more than that many samples). *)
Theorem C02_rand_place_complete :
  forall vr m cs r0 oracle,
    wf_problem vr m cs -> unit_premise vr m cs r0 ->
    (length vr + length (raster m) <= length oracle)%nat ->
    exists pl, rand_place vr m cs oracle = Ok pl.
Proof. exact rand_place_complete. Qed.

Theorem C02_rand_place_terminates :
  forall vr m cs oracle,
    (length vr + length (raster m) <= length oracle)%nat -> rand_place vr m cs oracle <> OutOfFuel.
Proof. exact rand_place_terminates. Qed.

(* U -- "never fails with any other exception, always terminates": on a well-formed, consistent problem the
   outcome of the sequential family (documented orders: a caller-supplied vertex order lists every vertex
   exactly once; any chip order) and of the random placer (any stream of |vertices| + |working chips|
   choices) is a placement, InsufficientResourceError or InvalidConstraintError -- never the model's
   OtherError (KeyError / IndexError / ValueError ...) nor an exhausted bound. *)
Theorem C02_seq_place_documented_errors :
  forall vr m cs vertex_order chip_order,
    wf_problem vr m cs -> consistent cs ->
    (forall vo, vertex_order = Some vo -> NoDup vo /\ vertex_order_ok vr vo) ->
    (exists pl, seq_place vr m cs vertex_order chip_order = Ok pl)
    \/ seq_place vr m cs vertex_order chip_order = Failed E_insufficient
    \/ seq_place vr m cs vertex_order chip_order = Failed E_invalid.
Proof. exact seq_place_documented_errors. Qed.

Theorem C02_rand_place_documented_errors :
  forall vr m cs oracle,
    wf_problem vr m cs -> consistent cs ->
    (length vr + length (raster m) <= length oracle)%nat ->
    (exists pl, rand_place vr m cs oracle = Ok pl)
    \/ rand_place vr m cs oracle = Failed E_insufficient
    \/ rand_place vr m cs oracle = Failed E_invalid.
Proof. exact rand_place_documented_errors. Qed.

(* U -- simulated annealing (sa/algorithm.py with the Python kernel; shuffles, the draws of every swap
   attempt and the accept decisions are explicit oracle inputs).
   (a) when no annealing is done (effort 0, no nets, a single chip, ...) the initial placement is returned:
       it is feasible, for all shuffles;
   (b) one swap attempt (python_kernel._step: candidate selection, swap, possible revert) preserves the
       state invariant SAInv (free-resource bookkeeping <= capacity - reservations - load, non-negative free
       resources, fixed vertices in place, l2v consistent), for every draw and accept decision;
   (c) for ANY kernel: the state prepared by place() satisfies SAInv and the placement of every state
       satisfying SAInv expands to a feasible placement of the original problem.  Hence a kernel whose
       run_steps preserves SAInv -- the Python kernel does, by (b) -- gives a feasible answer whatever
       temperatures, distance limits and step counts the schedule produces.
   NOT modelled: the float-valued temperature loop of place() (its termination is observed per case under an
   alarm, not proved) and the C kernel rig_c_sa (validated per output by C02_check_placement_sound only). *)
Theorem C02_sa_trivial_sound :
  forall vr m cs loc_picks vertex_picks pl,
    wf_problem vr m cs -> consistent cs ->
    sa_place_trivial vr m cs loc_picks vertex_picks = Ok pl -> Feasible vr m cs pl.
Proof. exact sa_trivial_sound. Qed.

Theorem C02_sa_step_preserves_invariant :
  forall vr m0 cs fixed s src dst accept s' kept,
    wf_core vr m0 -> SAInv vr m0 cs fixed s ->
    sa_step vr fixed s src dst accept = Ok (s', kept) ->
    SAInv vr m0 cs fixed s'.
Proof. exact sa_step_preserves. Qed.

Theorem C02_anneal_result_feasible :
  forall vr m cs loc_picks vertex_picks s0,
    wf_problem vr m cs -> consistent cs -> sa_prepare vr m cs loc_picks vertex_picks = Ok s0 ->
    exists cs1,
      wf_core (ss_vr s0) m
      /\ SAInv (ss_vr s0) m cs1 (map fst (ss_fixed s0)) (sa_init_state s0)
      /\ forall s, SAInv (ss_vr s0) m cs1 (map fst (ss_fixed s0)) s ->
                   exists pl, finalise (rev (ss_subs s0)) (st_pl s) = Ok pl /\ Feasible vr m cs pl.
Proof. exact anneal_result_feasible. Qed.

Theorem C02_sa_python_kernel_feasible :
  forall vr m cs loc_picks vertex_picks s0 draws s,
    wf_problem vr m cs -> consistent cs -> sa_prepare vr m cs loc_picks vertex_picks = Ok s0 ->
    sa_steps (ss_vr s0) (map fst (ss_fixed s0)) (sa_init_state s0) draws = Ok s ->
    exists pl, finalise (rev (ss_subs s0)) (st_pl s) = Ok pl /\ Feasible vr m cs pl.
Proof. exact sa_python_kernel_feasible. Qed.

(* The class Machine as the placer models see it.  Its membership test is regenerated from machine.py on every run
   (Generated/GenPlaceShape.v, gen_machine_contains; Model/Place.v defines `live` through it) and the bodies of
   __getitem__, __setitem__, __iter__, copy, __init__ and the class's method inventory are shape-checked, fail closed. *)
Theorem C02_machine_contains_iff :
  forall m x y, live m (x, y) = true <-> 0 <= x < pm_width m /\ 0 <= y < pm_height m /\ ~ In (x, y) (pm_dead m).
Proof. exact machine_contains_iff. Qed.

Theorem C02_machine_dead_outside_irrelevant :
  forall m extra,
    (forall c, In c extra -> ~ (0 <= fst c < pm_width m /\ 0 <= snd c < pm_height m)) ->
    forall c, live {| pm_width := pm_width m; pm_height := pm_height m; pm_res := pm_res m; pm_exc := pm_exc m;
                      pm_dead := pm_dead m ++ extra |} c = live m c.
Proof. exact machine_dead_outside_irrelevant. Qed.

Theorem C02_machine_setitem_getitem :
  forall m c r m', mset m c r = Some m' ->
    mget m' c = Some r /\ (forall c', c' <> c -> mget m' c' = mget m c') /\ (forall c', live m' c' = live m c')
    /\ live m c = true.
Proof. exact machine_setitem_getitem. Qed.

Theorem C02_machine_iter :
  forall m, NoDup (raster m) /\ forall c, In c (raster m) <-> live m c = true.
Proof. exact machine_iter. Qed.

(* The other entry points -- breadth_first.place, hilbert.place, rcm.place forward to sequential.place (shape-checked
   from the source on every run) -- as functions of the model, with the three clauses as corollaries. *)
Theorem C02_entry_points_sound :
  forall vr m cs, wf_problem vr m cs -> consistent cs ->
    (forall vo co pl, (forall v, In v (map fst vr) -> In v vo) -> bf_place vr m cs vo co = Ok pl -> Feasible vr m cs pl)
    /\ (forall vo pl, (forall o, vo = Some o -> forall v, In v (map fst vr) -> In v o) ->
                      hilbert_place vr m cs vo = Ok pl -> Feasible vr m cs pl)
    /\ (forall vo co pl, (forall v, In v (map fst vr) -> In v vo) -> rcm_place vr m cs vo co = Ok pl -> Feasible vr m cs pl).
Proof. exact entry_points_sound. Qed.

Theorem C02_entry_points_complete :
  forall vr m cs r0, wf_problem vr m cs -> unit_premise vr m cs r0 ->
    (forall vo co, vertex_order_ok vr vo -> (forall o, co = Some o -> chip_order_ok m o) ->
                   exists pl, bf_place vr m cs vo co = Ok pl)
    /\ (forall vo, (forall o, vo = Some o -> vertex_order_ok vr o) -> exists pl, hilbert_place vr m cs vo = Ok pl)
    /\ (forall vo co, vertex_order_ok vr vo -> chip_order_ok m co -> exists pl, rcm_place vr m cs vo co = Ok pl).
Proof. exact entry_points_complete. Qed.

Theorem C02_entry_points_documented_errors :
  forall vr m cs, wf_problem vr m cs -> consistent cs ->
    (forall vo co, NoDup vo -> vertex_order_ok vr vo -> documented_outcome (bf_place vr m cs vo co))
    /\ (forall vo, (forall o, vo = Some o -> NoDup o /\ vertex_order_ok vr o) -> documented_outcome (hilbert_place vr m cs vo))
    /\ (forall vo co, NoDup vo -> vertex_order_ok vr vo -> documented_outcome (rcm_place vr m cs vo co)).
Proof. exact entry_points_documented_errors. Qed.

(* V for large placements: a one-pass checker (chip loads accumulated once), sound like check_placement; evaluated in
   Coq on the real outputs for the large cases (34x30 machine, 1200-vertex chain). *)
Theorem C02_check_placement_fast_sound :
  forall vr m cs pl, check_placement_fast vr m cs pl = true -> Feasible vr m cs pl.
Proof. exact check_placement_fast_sound. Qed.

(* SA before the kernel (constraint handling, both shuffles, _initial_placement) and the trivial exit of place():
   a state / placement or one of the two documented errors, and success under the completeness premise, for all
   shuffles. *)
Theorem C02_sa_prepare_documented_errors :
  forall vr m cs loc_picks vertex_picks,
    wf_problem vr m cs -> consistent cs ->
    (exists s0, sa_prepare vr m cs loc_picks vertex_picks = Ok s0)
    \/ sa_prepare vr m cs loc_picks vertex_picks = Failed E_insufficient
    \/ sa_prepare vr m cs loc_picks vertex_picks = Failed E_invalid.
Proof. exact sa_prepare_documented_errors. Qed.

Theorem C02_sa_trivial_documented_errors :
  forall vr m cs loc_picks vertex_picks,
    wf_problem vr m cs -> consistent cs ->
    documented_outcome (sa_place_trivial vr m cs loc_picks vertex_picks).
Proof. exact sa_trivial_documented_errors. Qed.

Theorem C02_sa_prepare_complete :
  forall vr m cs r0 loc_picks vertex_picks,
    wf_problem vr m cs -> unit_premise vr m cs r0 -> vr <> [] ->
    exists s0, sa_prepare vr m cs loc_picks vertex_picks = Ok s0.
Proof. exact sa_prepare_complete. Qed.

Theorem C02_sa_trivial_complete :
  forall vr m cs r0 loc_picks vertex_picks,
    wf_problem vr m cs -> unit_premise vr m cs r0 ->
    exists pl, sa_place_trivial vr m cs loc_picks vertex_picks = Ok pl.
Proof. exact sa_trivial_complete. Qed.

(* Non-vacuity of the SA theorems: a concrete run (same-chip group fixed by a location constraint, per-chip
   reservation); the first draw is an ACCEPTED swap moving two vertices out of the destination chip, the second
   passes every check (kept when accepted) and is performed and REVERTED when not accepted. *)
Example C02_sa_run_example :
  wf_problem exs_vr exs_m exs_cs /\ consistent exs_cs
  /\ exists s0 s1 s2 s2' s,
       sa_prepare exs_vr exs_m exs_cs [] [] = Ok s0
       /\ st_pl (sa_init_state s0) = [(1, (0, 0)); (2, (1, 0)); (3, (1, 0)); (-1, (0, 0))]
       /\ sa_step (ss_vr s0) (map fst (ss_fixed s0)) (sa_init_state s0) 1 (1, 0) true = Ok (s1, true)
       /\ st_pl s1 = [(1, (1, 0)); (2, (0, 0)); (3, (0, 0)); (-1, (0, 0))]
       /\ sa_step (ss_vr s0) (map fst (ss_fixed s0)) s1 1 (0, 0) true = Ok (s2', true)
       /\ st_pl s2' = [(1, (0, 0)); (2, (1, 0)); (3, (1, 0)); (-1, (0, 0))]
       /\ sa_step (ss_vr s0) (map fst (ss_fixed s0)) s1 1 (0, 0) false = Ok (s2, false)
       /\ st_pl s2 = st_pl s1
       /\ sa_steps (ss_vr s0) (map fst (ss_fixed s0)) (sa_init_state s0) [(1, (1, 0), true); (1, (0, 0), false)] = Ok s
       /\ finalise (rev (ss_subs s0)) (st_pl s) = Ok [(1, (1, 0)); (2, (0, 0)); (3, (0, 0)); (4, (0, 0)); (5, (0, 0))].
Proof. exact exs_run. Qed.

(* Non-vacuity: a problem with a same-chip group, a location constraint on a member of the group, a global
   reservation and a resource exception meets the hypotheses, and both placers succeed on it. *)
Example C02_hypotheses_satisfiable :
  wf_problem ex_vr ex_m ex_cs /\ consistent ex_cs
  /\ seq_place ex_vr ex_m ex_cs None None = Ok [(3, (1, 0)); (4, (1, 0)); (1, (0, 0)); (2, (0, 0))]
  /\ rand_place ex_vr ex_m ex_cs [1%nat; 0%nat; 5%nat] = Ok [(3, (1, 0)); (4, (0, 0)); (1, (0, 0)); (2, (0, 0))].
Proof. exact ex_seq_instance. Qed.

Example C02_complete_premise_satisfiable :
  wf_problem exc_vr exc_m exc_cs /\ unit_premise exc_vr exc_m exc_cs 0
  /\ vertex_order_ok exc_vr [3; 1; 2] /\ chip_order_ok exc_m [(1, 0); (5, 5); (0, 0)]
  /\ seq_place exc_vr exc_m exc_cs (Some [3; 1; 2]) (Some [(1, 0); (5, 5); (0, 0)])
     = Ok [(1, (1, 0)); (3, (1, 0)); (2, (0, 0))].
Proof. exact exc_instance. Qed.

(* ---------------------------------------------------------------------------------------------------------- *)
(* breadth_first_vertex_order (Model/BFOrder.v; statements shape-checked from breadth_first.py on every run,   *)
(* gen_bf_order_shape_checked).  What CPython's sets leave open -- which member pop() removes, in which order  *)
(* a set is iterated -- is an oracle pair (pick, arr); the theorems hold for EVERY pair that returns a member  *)
(* of a non-empty set / each member of a set once.  The check replays every real order in this model           *)
(* (bf_order_replayb, obligations corr:bf_order / corr:hilbert bf_order).                                      *)
(* ---------------------------------------------------------------------------------------------------------- *)

(* The order lists every vertex of vertices_resources exactly once and nothing else (vertices that only occur in
   nets are never yielded): the premise C02_seq_place_sound asks of a vertex order, and the documented one. *)
Theorem C02_bf_order_lists_every_vertex_exactly_once :
  forall pick arr nets vs,
    pick_ok pick -> arr_ok arr -> NoDup vs ->
    NoDup (bf_order pick arr nets vs) /\ (forall v, In v (bf_order pick arr nets vs) <-> In v vs).
Proof. exact bf_order_exact. Qed.

(* The generator stops because queue and set are both empty -- after exactly one yield per vertex; the fuel of the
   model (one unit per vertex) is never what ends the loop. *)
Theorem C02_bf_order_length :
  forall pick arr nets vs,
    pick_ok pick -> arr_ok arr -> NoDup vs ->
    length (bf_order pick arr nets vs) = length vs.
Proof. exact bf_order_length. Qed.

(* breadth_first.place with its own order: soundness with no premise on the order left. *)
Theorem C02_bf_place_sound_any_set_order :
  forall pick arr vr nets m cs chip_order pl,
    pick_ok pick -> arr_ok arr -> NoDup (map fst vr) ->
    wf_problem vr m cs -> consistent cs ->
    bf_place_full pick arr vr nets m cs chip_order = Ok pl ->
    Feasible vr m cs pl.
Proof. exact bf_place_full_sound. Qed.

(* hilbert.place with its default vertex order (breadth_first=True: the same generator) and the Hilbert chip order. *)
Theorem C02_hilbert_bf_place_sound_any_set_order :
  forall pick arr vr nets m cs pl,
    pick_ok pick -> arr_ok arr -> NoDup (map fst vr) ->
    wf_problem vr m cs -> consistent cs ->
    hilbert_place vr m cs (Some (bf_order pick arr nets (map fst vr))) = Ok pl ->
    Feasible vr m cs pl.
Proof. exact hilbert_bf_place_sound. Qed.

(* What the per-run replay obligation (corr:bf_order) establishes for a real order when it evaluates to true: the
   order lists every vertex exactly once, and it IS the model's output under the set choices read off it. *)
Theorem C02_bf_replay_meaning :
  forall nets vs observed,
    bf_order_replayb nets vs observed = true ->
    NoDup observed /\ (forall v, In v observed <-> In v vs)
    /\ bf_order (pick_real observed) (arr_real observed) nets vs = observed.
Proof. exact bf_replay_order_ok. Qed.

(* Non-vacuity: two components, a vertex that only occurs in a net (9), a self-loop; the oracles read off the
   observed order [3; 1; 2; 5; 4] reproduce it, and they are legitimate on every set they are asked about. *)
Example C02_bf_order_example :
  bf_order (pick_real [3; 1; 2; 5; 4]) (arr_real [3; 1; 2; 5; 4]) [(1, [2; 3]); (4, [5; 9]); (2, [2])] [1; 2; 3; 4; 5]
  = [3; 1; 2; 5; 4]
  /\ bf_order_replayb [(1, [2; 3]); (4, [5; 9]); (2, [2])] [1; 2; 3; 4; 5] [3; 1; 2; 5; 4] = true
  /\ bf_order_replayb [(1, [2; 3]); (4, [5; 9]); (2, [2])] [1; 2; 3; 4; 5] [3; 2; 1; 5] = false
  /\ bf_order_replayb [(1, [2; 3]); (4, [5; 9]); (2, [2])] [1; 2; 3; 4; 5] [1; 4; 2; 3; 5] = false.
Proof. exact bf_order_example. Qed.
